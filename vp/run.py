"""CLI:  python -m vp.run <Cxx> [--tier quick|thorough] [--only sub1,sub2] [--jobs N]
         python -m vp.run <Cxx> --replay <file>

exit 0 = property held on everything explored (KNOWN-FINDING lines possible)
exit 1 = violation not listed in known_findings.json ("VIOLATION property=<id> replay=<path>")
exit 2 = harness error (never a verdict about the repository)
"""
import argparse
import os
import sys


def main():
    from vp import env
    env.ensure_hashseed()
    ap = argparse.ArgumentParser()
    ap.add_argument("prop")
    ap.add_argument("--tier", default=os.environ.get("VERIF_TIER", "quick"), choices=["quick", "thorough"])
    ap.add_argument("--replay")
    ap.add_argument("--only")
    ap.add_argument("--jobs", type=int)
    a = ap.parse_args()
    try:
        seed = int(os.environ.get("VERIF_SEED", "1") or "1")
    except ValueError:
        seed = 1
    os.chdir(env.VERIF_ROOT)
    try:
        env.setup()
        from vp import engine
        if a.replay:
            rc = engine.replay_file(a.replay)
        else:
            rc = engine.run_property("vp.checks.%s" % a.prop.lower(), a.tier, seed,
                                     only=a.only.split(",") if a.only else None, jobs=a.jobs)
    except SystemExit:
        raise
    except BaseException:
        import traceback
        traceback.print_exc()
        sys.stderr.write("HARNESS ERROR (exit 2)\n")
        rc = 2
    sys.exit(rc)


if __name__ == "__main__":
    main()
