"""Shared Hypothesis strategies.  Every strategy yields plain JSON values (lists, numbers, strings,
dicts) so that a generated case can be written to a replay file verbatim; bodies build numpy /
autoarray objects from them."""
import math

from hypothesis import strategies as st

# ---------------------------------------------------------------------------------------------
# numbers
# ---------------------------------------------------------------------------------------------


def reals(lo=-10.0, hi=10.0, allow_zero=True):
    """Finite doubles in [lo, hi]: a mix of small integers, eighths and arbitrary doubles."""
    parts = [
        st.integers(math.ceil(lo), math.floor(hi)).map(float),
        st.integers(math.ceil(lo * 8), math.floor(hi * 8)).map(lambda k: k / 8.0),
        st.floats(lo, hi, allow_nan=False, allow_infinity=False, width=64),
    ]
    s = st.one_of(*parts)
    if not allow_zero:
        s = s.map(lambda v: v if v != 0.0 else (hi if hi > 0 else lo))
    return s


def positives(lo=0.05, hi=10.0):
    return st.one_of(
        st.floats(lo, hi, allow_nan=False, allow_infinity=False),
        st.integers(max(1, math.ceil(lo * 4)), math.floor(hi * 4)).map(lambda k: k / 4.0),
    )


def real_list(n, lo=-10.0, hi=10.0):
    return st.lists(reals(lo, hi), min_size=n, max_size=n)


def pos_list(n, lo=0.05, hi=10.0):
    return st.lists(positives(lo, hi), min_size=n, max_size=n)


@st.composite
def pixel_scales(draw, iso=None):
    """(sy, sx) pixel scales in [0.05, 5]; isotropic or anisotropic."""
    s = draw(st.one_of(st.sampled_from([0.05, 0.1, 0.5, 1.0, 2.0]), st.floats(0.05, 5.0)))
    if iso is True or (iso is None and draw(st.booleans())):
        return [s, s]
    t = draw(st.one_of(st.sampled_from([0.05, 0.1, 0.5, 1.0, 2.0]), st.floats(0.05, 5.0)))
    return [s, t]


@st.composite
def origins(draw, mag=100.0):
    kind = draw(st.sampled_from(["zero", "small", "any", "any"]))
    if kind == "zero":
        return [0.0, 0.0]
    if kind == "small":
        return [draw(reals(-2, 2)), draw(reals(-2, 2))]
    return [draw(st.floats(-mag, mag)), draw(st.floats(-mag, mag))]


# ---------------------------------------------------------------------------------------------
# shapes and masks  (mask value True = masked, as in autoarray)
# ---------------------------------------------------------------------------------------------


@st.composite
def shapes(draw, lo=1, hi=10, max_cells=None):
    h = draw(st.integers(lo, hi))
    w = draw(st.integers(lo, hi))
    if max_cells is not None:
        while h * w > max_cells:
            if h >= w:
                h -= 1
            else:
                w -= 1
    return [h, w]


def _blank(h, w, v):
    return [[v] * w for _ in range(h)]


@st.composite
def masks(draw, shape=None, lo=1, hi=10, ring=0, min_unmasked=1):
    """Boolean mask as list of lists.  Built constructively from one of several families; at least
    `min_unmasked` unmasked pixels are guaranteed by un-masking drawn pixels.  `ring` forces an
    outer ring of that width to be masked (the interior is then at least 1x1)."""
    if shape is None:
        h, w = draw(shapes(max(lo, 2 * ring + 1), max(hi, 2 * ring + 1)))
    else:
        h, w = shape
    ih, iw = h - 2 * ring, w - 2 * ring
    assert ih >= 1 and iw >= 1
    family = draw(st.sampled_from(["bernoulli", "bernoulli", "rects", "disc", "annulus", "bridge", "full",
                                   "frame", "blobs"]))
    m = _blank(ih, iw, True)
    if family == "bernoulli":
        p = draw(st.sampled_from([2, 3, 5, 7, 9]))  # P(unmasked) = p/10
        bits = draw(st.lists(st.integers(0, 9), min_size=ih * iw, max_size=ih * iw))
        for i in range(ih):
            for j in range(iw):
                m[i][j] = not (bits[i * iw + j] < p)
    elif family == "rects":
        for _ in range(draw(st.integers(1, 4))):
            y0 = draw(st.integers(0, ih - 1)); y1 = draw(st.integers(y0, ih - 1))
            x0 = draw(st.integers(0, iw - 1)); x1 = draw(st.integers(x0, iw - 1))
            val = draw(st.sampled_from([False, False, False, True]))
            for i in range(y0, y1 + 1):
                for j in range(x0, x1 + 1):
                    m[i][j] = val
    elif family in ("disc", "annulus"):
        cy = draw(st.floats(0, ih - 1)); cx = draw(st.floats(0, iw - 1))
        r1 = draw(st.floats(0.5, max(ih, iw)))
        r0 = draw(st.floats(0.0, r1)) if family == "annulus" else -1.0
        for i in range(ih):
            for j in range(iw):
                d = math.hypot(i - cy, j - cx)
                m[i][j] = not (r0 < d <= r1)
    elif family == "bridge":
        # two blobs joined by a one-pixel-wide path with a diagonal step
        for i in range(ih):
            for j in range(iw):
                m[i][j] = True
        y = draw(st.integers(0, ih - 1)); x = 0
        while x < iw:
            m[y][x] = False
            if draw(st.booleans()) and 0 <= y + 1 < ih:
                y += 1  # diagonal contact only
            x += 1
        if ih >= 2 and iw >= 2:
            m[0][0] = False
            m[ih - 1][iw - 1] = draw(st.booleans())
    elif family == "frame":
        # unmasked rectangular frame (possibly thick) around a masked interior: a hole by construction
        y0 = draw(st.integers(0, max(0, ih - 3))); y1 = draw(st.integers(min(ih - 1, y0 + 2), ih - 1))
        x0 = draw(st.integers(0, max(0, iw - 3))); x1 = draw(st.integers(min(iw - 1, x0 + 2), iw - 1))
        for i in range(y0, y1 + 1):
            for j in range(x0, x1 + 1):
                m[i][j] = not (i in (y0, y1) or j in (x0, x1))
        if draw(st.booleans()) and y1 - y0 >= 4 and x1 - x0 >= 4:
            m[(y0 + y1) // 2][(x0 + x1) // 2] = False  # island inside the hole
    elif family == "blobs":
        # separate components: unmask cells of a coarse checkerboard of blocks
        by = draw(st.integers(1, 2)); bx = draw(st.integers(1, 2))
        for i in range(ih):
            for j in range(iw):
                cy, cx = i // by, j // bx
                m[i][j] = not (cy % 2 == 0 and cx % 2 == 0 and draw(st.integers(0, 3)) > 0)
    elif family == "full":
        m = _blank(ih, iw, False)
        for _ in range(draw(st.integers(0, 3))):
            m[draw(st.integers(0, ih - 1))][draw(st.integers(0, iw - 1))] = True
    # guarantee unmasked pixels
    n_un = sum(1 for r in m for v in r if not v)
    while n_un < min(min_unmasked, ih * iw):
        i = draw(st.integers(0, ih - 1)); j = draw(st.integers(0, iw - 1))
        if m[i][j]:
            m[i][j] = False
            n_un += 1
    if ring:
        full = _blank(h, w, True)
        for i in range(ih):
            for j in range(iw):
                full[i + ring][j + ring] = m[i][j]
        m = full
    return m


def mask_layouts(mask):
    """The same boolean mask in other memory layouts / input forms (equal element by element to the C-ordered array):
    Fortran order, a transposed view, a stepped view of a larger frame, a negative-stride view, 0/1 integers."""
    import numpy as np
    m = np.ascontiguousarray(np.asarray(mask, dtype=bool))
    h, w = m.shape
    big = np.ones((2 * h, 2 * w), dtype=bool); big[::2, ::2] = m
    out = [("fortran", np.asfortranarray(m.copy())), ("transposed-view", m.T.copy().T), ("stepped-view", big[::2, ::2]),
           ("negative-stride", m[::-1, ::-1].copy()[::-1, ::-1]), ("int01", m.astype(int))]
    for _, a in out:
        assert np.array_equal(np.asarray(a, dtype=bool), m)
    return out


def vary_layout(mask):
    """The mask as a boolean array in a memory layout chosen by a pure function of its content (C order, Fortran order,
    stepped view, negative-stride view): equal element by element, so nothing a check compares may depend on it."""
    import numpy as np
    m = np.ascontiguousarray(np.asarray(mask, dtype=bool))
    k = (int(m.sum()) * 31 + m.shape[0] * 7 + m.shape[1]) % 4
    if k == 0:
        return m.copy()
    return mask_layouts(m)[(0, 2, 3)[k - 1]][1]


def mask_stats(mask):
    """Classification labels for a mask given as list of lists / array."""
    import numpy as np
    from scipy import ndimage
    m = np.asarray(mask, dtype=bool)
    un = ~m
    h, w = m.shape
    labels = []
    if h != w:
        labels.append("mask:nonsquare")
    if h == 1 or w == 1:
        labels.append("mask:1xN")
    ncomp = ndimage.label(un, structure=np.ones((3, 3)))[1]
    if ncomp >= 2:
        labels.append("mask:multi-component")
    # holes: masked components not connected to the outside (4-connectivity on masked pixels,
    # padded by one masked ring)
    pm = np.pad(m, 1, constant_values=True)
    lab, n = ndimage.label(pm)
    if n >= 2:
        labels.append("mask:hole")
    if un[0, :].any() or un[-1, :].any() or un[:, 0].any() or un[:, -1].any():
        labels.append("mask:touches-outer-ring")
    if m.any() and un.any():
        labels.append("mask:mixed")
    ys, xs = np.nonzero(un)
    if len(ys) and not (un[ys.min():ys.max() + 1, xs.min():xs.max() + 1].all()):
        labels.append("mask:not-solid-rectangle")
    return labels


# ---------------------------------------------------------------------------------------------
# kernels
# ---------------------------------------------------------------------------------------------


@st.composite
def kernels(draw, max_side=5, kinds=("nonneg", "signed", "sparse", "normalised"), min_side=1):
    """Odd-shaped kernel as list of lists, asymmetric by construction (distinct entries)."""
    kh = draw(st.sampled_from([k for k in (1, 3, 5, 7) if min_side <= k <= max_side]))
    kw = draw(st.sampled_from([k for k in (1, 3, 5, 7) if min_side <= k <= max_side]))
    kind = draw(st.sampled_from(list(kinds)))
    n = kh * kw
    if kind == "integer":
        # small whole numbers incl. exact -1.0, 0.0 and repeated values (Laplacian / sharpening style kernels):
        # sentinel values and exact cancellations only show up with such entries
        vals = [float(v) for v in draw(st.lists(st.integers(-2, 3), min_size=n, max_size=n))]
        if not any(vals):
            vals[n // 2] = 1.0
        k = [vals[i * kw:(i + 1) * kw] for i in range(kh)]
        return {"kind": kind, "values": k}
    if kind == "signed":
        vals = draw(st.lists(reals(-2, 2), min_size=n, max_size=n))
    else:
        vals = draw(st.lists(reals(0, 2), min_size=n, max_size=n))
    # make entries distinct so that flips / transposes are visible
    vals = [v + 0.013 * (i + 1) * (1 if kind != "signed" or i % 2 == 0 else -1) for i, v in enumerate(vals)]
    if kind == "sparse":
        keep = draw(st.lists(st.booleans(), min_size=n, max_size=n))
        vals = [v if k else 0.0 for v, k in zip(vals, keep)]
        vals[n // 2] = vals[n // 2] or 1.0
    if kind == "normalised":
        s = sum(vals)
        vals = [v / s for v in vals]
    k = [vals[i * kw:(i + 1) * kw] for i in range(kh)]
    return {"kind": kind, "values": k}
