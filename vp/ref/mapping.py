"""Plain-numpy reference for mapper geometry (C06; adjacency reused by other properties).

Nothing here imports autoarray.  Coordinates are (y, x) rows; a rectangular mesh is indexed from the
top-left (highest y, lowest x) rightwards then downwards."""
import numpy as np
import scipy.spatial

EPS = float(np.finfo(float).eps)
BUFFER = 1.0e-8  # documented default of Mesh2DRectangular.overlay_grid


# ---------------------------------------------------------------------------------------------
# rectangular
# ---------------------------------------------------------------------------------------------
def rect_reference(src, shape, buffer=BUFFER):
    """Cell of every point of `src` in a (ny, nx) mesh laid over the bounding box of `src` enlarged by
    `buffer` on each side.  Returns dict(pix, bdist, centres, dy, dx, edge) where `bdist` is the
    distance (coordinate units) of each point to the nearest cell boundary along either axis and
    `edge` flags points in the last row / last column / first row / first column of cells."""
    src = np.asarray(src, dtype=float)
    ny, nx = int(shape[0]), int(shape[1])
    # documented rule of overlay_grid: the buffer never drops below 64 eps of the largest |coordinate|
    buffer = max(buffer, 64.0 * EPS * float(np.abs(src).max()))
    y_min = src[:, 0].min() - buffer
    y_max = src[:, 0].max() + buffer
    x_min = src[:, 1].min() - buffer
    x_max = src[:, 1].max() + buffer
    dy = (y_max - y_min) / ny
    dx = (x_max - x_min) / nx
    fy = (y_max - src[:, 0]) / dy
    fx = (src[:, 1] - x_min) / dx
    row = np.floor(fy).astype(int)
    col = np.floor(fx).astype(int)
    by = np.abs(fy - np.round(fy)) * dy
    bx = np.abs(fx - np.round(fx)) * dx
    yc = y_max - (np.arange(ny) + 0.5) * dy
    xc = x_min + (np.arange(nx) + 0.5) * dx
    centres = np.stack([np.repeat(yc, nx), np.tile(xc, ny)], axis=1)
    return {
        "pix": row * nx + col, "row": row, "col": col, "bdist": np.minimum(by, bx), "centres": centres,
        "dy": dy, "dx": dx, "buffer": buffer,
        "far_edge": (row == ny - 1) | (col == nx - 1), "near_edge": (row == 0) | (col == 0),
    }


def rect_adjacency(shape):
    """4-connectivity of a (ny, nx) grid as a list of sets."""
    ny, nx = int(shape[0]), int(shape[1])
    adj = []
    for r in range(ny):
        for c in range(nx):
            s = set()
            for rr, cc in ((r - 1, c), (r + 1, c), (r, c - 1), (r, c + 1)):
                if 0 <= rr < ny and 0 <= cc < nx:
                    s.add(rr * nx + cc)
            adj.append(s)
    return adj


# ---------------------------------------------------------------------------------------------
# Delaunay
# ---------------------------------------------------------------------------------------------
def _cross(a, b):
    return a[..., 0] * b[..., 1] - a[..., 1] * b[..., 0]


def delaunay_reference(src, verts):
    """Brute-force point location: barycentric coordinates of every point with respect to every simplex of
    scipy.spatial.Delaunay(verts) from a 2x2 solve.  A point is inside the hull iff, for every hull edge, its
    barycentric coordinate for the vertex opposite that edge (in the simplex owning the edge) is >= 0; the
    containing simplex of an inside point is the one whose smallest barycentric coordinate is largest (on an
    interior edge / vertex either candidate gives the same weights to rounding); an outside point gets its
    nearest vertex.

    Returns dict(S, inside, hull_margin, nearest_gap, shape_quality, simplices, general_margin, adjacency):
      S               (N, P) dense interpolation weights per point
      inside          (N,) bool
      hull_margin     (N,) smallest hull-edge barycentric coordinate (>= 0 inside the hull)
      simplex_margin  (N,) best smallest barycentric coordinate over all simplices
      nearest_gap     (N,) relative gap between the squared distances to the two nearest vertices
      shape_quality   (N,) 2*area / (longest edge)^2 of the containing simplex (1 for outside points)
      hull_tie        (N,) the point is within float resolution 256 eps (1 + 1/quality + max|coord|/height) of a hull edge
      kappa           (N,) conditioning max(|coord|^2, longest edge^2) / (2 area) of the worst simplex that contains
                      the point to rounding
      general_margin  smallest normalised in-circle determinant over pairs of adjacent simplices
                      (0 = four co-circular vertices = triangulation not unique)
    """
    src = np.asarray(src, dtype=float)
    verts = np.asarray(verts, dtype=float)
    n, p = len(src), len(verts)
    tri = scipy.spatial.Delaunay(verts)
    simp = np.asarray(tri.simplices, dtype=int)
    a = verts[simp]                                   # (T, 3, 2)
    e = np.stack([a[:, 1] - a[:, 0], a[:, 2] - a[:, 0]], axis=-1)   # (T, 2, 2), columns = edge vectors
    det = e[:, 0, 0] * e[:, 1, 1] - e[:, 0, 1] * e[:, 1, 0]
    inv = np.empty_like(e)
    inv[:, 0, 0] = e[:, 1, 1] / det
    inv[:, 0, 1] = -e[:, 0, 1] / det
    inv[:, 1, 0] = -e[:, 1, 0] / det
    inv[:, 1, 1] = e[:, 0, 0] / det
    d = src[None, :, :] - a[:, None, 0, :]            # (T, N, 2)
    l12 = np.einsum("tij,tnj->tni", inv, d)
    l0 = 1.0 - l12.sum(axis=-1)
    lam = np.concatenate([l0[..., None], l12], axis=-1)   # (T, N, 3)
    minb = lam.min(axis=-1)
    minb = np.where(np.isfinite(minb), minb, -np.inf)
    best = np.argmax(minb, axis=0)
    idx = np.arange(n)
    smargin = minb[best, idx]
    edges = np.stack([a[:, 1] - a[:, 0], a[:, 2] - a[:, 1], a[:, 0] - a[:, 2]], axis=1)
    longest2 = (edges ** 2).sum(axis=-1).max(axis=1)
    quality_t = np.abs(det) / longest2
    # float resolution of a barycentric coordinate: the 2x2 solve on edge vectors (~ eps / quality) plus the
    # resolution eps * max|coordinate| of the positions themselves measured against the smallest height of the simplex
    cmax = max(float(np.abs(verts).max()), float(np.abs(src).max()) if n else 0.0)
    height_t = np.abs(det) / np.sqrt(longest2)
    u_t = 256.0 * EPS * (1.0 + 1.0 / np.maximum(quality_t, 1e-300) + cmax / np.maximum(height_t, 1e-300))
    nbrs = np.asarray(tri.neighbors)
    margin = np.full(n, np.inf)
    hull_tie = np.zeros(n, dtype=bool)
    for t in range(len(simp)):
        for j in range(3):
            if nbrs[t, j] == -1:      # the edge opposite vertex j of simplex t is on the hull
                margin = np.minimum(margin, lam[t, :, j])
                hull_tie |= np.abs(lam[t, :, j]) <= u_t[t]
    inside = margin >= 0.0
    # conditioning of barycentric weights evaluated from absolute coordinates (shoelace areas): an
    # implementation working in double on coordinates of magnitude c has weight error ~ eps * c^2 / (2 area);
    # the candidates are all simplices containing the point to rounding (the implementation may use any)
    cmax2 = cmax ** 2
    kappa_t = np.maximum(cmax2, longest2) / np.maximum(np.abs(det), 1e-300)
    cand = minb >= -u_t[:, None]
    has_cand = cand.any(axis=0)
    kappa = np.where(has_cand, np.where(cand, kappa_t[:, None], 0.0).max(axis=0), kappa_t[best])
    d2 = ((src[:, None, :] - verts[None, :, :]) ** 2).sum(axis=-1)   # (N, P)
    order = np.argsort(d2, axis=1)
    nearest = order[:, 0]
    dA = d2[idx, order[:, 0]]
    dB = d2[idx, order[:, 1]] if p > 1 else np.full(n, np.inf)
    gap = (dB - dA) / np.maximum(dB, 1e-300)
    s_in = np.zeros((n, p))      # candidate if the point is treated as inside: weights in its best simplex
    s_out = np.zeros((n, p))     # candidate if the point is treated as outside: nearest vertex
    for k in range(n):
        t = best[k]
        for j in range(3):
            s_in[k, simp[t, j]] += lam[t, k, j]
        s_out[k, nearest[k]] = 1.0
    s = np.where(inside[:, None], s_in, s_out)
    quality = np.where(inside, quality_t[best], 1.0)
    quality_best = quality_t[best]
    # uniqueness of the triangulation: in-circle determinant of the opposite vertex of each neighbour
    gm = np.inf
    for t in range(len(simp)):
        for nb in tri.neighbors[t]:
            if nb < 0 or nb < t:
                continue
            opp = [v for v in simp[nb] if v not in simp[t]]
            if len(opp) != 1:
                continue
            pa, pb, pc = verts[simp[t]]
            pd = verts[opp[0]]
            m = np.array([[q[0] - pd[0], q[1] - pd[1], (q[0] - pd[0]) ** 2 + (q[1] - pd[1]) ** 2] for q in (pa, pb, pc)])
            scale = max(longest2[t], longest2[nb]) ** 2
            gm = min(gm, abs(np.linalg.det(m)) / scale)
    adj = [set() for _ in range(p)]
    for t in simp:
        for i in range(3):
            for j in range(3):
                if i != j:
                    adj[int(t[i])].add(int(t[j]))
    return {"S": s, "inside": inside, "hull_margin": margin, "simplex_margin": smargin, "nearest_gap": gap, "shape_quality": quality,
            "simplices": simp, "general_margin": float(gm), "adjacency": adj, "nearest": nearest,
            "S_in": s_in, "S_out": s_out, "quality_best": quality_best,
            "hull_tie": hull_tie, "kappa": kappa, "has_candidate": has_cand}


def nearest_vertex_chunked(src, verts, chunk=509):
    """Brute-force nearest vertex of every point, vectorised over blocks of `chunk` points (a prime, so the blocks do
    not line up with power-of-two blocking in the code under test).  Returns (nearest, relative gap of the squared
    distances to the two nearest vertices)."""
    src = np.asarray(src, dtype=float)
    verts = np.asarray(verts, dtype=float)
    n = len(src)
    nearest = np.zeros(n, dtype=int)
    gap = np.ones(n)
    for a in range(0, n, chunk):
        blk = src[a:a + chunk]
        d2 = ((blk[:, None, :] - verts[None, :, :]) ** 2).sum(axis=-1)
        part = np.argpartition(d2, 1, axis=1)[:, :2]
        da = d2[np.arange(len(blk)), part[:, 0]]
        db = d2[np.arange(len(blk)), part[:, 1]]
        first = np.where(da <= db, part[:, 0], part[:, 1])
        lo, hi = np.minimum(da, db), np.maximum(da, db)
        nearest[a:a + chunk] = first
        gap[a:a + chunk] = (hi - lo) / np.maximum(hi, 1e-300)
    return nearest, gap


def delaunay_reference_large(src, verts):
    """Reference for large instances: hull test of every point against the hull edges only (barycentric coordinate
    of the opposite vertex in the simplex owning each hull edge, as in delaunay_reference), chunked brute-force
    nearest vertex for the outside points, and the full brute-force barycentric search of delaunay_reference for the
    (few) inside points.  Returns dict(inside, hull_tie, nearest, nearest_gap, inside_index, inside_ref, adjacency)."""
    src = np.asarray(src, dtype=float)
    verts = np.asarray(verts, dtype=float)
    n = len(src)
    tri = scipy.spatial.Delaunay(verts)
    simp = np.asarray(tri.simplices, dtype=int)
    nbrs = np.asarray(tri.neighbors)
    cmax = max(float(np.abs(verts).max()), float(np.abs(src).max()))
    margin = np.full(n, np.inf)
    hull_tie = np.zeros(n, dtype=bool)
    for t in np.flatnonzero((nbrs == -1).any(axis=1)):
        a = verts[simp[t]]
        e = np.stack([a[1] - a[0], a[2] - a[0]], axis=-1)
        det = e[0, 0] * e[1, 1] - e[0, 1] * e[1, 0]
        inv = np.array([[e[1, 1], -e[0, 1]], [-e[1, 0], e[0, 0]]]) / det
        l12 = (src - a[0]) @ inv.T
        lam = np.concatenate([(1.0 - l12.sum(axis=1))[:, None], l12], axis=1)
        edges = np.stack([a[1] - a[0], a[2] - a[1], a[0] - a[2]])
        longest2 = (edges ** 2).sum(axis=1).max()
        quality = abs(det) / longest2
        height = abs(det) / np.sqrt(longest2)
        u = 256.0 * EPS * (1.0 + 1.0 / max(quality, 1e-300) + cmax / max(height, 1e-300))
        for j in range(3):
            if nbrs[t, j] == -1:
                margin = np.minimum(margin, lam[:, j])
                hull_tie |= np.abs(lam[:, j]) <= u
    inside = margin >= 0.0
    nearest, gap = nearest_vertex_chunked(src, verts)
    idx_in = np.flatnonzero(inside | hull_tie)
    inner = delaunay_reference(src[idx_in], verts) if len(idx_in) else None
    adj = [set() for _ in range(len(verts))]
    for t in simp:
        for i in range(3):
            for j in range(3):
                if i != j:
                    adj[int(t[i])].add(int(t[j]))
    return {"inside": inside, "hull_tie": hull_tie, "nearest": nearest, "nearest_gap": gap,
            "inside_index": idx_in, "inside_ref": inner, "adjacency": adj}


# ---------------------------------------------------------------------------------------------
# image-pixel bookkeeping
# ---------------------------------------------------------------------------------------------
def pixel_centres(mask, pixel_scales, origin):
    """(y, x) centres of the unmasked pixels in row-major order: row 0 is the highest y."""
    m = np.asarray(mask, dtype=bool)
    h, w = m.shape
    rc = np.argwhere(~m)
    y = origin[0] + ((h - 1) / 2.0 - rc[:, 0]) * pixel_scales[0]
    x = origin[1] + (rc[:, 1] - (w - 1) / 2.0) * pixel_scales[1]
    return np.stack([y, x], axis=1)


def binning_matrix(sub):
    """(n, sum sub_i^2) matrix averaging the consecutive sub_i^2 sub-pixels of image pixel i."""
    sub = np.asarray(sub, dtype=int)
    counts = sub ** 2
    owner = np.repeat(np.arange(len(sub)), counts)
    b = np.zeros((len(sub), int(counts.sum())))
    b[owner, np.arange(len(owner))] = 1.0 / counts[owner]
    return b, owner
