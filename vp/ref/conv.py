"""Reference model of masked PSF convolution, written with explicit index arithmetic.

out[t] = sum_s K[t - s + half] * in[s]   (true convolution: flipped, centred kernel, zero outside the frame)
"""
import numpy as np


def blurring_region(mask, kshape):
    """Masked pixels within the kernel footprint of an unmasked pixel; second value says whether a
    footprint leaves the array."""
    m = np.asarray(mask, dtype=bool)
    h, w = m.shape
    hy, hx = kshape[0] // 2, kshape[1] // 2
    blur = np.zeros_like(m)
    leaves = False
    for (y, x) in np.argwhere(~m):
        if y - hy < 0 or y + hy >= h or x - hx < 0 or x + hx >= w:
            leaves = True
        blur[max(0, y - hy):y + hy + 1, max(0, x - hx):x + hx + 1] = True
    return blur & m, leaves


def operators(mask, kernel):
    """Dense operators (A_mask [n_un x n_un], A_blur [n_un x n_blur]) and the blurring region.

    Row = unmasked target pixel (slim order), column = source pixel (slim order of the mask /
    of the blurring region)."""
    m = np.asarray(mask, dtype=bool)
    k = np.asarray(kernel, dtype=float)
    kh, kw = k.shape
    hy, hx = kh // 2, kw // 2
    h, w = m.shape
    blur, _ = blurring_region(m, (kh, kw))
    un_idx = -np.ones((h, w), dtype=int)
    un_idx[~m] = np.arange(int((~m).sum()))
    bl_idx = -np.ones((h, w), dtype=int)
    bl_idx[blur] = np.arange(int(blur.sum()))
    a_mask = np.zeros((int((~m).sum()), int((~m).sum())))
    a_blur = np.zeros((int((~m).sum()), int(blur.sum())))
    for (ty, tx) in np.argwhere(~m):
        t = un_idx[ty, tx]
        for a in range(kh):
            for b in range(kw):
                sy, sx = ty - (a - hy), tx - (b - hx)
                if 0 <= sy < h and 0 <= sx < w:
                    if un_idx[sy, sx] >= 0:
                        a_mask[t, un_idx[sy, sx]] += k[a, b]
                    elif bl_idx[sy, sx] >= 0:
                        a_blur[t, bl_idx[sy, sx]] += k[a, b]
    return a_mask, a_blur, blur


def full_convolve(native, kernel):
    """Whole-frame 'same' convolution by explicit loops (zero outside the frame)."""
    img = np.asarray(native, dtype=float)
    k = np.asarray(kernel, dtype=float)
    h, w = img.shape
    kh, kw = k.shape
    hy, hx = kh // 2, kw // 2
    out = np.zeros_like(img)
    for a in range(kh):
        for b in range(kw):
            dy, dx = a - hy, b - hx  # out[t] += K[a,b] * in[t - (dy,dx)]
            ys0, ys1 = max(0, -dy), min(h, h - dy)
            xs0, xs1 = max(0, -dx), min(w, w - dx)
            if ys0 < ys1 and xs0 < xs1:
                out[ys0 + dy:ys1 + dy, xs0 + dx:xs1 + dx] += k[a, b] * img[ys0:ys1, xs0:xs1]
    return out


def blurring_region_fast(mask, kshape):
    """Same set as blurring_region, by dilating the unmasked map with shifted copies (for large frames)."""
    m = np.asarray(mask, dtype=bool)
    h, w = m.shape
    hy, hx = kshape[0] // 2, kshape[1] // 2
    un = ~m
    dil = np.zeros_like(m)
    leaves = bool(un[:hy].any() or un[h - hy:].any() if hy else False) or bool(un[:, :hx].any() or un[:, w - hx:].any() if hx else False)
    for dy in range(-hy, hy + 1):
        for dx in range(-hx, hx + 1):
            ys0, ys1 = max(0, -dy), min(h, h - dy)
            xs0, xs1 = max(0, -dx), min(w, w - dx)
            dil[ys0 + dy:ys1 + dy, xs0 + dx:xs1 + dx] |= un[ys0:ys1, xs0:xs1]
    return dil & m, leaves
