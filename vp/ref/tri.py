"""Plain-numpy triangle geometry used as the oracle for C20.  Nothing here imports autoarray.

Triangles are (N, 3, 2) float arrays; column 0 / column 1 are just "first" and "second" coordinate
(the shapes in autoarray call column 0 `x`)."""
import numpy as np

EPS = float(np.finfo(float).eps)


def cross(a, b):
    return a[..., 0] * b[..., 1] - a[..., 1] * b[..., 0]


def areas(T):
    """Unsigned area of each triangle via the edge-vector cross product."""
    T = np.asarray(T, dtype=float)
    if T.shape[0] == 0:
        return np.zeros(0)
    return 0.5 * np.abs(cross(T[:, 1] - T[:, 0], T[:, 2] - T[:, 0]))


def bary(T, P):
    """Barycentric coordinates (ratios of signed sub-triangle areas) of points P (M,2) with respect to
    triangles T (N,3,2); result (N, M, 3)."""
    T = np.asarray(T, dtype=float)
    P = np.asarray(P, dtype=float).reshape(-1, 2)
    v0, v1, v2 = T[:, None, 0], T[:, None, 1], T[:, None, 2]
    p = P[None, :, :]
    d = cross(v1 - v0, v2 - v0)
    with np.errstate(all="ignore"):
        l0 = cross(v1 - p, v2 - p) / d
        l1 = cross(v2 - p, v0 - p) / d
        l2 = cross(v0 - p, v1 - p) / d
    return np.stack([l0, l1, l2], axis=-1)


def min_bary(T, P):
    """(N, M) smallest barycentric coordinate; > 0 strictly inside, NaN -> -inf (degenerate)."""
    b = bary(T, P).min(axis=-1)
    return np.where(np.isfinite(b), b, -np.inf)


def reflect(p, a, b):
    """Mirror image of points p across the line through a and b (explicit foot-of-perpendicular)."""
    d = b - a
    t = ((p - a) * d).sum(-1, keepdims=True) / (d * d).sum(-1, keepdims=True)
    foot = a + t * d
    return 2.0 * foot - p


def edge_neighbours(T):
    """The three mirror images of each triangle across its own edges: (3, N, 3, 2); entry e is the
    reflection across the edge opposite vertex e."""
    T = np.asarray(T, dtype=float)
    out = []
    for e in range(3):
        a, b = T[:, (e + 1) % 3], T[:, (e + 2) % 3]
        n = T.copy()
        n[:, e] = reflect(T[:, e], a, b)
        out.append(n)
    return np.stack(out, axis=0)


def match(A, B, tol, chunk=512):
    """For every triangle of A: index of the first triangle of B with the same vertex *set* (Hausdorff
    distance between the two 3-point sets <= tol, max-norm), or -1."""
    A = np.asarray(A, dtype=float)
    B = np.asarray(B, dtype=float)
    first = -np.ones(len(A), dtype=int)
    if len(A) == 0 or len(B) == 0:
        return first
    ca, cb = A.mean(axis=1), B.mean(axis=1)
    for i0 in range(0, len(A), chunk):
        a = A[i0:i0 + chunk]
        dc = np.abs(ca[i0:i0 + chunk, None, :] - cb[None, :, :]).max(axis=-1)
        ii, jj = np.nonzero(dc <= tol)
        if len(ii) == 0:
            continue
        d = np.abs(a[ii][:, :, None, :] - B[jj][:, None, :, :]).max(axis=-1)  # (k, 3, 3)
        h = np.maximum(d.min(axis=2).max(axis=1), d.min(axis=1).max(axis=1))
        good = h <= tol
        for i, j in zip(ii[good][::-1], jj[good][::-1]):  # reversed so the smallest j wins
            first[i0 + i] = j
    return first


def interiors_disjoint(t1, t2, tol):
    """Separating-axis test for two triangles: True when some edge normal separates them up to an
    overlap of `tol` (so sharing an edge or a vertex counts as disjoint)."""
    for tri in (t1, t2):
        for e in range(3):
            d = tri[(e + 1) % 3] - tri[e]
            n = np.array([-d[1], d[0]])
            ln = np.hypot(n[0], n[1])
            if ln == 0:
                continue
            n = n / ln
            p1, p2 = t1 @ n, t2 @ n
            if p1.max() <= p2.min() + tol or p2.max() <= p1.min() + tol:
                return True
    return False


def orientation(T, tol):
    """+1 if the apex (vertex off the edge that is parallel to an axis) has the larger coordinate,
    -1 if smaller, 0 if the triangle has no axis-parallel edge.  Looks along column 1 first (the
    coordinate representation's y), then column 0 (the vertex-array lattice stores (y, x))."""
    T = np.asarray(T, dtype=float)
    out = np.zeros(len(T), dtype=int)
    for ax in (1, 0):
        ys = np.sort(T[:, :, ax], axis=1)
        up = (ys[:, 1] - ys[:, 0] <= tol) & (ys[:, 2] - ys[:, 1] > tol)
        dn = (ys[:, 2] - ys[:, 1] <= tol) & (ys[:, 1] - ys[:, 0] > tol)
        out = np.where((out == 0) & up, 1, out)
        out = np.where((out == 0) & dn, -1, out)
    return out


def horizontal_edge(T, tol):
    """Index e (0..2) of the vertex opposite the axis-parallel edge, or -1."""
    T = np.asarray(T, dtype=float)
    out = -np.ones(len(T), dtype=int)
    for ax in (1, 0):
        for e in range(3):
            a, b = T[:, (e + 1) % 3, ax], T[:, (e + 2) % 3, ax]
            hit = (np.abs(a - b) <= tol) & (np.abs(T[:, e, ax] - a) > tol)
            out = np.where((out < 0) & hit, e, out)
    return out
