"""Closed-form reference geometry (C02), written from the property statement with plain numpy.

Conventions of the statement: pixel (i, j) of an H x W frame with pixel scales (s_y, s_x) and origin
(o_y, o_x) has centre

    y = o_y + ((H-1)/2 - i) * s_y        (y increases upward, row 0 is the top row)
    x = o_x + (j - (W-1)/2) * s_x        (x increases to the right)

and occupies the square [y - s_y/2, y + s_y/2] x [x - s_x/2, x + s_x/2].  Nothing here imports the
repository.
"""
import math

import numpy as np


def centres_y(h, sy, oy=0.0):
    return oy + ((h - 1) / 2.0 - np.arange(h, dtype=float)) * sy


def centres_x(w, sx, ox=0.0):
    return ox + (np.arange(w, dtype=float) - (w - 1) / 2.0) * sx


def centres_2d(shape, scales, origin=(0.0, 0.0)):
    """(H, W, 2) array of (y, x) pixel centres."""
    h, w = shape
    ys = centres_y(h, scales[0], origin[0])
    xs = centres_x(w, scales[1], origin[1])
    out = np.zeros((h, w, 2))
    out[:, :, 0] = ys[:, None]
    out[:, :, 1] = xs[None, :]
    return out


def extent_2d(shape, scales, origin=(0.0, 0.0)):
    """(x_min, x_max, y_min, y_max) of the union of the pixel squares (matplotlib order)."""
    h, w = shape
    ys = centres_y(h, scales[0], origin[0])
    xs = centres_x(w, scales[1], origin[1])
    return (float(xs[0] - scales[1] / 2.0), float(xs[-1] + scales[1] / 2.0),
            float(ys[-1] - scales[0] / 2.0), float(ys[0] + scales[0] / 2.0))


def centres_1d(n, s, o=0.0):
    """x_k = o + (k - (N-1)/2) * s."""
    return o + (np.arange(n, dtype=float) - (n - 1) / 2.0) * s


def extent_1d(n, s, o=0.0):
    xs = centres_1d(n, s, o)
    return (float(xs[0] - s / 2.0), float(xs[-1] + s / 2.0))


# ---------------------------------------------------------------------------------------------
# radial inequalities of the shape-based mask constructors, evaluated at the pixel centres measured
# from the mask origin (i.e. with origin (0, 0)), about the requested centre.
# ---------------------------------------------------------------------------------------------
def offsets(shape, scales, centre):
    """(dy, dx): pixel centre minus requested centre, y up / x right, each of shape (H, W)."""
    h, w = shape
    dy = centres_y(h, scales[0])[:, None] - centre[0] + np.zeros((h, w))
    dx = centres_x(w, scales[1])[None, :] - centre[1] + np.zeros((h, w))
    return dy, dx


def circular_radius(dy, dx):
    return np.sqrt(dx * dx + dy * dy)


def elliptical_radius(dy, dx, axis_ratio, angle_deg):
    """Major axis `angle_deg` degrees counter-clockwise from +x in the y-up frame:
    x' = X cos a + Y sin a (along the major axis), y' = -X sin a + Y cos a,
    r_ell = sqrt(x'^2 + (y'/q)^2)."""
    a = math.radians(angle_deg)
    ca, sa = math.cos(a), math.sin(a)
    xp = dx * ca + dy * sa
    yp = -dx * sa + dy * ca
    return np.sqrt(xp * xp + (yp / axis_ratio) ** 2)


def shape_unmasked(kind, params, shape, scales, centre, band=1e-9):
    """Returns (unmasked, tie) boolean arrays for a constructor of the given kind: `unmasked` is the
    documented inequality evaluated at the pixel centres, `tie` marks pixels whose radius lies within
    `band` of a threshold it is compared against (either answer acceptable there)."""
    dy, dx = offsets(shape, scales, centre)
    if kind == "circular":
        r = circular_radius(dy, dx)
        R = params["radius"]
        return r <= R, np.abs(r - R) <= band
    if kind == "circular_annular":
        r = circular_radius(dy, dx)
        a, b = params["inner_radius"], params["outer_radius"]
        return (r >= a) & (r <= b), (np.abs(r - a) <= band) | (np.abs(r - b) <= band)
    if kind == "circular_anti_annular":
        r = circular_radius(dy, dx)
        a, b, c = params["inner_radius"], params["outer_radius"], params["outer_radius_2"]
        un = (r <= a) | ((r >= b) & (r <= c))
        tie = (np.abs(r - a) <= band) | (np.abs(r - b) <= band) | (np.abs(r - c) <= band)
        return un, tie
    if kind == "elliptical":
        r = elliptical_radius(dy, dx, params["axis_ratio"], params["angle"])
        R = params["major_axis_radius"]
        return r <= R, np.abs(r - R) <= band
    if kind == "elliptical_annular":
        ri = elliptical_radius(dy, dx, params["inner_axis_ratio"], params["inner_phi"])
        ro = elliptical_radius(dy, dx, params["outer_axis_ratio"], params["outer_phi"])
        a, b = params["inner_major_axis_radius"], params["outer_major_axis_radius"]
        return (ri >= a) & (ro <= b), (np.abs(ri - a) <= band) | (np.abs(ro - b) <= band)
    raise ValueError(kind)


# ---------------------------------------------------------------------------------------------
# exact location of an arbitrary point (rational arithmetic on the exact values of the floats)
# ---------------------------------------------------------------------------------------------
def locate_exact(py, px, shape, scales, origin):
    """Continuous pixel coordinate (q_y, q_x) of the scaled point (py, px), measured from the top-left corner
    of the frame, as exact Fractions: q_y = (y_max - py)/s_y, q_x = (px - x_min)/s_x with y_max = o_y + H s_y/2
    and x_min = o_x - W s_x/2.  The point lies in pixel (floor q_y, floor q_x) iff 0 <= q_y < H, 0 <= q_x < W."""
    from fractions import Fraction as Fr
    h, w = int(shape[0]), int(shape[1])
    sy, sx = Fr(float(scales[0])), Fr(float(scales[1]))
    oy, ox = Fr(float(origin[0])), Fr(float(origin[1]))
    qy = (oy + Fr(h) * sy / 2 - Fr(float(py))) / sy
    qx = (Fr(float(px)) - (ox - Fr(w) * sx / 2)) / sx
    return qy, qx


def corner_from_pixel_exact(p, q, shape, scales, origin):
    """Scaled (y, x) of the continuous pixel coordinate (p, q) measured from the top-left corner (inverse of
    locate_exact), evaluated exactly and rounded once: y = o_y + (H/2 - p) s_y, x = o_x + (q - W/2) s_x."""
    from fractions import Fraction as Fr
    h, w = int(shape[0]), int(shape[1])
    sy, sx = Fr(float(scales[0])), Fr(float(scales[1]))
    oy, ox = Fr(float(origin[0])), Fr(float(origin[1]))
    y = oy + (Fr(h) / 2 - Fr(float(p))) * sy
    x = ox + (Fr(float(q)) - Fr(w) / 2) * sx
    return float(y), float(x)
