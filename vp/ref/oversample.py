"""Reference model for C09: uniform over-sampling geometry, per-pixel means, generated user functions
of (y, x) and the iterative scheme's stopping rule.  Plain numpy, no autoarray imports.

Frame convention (C02's closed form): native pixel (i, j) of an (H, W) frame with pixel scales
(sy, sx) and origin (oy, ox) has its centre at (oy + ((H-1)/2 - i)*sy, ox + (j - (W-1)/2)*sx); +y is up,
so "top-to-bottom" means decreasing y.
"""
import numpy as np


# ---------------------------------------------------------------------------------------------
# geometry
# ---------------------------------------------------------------------------------------------
def centres(mask, ps, origin):
    """(n, 2) pixel centres of the unmasked pixels in slim (row-major) order."""
    m = np.asarray(mask, dtype=bool)
    h, w = m.shape
    ij = np.argwhere(~m)
    out = np.empty((len(ij), 2))
    out[:, 0] = origin[0] + ((h - 1) / 2.0 - ij[:, 0]) * ps[0]
    out[:, 1] = origin[1] + (ij[:, 1] - (w - 1) / 2.0) * ps[1]
    return out


def sub_list(mask, sub):
    """Per-pixel integer sub-size in slim order from an int or a list."""
    n = int((~np.asarray(mask, dtype=bool)).sum())
    if isinstance(sub, (int, np.integer)):
        return np.full(n, int(sub), dtype=int)
    s = np.asarray(sub, dtype=int)
    assert s.shape == (n,)
    return s


def sub_grid(mask, ps, origin, sub):
    """Reference over-sampled grid.

    Returns (points (N, 2), owner (N,)): for unmasked pixel k (slim order) with sub-size s the s*s
    centres of the uniform s x s partition of the pixel, rows top-to-bottom (y decreasing), within a
    row left-to-right (x increasing); pixels one after the other.  Each point is written as
    pixel edge + (index + 1/2) * (pixel scale / s).
    """
    c = centres(mask, ps, origin)
    s_all = sub_list(mask, sub)
    pts = []
    owner = []
    for k in range(len(c)):
        s = int(s_all[k])
        a = np.arange(s) + 0.5
        ys = (c[k, 0] + ps[0] / 2.0) - a * (ps[0] / s)
        xs = (c[k, 1] - ps[1] / 2.0) + a * (ps[1] / s)
        yy, xx = np.meshgrid(ys, xs, indexing="ij")
        pts.append(np.stack([yy.ravel(), xx.ravel()], axis=1))
        owner.append(np.full(s * s, k, dtype=int))
    if not pts:
        return np.zeros((0, 2)), np.zeros(0, dtype=int)
    return np.concatenate(pts), np.concatenate(owner)


def bin_mean(values, owner, n):
    """Arithmetic mean of the values owned by each of the n pixels."""
    v = np.asarray(values, dtype=float)
    cnt = np.bincount(owner, minlength=n).astype(float)
    tot = np.bincount(owner, weights=v, minlength=n)
    return tot / cnt


def hash01(k):
    """Deterministic pseudo-noise in [-1, 1): a fixed function of the index, not an RNG."""
    x = np.sin(np.asarray(k, dtype=float) * 12.9898 + 78.233) * 43758.5453
    return 2.0 * (x - np.floor(x)) - 1.0


# ---------------------------------------------------------------------------------------------
# generated user functions of (y, x)
# ---------------------------------------------------------------------------------------------
# A function is the JSON dict
#   {"unit": [sy, sx], "terms": [term, ...], "zero_box": [i0, i1, j0, j1] | None,
#    "frame": {"shape": [H, W], "ps": [sy, sx], "origin": [oy, ox]}}
# f(y, x) = sum of terms, times 0 for points whose pixel (i, j) lies in the inclusive index box.
# Terms use v = (y - y0)/sy, u = (x - x0)/sx (pixel units about the term's own centre):
#   const  c                     affine a*v + b*u            prod a*v*u
#   quad   a*v^2 + b*u^2         sin    a*sin(p*v + q*u + ph)
#   gauss  a*exp(-(v^2/wy^2 + u^2/wx^2)/2)
#   cusp   a*exp(-sqrt(v^2/wy^2 + u^2/wx^2 + 0.01))
#   abs    a*|p*v + q*u|
SMOOTH_POSITIVE = ("gauss", "cusp")


def pixel_index(pts, frame):
    """Native (i, j) index of the pixel containing each point.  Sample points of an s x s partition sit
    at least ps/(2s) away from every pixel boundary, far above rounding error, so floor is safe."""
    h, w = frame["shape"]
    sy, sx = frame["ps"]
    oy, ox = frame["origin"]
    top = oy + h * sy / 2.0
    left = ox - w * sx / 2.0
    i = np.floor((top - pts[:, 0]) / sy).astype(int)
    j = np.floor((pts[:, 1] - left) / sx).astype(int)
    return i, j


def feval(fn, pts):
    pts = np.asarray(pts, dtype=float).reshape(-1, 2)
    y = pts[:, 0]
    x = pts[:, 1]
    sy, sx = fn["unit"]
    out = np.zeros(len(pts))
    for t in fn["terms"]:
        k = t["k"]
        if k == "const":
            out = out + t["c"]
            continue
        v = (y - t["y0"]) / sy
        u = (x - t["x0"]) / sx
        if k == "affine":
            out = out + (t["a"] * v + t["b"] * u)
        elif k == "prod":
            out = out + t["a"] * v * u
        elif k == "quad":
            out = out + (t["a"] * v * v + t["b"] * u * u)
        elif k == "sin":
            out = out + t["a"] * np.sin(t["p"] * v + t["q"] * u + t["ph"])
        elif k == "gauss":
            out = out + t["a"] * np.exp(-0.5 * ((v / t["wy"]) ** 2 + (u / t["wx"]) ** 2))
        elif k == "cusp":
            out = out + t["a"] * np.exp(-np.sqrt((v / t["wy"]) ** 2 + (u / t["wx"]) ** 2 + 0.01))
        elif k == "abs":
            out = out + t["a"] * np.abs(t["p"] * v + t["q"] * u)
        else:
            raise ValueError("unknown term %r" % (k,))
    zb = fn.get("zero_box")
    if zb is not None:
        i, j = pixel_index(pts, fn["frame"])
        inside = (i >= zb[0]) & (i <= zb[1]) & (j >= zb[2]) & (j <= zb[3])
        out = np.where(inside, 0.0, out)
    e = fn.get("scale_pow2", 0)
    if e:
        out = out * (2.0 ** int(e))  # exact: a power of two only shifts the exponent
    return out


def unit_of(fn):
    """Magnitude unit of the function: 2**scale_pow2 (1.0 when absent)."""
    return 2.0 ** int(fn.get("scale_pow2", 0) or 0)


def zero_pixels(fn, mask):
    """Boolean (n,) in slim order: pixels on which the function is exactly zero by construction."""
    m = np.asarray(mask, dtype=bool)
    ij = np.argwhere(~m)
    zb = fn.get("zero_box")
    if zb is None:
        return np.zeros(len(ij), dtype=bool)
    return (ij[:, 0] >= zb[0]) & (ij[:, 0] <= zb[1]) & (ij[:, 1] >= zb[2]) & (ij[:, 1] <= zb[3])


def is_affine_only(fn):
    return fn.get("zero_box") is None and all(t["k"] in ("const", "affine") for t in fn["terms"])


# ---------------------------------------------------------------------------------------------
# exact (dyadic) level-table function for the stopping rule's boundary cases
# ---------------------------------------------------------------------------------------------
def level_of_offset(pts, frame):
    """Sub-size (1, 2, 4, 8 or 16) whose uniform partition contains a sample at this point's vertical
    offset from its pixel centre: offsets are (2m+1)/(2s) pixel, i.e. k = 32*|dy|/sy is 0 for s=1 and has
    exactly log2(16/s) trailing zero bits otherwise.  Neighbouring admissible offsets are 1/32 pixel apart,
    so rounding k to the nearest integer is safe."""
    h, w = frame["shape"]
    sy, sx = frame["ps"]
    oy, ox = frame["origin"]
    i, j = pixel_index(pts, frame)
    yc = oy + ((h - 1) / 2.0 - i) * sy
    k = np.rint(32.0 * np.abs(pts[:, 0] - yc) / sy).astype(int)
    k = np.clip(k, 0, 16)
    lev = np.full(len(pts), 16, dtype=int)
    lev[k % 2 == 0] = 8
    lev[k % 4 == 0] = 4
    lev[k % 8 == 0] = 2
    lev[k == 0] = 1
    lev[k == 16] = -1  # a pixel edge: never sampled by a correct partition
    return i, j, lev


def table_eval(tab, pts):
    """tab = {"frame":..., "subs": [1, s0, s1, ...], "values": {"i,j": [v_sub1, v_s0, ...]}}.
    f(y, x) = the table value of the point's pixel for the level of its offset; -77 elsewhere."""
    pts = np.asarray(pts, dtype=float).reshape(-1, 2)
    i, j, lev = level_of_offset(pts, tab["frame"])
    subs = list(tab["subs"])
    out = np.full(len(pts), -77.0)
    for n in range(len(pts)):
        row = tab["values"].get("%d,%d" % (i[n], j[n]))
        if row is not None and lev[n] in subs:
            out[n] = row[subs.index(lev[n])]
    return out


# ---------------------------------------------------------------------------------------------
# iterative scheme: the statement's stopping rule, pixel by pixel
# ---------------------------------------------------------------------------------------------
def agreement(prev, v, frac, rel, delta, exact_zero, unit=1.0):
    """Does level value v agree with the previous level's value prev?

    Returns (met, tie, info).  ratio = smaller/larger, defined only for prev > 0 (otherwise not met);
    met = ratio >= frac and (rel is None or |prev - v| <= rel).  `delta` bounds the absolute error of
    each value; a decision that could flip within that error (or within 1e-9 of a threshold) is a tie.
    `exact_zero` marks pixels whose values are exactly 0.0 by construction (no rounding involved).
    `unit` is the magnitude unit of the function values (2**k for a function scaled by 2**k): the tie band
    of the absolute tolerance is 1e-9*unit + 2*delta, so every band is relative to the function's scale."""
    info = {"nonpos": False, "abs_decisive": False}
    if exact_zero:
        info["nonpos"] = True
        return False, False, info
    if delta > 0 and abs(prev) <= delta:
        return False, True, info
    if prev <= 0:
        info["nonpos"] = True
        return False, False, info
    big = max(prev, v)
    small = min(prev, v)
    ratio = small / big
    band = (1e-9 + 4.0 * delta / big) if delta > 0 else 0.0
    if delta > 0 and abs(ratio - frac) <= band:
        return False, True, info
    ok_ratio = ratio >= frac
    ok_abs = True
    if rel is not None:
        d = abs(prev - v)
        if delta > 0 and abs(d - rel) <= 1e-9 * unit + 2.0 * delta:
            return False, True, info
        ok_abs = d <= rel
        if ok_ratio and not ok_abs:
            info["abs_decisive"] = True
    return bool(ok_ratio and ok_abs), False, info


def iterate_ref(plain, levels, frac, rel, delta, exact_zero=None, unit=1.0):
    """plain: (n,) values at the pixel centres; levels: list of (n,) binned values, one per schedule entry.

    Returns dict with out (n,), stop (n,) index into the schedule, tied (n,) bool, nonpos (n,) bool
    (a non-positive previous value was met on the pixel's path), abs_decisive (n,) bool."""
    n = len(plain)
    nl = len(levels)
    out = np.zeros(n)
    stop = np.full(n, -1, dtype=int)
    tied = np.zeros(n, dtype=bool)
    nonpos = np.zeros(n, dtype=bool)
    absd = np.zeros(n, dtype=bool)
    for p in range(n):
        prev = float(plain[p])
        ez = bool(exact_zero[p]) if exact_zero is not None else False
        for l in range(nl):
            v = float(levels[l][p])
            if l == nl - 1:
                out[p] = v
                stop[p] = l
                break
            met, tie, info = agreement(prev, v, frac, rel, delta, ez, unit)
            nonpos[p] |= info["nonpos"]
            absd[p] |= info["abs_decisive"]
            if tie:
                tied[p] = True
                break
            if met:
                out[p] = v
                stop[p] = l
                break
            prev = v
    return {"out": out, "stop": stop, "tied": tied, "nonpos": nonpos, "abs_decisive": absd}
