"""Plain-numpy mesh adjacency used as the oracle for C07.  Nothing here imports autoarray or scipy.

* rectangular mesh of shape (rows, cols), pixels indexed row-major: 4-connectivity.
* Delaunay vertex set: brute-force empty-circumcircle test over all vertex triples (n <= ~40).  Because a
  Delaunay triangulation is only unique for points in general position, two edge sets are returned:
    strict   edges of triangles whose circumcircle has every other point clearly outside
    possible edges of triangles whose circumcircle has no point clearly inside (co-circular points and
             near-degenerate triples make the triangulation ambiguous; `possible` then is a superset)
  "clearly" = in-circle determinant of the coordinates normalised to the unit box beyond +-BAND.
  strict == possible  <=>  the edge set is unambiguous.
"""
import itertools

import numpy as np

BAND = 1.0e-10  # in-circle / orientation determinants of unit-box coordinates are exact to ~1e-14


def rect_pairs(shape):
    rows, cols = int(shape[0]), int(shape[1])
    pairs = set()
    for r in range(rows):
        for c in range(cols):
            i = r * cols + c
            if c + 1 < cols:
                pairs.add((i, i + 1))
            if r + 1 < rows:
                pairs.add((i, i + cols))
    return pairs


def delaunay_pairs(points, band=BAND):
    """Returns (strict, possible) sets of unordered vertex pairs (i < j)."""
    p = np.asarray(points, dtype=float)
    n = len(p)
    p = p - p.mean(axis=0)
    ext = np.abs(p).max()
    if ext > 0:
        p = p / ext
    tri = np.array(list(itertools.combinations(range(n), 3)), dtype=int).reshape(-1, 3)
    a, b, c = p[tri[:, 0]], p[tri[:, 1]], p[tri[:, 2]]
    orient = (b[:, 0] - a[:, 0]) * (c[:, 1] - a[:, 1]) - (b[:, 1] - a[:, 1]) * (c[:, 0] - a[:, 0])
    # in-circle determinant for every (triangle, point): (T, n)
    ax = a[:, None, 0] - p[None, :, 0]; ay = a[:, None, 1] - p[None, :, 1]
    bx = b[:, None, 0] - p[None, :, 0]; by = b[:, None, 1] - p[None, :, 1]
    cx = c[:, None, 0] - p[None, :, 0]; cy = c[:, None, 1] - p[None, :, 1]
    a2 = ax * ax + ay * ay; b2 = bx * bx + by * by; c2 = cx * cx + cy * cy
    det = ax * (by * c2 - b2 * cy) - ay * (bx * c2 - b2 * cx) + a2 * (bx * cy - by * cx)
    det = det * np.sign(orient)[:, None]  # > 0: point inside the circumcircle
    own = np.zeros(det.shape, dtype=bool)
    own[np.arange(len(tri))[:, None], tri] = True
    det = np.where(own, -np.inf, det)
    degenerate = np.abs(orient) <= band
    none_inside = (det <= band).all(axis=1)
    all_outside = (det < -band).all(axis=1)
    strict, possible = set(), set()
    for t in np.nonzero(degenerate | none_inside)[0]:
        i, j, k = (int(v) for v in tri[t])
        edges = ((i, j), (i, k), (j, k))
        possible.update(edges)
        if not degenerate[t] and all_outside[t]:
            strict.update(edges)
    return strict, possible


def pairs_from_neighbor_lists(arr, sizes):
    """Unordered pairs (union of both directions) from a padded neighbour array."""
    pairs = set()
    directed = set()
    for i in range(len(sizes)):
        for k in range(int(sizes[i])):
            j = int(arr[i][k])
            directed.add((i, j))
            pairs.add((min(i, j), max(i, j)))
    return pairs, directed
