"""Plain-numpy mesh adjacency used as the oracle for C07.  Nothing here imports autoarray; scipy is only used by
`scipy_triangulation` (vertex sets with coincident vertices, where "the" triangulation is whatever qhull returns).

* rectangular mesh of shape (rows, cols), pixels indexed row-major: 4-connectivity.
* Delaunay vertex set: brute-force empty-circumcircle test over all vertex triples (n <= ~40).  Because a
  Delaunay triangulation is only unique for points in general position, two edge sets are returned:
    strict   edges of triangles whose circumcircle has every other point clearly outside
    possible edges of triangles whose circumcircle has no point clearly inside (co-circular points and
             near-degenerate triples make the triangulation ambiguous; `possible` then is a superset)
  "clearly" = in-circle determinant of the coordinates normalised to the unit box beyond +-BAND.
  strict == possible  <=>  the edge set is unambiguous.
"""
import itertools

import numpy as np

BAND = 1.0e-10  # in-circle / orientation determinants of unit-box coordinates are exact to ~1e-14


def rect_pairs(shape):
    rows, cols = int(shape[0]), int(shape[1])
    pairs = set()
    for r in range(rows):
        for c in range(cols):
            i = r * cols + c
            if c + 1 < cols:
                pairs.add((i, i + 1))
            if r + 1 < rows:
                pairs.add((i, i + cols))
    return pairs


def delaunay_pairs(points, band=BAND):
    """Returns (strict, possible) sets of unordered vertex pairs (i < j)."""
    p = np.asarray(points, dtype=float)
    n = len(p)
    p = p - p.mean(axis=0)
    ext = np.abs(p).max()
    if ext > 0:
        p = p / ext
    tri = np.array(list(itertools.combinations(range(n), 3)), dtype=int).reshape(-1, 3)
    a, b, c = p[tri[:, 0]], p[tri[:, 1]], p[tri[:, 2]]
    orient = (b[:, 0] - a[:, 0]) * (c[:, 1] - a[:, 1]) - (b[:, 1] - a[:, 1]) * (c[:, 0] - a[:, 0])
    # in-circle determinant for every (triangle, point): (T, n)
    ax = a[:, None, 0] - p[None, :, 0]; ay = a[:, None, 1] - p[None, :, 1]
    bx = b[:, None, 0] - p[None, :, 0]; by = b[:, None, 1] - p[None, :, 1]
    cx = c[:, None, 0] - p[None, :, 0]; cy = c[:, None, 1] - p[None, :, 1]
    a2 = ax * ax + ay * ay; b2 = bx * bx + by * by; c2 = cx * cx + cy * cy
    det = ax * (by * c2 - b2 * cy) - ay * (bx * c2 - b2 * cx) + a2 * (bx * cy - by * cx)
    det = det * np.sign(orient)[:, None]  # > 0: point inside the circumcircle
    own = np.zeros(det.shape, dtype=bool)
    own[np.arange(len(tri))[:, None], tri] = True
    det = np.where(own, -np.inf, det)
    degenerate = np.abs(orient) <= band
    none_inside = (det <= band).all(axis=1)
    all_outside = (det < -band).all(axis=1)
    strict, possible = set(), set()
    for t in np.nonzero(degenerate | none_inside)[0]:
        i, j, k = (int(v) for v in tri[t])
        edges = ((i, j), (i, k), (j, k))
        possible.update(edges)
        if not degenerate[t] and all_outside[t]:
            strict.update(edges)
    return strict, possible


def pairs_from_neighbor_lists(arr, sizes):
    """Unordered pairs (union of both directions) from a padded neighbour array."""
    pairs = set()
    directed = set()
    for i in range(len(sizes)):
        for k in range(int(sizes[i])):
            j = int(arr[i][k])
            directed.add((i, j))
            pairs.add((min(i, j), max(i, j)))
    return pairs, directed


# ---------------------------------------------------------------------------------------------
# "is this edge set the edge set of a triangulation of the points?"  (used when the Delaunay triangulation is
# not unique, e.g. exact lattices: any valid choice of cell diagonals is acceptable, a missing diagonal is not)
# ---------------------------------------------------------------------------------------------
def _normalised(points):
    p = np.asarray(points, dtype=float)
    p = p - p.mean(axis=0)
    ext = np.abs(p).max()
    return p / ext if ext > 0 else p


def _orient(a, b, c):
    return (b[..., 0] - a[..., 0]) * (c[..., 1] - a[..., 1]) - (b[..., 1] - a[..., 1]) * (c[..., 0] - a[..., 0])


def hull_boundary(points, band=BAND):
    """Indices of the points on the boundary of the convex hull (points in the interior of a hull edge included)
    and a flag telling whether that set is decisive: the same whether orientations within the band (other than
    exact zeros, which equal coordinates of a lattice row / column produce) count as collinear or not."""
    p = _normalised(points)
    n = len(p)
    o = _orient(p[:, None, None, :], p[None, :, None, :], p[None, None, :, :])  # (n, n, n): orient(i, j, k)
    same = (p[:, None, :] == p[None, :, :]).all(-1)
    generous = ((o >= -band).all(axis=2) & ~same).any(axis=1)          # every point left of / on the line i -> j
    strict = (((o > band) | (o == 0.0)).all(axis=2) & ~same).any(axis=1)
    return [int(i) for i in np.nonzero(generous)[0]], bool((generous == strict).all())


def hull_area(points):
    """Area of the convex hull by Andrew's monotone chain + shoelace, in the units of `points`."""
    pts = sorted(set((float(a), float(b)) for a, b in np.asarray(points, dtype=float)))
    if len(pts) < 3:
        return 0.0

    def half(seq):
        out = []
        for q in seq:
            while len(out) >= 2 and ((out[-1][0] - out[-2][0]) * (q[1] - out[-2][1])
                                     - (out[-1][1] - out[-2][1]) * (q[0] - out[-2][0])) <= 0:
                out.pop()
            out.append(q)
        return out

    lower, upper = half(pts), half(pts[::-1])
    poly = lower[:-1] + upper[:-1]
    s = 0.0
    for k in range(len(poly)):
        x0, y0 = poly[k]; x1, y1 = poly[(k + 1) % len(poly)]
        s += x0 * y1 - x1 * y0
    return abs(s) / 2.0


def planar_defects(points, pairs, band=BAND):
    """Returns (defects, undecided): human-readable defects that stop `pairs` from being a planar straight-line graph on
    the points -- two edges crossing in their interiors (all four orientations beyond the band), or an edge running through
    a third point that is *exactly* collinear with it (equal coordinates of a lattice row / column give exact zeros).  A
    point within the band of an edge but not exactly on it may legitimately form a thin triangle with it: undecided."""
    p = _normalised(points)
    e = np.array(sorted(pairs), dtype=int).reshape(-1, 2)
    out = []
    if len(e) == 0:
        return out, 0
    a, b = p[e[:, 0]], p[e[:, 1]]
    o = _orient(a[:, None, :], b[:, None, :], p[None, :, :])                    # (E, n)
    t = ((p[None, :, :] - a[:, None, :]) * (b - a)[:, None, :]).sum(-1) / ((b - a) ** 2).sum(-1)[:, None]
    between = (t > 1e-9) & (t < 1 - 1e-9)
    between[np.arange(len(e))[:, None], e] = False
    through = (o == 0.0) & between
    undecided = int(((np.abs(o) <= band) & (o != 0.0) & between).sum())
    for k, c in np.argwhere(through)[:3]:
        out.append("edge (%d, %d) passes through vertex %d" % (e[k][0], e[k][1], c))
    o1 = _orient(a[:, None, :], b[:, None, :], a[None, :, :]); o2 = _orient(a[:, None, :], b[:, None, :], b[None, :, :])
    cross = (o1 * o2 < 0) & (np.abs(o1) > band) & (np.abs(o2) > band)
    cross = cross & cross.T
    share = (e[:, None, 0] == e[None, :, 0]) | (e[:, None, 0] == e[None, :, 1]) | \
            (e[:, None, 1] == e[None, :, 0]) | (e[:, None, 1] == e[None, :, 1])
    cross &= ~share
    for k, m in np.argwhere(np.triu(cross))[:3]:
        out.append("edges (%d, %d) and (%d, %d) cross" % (e[k][0], e[k][1], e[m][0], e[m][1]))
    return out, undecided


def triangulation_defects(points, pairs, band=BAND):
    """Defects that stop `pairs` from being the edge set of a triangulation of all the points: not planar, or
    (a planar straight-line graph on n points with h of them on the hull boundary is a triangulation iff it has
    3n - 3 - h edges) the wrong number of edges.  Second value: number of comparisons left undecided because a
    near-collinear (not exactly collinear) triple sits inside the tolerance band; the edge count is only demanded
    when every collinearity involved is exact or clear."""
    out, undecided = planar_defects(points, pairs, band)
    boundary, decisive = hull_boundary(points, band)
    if not decisive or undecided:
        return out, undecided + (0 if decisive else 1)
    n, h = len(points), len(boundary)
    want = 3 * n - 3 - h
    if len(pairs) != want:
        out.append("%d edges, a triangulation of %d points with %d on the hull boundary has %d" % (len(pairs), n, h, want))
    return out, 0


def simplices_defects(points, simplices, band=BAND):
    """Returns (defects, edge set, undecided).  Defects that stop `simplices` (m, 3) from tiling the convex hull of the
    points: an exactly degenerate simplex, a point strictly inside (beyond the band) or exactly on an edge of a simplex,
    total area different from the hull area (1e-9 relative).  Together with planarity of the edge set this makes the
    simplices a triangulation.  Thin simplices / points within the band are undecided and counted."""
    p = _normalised(points)
    s = np.asarray(simplices, dtype=int).reshape(-1, 3)
    out = []
    edges = set()
    for i, j, k in s:
        for u, v in ((i, j), (i, k), (j, k)):
            edges.add((int(min(u, v)), int(max(u, v))))
    a, b, c = p[s[:, 0]], p[s[:, 1]], p[s[:, 2]]
    area2 = _orient(a, b, c)
    for k in np.nonzero(area2 == 0.0)[0][:3]:
        out.append("simplex %s is degenerate" % (tuple(int(v) for v in s[k]),))
    thin = (np.abs(area2) <= band)
    undecided = int((thin & (area2 != 0.0)).sum())
    sgn = np.sign(area2)[:, None]
    l = np.stack([_orient(b[:, None, :], c[:, None, :], p[None, :, :]) * sgn,
                  _orient(c[:, None, :], a[:, None, :], p[None, :, :]) * sgn,
                  _orient(a[:, None, :], b[:, None, :], p[None, :, :]) * sgn], axis=-1)          # (m, n, 3)
    own = np.zeros(l.shape[:2], dtype=bool)
    own[np.arange(len(s))[:, None], s] = True
    ok_tri = ~thin[:, None] & ~own
    strictly = (l > band).all(-1)
    exact_edge = ((l > band) | (l == 0.0)).all(-1) & (l == 0.0).any(-1)
    inside = (strictly | exact_edge) & ok_tri
    near = (l >= -band).all(-1) & ok_tri & ~inside
    undecided += int(near.sum())
    for k, q in np.argwhere(inside)[:3]:
        out.append("vertex %d lies in simplex %s" % (q, tuple(int(v) for v in s[k])))
    total, hull = float(np.abs(area2).sum() / 2.0), hull_area(p)
    if abs(total - hull) > 1e-9 * hull:
        out.append("simplex areas sum to %.12g, hull area %.12g (normalised units)" % (total, hull))
    return out, edges, undecided


# ---------------------------------------------------------------------------------------------
# vertex sets with (nearly) coincident vertices: qhull drops one of each coincident pair from the triangulation, the
# dropped vertex then has no neighbours at all.  The reference is scipy's own triangulation of the points, computed here
# (not read from the library).
# ---------------------------------------------------------------------------------------------
def scipy_triangulation(points):
    """Returns (edges, absent, simplices): unordered vertex pairs sharing an edge of scipy.spatial.Delaunay(points),
    the vertices that appear in no simplex (dropped by qhull, listed in `coplanar`), and the simplices."""
    import scipy.spatial
    p = np.asarray(points, dtype=float)
    d = scipy.spatial.Delaunay(p)
    simplices = np.asarray(d.simplices, dtype=int)
    edges = set()
    for i, j, k in simplices:
        for u, v in ((i, j), (i, k), (j, k)):
            edges.add((int(min(u, v)), int(max(u, v))))
    used = set(int(v) for v in simplices.ravel())
    absent = sorted(set(range(len(p))) - used)
    return edges, absent, simplices


def nearest_other_distance(points, idx):
    """Distance from points[idx] to the nearest other point, relative to the extent of the set."""
    p = np.asarray(points, dtype=float)
    ext = float(np.ptp(p, axis=0).max()) or 1.0
    d = np.sqrt(((p - p[idx]) ** 2).sum(-1))
    d[idx] = np.inf
    return float(d.min() / ext)


def simplices_area_defect(points, simplices):
    """None if the simplex areas sum to the hull area within 1e-9, else a message."""
    p = _normalised(points)
    s = np.asarray(simplices, dtype=int).reshape(-1, 3)
    total = float(np.abs(_orient(p[s[:, 0]], p[s[:, 1]], p[s[:, 2]])).sum() / 2.0)
    hull = hull_area(p)
    if abs(total - hull) > 1e-9 * hull:
        return "simplex areas sum to %.12g, hull area %.12g (normalised units)" % (total, hull)
    return None
