"""Reference model of the direct Fourier transform (C13): closed-form pixel centres and the dense
operator A[k, p] = exp(-2 pi i (x_p u_k + y_p v_k)), plain numpy, no autoarray code.

Pixel centres follow the closed form of property C02: for a frame of shape (H, W), pixel scales
(sy, sx) in arcsec and origin (oy, ox),

    y(i) = ((H - 1) / 2 - i) * sy + oy        (row 0 is the top, y decreases with the row index)
    x(j) = (j - (W - 1) / 2) * sx + ox

and radians = arcsec * pi / 648000.  Unmasked pixels are listed in row-major order (C01).
"""
import numpy as np

ARCSEC_TO_RAD = np.pi / 648000.0


def centres_arcsec(mask, pixel_scales, origin):
    """(n, 2) array of (y, x) centres of the unmasked pixels (mask True = masked), row-major."""
    m = np.asarray(mask, dtype=bool)
    h, w = m.shape
    ii, jj = np.nonzero(~m)
    y = ((h - 1) / 2.0 - ii) * float(pixel_scales[0]) + float(origin[0])
    x = (jj - (w - 1) / 2.0) * float(pixel_scales[1]) + float(origin[1])
    return np.stack([y, x], axis=-1)


def centres_radians(mask, pixel_scales, origin):
    return centres_arcsec(mask, pixel_scales, origin) * ARCSEC_TO_RAD


def operator(grid_radians, uv):
    """Dense (K, N) complex operator for grid (N, 2) = (y, x) in radians and uv (K, 2) = (u, v)."""
    g = np.asarray(grid_radians, dtype=float).reshape(-1, 2)
    b = np.asarray(uv, dtype=float).reshape(-1, 2)
    phase = np.outer(b[:, 0], g[:, 1]) + np.outer(b[:, 1], g[:, 0])  # u*x + v*y, cycles
    return np.exp(-2.0j * np.pi * phase)


def adjoint_real(a, vis):
    """Re(A^H V) for A (K, N) and complex V (K,): a real vector of length N."""
    return np.real(np.conj(a).T @ np.asarray(vis, dtype=complex))


def native_from_slim(mask, slim, fill=0.0):
    m = np.asarray(mask, dtype=bool)
    out = np.full(m.shape, fill, dtype=np.asarray(slim).dtype)
    out[~m] = slim
    return out


def normal_equations(t, vis, noise, noreg=(), eps=0.0, t_abs=None):
    """D_j = sum_k Re V_k Re T_kj / sr_k^2 + Im V_k Im T_kj / si_k^2,
    F = Tr^T diag(1/sr^2) Tr + Ti^T diag(1/si^2) Ti (+ eps on the listed diagonal entries).
    Also returns the magnitudes of the summed terms (rounding scales). When T is itself a sum of terms that may cancel
    (T = A M compared end to end), pass t_abs = |A| |M|: the scales are then taken from the terms summed into T, not from
    a T that may be pure rounding noise."""
    t = np.asarray(t, dtype=complex)
    v = np.asarray(vis, dtype=complex)
    s = np.asarray(noise, dtype=complex)
    wr = 1.0 / s.real ** 2
    wi = 1.0 / s.imag ** 2
    d = t.real.T @ (wr * v.real) + t.imag.T @ (wi * v.imag)
    f = t.real.T @ (wr[:, None] * t.real) + t.imag.T @ (wi[:, None] * t.imag)
    for i in noreg:
        f[i, i] += eps
    ar = np.abs(t.real) if t_abs is None else np.asarray(t_abs, dtype=float)
    ai = np.abs(t.imag) if t_abs is None else np.asarray(t_abs, dtype=float)
    scale_d = float((ar.T @ np.abs(wr * v.real) + ai.T @ np.abs(wi * v.imag)).max(initial=0.0))
    scale_f = float((ar.T @ (wr[:, None] * ar) + ai.T @ (wi[:, None] * ai)).max(initial=0.0)) + eps
    return d, f, scale_d, scale_f
