"""Environment setup shared by every check: import path, determinism, config, optional stubs.

Importing this module has side effects by design and must happen before `import autoarray`.
"""
import os
import sys
import warnings
import logging

VERIF_ROOT = os.path.dirname(os.path.dirname(os.path.abspath(__file__)))
REPO = os.environ.get("VERIF_REPO", "/repo")
GUARD = "PYAUTOARRAY_VERIF"


def ensure_hashseed():
    """Re-exec once with PYTHONHASHSEED=0 so set/dict iteration order is reproducible."""
    if os.environ.get("PYTHONHASHSEED") != "0":
        os.environ["PYTHONHASHSEED"] = "0"
        os.execv(sys.executable, [sys.executable, "-m", "vp.run"] + sys.argv[1:])


_done = False


def setup():
    global _done
    if _done:
        return
    _done = True
    os.environ.setdefault(GUARD, "1")
    os.environ.setdefault("OMP_NUM_THREADS", "1")
    os.environ.setdefault("OPENBLAS_NUM_THREADS", "1")
    os.environ.setdefault("MKL_NUM_THREADS", "1")
    if REPO not in sys.path:
        sys.path.insert(0, REPO)
    if VERIF_ROOT not in sys.path:
        sys.path.insert(1, VERIF_ROOT)
    warnings.filterwarnings("ignore")
    logging.disable(logging.CRITICAL)
    try:
        import pylops  # noqa: F401
    except Exception:
        from vp.stubs import pylops as _stub

        sys.modules["pylops"] = _stub
    import numpy as np

    np.seterr(all="ignore")
    from autoconf import conf
    import autoarray  # noqa: F401  (registers the package default config)

    assert os.path.realpath(autoarray.__file__).startswith(os.path.realpath(REPO)), (
        "autoarray imported from %s, expected under %s" % (autoarray.__file__, REPO)
    )
    conf.instance.push(new_path=os.path.join(VERIF_ROOT, "vp", "config"),
                       output_path=os.path.join(VERIF_ROOT, ".output"))
