"""Minimal stand-in for the optional `pylops` package.

`autoarray.operators.transformer` only needs `pylops.LinearOperator` as a base class of
TransformerDFT / TransformerNUFFT; the direct Fourier transform code under test (C13) never calls
into it. Installed into sys.modules by vp.env only when the real package is absent."""


class LinearOperator:
    def __init__(self, *args, **kwargs):
        pass
