"""Shared scenario strategies and builders for the inversion-related properties (C04-C08, C11, C15).

A scenario is a plain-JSON dict:
  mask, pixel_scales, origin, kernel, data, noise           (imaging part)
  objs: [ {type: rect|delaunay|func, ...}, ... ]            (ordered linear objects)
Builders turn it into autoarray objects.  The masked Imaging dataset is built *directly*
(`Array2D(values, mask)`, `use_normalized_psf=False`) so the PSF under test is exactly the generated
one (Imaging.apply_mask would silently re-normalise it).
"""
import math

import numpy as np
from hypothesis import strategies as st

from vp import gens

# ---------------------------------------------------------------------------------------------
# strategies
# ---------------------------------------------------------------------------------------------


@st.composite
def imaging_cases(draw, max_inner=5, max_k=3, kernel_kinds=("nonneg", "signed", "sparse", "normalised", "integer"),
                  min_inner=2, min_unmasked=2, data_kind=None, unit_exponents=(0,)):
    ker = draw(gens.kernels(max_side=max_k, kinds=kernel_kinds))
    kh, kw = len(ker["values"]), len(ker["values"][0])
    hy, hx = kh // 2, kw // 2
    inner = draw(gens.masks(lo=min_inner, hi=max_inner, min_unmasked=min_unmasked))
    ih, iw = len(inner), len(inner[0])
    extra = draw(st.integers(0, 1))
    h, w = ih + 2 * (hy + extra), iw + 2 * (hx + extra)
    mask = [[True] * w for _ in range(h)]
    for i in range(ih):
        for j in range(iw):
            mask[i + hy + extra][j + hx + extra] = inner[i][j]
    n = sum(1 for r in mask for v in r if not v)
    dk = data_kind or draw(st.sampled_from(["positive", "any", "any", "zero-mean", "negative"]))
    if dk == "positive":
        data = draw(st.lists(gens.reals(0.1, 10), min_size=n, max_size=n))
    elif dk == "negative":
        data = draw(st.lists(gens.reals(-10, -0.1), min_size=n, max_size=n))
    else:
        data = draw(st.lists(gens.reals(-10, 10), min_size=n, max_size=n))
        if dk == "zero-mean" and n:
            mu = sum(data) / n
            data = [d - mu for d in data]
    noise = draw(st.lists(gens.positives(0.1, 5.0), min_size=n, max_size=n))
    # flux unit: data and noise multiplied by an exact power of two (the normal equations are homogeneous in it);
    # absolute thresholds in the implementation only bite in some magnitude regimes
    ue = draw(st.sampled_from(list(unit_exponents)))
    if ue:
        data = [d * 2.0 ** ue for d in data]
        noise = [v * 2.0 ** ue for v in noise]
    return {
        "unit_exponent": ue,
        "mask": mask, "pixel_scales": draw(gens.pixel_scales()), "origin": draw(gens.origins(mag=20.0)),
        "kernel": ker["values"], "kernel_kind": ker["kind"], "data": data, "data_kind": dk, "noise": noise,
    }


@st.composite
def warps(draw):
    kind = draw(st.sampled_from(["identity", "affine", "affine", "warp", "warp"]))
    w = {"a": [[1.0, 0.0], [0.0, 1.0]], "b": [0.0, 0.0], "amp": [0.0, 0.0], "freq": [1.0, 1.0],
         "phase": [0.0, 0.0], "jit": 0.0}
    if kind == "identity":
        return w
    ang = draw(st.floats(-math.pi, math.pi))
    sy = draw(st.floats(0.4, 2.5)); sx = draw(st.floats(0.4, 2.5)); sh = draw(st.floats(-0.5, 0.5))
    c, s = math.cos(ang), math.sin(ang)
    # rotation * shear * scale: determinant sy*sx > 0
    w["a"] = [[c * sy + (-s) * 0.0, c * sh * sy - s * sx], [s * sy, s * sh * sy + c * sx]]
    w["b"] = [draw(gens.reals(-3, 3)), draw(gens.reals(-3, 3))]
    if kind == "warp":
        w["amp"] = [draw(st.floats(0.0, 0.6)), draw(st.floats(0.0, 0.6))]
        w["freq"] = [draw(st.floats(0.3, 3.0)), draw(st.floats(0.3, 3.0))]
        w["phase"] = [draw(st.floats(0.0, 6.0)), draw(st.floats(0.0, 6.0))]
        w["jit"] = draw(st.sampled_from([0.0, 0.01, 0.05]))
    return w


REG_TYPES = ["constant", "constant_zeroth", "constant_split", "adaptive_brightness",
             "adaptive_brightness_split", "brightness_zeroth", "gaussian_kernel", "exponential_kernel",
             "matern_kernel"]


@st.composite
def reg_specs(draw, types=("constant",), allow_none=True):
    if allow_none and draw(st.integers(0, 3)) == 0:
        return None
    t = draw(st.sampled_from(list(types)))
    logu = st.floats(-2.0, 2.0).map(lambda e: 10.0 ** e)
    spec = {"type": t}
    if t in ("constant", "constant_split"):
        spec["coefficient"] = draw(logu)
    elif t == "constant_zeroth":
        spec["coefficient_neighbor"] = draw(logu); spec["coefficient_zeroth"] = draw(logu)
    elif t in ("adaptive_brightness", "adaptive_brightness_split"):
        spec["inner_coefficient"] = draw(logu); spec["outer_coefficient"] = draw(logu)
        spec["signal_scale"] = draw(st.floats(0.1, 2.0))
    elif t == "brightness_zeroth":
        spec["coefficient"] = draw(logu); spec["signal_scale"] = draw(st.floats(0.1, 2.0))
    elif t in ("gaussian_kernel", "exponential_kernel"):
        spec["coefficient"] = draw(logu); spec["scale_rel"] = draw(st.floats(0.3, 4.0))
    elif t == "matern_kernel":
        spec["coefficient"] = draw(logu); spec["scale_rel"] = draw(st.floats(0.3, 4.0))
        spec["nu"] = draw(st.sampled_from([0.5, 1.5, 2.5]))
    return spec


@st.composite
def sub_sizes(draw, n, max_sub=3, per_pixel=None):
    pp = draw(st.booleans()) if per_pixel is None else per_pixel
    if not pp:
        return draw(st.integers(1, max_sub))
    return draw(st.lists(st.integers(1, max_sub), min_size=n, max_size=n))


@st.composite
def obj_specs(draw, n_unmasked, kinds=("rect", "delaunay", "func"), reg_types=("constant",),
              max_sub=3, func_kinds=("signed", "nonneg", "sparse"), reg_none=True, max_mesh=5, sub=None):
    t = draw(st.sampled_from(list(kinds)))
    if t == "func":
        cols = draw(st.integers(1, 3))
        fk = draw(st.sampled_from(list(func_kinds)))
        lo = 0.0 if fk == "nonneg" else -3.0
        vals = draw(st.lists(gens.reals(lo, 3.0), min_size=n_unmasked * cols, max_size=n_unmasked * cols))
        if fk == "sparse":
            keep = draw(st.lists(st.booleans(), min_size=len(vals), max_size=len(vals)))
            vals = [v if k else 0.0 for v, k in zip(vals, keep)]
        # keep columns linearly independent-ish and non-null: add a distinct ramp
        mat = [[vals[i * cols + j] + 0.37 * ((i + 1) ** (j + 1) % 7 + 1) * (1 if fk == "nonneg" else (-1) ** (i + j))
                for j in range(cols)] for i in range(n_unmasked)]
        return {"type": "func", "matrix": mat, "func_kind": fk,
                "reg": draw(reg_specs(("constant",))) if draw(st.integers(0, 3)) == 0 else None}
    spec = {"type": t, "sub": sub if sub is not None else draw(sub_sizes(n_unmasked, max_sub)), "warp": draw(warps()),
            "reg": draw(reg_specs(reg_types, allow_none=reg_none))}
    if t == "rect":
        spec["shape"] = [draw(st.integers(3, max_mesh)), draw(st.integers(3, max_mesh))]
    else:
        ny = draw(st.integers(2, max_mesh)); nx = draw(st.integers(2, max_mesh))
        if ny * nx < 5:
            nx = 3
        spec["lattice"] = [ny, nx]
        spec["margin"] = draw(st.sampled_from([0.6, 0.8, 1.05, 1.3]))
        spec["jitter"] = draw(st.lists(st.floats(-0.3, 0.3), min_size=2 * ny * nx, max_size=2 * ny * nx))
    return spec


@st.composite
def scenarios(draw, min_objs=1, max_objs=3, obj_kwargs=None, img_kwargs=None, same_sub=True):
    img = draw(imaging_cases(**(img_kwargs or {})))
    n = sum(1 for r in img["mask"] for v in r if not v)
    k = draw(st.integers(min_objs, max_objs))
    okw = dict(obj_kwargs or {})
    objs = []
    for _ in range(k):
        objs.append(draw(obj_specs(n, **okw)))
    img["objs"] = objs
    return img


# ---------------------------------------------------------------------------------------------
# builders
# ---------------------------------------------------------------------------------------------


def _hash01(k):
    """Deterministic pseudo-jitter in [-1, 1) (a fixed function of the index, not an RNG)."""
    x = np.sin(np.asarray(k, dtype=float) * 12.9898 + 78.233) * 43758.5453
    return 2.0 * (x - np.floor(x)) - 1.0


def apply_warp(grid, warp, centre):
    g = np.asarray(grid, dtype=float) - np.asarray(centre, dtype=float)
    a = np.asarray(warp["a"], dtype=float)
    out = g @ a.T
    out[:, 0] += warp["amp"][0] * np.sin(warp["freq"][0] * g[:, 1] + warp["phase"][0])
    out[:, 1] += warp["amp"][1] * np.sin(warp["freq"][1] * g[:, 0] + warp["phase"][1])
    if warp["jit"]:
        idx = np.arange(len(g))
        out[:, 0] += warp["jit"] * _hash01(idx)
        out[:, 1] += warp["jit"] * _hash01(idx + 0.5)
    return out + np.asarray(centre, dtype=float) + np.asarray(warp["b"], dtype=float)


class Scene:
    pass


def build_mask(case):
    import autoarray as aa
    m = np.asarray(case["mask"], dtype=bool)
    return aa.Mask2D(mask=gens.vary_layout(m), pixel_scales=tuple(case["pixel_scales"]), origin=tuple(case["origin"]))


def _noown(desc, arr):
    return arr


def build_imaging(case, mask=None, own=_noown):
    import autoarray as aa
    mask = mask if mask is not None else build_mask(case)
    k = np.asarray(case["kernel"], dtype=float)
    psf = aa.Kernel2D.no_mask(values=own("psf-values", k.copy()), pixel_scales=tuple(case["pixel_scales"]), normalize=False)
    data = aa.Array2D(values=own("data-values", np.asarray(case["data"], dtype=float).copy()), mask=mask)
    noise = aa.Array2D(values=own("noise-values", np.asarray(case["noise"], dtype=float).copy()), mask=mask)
    ds = aa.Imaging(data=data, noise_map=noise, psf=psf, use_normalized_psf=False)
    return ds


def build_reg(spec, min_sep=1.0):
    import autoarray as aa
    if spec is None:
        return None
    t = spec["type"]
    if t == "constant":
        return aa.reg.Constant(coefficient=spec["coefficient"])
    if t == "constant_split":
        return aa.reg.ConstantSplit(coefficient=spec["coefficient"])
    if t == "constant_zeroth":
        return aa.reg.ConstantZeroth(coefficient_neighbor=spec["coefficient_neighbor"], coefficient_zeroth=spec["coefficient_zeroth"])
    if t == "adaptive_brightness":
        return aa.reg.AdaptiveBrightness(inner_coefficient=spec["inner_coefficient"], outer_coefficient=spec["outer_coefficient"], signal_scale=spec["signal_scale"])
    if t == "adaptive_brightness_split":
        return aa.reg.AdaptiveBrightnessSplit(inner_coefficient=spec["inner_coefficient"], outer_coefficient=spec["outer_coefficient"], signal_scale=spec["signal_scale"])
    if t == "brightness_zeroth":
        return aa.reg.BrightnessZeroth(coefficient=spec["coefficient"], signal_scale=spec["signal_scale"])
    if t == "gaussian_kernel":
        return aa.reg.GaussianKernel(coefficient=spec["coefficient"], scale=spec["scale_rel"] * min_sep)
    if t == "exponential_kernel":
        return aa.reg.ExponentialKernel(coefficient=spec["coefficient"], scale=spec["scale_rel"] * min_sep)
    if t == "matern_kernel":
        return aa.reg.MaternKernel(coefficient=spec["coefficient"], scale=spec["scale_rel"] * min_sep, nu=spec["nu"])
    raise ValueError(t)


def over_sampler_for(mask, sub):
    import autoarray as aa
    if isinstance(sub, int):
        return aa.OverSamplerUniform(mask=mask, sub_size=sub)
    return aa.OverSamplerUniform(mask=mask, sub_size=aa.Array2D(values=np.asarray(sub, dtype=int), mask=mask))


def delaunay_vertices(spec, src):
    """Jittered lattice over the (margin-scaled) bounding box of the source grid: general position
    by construction (minimum separation 0.4 lattice cells)."""
    ny, nx = spec["lattice"]
    y0, y1 = src[:, 0].min(), src[:, 0].max()
    x0, x1 = src[:, 1].min(), src[:, 1].max()
    cy, cx = (y0 + y1) / 2, (x0 + x1) / 2
    hy = max((y1 - y0) / 2, 0.25) * spec["margin"]
    hx = max((x1 - x0) / 2, 0.25) * spec["margin"]
    dy = 2 * hy / ny; dx = 2 * hx / nx
    jit = np.asarray(spec["jitter"], dtype=float).reshape(ny * nx, 2)
    verts = []
    for i in range(ny):
        for j in range(nx):
            verts.append([cy - hy + (i + 0.5 + jit[i * nx + j, 0]) * dy, cx - hx + (j + 0.5 + jit[i * nx + j, 1]) * dx])
    return np.asarray(verts), min(dy, dx) * 0.4


def build_linear_obj(spec, mask, adapt_data=None, own=_noown):
    """Returns (linear_obj, info dict)."""
    import autoarray as aa
    from autoarray.inversion.linear_obj.func_list import AbstractLinearObjFuncList
    info = {}
    if spec["type"] == "func":
        mat = np.asarray(spec["matrix"], dtype=float)

        class VPFuncList(AbstractLinearObjFuncList):
            def __init__(self, grid, mapping_matrix, regularization):
                super().__init__(grid=grid, regularization=regularization)
                self._mm = mapping_matrix

            @property
            def params(self):
                return self._mm.shape[1]

            @property
            def mapping_matrix(self):
                return self._mm

        grid = aa.Grid2D.from_mask(mask=mask)
        obj = VPFuncList(grid=grid, mapping_matrix=own("func-matrix", mat.copy()), regularization=build_reg(spec.get("reg")))
        info["mapping_matrix_in"] = mat
        return obj, info
    osamp = over_sampler_for(mask, spec["sub"])
    base = np.asarray(osamp.over_sampled_grid)
    centre = np.asarray(mask.origin, dtype=float)
    src = apply_warp(base, spec["warp"], centre)
    info["source_grid"] = src
    info["over_sampler"] = osamp
    src_grid = aa.Grid2DIrregular(values=own("source-grid", src.copy()))
    if spec["type"] == "rect":
        mesh = aa.Mesh2DRectangular.overlay_grid(grid=src_grid, shape_native=tuple(spec["shape"]))
        min_sep = float(min(mesh.pixel_scales))
        image_mesh = None
    else:
        verts, min_sep = delaunay_vertices(spec, src)
        info["vertices"] = verts
        mesh = aa.Mesh2DDelaunay(values=own("delaunay-vertices", verts.copy()))
        image_mesh = None
    info["mesh"] = mesh
    info["min_sep"] = min_sep
    mg = aa.MapperGrids(mask=mask, source_plane_data_grid=src_grid, source_plane_mesh_grid=mesh,
                        image_plane_mesh_grid=image_mesh, adapt_data=adapt_data)
    mapper = aa.Mapper(mapper_grids=mg, over_sampler=osamp, regularization=build_reg(spec.get("reg"), min_sep))
    return mapper, info


def build_scene(case, adapt_values=None, own=_noown):
    import autoarray as aa
    s = Scene()
    s.mask = build_mask(case)
    s.dataset = build_imaging(case, s.mask, own=own)
    adapt = None
    if adapt_values is not None:
        adapt = aa.Array2D(values=np.asarray(adapt_values, dtype=float), mask=s.mask)
    s.objs, s.infos = [], []
    for spec in case.get("objs", []):
        o, info = build_linear_obj(spec, s.mask, adapt, own=own)
        s.objs.append(o)
        s.infos.append(info)
    return s


def scene_labels(case, ctx):
    k = np.asarray(case["kernel"])
    ctx.label("psf:nonsquare" if k.shape[0] != k.shape[1] else "psf:square")
    ctx.label("psf:signed" if (k < 0).any() else "psf:nonneg")
    ctx.label("psf:%dx%d" % k.shape)
    types = [o["type"] for o in case.get("objs", [])]
    ctx.label("objs:%d" % len(types))
    for t in set(types):
        ctx.label("obj:%s" % t)
    if "func" in types and types[-1] != "func":
        ctx.label("objs:func-not-last")
    if "func" in types and len(set(types)) > 1:
        ctx.label("objs:mixed-func-mapper")
    for o in case.get("objs", []):
        if o["type"] != "func":
            ctx.label("sub:per-pixel" if isinstance(o["sub"], list) and len(set(o["sub"])) > 1 else "sub:uniform")
        ctx.label("reg:none" if o.get("reg") is None else "reg:%s" % o["reg"]["type"])
    ctx.label("data:%s" % case.get("data_kind", "?"), "unit:2^%d" % case.get("unit_exponent", 0))
