"""Hypothesis driver, sharding, case recording, replay files, evidence and exit codes.

A property module (vp/checks/cXX.py) exposes

    PROPERTY = "C03"
    RULE     = "text: how cases are generated and what makes one non-trivial"
    ASSUMPTIONS = [...]
    SUBCHECKS = [SubCheck(...), ...]

A SubCheck is one of three kinds:

  given   strategy -> JSON case, body(case, ctx)           (Hypothesis @given)
  enum    cases(tier) -> iterable of JSON cases, body      (exhaustive enumeration, sharded)
  machine machine(run) -> RuleBasedStateMachine subclass,  (Hypothesis stateful)
          body(case, ctx) replays case["history"]

Every case is a plain JSON value, so a failing case *is* the replay file.  The body reports a
failure with ctx.fail(key, msg); `key` names the root cause (entry point + discriminating class),
which is what known_findings.json lists.
"""
import hashlib
import json
import os
import sys
import time
import traceback
import multiprocessing

import numpy as np

from vp import env

VERIF_ROOT = env.VERIF_ROOT
KNOWN_PATH = os.path.join(VERIF_ROOT, "known_findings.json")
REPLAY_DIR = os.path.join(VERIF_ROOT, "replays")
REPLAY_OUT = os.environ.get("VERIF_REPLAY_OUT") or REPLAY_DIR  # where new failing cases are written
EVIDENCE_DIR = os.environ.get("VERIF_EVIDENCE_OUT") or os.path.join(VERIF_ROOT, "evidence")  # tools that run
# the checks against a modified tree (mutants, seeded changes, coverage audit) redirect it so the committed evidence stays clean

MAX_KEYS_PER_SUBCHECK = 4  # collect-then-shrink: distinct root causes enumerated per sub-check
SHRINK_BUDGET_S = {"quick": 45.0, "thorough": 240.0}


_POISON = [0]


def poison_heap():
    """Fill the allocator's free lists with recognisable garbage (blocks of every small size allocated, filled, freed) so that
    a buffer the code under test obtains with np.empty and does not fully write shows garbage instead of the zeros a fresh
    process tends to hand out. Buffers from np.zeros or fully written ones are unaffected. Called before every case."""
    import numpy as _np
    _POISON[0] += 1
    v = (1.0e300, -7.0e250, 3.0e-300, 1.152921504606847e18)[_POISON[0] % 4]
    blocks = [_np.full(k, v) for k in range(1, 129) for _ in range(2)]
    del blocks


class Violation(Exception):
    def __init__(self, key, msg):
        super().__init__("%s: %s" % (key, msg))
        self.key = key
        self.msg = msg


class KnownSkip(Exception):
    """Raised to end a case early after a known finding made the rest of the body meaningless."""


class HarnessError(Exception):
    pass


def canon(case):
    return json.dumps(case, sort_keys=True, separators=(",", ":"), allow_nan=True)


def case_hash(case):
    return hashlib.sha1(canon(case).encode()).hexdigest()[:16]


def load_known():
    if not os.path.exists(KNOWN_PATH):
        return {"findings": [], "fixed": []}
    with open(KNOWN_PATH) as f:
        return json.load(f)


class Ctx:
    """Per-case context handed to a body."""

    def __init__(self, prop, sub, known_keys, excluded_keys=()):
        self.prop = prop
        self.sub = sub
        self.known_keys = known_keys
        self.excluded_keys = excluded_keys
        self.labels = set()
        self.nontrivial = False
        self.ties = 0
        self.known_hits = {}
        self.excluded_hits = 0
        self.comparisons = 0

    # classification -------------------------------------------------------------------------
    def label(self, *labels):
        for l in labels:
            if l:
                self.labels.add(str(l))

    def nt(self, flag=True):
        if flag:
            self.nontrivial = True

    def tie(self, n=1):
        self.ties += int(n)

    # verdicts -------------------------------------------------------------------------------
    def fullkey(self, key):
        return "%s/%s" % (self.prop, key)

    def fail(self, key, msg):
        fk = self.fullkey(key)
        if fk in self.known_keys:
            self.known_hits[fk] = self.known_hits.get(fk, 0) + 1
            return
        if fk in self.excluded_keys:
            self.excluded_hits += 1
            return
        raise Violation(fk, msg() if callable(msg) else msg)

    def fail_stop(self, key, msg):
        """Like fail(), but if the key is known/excluded the rest of the case is skipped."""
        self.fail(key, msg)
        raise KnownSkip(key)

    def check(self, cond, key, msg=""):
        self.comparisons += 1
        if not cond:
            self.fail(key, msg)

    def equal(self, got, want, key, what=""):
        """Exact equality of arrays / scalars (shape and values)."""
        self.comparisons += 1
        try:
            g = np.asarray(got)
            w = np.asarray(want)
            ok = g.shape == w.shape and bool(np.array_equal(g, w))
        except Exception as e:  # ragged / non-array outputs
            ok = False
            g, w = got, want
        if not ok:
            self.fail(key, "%s: got %s want %s" % (what, _short(got), _short(want)))

    def close(self, got, want, key, rtol=0.0, atol=0.0, what=""):
        """|got - want| <= atol + rtol*|want| element-wise; shapes must agree; non-finite fails
        unless identical."""
        self.comparisons += 1
        try:
            g = np.asarray(got)
            w = np.asarray(want)
            if g.shape != w.shape:
                ok = False
            else:
                gf = g.astype(complex) if (np.iscomplexobj(g) or np.iscomplexobj(w)) else g.astype(float)
                wf = w.astype(complex) if (np.iscomplexobj(g) or np.iscomplexobj(w)) else w.astype(float)
                fin = np.isfinite(gf) & np.isfinite(wf)
                same = np.where(fin, np.abs(gf - wf) <= atol + rtol * np.abs(wf), gf == wf)
                ok = bool(np.all(same))
        except Exception:
            ok = False
        if not ok:
            self.fail(key, lambda: "%s: got %s want %s (rtol=%g atol=%g maxdiff=%s)" % (
                what, _short(got), _short(want), rtol, atol, _maxdiff(got, want)))

    def impl(self, key, fn, *args, **kwargs):
        """Call implementation code that must not raise on this (valid) input."""
        try:
            return fn(*args, **kwargs)
        except (Violation, KnownSkip):
            raise
        except Exception as e:
            self.fail_stop("%s/raises/%s" % (key, type(e).__name__),
                           "unexpected %s: %s" % (type(e).__name__, str(e)[:300]))


def _short(x, n=400):
    try:
        s = np.array2string(np.asarray(x), precision=17, threshold=60, max_line_width=200)
    except Exception:
        s = repr(x)
    return s if len(s) <= n else s[:n] + "..."


def _maxdiff(a, b):
    try:
        return float(np.max(np.abs(np.asarray(a).astype(complex) - np.asarray(b).astype(complex))))
    except Exception:
        return "n/a"


class SubCheck:
    def __init__(self, name, body, strategy=None, cases=None, machine=None,
                 examples=None, shards=None, steps=None, doc=""):
        self.name = name
        self.body = body
        self.strategy = strategy
        self.cases = cases
        self.machine = machine
        self.kind = "given" if strategy is not None else ("enum" if cases is not None else "machine")
        self.examples = examples or {"quick": 200, "thorough": 1000}
        self.shards = shards or {"quick": 1, "thorough": 8}
        self.steps = steps or {"quick": 20, "thorough": 40}
        self.doc = doc


class Run:
    """Recorder for one (sub-check, shard) unit of work."""

    def __init__(self, prop, sub, known_keys):
        self.prop = prop
        self.sub = sub
        self.known_keys = known_keys
        self.excluded_keys = set()
        self.evaluations = 0
        self.nontrivial = set()
        self.labels = {}
        self.ties = 0
        self.comparisons = 0
        self.known_hits = {}
        self.excluded_hits = 0
        self.samples = []
        self.last_fail = None       # (case, key, msg)
        self.best_fail = None
        self.fail_started = None
        self.shrink_budget = 60.0

    def new_ctx(self):
        return Ctx(self.prop, self.sub.name, self.known_keys, self.excluded_keys)

    def record(self, case, ctx):
        self.evaluations += 1
        for l in ctx.labels:
            self.labels[l] = self.labels.get(l, 0) + 1
        self.ties += ctx.ties
        self.comparisons += ctx.comparisons
        self.excluded_hits += ctx.excluded_hits
        for k, v in ctx.known_hits.items():
            self.known_hits[k] = self.known_hits.get(k, 0) + v
        if ctx.nontrivial:
            h = case_hash(case)
            if h not in self.nontrivial:
                self.nontrivial.add(h)
                c = canon(case)
                if len(c) <= 6000:
                    if len(self.samples) < 3:
                        self.samples.append(case)
                    elif len(c) < max(len(canon(s)) for s in self.samples) and self.evaluations % 7 == 0:
                        # keep a mix: occasionally replace the largest sample with a smaller one
                        i = max(range(len(self.samples)), key=lambda j: len(canon(self.samples[j])))
                        self.samples[i] = case

    def execute(self, case):
        """Run the body on one case; returns normally when it holds (or only known findings hit),
        raises Violation otherwise."""
        ctx = self.new_ctx()
        poison_heap()
        try:
            try:
                self.sub.body(case, ctx)
            except KnownSkip:
                ctx.label("skipped-after-known-finding")
            except Violation:
                raise
            except HarnessError:
                raise
            except Exception as e:
                v = classify_exception(e, ctx)
                if v is None:
                    raise
                if v.key in self.known_keys:
                    ctx.known_hits[v.key] = ctx.known_hits.get(v.key, 0) + 1
                elif v.key in self.excluded_keys:
                    ctx.excluded_hits += 1
                else:
                    raise v from e
        except Violation as v:
            self.record(case, ctx)
            now = time.time()
            if self.fail_started is None:
                self.fail_started = now
            h = case_hash(case)
            if now - self.fail_started > self.shrink_budget and self.best_fail is not None \
                    and h != case_hash(self.best_fail[0]):
                # shrink budget exhausted: stop the shrinker by letting other candidates pass
                return
            self.best_fail = (case, v.key, v.msg)
            raise
        self.record(case, ctx)


def classify_exception(e, ctx):
    """An exception that propagated out of repository code on an input the body considers valid is
    a violation keyed by type and raising function; one raised by harness/oracle code is a harness
    error (returns None)."""
    tb = traceback.extract_tb(e.__traceback__)
    repo = os.path.realpath(env.REPO) + os.sep
    repo_frames = [f for f in tb if os.path.realpath(f.filename).startswith(repo)]
    if not repo_frames:
        return None
    f = repo_frames[-1]
    key = "%s/raises/%s@%s" % (ctx.sub, type(e).__name__, f.name)
    return Violation(ctx.fullkey(key), "unexpected %s in %s:%d (%s): %s" % (
        type(e).__name__, os.path.relpath(f.filename, env.REPO), f.lineno, f.name, str(e)[:300]))


# ---------------------------------------------------------------------------------------------
# running one unit of work (in a worker process)
# ---------------------------------------------------------------------------------------------
def run_unit(args):
    modname, subname, tier, seed, shard, nshards, known_keys = args
    env.setup()
    import importlib
    mod = importlib.import_module(modname)
    sub = next(s for s in mod.SUBCHECKS if s.name == subname)
    run = Run(mod.PROPERTY, sub, set(known_keys))
    run.shrink_budget = SHRINK_BUDGET_S[tier]
    t0 = time.time()
    failures = []
    error = None
    try:
        for _ in range(MAX_KEYS_PER_SUBCHECK):
            run.best_fail = None
            run.fail_started = None
            failed = _run_once(run, sub, tier, seed, shard, nshards)
            if not failed:
                break
            case, key, msg = run.best_fail
            failures.append({"key": key, "msg": msg, "case": case})
            run.excluded_keys.add(key)
    except Exception as e:
        error = "".join(traceback.format_exception(type(e), e, e.__traceback__))[-4000:]
    return {
        "sub": subname, "shard": shard, "evaluations": run.evaluations,
        "nontrivial": sorted(run.nontrivial), "labels": run.labels, "ties": run.ties,
        "comparisons": run.comparisons, "known_hits": run.known_hits,
        "excluded_hits": run.excluded_hits, "samples": run.samples, "failures": failures,
        "error": error, "wall_s": time.time() - t0, "kind": sub.kind,
    }


def _run_once(run, sub, tier, seed, shard, nshards):
    """Returns True if a violation was found (run.best_fail set)."""
    import hypothesis
    from hypothesis import given, settings, HealthCheck, Phase

    unit_seed = seed * 1000 + shard
    if sub.kind == "enum":
        for i, case in enumerate(sub.cases(tier)):
            if i % nshards != shard:
                continue
            try:
                run.execute(case)
            except Violation:
                return True
        return False

    n = max(1, int(sub.examples[tier]) // nshards)
    common = dict(max_examples=n, database=None, deadline=None, derandomize=False,
                  report_multiple_bugs=False, print_blob=False,
                  suppress_health_check=[HealthCheck.too_slow, HealthCheck.data_too_large,
                                         HealthCheck.large_base_example],
                  phases=[Phase.generate, Phase.target, Phase.shrink])
    if sub.kind == "given":
        @hypothesis.seed(unit_seed)
        @settings(**common)
        @given(sub.strategy)
        def test(case):
            run.execute(case)

        try:
            test()
        except Violation:
            return True
        except Exception as e:
            if run.best_fail is not None and _is_flaky(e):
                return True
            raise
        return False

    if sub.kind == "machine":
        from hypothesis.stateful import run_state_machine_as_test
        cls = sub.machine(run)
        st = settings(stateful_step_count=sub.steps[tier], **common)
        try:
            run_state_machine_as_test(hypothesis.seed(unit_seed)(cls), settings=st)
        except Violation:
            return True
        except Exception as e:
            if run.best_fail is not None and (_is_flaky(e) or _has_cause(e, Violation)):
                return True
            raise
        return False
    raise HarnessError("unknown kind")


def _is_flaky(e):
    n = type(e).__name__
    return n in ("Flaky", "FlakyFailure", "FlakyReplay", "FlakyStrategyDefinition")


def _has_cause(e, typ):
    seen = 0
    while e is not None and seen < 10:
        if isinstance(e, typ):
            return True
        e = e.__cause__ or e.__context__
        seen += 1
    return False


# ---------------------------------------------------------------------------------------------
# stateful support
# ---------------------------------------------------------------------------------------------
def machine_base(run, interp_factory):
    """Base class for rule-based machines.  `interp_factory(ctx)` returns an interpreter with
    `apply(op, args)`; rules call self.op(name, **args).  The executed history is the case."""
    from hypothesis.stateful import RuleBasedStateMachine

    class Base(RuleBasedStateMachine):
        def __init__(self):
            super().__init__()
            self.ctx = run.new_ctx()
            self.history = []
            self.interp = interp_factory(self.ctx)
            self._failed = False

        def op(self, name, **args):
            if getattr(self.interp, "dead", False):
                return None
            self.history.append([name, args])
            try:
                try:
                    return self.interp.apply(name, args)
                except (Violation, KnownSkip, HarnessError):
                    raise
                except Exception as e:
                    v = classify_exception(e, self.ctx)
                    if v is None:
                        raise
                    if v.key in run.known_keys:
                        self.ctx.known_hits[v.key] = self.ctx.known_hits.get(v.key, 0) + 1
                        raise KnownSkip(v.key)
                    if v.key in run.excluded_keys:
                        self.ctx.excluded_hits += 1
                        raise KnownSkip(v.key)
                    raise v from e
            except KnownSkip:
                self.interp.dead = True
                return None
            except Violation as v:
                self._failed = True
                case = {"history": json.loads(canon(self.history))}
                run.record(case, self.ctx)
                now = time.time()
                if run.fail_started is None:
                    run.fail_started = now
                if now - run.fail_started > run.shrink_budget and run.best_fail is not None \
                        and case_hash(case) != case_hash(run.best_fail[0]):
                    self.interp.dead = True
                    return None
                run.best_fail = (case, v.key, v.msg)
                raise

        def teardown(self):
            if not self._failed:
                if hasattr(self.interp, "finish"):
                    self.interp.finish()
                run.record({"history": json.loads(canon(self.history))}, self.ctx)
            if hasattr(self.interp, "close"):
                self.interp.close()

    return Base


def replay_history(interp_factory):
    """Body for a machine sub-check: re-executes case['history'] on a fresh interpreter."""
    def body(case, ctx):
        interp = interp_factory(ctx)
        try:
            for name, args in case["history"]:
                if getattr(interp, "dead", False):
                    break
                interp.apply(name, args)
            if hasattr(interp, "finish") and not getattr(interp, "dead", False):
                interp.finish()
        finally:
            if hasattr(interp, "close"):
                interp.close()
    return body


# ---------------------------------------------------------------------------------------------
# driver
# ---------------------------------------------------------------------------------------------
def write_replay(prop, sub, failure):
    os.makedirs(REPLAY_OUT, exist_ok=True)
    h = case_hash(failure["case"])
    safe = failure["key"].replace("/", "_").replace("@", "_at_")[:80]
    path = os.path.join(REPLAY_OUT, "%s-%s-%s.json" % (prop, safe, h))
    with open(path, "w") as f:
        json.dump({"property": prop, "subcheck": sub, "key": failure["key"],
                   "message": failure["msg"], "case": failure["case"]}, f, indent=1, sort_keys=True)
    return os.path.relpath(path, VERIF_ROOT)


def run_property(modname, tier, seed, only=None, jobs=None):
    env.setup()
    import importlib
    mod = importlib.import_module(modname)
    prop = mod.PROPERTY
    known = load_known()
    known_entries = [f for f in known.get("findings", []) if f["property"] == prop]
    known_keys = sorted({f["key"] for f in known_entries})
    t0 = time.time()

    units = []
    for sub in mod.SUBCHECKS:
        if only and sub.name not in only:
            continue
        ns = int(sub.shards[tier])
        for sh in range(ns):
            units.append((modname, sub.name, tier, seed, sh, ns, known_keys))
    jobs = jobs or int(os.environ.get("VERIF_JOBS", "16"))
    jobs = max(1, min(jobs, len(units)))
    if jobs == 1:
        results = [run_unit(u) for u in units]
    else:
        ctx = multiprocessing.get_context("fork")
        with ctx.Pool(processes=jobs, maxtasksperchild=1) as pool:
            results = pool.map(run_unit, units, chunksize=1)

    # merge
    per_sub = {}
    all_nt = set()
    evaluations = 0
    labels = {}
    ties = comparisons = excluded_hits = 0
    known_hits = {}
    samples = []
    failures = []
    errors = []
    exhaustive_subs = []
    for r in results:
        ps = per_sub.setdefault(r["sub"], {"evaluations": 0, "distinct_nontrivial": set(),
                                           "kind": r["kind"], "wall_s": 0.0})
        ps["evaluations"] += r["evaluations"]
        ps["distinct_nontrivial"].update(r["nontrivial"])
        ps["wall_s"] = max(ps["wall_s"], r["wall_s"])
        evaluations += r["evaluations"]
        all_nt.update((r["sub"], h) for h in r["nontrivial"])
        for k, v in r["labels"].items():
            lk = "%s:%s" % (r["sub"], k)
            labels[lk] = labels.get(lk, 0) + v
        ties += r["ties"]
        comparisons += r["comparisons"]
        excluded_hits += r["excluded_hits"]
        for k, v in r["known_hits"].items():
            known_hits[k] = known_hits.get(k, 0) + v
        for s in r["samples"][:2]:
            if len(samples) < 8:
                samples.append({"subcheck": r["sub"], "case": s})
        for f in r["failures"]:
            failures.append((r["sub"], f))
        if r["error"]:
            errors.append((r["sub"], r["shard"], r["error"]))
    for sub in mod.SUBCHECKS:
        if sub.kind == "enum" and sub.name in per_sub:
            exhaustive_subs.append(sub.name)
    for ps in per_sub.values():
        ps["distinct_nontrivial"] = len(ps["distinct_nontrivial"])

    # de-duplicate failures by key, keep the smallest case
    by_key = {}
    for subname, f in failures:
        cur = by_key.get(f["key"])
        if cur is None or len(canon(f["case"])) < len(canon(cur[1]["case"])):
            by_key[f["key"]] = (subname, f)

    violations = []
    for key, (subname, f) in sorted(by_key.items()):
        path = write_replay(prop, subname, f)
        violations.append({"key": key, "subcheck": subname, "message": f["msg"][:600], "replay": path})

    # replay tier: committed regression cases (shrunk inputs of repaired defects / seeded changes)
    import glob
    regress_run = 0
    for path in sorted(glob.glob(os.path.join(REPLAY_DIR, "regress", "%s-*.json" % prop))):
        if only:
            break
        regress_run += 1
        try:
            with open(path) as f:
                rep = json.load(f)
            sub = next(s for s in mod.SUBCHECKS if s.name == rep["subcheck"])
            rr = Run(prop, sub, set(known_keys))
            rr.execute(rep["case"])
        except Violation as v:
            if not any(x["key"] == v.key for x in violations):
                violations.append({"key": v.key, "subcheck": rep["subcheck"], "message": v.msg[:600],
                                   "replay": os.path.relpath(path, VERIF_ROOT)})
        except Exception as e:
            errors.append((os.path.basename(path), 0, "".join(traceback.format_exception(type(e), e, e.__traceback__))[-3000:]))

    # known findings: re-confirm through their committed replay files
    known_lines = []
    for kf in known_entries:
        confirmed = known_hits.get(kf["key"], 0) > 0
        if not confirmed and kf.get("replay"):
            confirmed = replay_file(os.path.join(VERIF_ROOT, kf["replay"]), quiet=True,
                                    ignore_known=True) == 1
        if confirmed:
            known_lines.append("KNOWN-FINDING: property=%s %s [%s]" % (prop, kf["what"], kf["key"]))

    wall = time.time() - t0
    evidence = {
        "property_id": prop,
        "tier": tier,
        "seed": int(seed),
        "level": "exploration",
        "coverage": {
            "evaluations": int(evaluations),
            "distinct_nontrivial": len(all_nt),
            "rule": mod.RULE,
            "samples": samples,
            "exhaustive": bool(exhaustive_subs) and len(exhaustive_subs) == len(per_sub),
            "exhaustive_subchecks": exhaustive_subs,
            "oracle_comparisons": int(comparisons),
            "tie_band_exclusions": int(ties),
            "known_finding_hits_excluded": known_hits,
            "regression_replays_run": regress_run,
            "excluded_after_first_report": int(excluded_hits),
            "labels": dict(sorted(labels.items())),
            "subchecks": per_sub,
        },
        "assumptions": list(getattr(mod, "ASSUMPTIONS", [])),
        "wall_s": round(wall, 3),
        "violations": len(violations),
        "violation_details": violations,
        "known_findings_confirmed": known_lines,
        "harness_errors": [e[2][-1500:] for e in errors],
    }
    os.makedirs(EVIDENCE_DIR, exist_ok=True)
    with open(os.path.join(EVIDENCE_DIR, "%s.json" % prop), "w") as f:
        json.dump(evidence, f, indent=1, sort_keys=True)

    for line in known_lines:
        print(line)
    for v in violations:
        print("VIOLATION property=%s replay=%s" % (prop, v["replay"]))
        print("  key=%s :: %s" % (v["key"], v["message"][:300]))
    print("%s tier=%s seed=%s evaluations=%d distinct_nontrivial=%d comparisons=%d ties=%d wall=%.1fs" % (
        prop, tier, seed, evaluations, len(all_nt), comparisons, ties, wall))
    for name, ps in per_sub.items():
        print("  %-34s %-7s eval=%-7d nontrivial=%-7d %.1fs" % (
            name, ps["kind"], ps["evaluations"], ps["distinct_nontrivial"], ps["wall_s"]))
    sys.stdout.flush()
    if violations:
        return 1
    if errors:
        for subname, shard, err in errors:
            sys.stderr.write("HARNESS ERROR in %s shard %d:\n%s\n" % (subname, shard, err))
        return 2
    return 0


def replay_file(path, quiet=False, ignore_known=False):
    """Re-run one saved case, bypassing Hypothesis. Returns 1 if it still violates."""
    env.setup()
    import importlib
    with open(path) as f:
        rep = json.load(f)
    prop = rep["property"]
    mod = importlib.import_module("vp.checks.%s" % prop.lower())
    sub = next(s for s in mod.SUBCHECKS if s.name == rep["subcheck"])
    known_keys = set()
    if not ignore_known:
        known_keys = {f["key"] for f in load_known().get("findings", []) if f["property"] == prop}
    run = Run(prop, sub, known_keys)
    try:
        run.execute(rep["case"])
    except Violation as v:
        if not quiet:
            print("VIOLATION property=%s replay=%s" % (prop, os.path.relpath(os.path.abspath(path), VERIF_ROOT)))
            print("  key=%s :: %s" % (v.key, v.msg[:600]))
        return 1
    if not quiet:
        if run.known_hits:
            for k in run.known_hits:
                print("KNOWN-FINDING: property=%s [%s] (replayed case)" % (prop, k))
        print("replay holds: property=%s subcheck=%s" % (prop, rep["subcheck"]))
    return 0


def target(value, label=""):
    """hypothesis.target that is a no-op when a saved case is replayed outside Hypothesis."""
    from hypothesis import target as _t
    from hypothesis.control import currently_in_test_context
    if currently_in_test_context():
        _t(float(value), label=label)
