"""C07 — regularization matrices are symmetric PSD with the stated quadratic form; block-diagonal assembly."""
import numpy as np
from hypothesis import strategies as st

from vp import scene
from vp.engine import SubCheck, target
from vp.ref import meshadj

PROPERTY = "C07"
RULE = (
    "Hypothesis scenarios from vp/scene.py: ring-padded masks (inner part up to 4x4), a mapper on a rectangular mesh "
    "(3..5 x 3..5) or a Delaunay mesh (2..5 x 2..5 lattice, >= 5 vertices; vertex classes: general position by a jitter "
    "<= 0.3 cells, exact lattice = the regular grid an Overlay image-mesh produces incl. 4x5 / 5x5 / 5x4 / 3x3 (three draws "
    "in seven; co-circular cells, collinear hull points), raw drawn jitter) over an affine/warped source grid with "
    "uniform or per-pixel sub-size, positive adapt images with a drawn dynamic range (0..6 decades), coefficients and "
    "signal scales log-uniform in [1e-2, 1e2] with explicit exact-equality classes: coefficient exactly 1.0 (one draw in "
    "five), inner_coefficient == outer_coefficient (one in three), signal_scale exactly 1.0 and exactly 0 (one in six each). "
    "Coincident vertices (nominally one Delaunay case in four in every sub-check, and every case of the dedicated "
    "coincident-vertices sub-check, which runs the neighbour-difference family): 1-2 vertices moved onto another vertex exactly "
    "or to within 1e-15..1e-12 of the extent; qhull drops one vertex of such a pair, which then has ZERO neighbours (labelled "
    "zero-neighbour-pixels:k). One sub-check per scheme family: neighbour-difference (Constant, "
    "ConstantZeroth, AdaptiveBrightness), zeroth (Zeroth, BrightnessZeroth), split-cross on Delaunay meshes (ConstantSplit, "
    "AdaptiveBrightnessSplit, AdaptiveBrightnessSplitZeroth), kernel (GaussianKernel scale 0.3..1.5 pixel widths on "
    "rectangular / 0.3..4 x minimum vertex separation on Delaunay meshes, ExponentialKernel 0.3..16 x). Oracle per matrix: "
    "shape == (params, params); |H-H^T| <= tol*max|H|; min eigenvalue of (H+H^T)/2 >= -tol*max|H| (tol = 1e-10, or "
    "8*eps*cond(C_ref) if larger for kernel schemes, C_ref = closed-form covariance in plain numpy); np.linalg.cholesky(H) "
    "succeeds for the schemes the statement calls strictly positive definite whenever round-off cannot decide it "
    "(n*eps*max|H| <= 1e-9 against the 1e-8 ridge; cond(C_ref) <= 1e6 for kernels; otherwise counted as a tie). Constant and "
    "AdaptiveBrightness: x^T H x for two generated vectors == sum over unordered neighbouring pairs of weight*(x_i-x_j)^2 + "
    "1e-8|x|^2 with weight c^2 resp. w_i^2+w_j^2 (w = the scheme's own regularization_weights_from), the symmetric part of H "
    "entrywise == the matrix of that quadratic form (polarisation), and 1^T H 1 == 1e-8*n (ridge); neighbouring pairs come "
    "from an independent adjacency (4-connectivity of the row-major rectangle; brute-force empty-circumcircle Delaunay edges). "
    "For every Delaunay mesh the implementation's neighbour list must lie between the certain and the possible Delaunay edges, "
    "be the edge set of a triangulation of the vertices (no two edges cross, no edge runs through a vertex, exactly 3n-3-h "
    "edges with h = vertices on the hull boundary, collinear ones included; skipped and counted when a near-collinear hull "
    "triple makes h undecidable) and equal the edge set of mesh.delaunay.simplices, which must tile the convex hull "
    "(non-degenerate, no vertex inside a simplex, areas sum to the monotone-chain hull area within 1e-9) with Delaunay edges "
    "only; when co-circular vertices make the Delaunay triangulation non-unique, the neighbouring pairs of the quadratic form "
    "are the edges of that validated triangulation the mapper interpolates on. For vertex sets with coincident vertices the "
    "reference adjacency is scipy.spatial.Delaunay(vertices) computed in the harness (vp/ref/meshadj.py): simplex edges are the "
    "neighbouring pairs, a vertex in no simplex has none; the library's neighbour list must equal it and report sizes == 0 for "
    "dropped vertices; every oracle applies unchanged (full parameter count, symmetry, strict definiteness, quadratic form in "
    "which a neighbour-less pixel contributes only its 1e-8 ridge term); the exact planarity / Euler-count tests are replaced by "
    "cross-checks of the reference (dropped vertex within 1e-11 of another one, simplices cover the hull, edges between the "
    "brute-force certain and possible sets; a reference failing them is counted as a tie). Block assembly: inversion.regularization_matrix == block diagonal, in object order, of each "
    "object's matrix computed on freshly built objects (zero block for an unregularized object, zero off-diagonal blocks), "
    "regularization_matrix_reduced == that matrix with the unregularized objects' rows/columns deleted. Scheme re-assignment: "
    "1-2 objects, optional first read, then 2-3 generated steps that re-assign `regularization` of one object (another scheme, "
    "the same scheme with other coefficients, or None) on the same object, on a copy.copy of it, or by mutating the scheme "
    "instance's attributes; after each step linear_obj.regularization_matrix and / or the matrices of an Inversion built "
    "afterwards must equal those of freshly built objects carrying the new schemes (zero block for None), and the object that "
    "was copied must still give its old matrix. Prior reads: in three scheme cases out of four a generated sequence of 1-4 "
    "public quantities of the SAME mapper / mesh / scheme is read before the matrix is computed (edge_pixel_list of mesh and "
    "mapper, neighbors and neighbors.sizes, pixel_signals_from, mapping_matrix, unique_mappings, pix_sub_weights, "
    "sub_slim_indexes_for_pix_index, voronoi_pixel_areas, split_cross, pix_sub_weights_split_cross, interpolated_array_from "
    "of mesh and mapper, interpolation_grid_from, the scheme's weights, an earlier matrix, linear_obj.regularization_matrix); "
    "every oracle above is applied to the matrix computed afterwards and it must equal the matrix of a freshly built, untouched "
    "mapper (1e-12*max|H|; on a mismatch each read is replayed alone on a fresh mapper so the key names the culprit). After "
    "reconstruction: a real aa.Inversion (1-2 objects, positive-only solver, force_edge_pixels_to_zeros=True) computes its "
    "reconstruction first (solver exceptions tolerated and labelled), then inversion.regularization_matrix, every object's "
    "regularization_matrix and the matrix of a second inversion built from the same objects must equal the fresh block diagonal. "
    "hypothesis.target(-min eigenvalue / max|H|). Non-trivial = mesh has >= 6 pixels of non-uniform degree (and, for adaptive "
    "schemes, non-constant weights or one of the explicit equal-coefficient / zero-signal-scale classes); for block assembly "
    ">= 2 objects whose blocks differ under reversal; for re-assignment a step that changes the scheme after a read; distinct = SHA-1 of "
    "the canonical case."
)
ASSUMPTIONS = [
    "the mapper's mapping quantities (pix indexes / weights, pixel signals) are taken as given; C06 checks them",
    "AdaptiveBrightness pair weights use the weights the scheme itself reports through regularization_weights_from, as the statement says",
    "strict positive definiteness is tested through np.linalg.cholesky only where the 1e-8 ridge exceeds assembly round-off by two "
    "orders of magnitude (n*eps*max|H| <= 1e-9) and, for kernels, cond(covariance) <= 1e6; outside these bands only PSD within "
    "tolerance is demanded and the case is counted as a tie",
    "tolerances: symmetry / PSD 1e-10*max|H| (kernels: max(1e-10, 8*eps*cond)); quadratic forms rtol 1e-9 + 32*eps*|x|^T|H||x|; "
    "entrywise rtol 1e-9 + 16*eps*max|H|; ridge probe rtol 1e-6 + 8*eps*sum|H| (skipped as a tie when that exceeds a quarter of 1e-8*n); "
    "block assembly 1e-12*max|H|",
    "signal_scale exactly 0 is outside the statement's 'positive signal scales' but well defined (pixel_signals ** 0 == 1, weights "
    "independent of the adapt image); it is generated as an explicit class and only the statement's own clauses are demanded of it",
    "re-assignment: the matrix must follow the scheme the object currently carries (the library's own idiom is copy.copy(mapper) + "
    "mapper.regularization = ...); compared with freshly built objects at 1e-12*max|H|",
    "coincident Delaunay vertices: probed on the unchanged code -- the mesh, the mapper and all nine schemes (plus "
    "AdaptiveBrightnessSplitZeroth) build and return finite matrices for exactly duplicated and 1e-15..1e-12-near-duplicated "
    "vertices, so no precondition is needed; which vertex of a pair qhull drops is taken from scipy's own triangulation of the same "
    "points (qhull is trusted, the library's use of it is not); kernel schemes then have cond(covariance) >= 1e8 and fall into the "
    "stated Cholesky tie band; for some coincident sets (e.g. four distinct co-circular points left) qhull cannot build the Voronoi "
    "diagram and the library raises its MeshException from mesh.voronoi (split-cross schemes, edge_pixel_list): treated as a "
    "precondition, labelled duplicates:mesh-exception-precondition and counted as a tie",
    "prior reads are read-only uses of documented public properties / methods; a read that raises is labelled and ignored (other "
    "properties judge it), the matrix must still be right afterwards",
    "MaternKernel cannot be constructed without numba_scipy and is outside the statement's quantifier; "
    "AdaptiveBrightnessSplitZeroth is not in the quantifier's list but is covered by the statement's first sentence and is checked as a split-cross scheme",
]
TECHNIQUE = ("Hypothesis-generated mappers and schemes checked against closed-form quadratic forms over an independent mesh adjacency, "
             "(triangulation validity by planarity + Euler edge count for degenerate vertex sets), eigenvalue / Cholesky certificates "
             "with stated conditioning bands, differential block-diagonal assembly, generated re-assignment and prior-read sequences and a "
             "real inversion's reconstruction, all compared with freshly built objects")

EPS = float(np.finfo(float).eps)
RIDGE = 1.0e-8

STRICT_PD = {"constant", "constant_zeroth", "adaptive_brightness", "constant_split", "adaptive_brightness_split",
             "adaptive_brightness_split_zeroth", "gaussian_kernel", "exponential_kernel"}
FAMILIES = {
    "neighbour": ["constant", "constant", "adaptive_brightness", "adaptive_brightness", "constant_zeroth", "constant_zeroth"],
    "zeroth": ["zeroth", "brightness_zeroth"],
    "split": ["constant_split", "adaptive_brightness_split", "adaptive_brightness_split_zeroth"],
    "kernel": ["gaussian_kernel", "exponential_kernel"],
}
ADAPTIVE = {"adaptive_brightness", "adaptive_brightness_split", "adaptive_brightness_split_zeroth", "brightness_zeroth"}

# ---------------------------------------------------------------------------------------------
# strategies
# ---------------------------------------------------------------------------------------------
# log-uniform in [1e-2, 1e2]; parametrised from the lower end so that Hypothesis' preference for the simplest draw does not
# pile the generic class onto 10**0 (exactly 1.0 is a class of its own below)
_logu_any = st.floats(0.0, 4.0).map(lambda e: 10.0 ** (e - 2.0))
_logu_low = st.floats(0.0, 2.9).map(lambda e: 10.0 ** (e - 2.0))
# coefficient exactly 1.0 (the package default) is an explicit class: one draw in five
_logu = st.one_of(_logu_any, _logu_any, st.just(1.0), _logu_any, _logu_any)
# adaptive schemes raise the coefficients to the fourth power (weights = (..)^2, matrix uses weights^2): most of the
# draws stay below 10^0.9 so that the 1e-8 ridge is not lost in round-off and strict definiteness can be certified
_logu_ab = st.one_of(_logu_low, _logu_low, st.just(1.0), _logu_low, _logu_any)
# signal scale: exactly 1.0 (default) and exactly 0 (signals ** 0 == 1: weights independent of the adapt image) are
# explicit classes next to the log-uniform positive range of the statement
_signal_scale = st.one_of(_logu_any, _logu_any, st.just(1.0), st.just(0.0), _logu_any, _logu_any)


@st.composite
def _adaptive_coefficients(draw, spec):
    spec["inner_coefficient"] = draw(_logu_ab)
    # inner == outer exactly (the package default) in one case out of three
    spec["outer_coefficient"] = spec["inner_coefficient"] if draw(st.integers(0, 2)) == 2 else draw(_logu_ab)
    spec["signal_scale"] = draw(_signal_scale)
    return spec


@st.composite
def reg_spec(draw, types, mesh):
    t = draw(st.sampled_from(list(types)))
    spec = {"type": t}
    if t in ("constant", "constant_split", "zeroth"):
        spec["coefficient"] = draw(_logu)
    elif t == "constant_zeroth":
        spec["coefficient_neighbor"] = draw(_logu)
        spec["coefficient_zeroth"] = spec["coefficient_neighbor"] if draw(st.integers(0, 3)) == 0 else draw(_logu)
    elif t in ("adaptive_brightness", "adaptive_brightness_split", "adaptive_brightness_split_zeroth"):
        spec = draw(_adaptive_coefficients(spec))
        if t.endswith("zeroth"):
            spec["zeroth_coefficient"] = draw(_logu); spec["zeroth_signal_scale"] = draw(_signal_scale)
    elif t == "brightness_zeroth":
        spec["coefficient"] = draw(_logu); spec["signal_scale"] = draw(_signal_scale)
    elif t == "gaussian_kernel":
        # conditioning bounds of the design: covariance well conditioned enough that definiteness is about the code
        spec["coefficient"] = draw(_logu); spec["scale_rel"] = draw(st.floats(0.3, 1.5 if mesh == "rect" else 4.0))
    elif t == "exponential_kernel":
        spec["coefficient"] = draw(_logu); spec["scale_rel"] = draw(st.floats(0.3, 16.0))
    return spec


def param_labels(spec, ctx):
    if spec is None:
        return
    if "inner_coefficient" in spec:
        ctx.label("coeff:inner==outer" if spec["inner_coefficient"] == spec["outer_coefficient"] else "coeff:inner!=outer")
    if any(spec.get(k) == 1.0 for k in ("coefficient", "inner_coefficient", "outer_coefficient", "coefficient_neighbor")):
        ctx.label("coeff:exactly-1")
    if "signal_scale" in spec:
        ctx.label("signal_scale:%s" % ("1" if spec["signal_scale"] == 1.0 else "0" if spec["signal_scale"] == 0.0 else "other"))


def _params(obj):
    if obj["type"] == "rect":
        return obj["shape"][0] * obj["shape"][1]
    if obj["type"] == "delaunay":
        return obj["lattice"][0] * obj["lattice"][1]
    return len(obj["matrix"][0])


@st.composite
def adapt_images(draw, n):
    dr = draw(st.sampled_from([0.0, 0.5, 1.0, 3.0, 6.0]))
    scale = draw(st.sampled_from([0.01, 1.0, 1.0, 100.0]))
    u = draw(st.lists(st.floats(0.0, 1.0), min_size=n, max_size=n))
    return [scale * 10.0 ** (-dr * v) for v in u]


MIN_JITTER = 1.0e-3
DUP_EPS = [1e-15, 0.0, 1e-14, 0.0, 1e-13, 1e-12]
DUP_DIRS = [(1.0, 0.0), (0.0, 1.0), (1.0, -0.7), (-0.6, -1.0)]


# reads a caller may perform on the mesh / mapper / scheme before asking for the regularization matrix; the edge-pixel reads are
# listed twice (an inversion performs them itself in `reconstruction` with the positive-only solver)
READS = ["mesh.edge_pixel_list", "mapper.edge_pixel_list", "mesh.neighbors", "mesh.neighbors.sizes", "mapper.neighbors",
         "mesh.edge_pixel_list", "mapper.edge_pixel_list", "mapper.pixel_signals", "mapper.mapping_matrix",
         "mapper.unique_mappings", "mapper.pix_sub_weights", "mapper.sub_slim_indexes_for_pix_index",
         "mesh.voronoi_pixel_areas", "mesh.split_cross", "mapper.pix_sub_weights_split_cross", "mesh.interpolated_array",
         "mapper.interpolated_array", "mesh.interpolation_grid", "scheme.weights", "scheme.matrix",
         "linear_obj.regularization_matrix"]


def _hash01(k):
    x = np.sin(float(k) * 12.9898 + 78.233) * 43758.5453
    return float(2.0 * (x - np.floor(x)) - 1.0)


def _general_position(draw, obj):
    """Vertex-set classes of a Delaunay mesh: `general` (three in seven: a fixed pseudo-jitter, a function of the index with
    |.| <= 0.03 cells, is mixed into the drawn jitter so that Hypothesis' lists full of zeros do not collapse onto a
    lattice), `exact-lattice` (three in seven: no jitter at all, the regular grid an Overlay image-mesh produces, every cell
    co-circular, hull points collinear; the Delaunay triangulation is not unique) and `raw` (the drawn jitter, typically
    partly zero: a lattice with some displaced vertices)."""
    if obj["type"] == "delaunay":
        mode = draw(st.sampled_from(["general", "exact-lattice", "general", "exact-lattice", "general", "exact-lattice", "raw"]))
        if mode == "general":
            obj["jitter"] = [0.9 * v + 0.03 * _hash01(k) for k, v in enumerate(obj["jitter"])]
        elif mode == "exact-lattice":
            obj["jitter"] = [0.0] * len(obj["jitter"])
            if draw(st.booleans()):  # the shapes named in the brief, otherwise the drawn 2..5 x 2..5
                obj["lattice"] = draw(st.sampled_from([[4, 5], [5, 5], [5, 4], [3, 3]]))
                obj["jitter"] = [0.0] * (2 * obj["lattice"][0] * obj["lattice"][1])
        # a vertex is either exactly on its lattice site or displaced by >= 1e-3 cells: displacements of 1e-16..1e-6 cells
        # (Hypothesis' "nasty" floats) give near-degenerate sets on which qhull's own tolerances decide which diagonal is
        # taken and whether flat simplices appear; no statement about the library can be tested there
        obj["jitter"] = [0.0 if abs(v) < MIN_JITTER / 2 else (MIN_JITTER if v > 0 else -MIN_JITTER) if abs(v) < MIN_JITTER else v
                         for v in obj["jitter"]]
        # coincident vertices (nominally one case in four): 1-2 vertices are moved onto another vertex exactly or to within
        # 1e-15..1e-12 of the extent of the set; qhull drops one vertex of such a pair, which then has NO neighbours
        if draw(st.sampled_from([False, True, False, False, False, True, False, False])):
            obj["dups"] = _draw_dups(draw, obj)
    return obj


def _draw_dups(draw, obj):
    n = obj["lattice"][0] * obj["lattice"][1]
    idx = draw(st.permutations(list(range(n))))
    dups = []
    for q in range(draw(st.sampled_from([1, 1, 2]))):
        dups.append([idx[2 * q], idx[2 * q + 1], draw(st.sampled_from(DUP_EPS)), draw(st.integers(0, len(DUP_DIRS) - 1))])
    return dups


@st.composite
def scheme_cases(draw, family, force_dups=False):
    img = draw(scene.imaging_cases(max_inner=4, max_k=1, kernel_kinds=("nonneg",), data_kind="positive"))
    n = sum(1 for r in img["mask"] for v in r if not v)
    kinds = ("delaunay",) if family == "split" or force_dups else ("rect", "delaunay")
    obj = draw(scene.obj_specs(n, kinds=kinds, reg_types=("constant",), reg_none=False, max_sub=2, max_mesh=5))
    obj = _general_position(draw, obj)
    if force_dups and not obj.get("dups"):
        obj["dups"] = _draw_dups(draw, obj)
    obj["reg"] = draw(reg_spec(FAMILIES[family], obj["type"]))
    img["objs"] = [obj]
    img["adapt"] = draw(adapt_images(n))
    p = _params(obj)
    x0 = draw(st.lists(st.floats(-3.0, 3.0), min_size=p, max_size=p))
    base = draw(st.floats(-3.0, 3.0)); amp = draw(st.sampled_from([1e-3, 0.1, 1.0]))
    x1 = [base + amp * v for v in draw(st.lists(st.floats(-1.0, 1.0), min_size=p, max_size=p))]
    img["x"] = [x0, x1]
    # public quantities of the same mesh / mapper read BEFORE the matrix is computed (none in one case out of four)
    img["prior"] = draw(st.lists(st.sampled_from(READS), min_size=0 if draw(st.integers(0, 3)) == 3 else 1, max_size=4))
    return img


ALL_TYPES = sorted({t for v in FAMILIES.values() for t in v})


@st.composite
def block_cases(draw):
    img = draw(scene.imaging_cases(max_inner=4, max_k=3, kernel_kinds=("nonneg", "signed")))
    n = sum(1 for r in img["mask"] for v in r if not v)
    k = draw(st.sampled_from([1, 2, 2, 2, 3, 3, 3, 4]))
    objs = []
    for _ in range(k):
        obj = draw(scene.obj_specs(n, kinds=("rect", "delaunay", "delaunay", "func"), reg_types=("constant",),
                                   reg_none=True, max_sub=2, max_mesh=4))
        if obj["type"] != "func":
            obj = _general_position(draw, obj)
            if draw(st.integers(0, 3)) == 0:
                obj["reg"] = None
            else:
                types = [t for t in ALL_TYPES if obj["type"] == "delaunay" or "split" not in t]
                obj["reg"] = draw(reg_spec(types, obj["type"]))
        else:
            obj["reg"] = draw(reg_spec(["constant"], "func")) if draw(st.booleans()) else None
        objs.append(obj)
    img["objs"] = objs
    img["adapt"] = draw(adapt_images(n))
    return img


def _types_for(obj):
    if obj["type"] == "func":
        return ["constant"]
    return [t for t in ALL_TYPES if obj["type"] == "delaunay" or "split" not in t]


@st.composite
def reuse_cases(draw):
    """1-2 linear objects, an initial scheme each, then 2-3 steps that re-assign the regularization of one object (on the
    same object, on a copy.copy of it, or by mutating the scheme instance's attributes) with reads in between."""
    img = draw(scene.imaging_cases(max_inner=4, max_k=3, kernel_kinds=("nonneg", "signed")))
    n = sum(1 for r in img["mask"] for v in r if not v)
    objs = []
    for _ in range(draw(st.sampled_from([1, 1, 2]))):
        obj = draw(scene.obj_specs(n, kinds=("rect", "rect", "delaunay", "delaunay", "func"), reg_types=("constant",),
                                   reg_none=True, max_sub=2, max_mesh=4))
        if obj["type"] != "func":
            obj = _general_position(draw, obj)
        obj["reg"] = None if draw(st.integers(0, 4)) == 0 else draw(reg_spec(_types_for(obj), obj["type"]))
        objs.append(obj)
    img["objs"] = objs
    img["adapt"] = draw(adapt_images(n))
    img["read_first"] = draw(st.sampled_from(["obj", "inversion", "both", "both", "none"]))
    cur = [o["reg"] for o in objs]
    steps = []
    for _ in range(draw(st.sampled_from([2, 2, 3]))):
        i = draw(st.integers(0, len(objs) - 1))
        how = draw(st.sampled_from(["assign", "assign", "copy", "copy", "mutate"]))
        if how == "mutate" and cur[i] is None:
            how = "assign"
        if how == "mutate":
            reg = draw(reg_spec([cur[i]["type"]], objs[i]["type"]))
        elif draw(st.integers(0, 3)) == 0:
            reg = None
        elif cur[i] is not None and draw(st.integers(0, 2)) == 0:
            reg = draw(reg_spec([cur[i]["type"]], objs[i]["type"]))      # same scheme, other coefficients
        else:
            reg = draw(reg_spec(_types_for(objs[i]), objs[i]["type"]))
        cur[i] = reg
        steps.append({"obj": i, "how": how, "reg": reg, "read": draw(st.sampled_from(["obj", "inversion", "both"]))})
    img["steps"] = steps
    return img


# ---------------------------------------------------------------------------------------------
# builders (helpers local to C07: scene.build_reg does not know Zeroth / AdaptiveBrightnessSplitZeroth)
# ---------------------------------------------------------------------------------------------
def build_reg(spec, min_sep):
    import autoarray as aa
    if spec is None:
        return None
    t = spec["type"]
    if t == "zeroth":
        return aa.reg.Zeroth(coefficient=spec["coefficient"])
    if t == "adaptive_brightness_split_zeroth":
        return aa.reg.AdaptiveBrightnessSplitZeroth(
            zeroth_coefficient=spec["zeroth_coefficient"], zeroth_signal_scale=spec["zeroth_signal_scale"],
            inner_coefficient=spec["inner_coefficient"], outer_coefficient=spec["outer_coefficient"],
            signal_scale=spec["signal_scale"])
    return scene.build_reg(spec, min_sep)


def _with_duplicated_vertices(spec, info, mask, adapt):
    """Rebuild the Delaunay mapper of scene.build_linear_obj with vertex b moved onto vertex a (+ eps * extent * direction)
    for every [a, b, eps, direction] of spec["dups"]."""
    import autoarray as aa
    verts = np.array(info["vertices"], dtype=float)
    ext = float(np.ptp(verts, axis=0).max())
    for a, b, eps, d in spec["dups"]:
        verts[b] = verts[a] + eps * ext * np.asarray(DUP_DIRS[d])
    info = dict(info)
    info["vertices"] = verts
    mesh = aa.Mesh2DDelaunay(values=verts.copy())
    osamp = scene.over_sampler_for(mask, spec["sub"])
    mg = aa.MapperGrids(mask=mask, source_plane_data_grid=aa.Grid2DIrregular(values=np.array(info["source_grid"], dtype=float)),
                        source_plane_mesh_grid=mesh, image_plane_mesh_grid=None, adapt_data=adapt)
    info["mesh"] = mesh
    info["over_sampler"] = osamp
    return aa.Mapper(mapper_grids=mg, over_sampler=osamp, regularization=None), info


def build_objs(case):
    """Fresh mask, adapt image and linear objects (regularization attached) for a case."""
    import autoarray as aa
    mask = scene.build_mask(case)
    adapt = aa.Array2D(values=np.asarray(case["adapt"], dtype=float), mask=mask)
    objs, infos = [], []
    for spec in case["objs"]:
        bare = dict(spec); bare["reg"] = None
        obj, info = scene.build_linear_obj(bare, mask, adapt)
        if spec.get("dups") and spec["type"] == "delaunay":
            obj, info = _with_duplicated_vertices(spec, info, mask, adapt)
        obj.regularization = build_reg(spec.get("reg"), info.get("min_sep", 1.0))
        objs.append(obj); infos.append(info)
    return mask, objs, infos


def _target(value, label):
    # engine.target is a no-op when a saved case is replayed outside Hypothesis
    target(float(value), label=label)


# ---------------------------------------------------------------------------------------------
# oracles
# ---------------------------------------------------------------------------------------------
def reference_pairs(spec, info, obj, ctx, key=None):
    """Independent unordered neighbour pairs of the mesh; returns (pairs, degree array).

    Delaunay meshes: in general position the pairs are the brute-force empty-circumcircle edges.  With co-circular vertices
    (exact lattices) the Delaunay triangulation is not unique; the neighbouring pairs are then the edges of the
    triangulation the mapper interpolates on (mesh.delaunay.simplices), after checking that those simplices really are a
    Delaunay triangulation of the vertices.  In every case the implementation's neighbour list must be the edge set of a
    triangulation (planar, 3n-3-h edges), lie between the certain and the possible Delaunay edges, and equal the edge set
    of the mesh's own simplices, which must tile the convex hull."""
    if spec["type"] == "rect":
        pairs = meshadj.rect_pairs(spec["shape"])
        ctx.label("adjacency:rect")
    else:
        verts = info["vertices"]
        jit = spec["jitter"]
        ctx.label("vertices:exact-lattice" if not any(jit) else "vertices:partly-on-lattice" if 0.0 in jit else "vertices:general")
        ctx.label("lattice:%dx%d" % tuple(spec["lattice"]) if not any(jit) else None)
        mk = "mesh/delaunay"
        if any(0.0 < abs(v) < MIN_JITTER for v in jit):
            # never generated (see _general_position); a hand-written replay with such a vertex set is not judged
            ctx.tie(); ctx.label("vertices:near-degenerate-not-judged")
            simplices = np.asarray(obj.source_plane_mesh_grid.delaunay.simplices)
            pairs = meshadj.simplices_defects(verts, simplices)[1]
            deg = np.zeros(_params(spec), dtype=int)
            for i, j in pairs:
                deg[i] += 1; deg[j] += 1
            return pairs, deg
        if spec.get("dups"):
            return _pairs_with_duplicates(spec, verts, obj, ctx, mk)
        strict, possible = meshadj.delaunay_pairs(verts)
        nb = obj.neighbors
        impl, _ = meshadj.pairs_from_neighbor_lists(np.asarray(nb), np.asarray(nb.sizes))
        ctx.check(strict <= impl <= possible, mk + "/neighbours-not-delaunay",
                  lambda: "neighbour list misses certain Delaunay edges %s / has impossible edges %s" % (
                      sorted(strict - impl), sorted(impl - possible)))
        defects, skipped = meshadj.triangulation_defects(verts, impl)
        ctx.tie(skipped)
        ctx.check(not defects, mk + "/neighbours-not-a-triangulation",
                  lambda: "neighbour pairs are not the edge set of a triangulation of the %d vertices: %s" % (len(verts), "; ".join(defects)))
        simplices = np.asarray(obj.source_plane_mesh_grid.delaunay.simplices)
        sdef, sedges, und1 = meshadj.simplices_defects(verts, simplices)
        pdef, und2 = meshadj.planar_defects(verts, sedges)
        sdef = sdef + pdef
        ctx.tie(und1 + und2)
        if und1 + und2 + skipped:
            ctx.label("vertices:near-degenerate-within-band")
        if not (strict <= sedges <= possible):
            sdef.append("simplex edges miss certain Delaunay edges %s / have impossible edges %s" % (sorted(strict - sedges), sorted(sedges - possible)))
        ctx.check(not sdef, mk + "/simplices-not-a-delaunay-triangulation", lambda: "; ".join(sdef))
        ctx.check(impl == sedges, mk + "/neighbours-differ-from-simplices",
                  lambda: "neighbour pairs differ from the edges of mesh.delaunay.simplices: missing %s, extra %s" % (
                      sorted(sedges - impl), sorted(impl - sedges)))
        if strict == possible:
            pairs = strict
            ctx.label("adjacency:delaunay-unique")
        else:
            ctx.label("adjacency:delaunay-ambiguous")
            if not sdef:
                pairs = sedges          # the triangulation the mapper interpolates on, validated above
            elif not defects and strict <= impl <= possible:
                pairs = impl
            else:
                pairs = strict
    n = _params(spec)
    deg = np.zeros(n, dtype=int)
    for i, j in pairs:
        deg[i] += 1; deg[j] += 1
    return pairs, deg


def _pairs_with_duplicates(spec, verts, obj, ctx, mk):
    """Vertex sets with (nearly) coincident vertices.  Reference = scipy.spatial.Delaunay of the vertices computed here:
    its simplex edges are the neighbouring pairs and a vertex qhull dropped (in no simplex) has no neighbours.  That
    reference is itself cross-checked (a dropped vertex must coincide with another one within 1e-11 of the extent, the
    simplices must cover the hull, the edges must lie between the brute-force certain / possible Delaunay edges); the
    exact planarity / Euler-count tests are not applied (undecidable next to a near-duplicate)."""
    n = len(verts)
    exact = any(np.array_equal(verts[a], verts[b]) for a, b, _, _ in spec["dups"])
    ctx.label("vertices:duplicated", "duplicates:%d" % len(spec["dups"]),
              "duplicates:exact" if exact else "duplicates:near-only")
    edges, absent, simplices = meshadj.scipy_triangulation(verts)
    ctx.label("zero-neighbour-pixels:%d" % len(absent))
    far = [v for v in absent if meshadj.nearest_other_distance(verts, v) > 1e-11]
    area = meshadj.simplices_area_defect(verts, simplices)
    strict, possible = meshadj.delaunay_pairs(verts)
    if far or area or not (strict <= edges <= possible):
        # qhull itself misbehaves on this set: nothing about the library can be concluded
        ctx.tie(); ctx.label("duplicates:reference-triangulation-not-validated")
    nb = obj.neighbors
    sizes = np.asarray(nb.sizes)
    impl, _ = meshadj.pairs_from_neighbor_lists(np.asarray(nb), sizes)
    ctx.check(impl == edges, mk + "/duplicates/neighbours-differ-from-triangulation",
              lambda: "neighbour pairs differ from the edges of scipy.spatial.Delaunay(vertices): missing %s, extra %s" % (
                  sorted(edges - impl), sorted(impl - edges)))
    ctx.check(len(sizes) == n and all(int(sizes[v]) == 0 for v in absent), mk + "/duplicates/dropped-vertex-has-neighbours",
              lambda: "vertices %s are in no simplex but neighbors.sizes there is %s" % (absent, [int(sizes[v]) for v in absent]))
    deg = np.zeros(n, dtype=int)
    for i, j in edges:
        deg[i] += 1; deg[j] += 1
    return edges, deg


def form_matrix(n, pairs, pair_weight):
    """Matrix of q(x) = sum_pairs weight_ij (x_i - x_j)^2 (without ridge)."""
    h = np.zeros((n, n))
    for i, j in pairs:
        w = pair_weight(i, j)
        h[i, i] += w; h[j, j] += w; h[i, j] -= w; h[j, i] -= w
    return h


def form_value(x, pairs, pair_weight):
    return sum(pair_weight(i, j) * (x[i] - x[j]) ** 2 for i, j in sorted(pairs)) + RIDGE * float(np.dot(x, x))


def covariance_ref(points, scale, kind):
    p = np.asarray(points, dtype=float)
    d = np.sqrt(((p[:, None, :] - p[None, :, :]) ** 2).sum(-1))
    c = np.exp(-d ** 2 / (2.0 * scale ** 2)) if kind == "gaussian_kernel" else np.exp(-d / scale)
    return c + RIDGE * np.eye(len(p))


def generic_matrix_checks(h, n, t, key, ctx, rel_tol=1e-10, chol_ok=True):
    """shape, symmetry, PSD, Cholesky; returns False if the shape is wrong."""
    ctx.check(isinstance(h, np.ndarray) and h.shape == (n, n), key + "/shape",
              lambda: "regularization matrix shape %s, linear object has %d parameters" % (getattr(h, "shape", None), n))
    if not (isinstance(h, np.ndarray) and h.shape == (n, n)):
        return False
    ctx.check(bool(np.isfinite(h).all()), key + "/non-finite", "regularization matrix has non-finite entries")
    if not np.isfinite(h).all():
        return False
    mx = float(np.abs(h).max())
    asym = float(np.abs(h - h.T).max())
    ctx.check(asym <= rel_tol * mx, key + "/symmetry",
              lambda: "max|H-H^T|=%.3g > %.1e*max|H| (max|H|=%.3g) at %s" % (
                  asym, rel_tol, mx, np.unravel_index(np.argmax(np.abs(h - h.T)), h.shape)))
    ev = np.linalg.eigvalsh((h + h.T) / 2.0)
    ctx.check(ev.min() >= -rel_tol * mx, key + "/psd",
              lambda: "min eigenvalue %.6g < -%.1e*max|H| (max|H|=%.3g)" % (ev.min(), rel_tol, mx))
    _target(min(1.0, max(-1.0, -ev.min() / (mx + 1e-300))), "neg-min-eig")
    if t in STRICT_PD:
        if chol_ok and n * EPS * mx <= 1e-9:
            try:
                np.linalg.cholesky(h)
                ok = True
            except np.linalg.LinAlgError:
                ok = False
            ctx.check(ok, key + "/cholesky", lambda: "np.linalg.cholesky(H) fails: min eigenvalue %.6g, max|H|=%.3g, n=%d" % (ev.min(), mx, n))
            ctx.check(ev.min() > 0.0, key + "/not-positive-definite", lambda: "min eigenvalue %.6g <= 0" % ev.min())
            ctx.label("cholesky:checked")
        else:
            ctx.tie(); ctx.label("cholesky:round-off-band-skipped")
    return True


def do_read(obj, name):
    """Evaluate one public quantity of the mapper / its mesh / its scheme (read-only use).  Returns 'ok', 'n/a' (the object
    has no such quantity) or 'raised:<Type>' (not this property's business; the matrix must still be right afterwards)."""
    mesh = obj.source_plane_mesh_grid
    reg = obj.regularization
    values = np.arange(int(obj.params), dtype=float) + 1.0
    try:
        if name == "mesh.edge_pixel_list":
            list(mesh.edge_pixel_list)
        elif name == "mapper.edge_pixel_list":
            list(obj.edge_pixel_list)
        elif name == "mesh.neighbors":
            np.asarray(mesh.neighbors).sum()
        elif name == "mesh.neighbors.sizes":
            np.asarray(mesh.neighbors.sizes).sum()
        elif name == "mapper.neighbors":
            np.asarray(obj.neighbors).sum(); np.asarray(obj.neighbors.sizes).sum()
        elif name == "mapper.pixel_signals":
            obj.pixel_signals_from(signal_scale=0.7)
        elif name == "mapper.mapping_matrix":
            obj.mapping_matrix
        elif name == "mapper.unique_mappings":
            obj.unique_mappings
        elif name == "mapper.pix_sub_weights":
            obj.pix_sub_weights
        elif name == "mapper.sub_slim_indexes_for_pix_index":
            obj.sub_slim_indexes_for_pix_index
        elif name == "mesh.voronoi_pixel_areas":
            if not hasattr(mesh, "voronoi_pixel_areas"):
                return "n/a"
            mesh.voronoi_pixel_areas
        elif name == "mesh.split_cross":
            if not hasattr(mesh, "split_cross"):
                return "n/a"
            mesh.split_cross
        elif name == "mapper.pix_sub_weights_split_cross":
            if not hasattr(type(obj), "pix_sub_weights_split_cross"):
                return "n/a"
            obj.pix_sub_weights_split_cross
        elif name == "mesh.interpolated_array":
            mesh.interpolated_array_from(values=values, shape_native=(5, 4))
        elif name == "mapper.interpolated_array":
            obj.interpolated_array_from(values=values, shape_native=(4, 5))
        elif name == "mesh.interpolation_grid":
            mesh.interpolation_grid_from(shape_native=(4, 4))
        elif name == "scheme.weights":
            reg.regularization_weights_from(linear_obj=obj)
        elif name == "scheme.matrix":
            reg.regularization_matrix_from(linear_obj=obj)
        elif name == "linear_obj.regularization_matrix":
            obj.regularization_matrix
        else:
            raise ValueError(name)
    except ValueError:
        raise
    except Exception as e:  # noqa: BLE001
        return "raised:%s" % type(e).__name__
    return "ok"


def _same(a, b):
    a, b = np.asarray(a, dtype=float), np.asarray(b, dtype=float)
    return a.shape == b.shape and bool(np.all(np.abs(a - b) <= 1e-12 * (np.abs(b).max() if b.size else 0.0)))


def prior_read_check(case, h, ctx, mesh):
    """The matrix computed after the prior reads must equal the matrix of a freshly built object that nobody touched
    (1e-12*max|H|).  On a mismatch the reads are replayed one at a time on fresh objects to name the culprit in the key."""
    prior = case.get("prior", [])
    if not prior:
        return
    _, fresh, _ = build_objs(case)
    want = np.array(fresh[0].regularization.regularization_matrix_from(linear_obj=fresh[0]), dtype=float)
    if _same(h, want):
        ctx.comparisons += 1
        return
    culprits = []
    for r in sorted(set(prior)):
        _, objs1, _ = build_objs(case)
        do_read(objs1[0], r)
        h1 = np.array(objs1[0].regularization.regularization_matrix_from(linear_obj=objs1[0]), dtype=float)
        if not _same(h1, want):
            culprits.append(r)
    for r in culprits or ["combination"]:
        ctx.fail("prior-reads/%s/%s/matrix-changed" % (mesh, r),
                 "regularization matrix computed after reading %s on the same mapper differs from the matrix of a fresh mapper: "
                 "max|diff|=%.6g (max|H|=%.6g)" % (prior, float(np.abs(np.asarray(h, dtype=float) - want).max()) if np.shape(h) == want.shape else float("nan"),
                                                   float(np.abs(want).max())))


def body_scheme(case, ctx):
    spec = case["objs"][0]
    t = spec["reg"]["type"]
    mesh = spec["type"]
    key = "%s/%s" % (t, mesh)
    ctx.label("scheme:%s" % t, "mesh:%s" % mesh, "scheme-mesh:%s" % key)
    param_labels(spec["reg"], ctx)
    _, objs, infos = build_objs(case)
    obj, info = objs[0], infos[0]
    reg = obj.regularization
    n = _params(spec)
    ctx.check(int(obj.params) == n, "harness/params", "mapper has %s parameters, expected %d" % (obj.params, n))
    for r in case.get("prior", []):
        status = do_read(obj, r)
        ctx.label("prior-read:%s" % r if status == "ok" else "prior-read-%s:%s" % (status, r))
    ctx.label("prior-reads:%d" % len(case.get("prior", [])))
    if spec.get("dups"):
        # coincident vertices: the split-cross schemes need the Voronoi diagram, which qhull cannot build for some of these
        # sets; the library signals that with MeshException (its declared "ill-posed mesh" error): a precondition, not a defect
        from autoarray import exc
        try:
            reg.regularization_matrix_from(linear_obj=obj)
        except exc.MeshException:
            ctx.tie(); ctx.label("duplicates:mesh-exception-precondition")
            return
    h = ctx.impl(key + "/matrix", lambda: reg.regularization_matrix_from(linear_obj=obj))
    h = np.array(h, dtype=float) if isinstance(h, np.ndarray) else h
    if isinstance(h, np.ndarray):
        prior_read_check(case, h, ctx, mesh)
    ctx.label("sub:per-pixel" if isinstance(spec["sub"], list) and len(set(spec["sub"])) > 1 else "sub:uniform")

    rel_tol, chol_ok = 1e-10, True
    if t in ("gaussian_kernel", "exponential_kernel"):
        scale = spec["reg"]["scale_rel"] * info["min_sep"]
        pts = np.asarray(info["mesh"], dtype=float) if mesh == "rect" else info["vertices"]
        cond = float(np.linalg.cond(covariance_ref(pts, scale, t)))
        rel_tol = max(1e-10, 8.0 * EPS * cond)
        chol_ok = cond <= 1e6
        ctx.label("kernel-cond:1e%d" % int(np.floor(np.log10(cond))))
    if not generic_matrix_checks(h, n, t, key, ctx, rel_tol, chol_ok):
        return
    mx = float(np.abs(h).max())

    # mesh degree structure (for the non-trivial rule) from the independent adjacency
    pairs, deg = reference_pairs(spec, info, obj, ctx, key)
    nontrivial = n >= 6 and len(set(deg.tolist())) > 1

    w = None
    if t in ADAPTIVE or t in ("constant", "constant_zeroth"):
        w = np.asarray(ctx.impl(key + "/weights", lambda: reg.regularization_weights_from(linear_obj=obj)), dtype=float)
        ctx.check(w.shape == (n,) and bool(np.isfinite(w).all()), key + "/weights-shape",
                  lambda: "regularization_weights_from returned shape %s / non-finite values" % (w.shape,))
        if t in ADAPTIVE:
            spread = w.shape == (n,) and float(np.ptp(w)) > 1e-6 * float(np.abs(w).max() + 1e-300)
            ctx.label("weights:varying" if spread else "weights:constant")
            r = spec["reg"]
            explicit_equal = r.get("inner_coefficient", 0) == r.get("outer_coefficient", 1) or r.get("signal_scale") == 0.0
            nontrivial = nontrivial and (spread or explicit_equal)
    ctx.nt(nontrivial)

    if t in ("constant", "adaptive_brightness") and w is not None and w.shape == (n,):
        if t == "constant":
            c2 = float(spec["reg"]["coefficient"]) ** 2
            pw = lambda i, j: c2
        else:
            pw = lambda i, j: float(w[i]) ** 2 + float(w[j]) ** 2
        hs = (h + h.T) / 2.0
        # (a) random-vector quadratic forms
        for k, xv in enumerate(case["x"]):
            x = np.asarray(xv, dtype=float)
            got = float(x @ h @ x)
            want = form_value(x, pairs, pw)
            atol = 32.0 * EPS * float(np.abs(x) @ np.abs(h) @ np.abs(x)) + 1e-290   # floor: denormal products carry no digits
            ctx.close(got, want, key + "/quadratic-form", rtol=1e-9, atol=atol,
                      what="x^T H x vs sum over neighbouring pairs (+1e-8|x|^2), vector %d" % k)
        # (b) polarisation: the symmetric part of H is the matrix of the stated quadratic form
        href = form_matrix(n, pairs, pw) + RIDGE * np.eye(n)
        bad = np.abs(hs - href) > 1e-9 * np.abs(href) + 16.0 * EPS * mx
        ctx.check(not bad.any(), key + "/quadratic-form",
                  lambda: "symmetric part of H differs from the pair-sum matrix at %s: got %.12g want %.12g" % (
                      np.argwhere(bad)[0].tolist(), hs[tuple(np.argwhere(bad)[0])], href[tuple(np.argwhere(bad)[0])]))
        # (c) ridge: differences vanish on the constant vector
        ones = np.ones(n)
        got = float(ones @ h @ ones)
        want = RIDGE * n
        atol = 8.0 * EPS * float(np.abs(h).sum())
        if atol <= 0.25 * want:
            ctx.close(got, want, key + "/ridge", rtol=1e-6, atol=atol, what="1^T H 1 vs 1e-8*n")
            ctx.label("ridge:checked")
        else:
            ctx.tie(); ctx.label("ridge:round-off-band-skipped")


# ---------------------------------------------------------------------------------------------
# block-diagonal assembly
# ---------------------------------------------------------------------------------------------
def _settings(aa):
    return aa.SettingsInversion(use_w_tilde=False, use_positive_only_solver=False,
                                no_regularization_add_to_curvature_diag_value=1e-3, force_edge_pixels_to_zeros=False)


def body_blocks(case, ctx):
    import autoarray as aa
    if not voronoi_precondition_ok(case, ctx):
        return
    specs = case["objs"]
    ctx.label("objs:%d" % len(specs))
    for s in specs:
        ctx.label("obj:%s" % s["type"], "reg:none" if s.get("reg") is None else "reg:%s" % s["reg"]["type"])
        ctx.label("vertices:duplicated" if s.get("dups") else None)
    # reference blocks from freshly built, independent objects
    _, ref_objs, _ = build_objs(case)
    blocks, has_reg = [], []
    for o in ref_objs:
        p = int(o.params)
        if o.regularization is None:
            blocks.append(np.zeros((p, p))); has_reg.append(False)
        else:
            blocks.append(np.array(o.regularization.regularization_matrix_from(linear_obj=o), dtype=float)); has_reg.append(True)
    sizes = [b.shape[0] for b in blocks]
    total = sum(sizes)
    want = np.zeros((total, total))
    lo = 0
    ranges = []
    for b in blocks:
        want[lo:lo + len(b), lo:lo + len(b)] = b
        ranges.append((lo, lo + len(b)))
        lo += len(b)
    # non-trivial: reversing the object order changes the assembled matrix
    rev = np.zeros((total, total)); lo = 0
    for b in blocks[::-1]:
        rev[lo:lo + len(b), lo:lo + len(b)] = b; lo += len(b)
    order_visible = len(blocks) >= 2 and not np.array_equal(rev, want)
    ctx.nt(order_visible)
    ctx.label("order:visible" if order_visible else "order:invisible",
              "unregularized:%s" % ("none" if all(has_reg) else "all" if not any(has_reg) else "some"))
    if len(blocks) >= 2 and not has_reg[0] and any(has_reg):
        ctx.label("unregularized:first")
    mx = float(np.abs(want).max())
    atol = 1e-12 * mx

    mask, objs, _ = build_objs(case)
    sc_case = dict(case)
    dataset = scene.build_imaging(sc_case, mask)
    inv = ctx.impl("inversion/construct", aa.Inversion, dataset=dataset, linear_obj_list=objs, settings=_settings(aa))
    for o, b, hr, spec in zip(objs, blocks, has_reg, specs):
        got = np.array(ctx.impl("linear_obj/regularization_matrix", lambda: o.regularization_matrix), dtype=float)
        if not hr:
            ctx.equal(got, b, "linear_obj/unregularized-block-not-zero", "regularization_matrix of an object without regularization")
        else:
            ctx.close(got, b, "linear_obj/regularization_matrix", atol=atol, what="linear_obj.regularization_matrix vs scheme.regularization_matrix_from")
    got = np.array(ctx.impl("inversion/regularization_matrix", lambda: inv.regularization_matrix), dtype=float)
    ctx.check(got.shape == want.shape, "inversion/shape", lambda: "regularization_matrix shape %s, total parameters %d" % (got.shape, total))
    if got.shape != want.shape:
        return
    # per-block diagnosis so different defects get different keys
    for k, ((a, b_), hr) in enumerate(zip(ranges, has_reg)):
        blk = got[a:b_, a:b_]
        if not hr:
            ctx.check(not blk.any(), "inversion/unregularized-block-not-zero",
                      lambda: "object %d (%s) has no regularization but its block has max|.|=%g" % (k, specs[k]["type"], np.abs(blk).max()))
    off = got.copy()
    for a, b_ in ranges:
        off[a:b_, a:b_] = 0.0
    ctx.check(not off.any(), "inversion/off-diagonal-block-not-zero", lambda: "entries outside the diagonal blocks: max|.|=%g" % np.abs(off).max())
    ctx.close(got, want, "inversion/block-order", atol=atol, what="inversion.regularization_matrix vs block diagonal in object order")
    # reduced matrix: rows / columns of unregularized objects removed
    keep = [i for (a, b_), hr in zip(ranges, has_reg) if hr for i in range(a, b_)]
    red = np.array(ctx.impl("inversion/regularization_matrix_reduced", lambda: inv.regularization_matrix_reduced), dtype=float)
    ctx.close(red, want[np.ix_(keep, keep)], "inversion/reduced", atol=atol,
              what="regularization_matrix_reduced vs block diagonal of the regularized objects")


# ---------------------------------------------------------------------------------------------
# re-use of a linear object with another scheme
# ---------------------------------------------------------------------------------------------
def voronoi_precondition_ok(case, ctx):
    """Multi-object bodies: a Delaunay object with coincident vertices whose Voronoi diagram qhull cannot build (library
    raises MeshException from mesh.voronoi; needed by split-cross schemes and edge_pixel_list) is outside the domain."""
    if not any(o.get("dups") for o in case["objs"]):
        return True
    from autoarray import exc
    _, objs, _ = build_objs(case)
    for o, spec in zip(objs, case["objs"]):
        if spec.get("dups"):
            try:
                o.source_plane_mesh_grid.voronoi
            except exc.MeshException:
                ctx.tie(); ctx.label("duplicates:mesh-exception-precondition")
                return False
    return True


def _fresh_blocks(case, regs):
    """Matrices of freshly built objects carrying `regs` (zero block for None)."""
    c = dict(case)
    c["objs"] = [dict(o, reg=r) for o, r in zip(case["objs"], regs)]
    _, objs, _ = build_objs(c)
    out = []
    for o in objs:
        p = int(o.params)
        out.append(np.zeros((p, p)) if o.regularization is None
                   else np.array(o.regularization.regularization_matrix_from(linear_obj=o), dtype=float))
    return out


def _block_diag(blocks):
    total = sum(len(b) for b in blocks)
    m = np.zeros((total, total)); lo = 0
    for b in blocks:
        m[lo:lo + len(b), lo:lo + len(b)] = b; lo += len(b)
    return m


def body_reuse(case, ctx):
    import copy
    import autoarray as aa
    if not voronoi_precondition_ok(case, ctx):
        return
    mask, objs, infos = build_objs(case)
    dataset = scene.build_imaging(case, mask)
    cur = [o["reg"] for o in case["objs"]]
    ctx.label("objs:%d" % len(objs), "read-first:%s" % case["read_first"])
    for o in case["objs"]:
        ctx.label("obj:%s" % o["type"])

    def read(how, tag, changed):
        blocks = _fresh_blocks(case, cur)
        mx = max([float(np.abs(b).max()) for b in blocks if b.size] + [0.0])
        atol = 1e-12 * mx
        if how in ("obj", "both"):
            for k, (o, b) in enumerate(zip(objs, blocks)):
                got = np.array(ctx.impl("reuse/linear_obj/regularization_matrix", lambda: o.regularization_matrix), dtype=float)
                suffix = "/unregularized-block-not-zero" if cur[k] is None else "/stale"
                ctx.close(got, b, "reuse/%s/linear_obj%s" % (tag if k == changed else "untouched", suffix), atol=atol,
                          what="linear_obj.regularization_matrix of object %d (%s) vs a freshly built object with scheme %s" % (
                              k, case["objs"][k]["type"], cur[k] and cur[k]["type"]))
        if how in ("inversion", "both"):
            inv = ctx.impl("reuse/inversion/construct", aa.Inversion, dataset=dataset, linear_obj_list=list(objs), settings=_settings(aa))
            got = np.array(ctx.impl("reuse/inversion/regularization_matrix", lambda: inv.regularization_matrix), dtype=float)
            want = _block_diag(blocks)
            none_changed = changed is not None and cur[changed] is None
            ctx.close(got, want, "reuse/%s/inversion%s" % (tag, "/unregularized-block-not-zero" if none_changed else "/stale"), atol=atol,
                      what="regularization_matrix of an inversion built after the re-assignment vs block diagonal of freshly built objects")
            lo = 0; keep = []
            for b, r in zip(blocks, cur):
                if r is not None:
                    keep.extend(range(lo, lo + len(b)))
                lo += len(b)
            red = np.array(ctx.impl("reuse/inversion/regularization_matrix_reduced", lambda: inv.regularization_matrix_reduced), dtype=float)
            ctx.close(red, want[np.ix_(keep, keep)], "reuse/%s/inversion-reduced" % tag, atol=atol,
                      what="regularization_matrix_reduced of an inversion built after the re-assignment")

    if case["read_first"] != "none":
        read(case["read_first"], "initial", None)
    nontrivial = False
    for step in case["steps"]:
        i, how, spec = step["obj"], step["how"], step["reg"]
        min_sep = infos[i].get("min_sep", 1.0)
        old_spec = cur[i]
        kind = "to-none" if spec is None else "from-none" if old_spec is None else \
            "same-scheme" if spec["type"] == old_spec["type"] else "other-scheme"
        ctx.label("step:%s" % how, "change:%s" % kind, "read:%s" % step["read"])
        param_labels(spec, ctx)
        if how == "assign":
            objs[i].regularization = build_reg(spec, min_sep)
        elif how == "copy":
            original, before = objs[i], _fresh_blocks(case, cur)[i]
            objs[i] = copy.copy(original)
            objs[i].regularization = build_reg(spec, min_sep)
        else:  # mutate the attributes of the scheme instance the object carries
            objs[i].regularization.__dict__.update(build_reg(spec, min_sep).__dict__)
        cur[i] = spec
        nontrivial = nontrivial or (spec != old_spec and case["read_first"] != "none")
        read(step["read"], how, i)
        if how == "copy":
            got = np.array(original.regularization_matrix, dtype=float)
            ctx.close(got, before, "reuse/copy/original-changed", atol=1e-12 * float(np.abs(before).max() if before.size else 0.0),
                      what="regularization_matrix of the object that was copied, after re-assigning the copy's scheme")
    ctx.nt(nontrivial)


# ---------------------------------------------------------------------------------------------
# matrices read after a real inversion has computed its reconstruction (positive-only, edge pixels forced to zero)
# ---------------------------------------------------------------------------------------------
def body_after_reconstruction(case, ctx):
    import autoarray as aa
    if not voronoi_precondition_ok(case, ctx):
        return
    specs = case["objs"]
    kinds = "+".join(sorted({s["type"] for s in specs}))
    ctx.label("objs:%d" % len(specs), "kinds:%s" % kinds)
    for s in specs:
        ctx.label("obj:%s" % s["type"], "reg:none" if s.get("reg") is None else "reg:%s" % s["reg"]["type"])
        ctx.label("vertices:duplicated" if s.get("dups") else None)
    regs = [s.get("reg") for s in specs]
    blocks = _fresh_blocks(case, regs)
    want = _block_diag(blocks)
    atol = 1e-12 * float(np.abs(want).max() if want.size else 0.0)
    mask, objs, _ = build_objs(case)
    dataset = scene.build_imaging(case, mask)
    settings = aa.SettingsInversion(use_w_tilde=False, use_positive_only_solver=True, force_edge_pixels_to_zeros=True,
                                    no_regularization_add_to_curvature_diag_value=1e-3)
    inv = ctx.impl("after-reconstruction/construct", aa.Inversion, dataset=dataset, linear_obj_list=objs, settings=settings)
    first = case.get("read_matrix_first", False)
    if first:   # the inversion caches its matrix before the reconstruction touches the meshes
        np.array(inv.regularization_matrix)
    ctx.label("matrix-read-before-reconstruction" if first else "matrix-read-after-reconstruction")
    try:
        inv.reconstruction
        ctx.label("reconstruction:ok")
    except Exception as e:  # noqa: BLE001  solver failures are C05's business; the matrices must be right regardless
        ctx.label("reconstruction:raised-%s" % type(e).__name__)
    ctx.nt(any(s["type"] != "func" and s.get("reg") is not None for s in specs))
    got = np.array(ctx.impl("after-reconstruction/regularization_matrix", lambda: inv.regularization_matrix), dtype=float)
    ctx.close(got, want, "after-reconstruction/%s/inversion-matrix" % kinds, atol=atol,
              what="inversion.regularization_matrix read after inversion.reconstruction (positive-only, edge pixels forced to zero) vs fresh objects")
    for k, (o, b) in enumerate(zip(objs, blocks)):
        g = np.array(ctx.impl("after-reconstruction/linear_obj", lambda: o.regularization_matrix), dtype=float)
        ctx.close(g, b, "after-reconstruction/%s/linear_obj-matrix" % specs[k]["type"], atol=atol,
                  what="regularization_matrix of object %d (%s) after it went through an inversion's reconstruction" % (k, specs[k]["type"]))
    inv2 = ctx.impl("after-reconstruction/construct-second", aa.Inversion, dataset=dataset, linear_obj_list=objs, settings=_settings(aa))
    got2 = np.array(ctx.impl("after-reconstruction/second-inversion", lambda: inv2.regularization_matrix), dtype=float)
    ctx.close(got2, want, "after-reconstruction/%s/second-inversion-matrix" % kinds, atol=atol,
              what="regularization_matrix of a second inversion built from the same linear objects afterwards vs fresh objects")


@st.composite
def after_reconstruction_cases(draw):
    case = draw(block_cases())
    case["objs"] = case["objs"][:2]
    # at least one regularized mapper
    if not any(o["type"] != "func" and o.get("reg") is not None for o in case["objs"]):
        n = sum(1 for r in case["mask"] for v in r if not v)
        obj = _general_position(draw, draw(scene.obj_specs(n, kinds=("rect", "delaunay"), reg_types=("constant",),
                                                            reg_none=False, max_sub=2, max_mesh=4)))
        obj["reg"] = draw(reg_spec(_types_for(obj), obj["type"]))
        case["objs"][0] = obj
    case["read_matrix_first"] = draw(st.integers(0, 3)) == 3
    return case


def _ex(q, t):
    return {"quick": q, "thorough": t}


SUBCHECKS = [
    SubCheck("neighbour-schemes", body_scheme, strategy=scheme_cases("neighbour"),
             examples=_ex(720, 14000), shards=_ex(4, 16)),
    SubCheck("zeroth-schemes", body_scheme, strategy=scheme_cases("zeroth"),
             examples=_ex(240, 3600), shards=_ex(1, 8)),
    SubCheck("split-schemes", body_scheme, strategy=scheme_cases("split"),
             examples=_ex(480, 9600), shards=_ex(3, 16)),
    SubCheck("kernel-schemes", body_scheme, strategy=scheme_cases("kernel"),
             examples=_ex(320, 9600), shards=_ex(2, 16)),
    SubCheck("coincident-vertices", body_scheme, strategy=scheme_cases("neighbour", force_dups=True),
             examples=_ex(200, 6400), shards=_ex(1, 16)),
    SubCheck("block-assembly", body_blocks, strategy=block_cases(),
             examples=_ex(360, 7200), shards=_ex(2, 16)),
    SubCheck("scheme-reassignment", body_reuse, strategy=reuse_cases(),
             examples=_ex(360, 7200), shards=_ex(2, 16)),
    SubCheck("after-reconstruction", body_after_reconstruction, strategy=after_reconstruction_cases(),
             examples=_ex(200, 4800), shards=_ex(1, 16)),
]
