"""C12 — all geometry is covariant under translation of the coordinate origin.

Metamorphic check: every case builds the same configuration twice, once with origin o and once with origin
o + d (points, centres, source grids and mesh vertices that are *inputs* are translated with the origin), runs
a catalogue of public entry points on both and demands

    coordinate-valued result:  r(o + d) - r(o) == d            (1e-9 absolute + 64 ulp of the largest coordinate)
    extent-valued result:      r(o + d) - r(o) == (dx, dx, dy, dy)
    invariant result:          r(o + d) == r(o)                 (exact for ints / bools, 1e-9 for floats)

and that an exception occurs for both origins or for neither.
"""
import os
import traceback

import numpy as np
from hypothesis import strategies as st

from vp import gens, scene
from vp.engine import SubCheck, Violation, KnownSkip, HarnessError

PROPERTY = "C12"
RULE = (
    "Every case fixes a configuration (mask / frame shape, pixel scales, parameters), a magnitude class M in "
    "{1e2, 1e4, 1e6} (1e2 drawn twice as often), an origin o (|o|<=M, zero in 1/4 of cases), a shift d (|d|<=M; "
    "kinds any / small / tiny 1e-6 / axis-aligned; in a large class at least one of o, d is large) and an order, and "
    "builds it twice, at o and at o+d, in that order; inputs that are positions (points, centres, source grids, mesh "
    "vertices, dataset arrays) are generated relative to the origin so they translate with it. A catalogue of "
    "public entry points (from the property's observe_at list and the helpers around them), each declared "
    "coordinate-valued / extent-valued / invariant, is evaluated in both worlds. Oracle (metamorphic): "
    "r(o+d)-r(o)==d for coordinates, (dx,dx,dy,dy) for extents, equality for index/count/bool results (exact) and "
    "for weights/matrices/values; float comparisons use atol = absolute term (1e-9; 1e-8 mapping matrices and float "
    "pixel coordinates; 1e-7 Hilbert mesh and inversion matrices) + 64*eps*(2M+100)*amplification, amplification 1 "
    "for coordinates, 1/pixel-scale for results in pixel units, 60 for the profile averages of the over samplers, "
    "64 for the Hilbert mesh, (2M+100)/separation^2 for Delaunay weights; the origin attribute, pixel scales and "
    "boolean mask of every returned structure are observed too; an exception must occur for both origins or "
    "neither. Sub-checks: mask_grids (grids, derived masks/grids, over-sampled and border grids, uniform and "
    "iterative over-sampler averages of a profile centred on the origin, centre, extent, zoom, radial projection, "
    "resize/pad/trim, is_uniform on Hypothesis masks <=12x12), image_mesh (Overlay on general masks, Hilbert on "
    "circular masks in odd frames with affine adapt data, mesh-pixel counts), imaging (apply_mask / "
    "apply_noise_scaling / apply_over_sampling / trimmed_after_convolution_from), simulate "
    "(SimulatorImaging.via_image_from with and without Poisson noise map, S/N-limited noise map, noise-map helpers), "
    "shared_config (ONE instance of OverSamplingUniform x5, OverSamplingDataset x2, OverSamplingIterate, PSF, "
    "SimulatorImaging, image_mesh.Overlay, mesh.Rectangular, reg.Constant and SettingsInversion serves both "
    "origins; every entry is evaluated in the sequence A B B A: over samplers and their grids, masked datasets and "
    "their uniform / pixelization / non-uniform over-sampled grids and border sub-grid, apply_over_sampling, "
    "profile averages, simulated datasets, overlay mesh, rectangular mapper tables and matrix, inversion data "
    "vector / curvature / regularization matrices; per-pixel sub-size tables (int / float Array2D, ndarray, list) "
    "and from_radial_bins / from_adapt schemes created on the first-built origin and reused for both; in "
    "mask_grids the tables are created on the other world's mask), constructors (every construction / I/O route of "
    "Mask2D, Array2D, Grid2D, VectorYX2D and Mesh2DRectangular that takes an origin: plain constructors incl. a "
    "Mask2D passed as `mask`, all_false, circular / circular_annular / circular_anti_annular / elliptical / "
    "elliptical_annular, from_pixel_coordinates, output_to_fits -> from_fits in a per-case temp dir (hdu, invert, "
    "resized_mask_shape), hdu_for_output -> from_primary_hdu, no_mask (native / slim+shape_native / list), full / "
    "ones / zeros, apply_mask, from_yx_1d / from_yx_2d, uniform, bounding_box (both buffer modes), from_mask, "
    "from_fits; each result is observed for origin, extent, bools, pixel scales, its pixel-centre grid and an "
    "over-sampled grid under the translation relation AND, in each world, against the closed form "
    "o+((H-1)/2-i)*sy, o+(j-(W-1)/2)*sx at the origin passed to the route; routes without an origin argument - "
    "Array2D.from_yx_and_values, Imaging.from_fits, and the mask of Grid2D.from_extent, whose origin the library's own "
    "test pins to (0,0) - are a stated precondition and only labelled), pixel_indices (scaled<->pixel conversions of translated points "
    "given in pixel units), mappers (rectangular and Delaunay mappers from vp.scene on translated masks: mesh "
    "geometry, index/weight tables, mapping matrix; Delaunay bounded to M<=1e4 with pixel scales >=1 in the 1e4 "
    "class). Inputs of int()-based functions are constructed away from cell boundaries: points in pixel units keep "
    ">= 4 tie bands from a pixel boundary, tie band = 1e-6 + 256*eps*(2M+100)/cell; radial centres sit (j+f) pixels "
    "from the frame centre with f in {1/8,1/4,0.3,0.7,7/8}; overlay and rectangular mesh sizes are chosen so that "
    "no overlay centre / source point is in a tie band of an interior cell boundary. What is left is skipped and "
    "counted: rows of a rectangular mapper in a tie band when no mesh size 3..5 is free, radial projections whose "
    "longest direction is ambiguous (anisotropic scales), Delaunay rows of image pixels owning a sub-pixel within "
    "1e-7+256*eps*(2M+100) of the hull boundary / of a nearest-vertex tie, and Delaunay cases whose triangulation is "
    "within 1e-6+64*eps*((2M+100)/spread)^2 of co-circular. The outer 1e-8 buffer of the rectangular mesh is never "
    "excluded. Non-trivial = both components of d non-zero and, where the configuration is built on a general mask "
    "(mask_grids, Overlay, imaging, shared_config, constructors, mappers), the unmasked region is not centred in the frame; "
    "distinct = SHA-1 of the canonical case."
)
ASSUMPTIONS = [
    "coordinates stay below 2M+100 with M<=1e6 (frames <=12 pixels of scale <=5), so one rounding of a coordinate is "
    "<= eps*(2M+100) <= 4.5e-10; tolerances allow 64 of them (times the stated amplification) on top of the absolute "
    "term, tie bands 256 of them per cell",
    "the unchanged tree was measured to keep its rectangular-mesh index tables up to |coordinate| ~1e7 (1e-8 edge "
    "buffer, 0.05 pixel scale; it fails at 1e8), Grid2D.is_uniform's absolute 1e-8 test up to ~1e7, the Hilbert "
    "mesh to ~1e3 ulp of the coordinate; the classes stop at M=1e6, one decade inside",
    "Delaunay: Qhull's in-circle test and the shoelace triangle areas behind the interpolation weights are computed "
    "on absolute coordinates and are only resolved to eps*(M/separation)^2; this is treated as the float resolution "
    "of the implementation, not as a violation, and the Delaunay class is bounded accordingly",
    "int()-based pixel / cell assignment is only compared for points outside the tie band of a boundary; the outer "
    "1e-8 buffer of Mesh2DRectangular.overlay_grid is not treated as a tie",
    "Delaunay tables are compared through the mapping matrix and neighbour lists, never through simplex ids",
    "Hilbert image mesh: adapt data is an affine function of position on an unmasked frame, so the linear "
    "interpolation inside hilbert.image_and_grid_from does not depend on how Qhull triangulates the regular pixel "
    "grid (which is degenerate and may legitimately change with the origin); frames are odd-sized with >=1 pixel "
    "margin so is_circular / circular_radius are tie-free and no Hilbert point touches the interpolation hull",
    "iterative over sampling: the profile 50+b.(r-o)+q|r-o|^2 and the fractional accuracies 0.5 / 1-1e-9 are chosen "
    "so that every threshold comparison is decisive (ratio of successive averages within [0.85,1] and, for q>0, "
    ">=8e-9 away from 1), so the path through the sub-sizes cannot depend on rounding",
    "sharing one configuration object between masks / datasets that differ only in origin is ordinary use (the "
    "objects are documented as settings and are passed around by the dataset and grid classes)",
    "FITS headers written by the library carry the pixel scale but not the origin, so every FITS / HDU route is "
    "exercised with the origin passed explicitly to the reader, as its signature requires; routes with no origin "
    "argument (Array2D.from_yx_and_values, Imaging.from_fits, Grid2D.from_extent's mask, pinned to (0,0) by "
    "test__from_extent) cannot carry an origin and are not held to the property",
    "Mask2D.circular's `centre` argument is not exercised: its docstring does not say whether it is absolute or "
    "relative to the origin",
    "SimulatorImaging is run with a fixed noise_seed, which makes its Poisson deviate a deterministic function "
    "of the (invariant) image values",
    "an exception raised by repository code for both origins is outside this property (labelled both-raise); an "
    "exception raised by harness code is a harness error",
    "numba is absent, so the @jit kernels run as plain Python",
]
TECHNIQUE = ("property-based testing (Hypothesis) with a metamorphic oracle: translation of the origin over a "
             "catalogue of coordinate-, extent- and index-valued entry points")

ATOL = 1e-9          # coordinates, weights, values (absolute term; see tol())
ATOL_MATRIX = 1e-8   # mapping matrices (Delaunay barycentric weights)
ATOL_HILBERT = 1e-7  # chain of two interpolations inside the Hilbert image mesh
TIE_PIX = 1e-6       # pixel / cell units (absolute term; see tie_pix())
TIE_HULL = 1e-7      # scaled units, Delaunay hull boundary and nearest-vertex ties (absolute term)
TIE_CIRC = 1e-6      # normalised in-circle determinant (absolute term)
EPS = float(np.finfo(float).eps)
ULPS_TOL = 64        # tolerance  = absolute term + ULPS_TOL * eps * max|coordinate| (* amplification)
ULPS_TIE = 256       # tie band   = absolute term + ULPS_TIE * eps * max|coordinate| / cell size
FRAME_SPAN = 100.0   # upper bound of |position - origin| of anything generated (12 pixels of scale <= 5, offsets)
MAGS = (1e2, 1e2, 1e4, 1e6)   # classes of |origin|, |shift| (1e2 twice: it is the everyday class)


def coord_mag(mag):
    """upper bound of |coordinate| in a case of magnitude class `mag` (|o| <= mag, |d| <= mag)."""
    return 2.0 * mag + FRAME_SPAN


def tol(mag, base=ATOL, per=1.0):
    """ulp-aware tolerance: the absolute term plus 64 ulp of the largest coordinate, times an amplification `per`
    (e.g. 1/pixel_scale for results in pixel units)."""
    return base + ULPS_TOL * EPS * coord_mag(mag) * per


def tie_pix(mag, cell):
    """tie band (in units of the cell of size `cell`) around a cell boundary for int()-based assignment."""
    return TIE_PIX + ULPS_TIE * EPS * coord_mag(mag) / cell


def _aa():
    import autoarray as aa
    return aa


# ---------------------------------------------------------------------------------------------
# strategies shared by the sub-checks
# ---------------------------------------------------------------------------------------------
def _nz(v, alt):
    return v if v != 0.0 else alt


@st.composite
def shifts(draw, mag=100.0):
    kind = draw(st.sampled_from(["any", "any", "any", "small", "tiny", "axis-y", "axis-x"]))
    if kind == "any":
        d = [_nz(draw(st.floats(-mag, mag)), 37.5), _nz(draw(st.floats(-mag, mag)), -12.25)]
    elif kind == "small":
        d = [_nz(draw(gens.reals(-3, 3)), 1.0), _nz(draw(gens.reals(-3, 3)), -2.0)]
    elif kind == "tiny":
        d = [draw(st.sampled_from([-1e-6, 1e-6])) * draw(st.floats(0.5, 2.0)),
             draw(st.sampled_from([-1e-6, 1e-6])) * draw(st.floats(0.5, 2.0))]
    elif kind == "axis-y":
        d = [_nz(draw(st.floats(-mag, mag)), 3.0), 0.0]
    else:
        d = [0.0, _nz(draw(st.floats(-mag, mag)), -3.0)]
    return {"kind": kind, "d": d}


@st.composite
def frames(draw, mags=MAGS):
    """origin, shift, magnitude class, evaluation order and pixel scales common to every sub-check.  In a large
    class at least one of origin / shift is large (the origin may still be zero or small, the shift tiny)."""
    mag = draw(st.sampled_from(list(mags)))
    sh = draw(shifts(mag))
    origin = draw(gens.origins(mag=mag))
    if mag > 100.0 and max(abs(origin[0]), abs(origin[1]), abs(sh["d"][0]), abs(sh["d"][1])) <= 100.0:
        origin = [origin[0] + draw(st.sampled_from([-1.0, 1.0])) * mag * draw(st.floats(0.25, 1.0)),
                  origin[1] + draw(st.sampled_from([-1.0, 1.0])) * mag * draw(st.floats(0.25, 1.0))]
        origin = [max(-mag, min(mag, origin[0])), max(-mag, min(mag, origin[1]))]
    return {"origin": origin, "shift": sh["d"], "shift_kind": sh["kind"], "mag": mag,
            "order": draw(st.integers(0, 1)), "pixel_scales": draw(gens.pixel_scales())}


def case_mag(case):
    """magnitude class of a case; replay files written before the classes existed have |o|,|d| <= 100."""
    return float(case.get("mag", 100.0))


@st.composite
def offcentre_masks(draw, **kw):
    """gens.masks plus, in 3 of 4 cases, extra masked rows / columns on one side so that the unmasked region is
    not centred in the frame (small generated masks are centred far too often otherwise)."""
    m = draw(gens.masks(**kw))
    if draw(st.integers(0, 3)) == 0:
        return m
    top, left = draw(st.integers(0, 2)), draw(st.integers(0, 2))
    if top == 0 and left == 0:
        top = 1
    if draw(st.booleans()):
        m = [[True] * len(m[0]) for _ in range(top)] + m
    else:
        m = m + [[True] * len(m[0]) for _ in range(top)]
    if draw(st.booleans()):
        m = [[True] * left + r for r in m]
    else:
        m = [r + [True] * left for r in m]
    return m


class World:
    """One of the two translated copies of a case."""

    def __init__(self, case, which):
        o = np.asarray(case["origin"], dtype=float)
        if which == 1:
            o = o + np.asarray(case["shift"], dtype=float)
        self.o = o
        self.which = which
        self.ps = (float(case["pixel_scales"][0]), float(case["pixel_scales"][1]))
        self.case = case
        self.mag = case_mag(case)
        self._mask = None

    @property
    def origin(self):
        return (float(self.o[0]), float(self.o[1]))

    @property
    def mask(self):
        if self._mask is None:
            self._mask = self.new_mask()
        return self._mask

    def new_mask(self, m=None):
        aa = _aa()
        m = np.asarray(self.case["mask"] if m is None else m, dtype=bool)
        return aa.Mask2D(mask=m.copy(), pixel_scales=self.ps, origin=self.origin)

    def at(self, rel):
        """absolute position of a point given relative to the origin"""
        return (float(self.o[0] + rel[0]), float(self.o[1] + rel[1]))

    def pix_to_scaled(self, u, shape):
        """(N,2) points given in pixel units (uy from the top edge, ux from the left edge) -> scaled."""
        u = np.asarray(u, dtype=float).reshape(-1, 2)
        h, w = shape
        y = self.o[0] + (h / 2.0 - u[:, 0]) * self.ps[0]
        x = self.o[1] + (u[:, 1] - w / 2.0) * self.ps[1]
        return np.stack([y, x], axis=-1)


def worlds(case):
    w0, w1 = World(case, 0), World(case, 1)
    if max(np.abs(w0.o).max(), np.abs(w1.o).max()) > 2.0 * w0.mag:
        raise HarnessError("case outside its magnitude class")
    return w0, w1, w1.o - w0.o


def frame_labels(case, ctx, mask=None):
    d = case["shift"]
    ctx.label("shift:%s" % case.get("shift_kind", "?"))
    ctx.label("mag:%g" % case_mag(case))
    ctx.label("order:%s" % ("o-first" if not case.get("order", 0) else "o+d-first"))
    ctx.label("origin:zero" if case["origin"] == [0.0, 0.0] else "origin:nonzero")
    ctx.label("scales:iso" if case["pixel_scales"][0] == case["pixel_scales"][1] else "scales:aniso")
    both = d[0] != 0.0 and d[1] != 0.0
    centred = None
    if mask is not None:
        m = np.asarray(mask, dtype=bool)
        ys, xs = np.nonzero(~m)
        h, w = m.shape
        centred = bool(len(ys)) and (ys.min() + ys.max() == h - 1) and (xs.min() + xs.max() == w - 1)
        ctx.label("mask:centred" if centred else "mask:off-centre")
        for l in gens.mask_stats(m):
            ctx.label(l)
    ctx.nt(both and not centred)


# ---------------------------------------------------------------------------------------------
# observation and comparison
# ---------------------------------------------------------------------------------------------
def _repo_exception(e):
    from vp import env
    repo = os.path.realpath(env.REPO) + os.sep
    return any(os.path.realpath(f.filename).startswith(repo) for f in traceback.extract_tb(e.__traceback__))


def _xy(g):
    """(N,2) float array of a grid-like result (slim form when the object has one)."""
    try:
        if hasattr(g, "slim") and np.asarray(g).ndim == 3:
            g = g.slim
    except Exception:
        pass
    a = np.asarray(g, dtype=float)
    return a.reshape(-1, 2) if a.size else a.reshape(0, 2)


def f_mask(m, pre=""):
    """facets of a Mask2D: where it sits (coordinate) and what it is (invariant)."""
    return [(pre + "origin", "coord", np.asarray(m.origin, dtype=float)),
            (pre + "pixel_scales", "close", np.asarray(m.pixel_scales, dtype=float)),
            (pre + "bool", "exact", np.asarray(m, dtype=bool)),
            (pre + "extent", "extent", np.asarray(m.geometry.extent, dtype=float))]


def f_grid(g):
    """facets of a Grid2D-like structure: coordinates plus the geometry of the mask it carries."""
    out = [("coordinates", "coord", _xy(g))]
    m = getattr(g, "mask", None)
    if m is not None and hasattr(m, "origin") and hasattr(m, "geometry"):
        out += f_mask(m, "mask.")
    return out


def f_array(a):
    """facets of an Array2D: values invariant, geometry covariant, plus the pixel-centre grid it implies."""
    aa = _aa()
    out = [("values", "close", np.asarray(a.native, dtype=float))]
    out += f_mask(a.mask, "mask.")
    out.append(("grid", "coord", _xy(aa.Grid2D.from_mask(mask=a.mask))))
    return out


def f_coord(v):
    return [("value", "coord", np.asarray(v, dtype=float))]


def f_extent(v):
    return [("value", "extent", np.asarray(v, dtype=float))]


def f_exact(v):
    return [("value", "exact", np.asarray(v))]


def f_close(v):
    return [("value", "close", np.asarray(v, dtype=float))]


def compare(ctx, key, facets0, facets1, d, atol=ATOL):
    names0 = [f[0] for f in facets0]
    names1 = [f[0] for f in facets1]
    if names0 != names1:
        ctx.fail(key, "result has different structure at the two origins: %s vs %s" % (names0, names1))
        return
    ext = np.array([d[1], d[1], d[0], d[0]])
    for (name, kind, a), (_, _, b) in zip(facets0, facets1):
        a = np.asarray(a)
        b = np.asarray(b)
        what = "%s.%s [%s]" % (key, name, kind)
        if a.shape != b.shape:
            ctx.fail(key, "%s: shape %s at origin o, %s at o+d" % (what, a.shape, b.shape))
            continue
        if kind == "coord":
            ctx.close(b, a + d, key, atol=atol, what=what + " r(o+d) vs r(o)+d, d=%s" % d.tolist())
        elif kind == "extent":
            ctx.close(b, a + ext, key, atol=atol, what=what + " r(o+d) vs r(o)+(dx,dx,dy,dy), d=%s" % d.tolist())
        elif kind == "exact":
            ctx.equal(b, a, key, what + " r(o+d) vs r(o)")
        elif kind == "close":
            ctx.close(b, a, key, atol=atol, what=what + " r(o+d) vs r(o)")
        else:
            raise HarnessError("unknown facet kind %r" % kind)


def observe(ctx, key, fn, facets, w0, w1, d, atol=ATOL, per=1.0):
    """Run one catalogue entry in both worlds and compare; an exception raised by repository code must occur in
    both worlds (same type) or in neither.  Returns True when the two results were compared."""
    res = {}
    atol = tol(w0.mag, atol, per)
    for w in ((w1, w0) if w0.case.get("order", 0) else (w0, w1)):   # which world is built / evaluated first
        try:
            res[w.which] = ("ok", facets(fn(w)))
        except (Violation, KnownSkip, HarnessError):
            raise
        except Exception as e:
            if not _repo_exception(e):
                raise
            res[w.which] = ("exc", e)
    (s0, r0), (s1, r1) = res[0], res[1]
    if s0 == "exc" and s1 == "exc":
        if type(r0) is type(r1):
            ctx.label("both-raise:%s" % key)
        else:
            ctx.fail(key, "different exceptions at the two origins: %s(%s) at o, %s(%s) at o+d" % (
                type(r0).__name__, str(r0)[:120], type(r1).__name__, str(r1)[:120]))
        return False
    if s0 != s1:
        e, where = (r0, "o=%s" % w0.o.tolist()) if s0 == "exc" else (r1, "o+d=%s" % w1.o.tolist())
        ctx.fail(key, "raises %s(%s) at %s but not at the other origin" % (type(e).__name__, str(e)[:200], where))
        return False
    compare(ctx, key, r0, r1, d, atol=atol)
    return True


# ---------------------------------------------------------------------------------------------
# closed forms used only to place inputs and to find tie bands
# ---------------------------------------------------------------------------------------------
def bbox(mask):
    m = np.asarray(mask, dtype=bool)
    ys, xs = np.nonzero(~m)
    return int(ys.min()), int(ys.max()), int(xs.min()), int(xs.max())


def overlay_tie(n, k):
    """Overlay centres sit at (i+0.5)*n/k pixels from the edge of the n-pixel bounding box."""
    t = (np.arange(k) + 0.5) * n / k
    return bool(np.any(np.abs(t - np.round(t)) < TIE_PIX))


def rel_centres(mask, ps):
    """pixel centres of the unmasked pixels relative to the origin (C02's closed form)."""
    m = np.asarray(mask, dtype=bool)
    h, w = m.shape
    ii, jj = np.nonzero(~m)
    return np.stack([((h - 1) / 2.0 - ii) * ps[0], (jj - (w - 1) / 2.0) * ps[1]], axis=-1)


def radial_tie(shape, ps, c, mag=100.0):
    """_radial_projected_shape_slim_from: int(longest distance / its pixel scale) and the choice of direction."""
    h, w = shape
    dy = [h * ps[0] / 2.0 - c[0], h * ps[0] / 2.0 + c[0]]
    dx = [w * ps[1] / 2.0 - c[1], w * ps[1] / 2.0 + c[1]]
    my, mx = max(dy), max(dx)
    same = 1e-6 + ULPS_TIE * EPS * coord_mag(mag)      # scaled units: which direction is the longest
    if ps[0] != ps[1] and abs(my - mx) < same:
        return True
    if my >= mx or abs(my - mx) < same:
        q = my / ps[0]
        if abs(q - round(q)) < tie_pix(mag, ps[0]):
            return True
    if mx >= my or abs(my - mx) < same:
        q = mx / ps[1]
        if abs(q - round(q)) < tie_pix(mag, ps[1]):
            return True
    return False


@st.composite
def radial_centres(draw, ps):
    """centre of a radial projection relative to the origin, placed (j + f) pixels from the frame centre with
    f in {1/8, 1/4, 0.3, 0.7, 7/8}: the distance to every frame edge is then >= 1/8 pixel away from a whole number
    of pixels whatever the parity of the frame, so int(distance / scale) is well away from a tie by construction."""
    fr = st.sampled_from([0.125, 0.25, 0.3, 0.7, 0.875])
    return [(draw(st.integers(-2, 1)) + draw(fr)) * ps[0], (draw(st.integers(-2, 1)) + draw(fr)) * ps[1]]


# ---------------------------------------------------------------------------------------------
# per-pixel sub-size tables that were created for a mask at ANOTHER origin
# ---------------------------------------------------------------------------------------------
def sub_table_list(case, n):
    """per-pixel sub sizes 1..3 of a case (drawn, or a fixed pattern for cases / replays that only have an int)."""
    t = case.get("sub_table")
    if t is None:
        t = case["sub"] if isinstance(case.get("sub"), list) else [(i * 7 + 1) % 3 + 1 for i in range(n)]
    return [int(v) for v in t]


def table_forms(aa, mask, subs):
    """the forms a sub-size table takes in the API; the Array2D ones carry `mask` (and therefore its origin)."""
    return {"array2d": aa.Array2D(values=np.asarray(subs, dtype=int), mask=mask),
            "array2d-float": aa.Array2D(values=np.asarray(subs, dtype=float), mask=mask),
            "ndarray": np.asarray(subs, dtype=int), "list": list(subs)}


def f_sampler_grid(o):
    """an over sampler (or border relocator): where its sub-pixels are and which mask it samples."""
    g = o.over_sampled_grid if hasattr(o, "over_sampled_grid") else o.sub_grid
    return [("over_sampled_grid", "coord", _xy(g)), ("mask.origin", "coord", np.asarray(o.mask.origin, dtype=float))]


def subtracted_relation(ctx, key, aa, wd, table, offset):
    """Grid2D.subtracted_from is itself a translation of the origin by -offset that keeps the over-sampling scheme
    (and the table inside it): the over-sampled grid of the shifted grid must be the old one minus the offset."""
    g = aa.Grid2D.from_mask(mask=wd.new_mask(), over_sampling=aa.OverSamplingUniform(sub_size=table))
    gs = g.subtracted_from(offset=tuple(offset))
    a, b = _xy(g.over_sampler.over_sampled_grid), _xy(gs.over_sampler.over_sampled_grid)
    ctx.close(b, a - np.asarray(offset, dtype=float), key, atol=tol(wd.mag),
              what=key + " over-sampled grid after subtracted_from(%s) vs before minus offset" % (list(offset),))
    ctx.close(_xy(gs), _xy(g) - np.asarray(offset, dtype=float), key, atol=tol(wd.mag), what=key + " pixel centres")


# ---------------------------------------------------------------------------------------------
# sub-check: mask_grids
# ---------------------------------------------------------------------------------------------
@st.composite
def mask_grid_cases(draw):
    case = draw(frames())
    ring = draw(st.sampled_from([0, 1, 1, 2]))
    mask = draw(offcentre_masks(lo=1, hi=8, ring=ring))
    h, w = len(mask), len(mask[0])
    case["mask"] = mask
    case["ring"] = ring
    sides = [k for k in (1, 3, 5) if k <= 2 * ring + 1]
    case["kernel"] = [draw(st.sampled_from(sides)), draw(st.sampled_from(sides))]
    case["pad_kernel"] = [draw(st.sampled_from([1, 3, 5])), draw(st.sampled_from([1, 3, 5]))]
    n = sum(1 for r in mask for v in r if not v)
    case["sub"] = draw(scene.sub_sizes(n, max_sub=3))
    case["buffer"] = draw(st.integers(0, 2))
    case["new_shape"] = [draw(st.integers(1, 13)), draw(st.integers(1, 13))]
    case["rescale"] = draw(st.sampled_from([0.5, 2.0, 1.5]))
    case["radial_centre"] = draw(radial_centres(case["pixel_scales"]))
    case["radial_angle"] = draw(st.sampled_from([0.0, 30.0, 90.0, 217.5]))
    case["offset"] = [draw(gens.reals(-3, 3)), draw(gens.reals(-3, 3))]
    case["remove_centre"] = [draw(gens.reals(-2, 2)), draw(gens.reals(-2, 2))]
    case["remove_distance"] = draw(gens.positives(0.1, 4.0))
    case["iterate"] = iterate_spec(draw)
    return case


def body_mask_grids(case, ctx):
    aa = _aa()
    w0, w1, d = worlds(case)
    m = np.asarray(case["mask"], dtype=bool)
    h, w = m.shape
    frame_labels(case, ctx, m)
    ctx.label("ring:%d" % case["ring"])
    kernel = tuple(case["kernel"])
    pad_kernel = tuple(case["pad_kernel"])
    sub = case["sub"]
    ctx.label("sub:per-pixel" if isinstance(sub, list) else "sub:uniform")
    vals = np.arange(1.0, h * w + 1.0).reshape(h, w)

    def grid(wd):
        return aa.Grid2D.from_mask(mask=wd.mask)

    def arr(wd):
        return aa.Array2D(values=vals.copy(), mask=wd.mask)

    def ob(key, fn, facets, **kw):
        return observe(ctx, key, fn, facets, w0, w1, d, **kw)

    # constructors
    ob("mask/all_false", lambda wd: aa.Mask2D.all_false(shape_native=(h, w), pixel_scales=wd.ps, origin=wd.origin), f_mask)
    ob("grid/uniform", lambda wd: aa.Grid2D.uniform(shape_native=(h, w), pixel_scales=wd.ps, origin=wd.origin), f_grid)
    ob("grid/bounding_box", lambda wd: aa.Grid2D.bounding_box(
        bounding_box=[wd.o[0] - 1.5, wd.o[0] + 2.0, wd.o[1] - 0.5, wd.o[1] + 3.0], shape_native=(h, w)), f_grid)
    ob("array/no_mask", lambda wd: aa.Array2D.no_mask(values=vals.copy(), pixel_scales=wd.ps, origin=wd.origin), f_array)
    ob("array/full", lambda wd: aa.Array2D.full(fill_value=2.0, shape_native=(h, w), pixel_scales=wd.ps, origin=wd.origin), f_array)
    # pixel-centre grids
    ob("grid/from_mask", grid, f_grid)
    ob("derive_grid/all_false", lambda wd: wd.mask.derive_grid.all_false, f_grid)
    ob("derive_grid/unmasked", lambda wd: wd.mask.derive_grid.unmasked, f_grid)
    ob("derive_grid/edge", lambda wd: wd.mask.derive_grid.edge, f_grid)
    ob("derive_grid/border", lambda wd: wd.mask.derive_grid.border, f_grid)
    ob("derive_mask/all_false", lambda wd: wd.mask.derive_mask.all_false, f_mask)
    ob("derive_mask/edge", lambda wd: wd.mask.derive_mask.edge, f_mask)
    ob("derive_mask/edge_buffed", lambda wd: wd.mask.derive_mask.edge_buffed, f_mask)
    ob("derive_mask/border", lambda wd: wd.mask.derive_mask.border, f_mask)
    ob("derive_mask/blurring_from", lambda wd: wd.mask.derive_mask.blurring_from(kernel_shape_native=kernel), f_mask)
    ob("grid/blurring_grid_from", lambda wd: aa.Grid2D.blurring_grid_from(mask=wd.mask, kernel_shape_native=kernel), f_grid)
    ob("grid/blurring_grid_via_kernel_shape_from",
       lambda wd: grid(wd).blurring_grid_via_kernel_shape_from(kernel_shape_native=kernel), f_grid)
    ob("grid/padded_grid_from", lambda wd: grid(wd).padded_grid_from(kernel_shape_native=pad_kernel), f_grid)
    ob("grid/subtracted_from", lambda wd: grid(wd).subtracted_from(offset=tuple(case["offset"])), f_grid)
    ob("grid/extent_with_buffer_from", lambda wd: grid(wd).extent_with_buffer_from(buffer=0.25), f_extent)
    ob("grid/scaled_minima", lambda wd: grid(wd).scaled_minima, f_coord)
    ob("grid/scaled_maxima", lambda wd: grid(wd).scaled_maxima, f_coord)
    ob("grid/shape_native_scaled_interior", lambda wd: grid(wd).shape_native_scaled_interior, f_close)
    ob("grid/is_uniform", lambda wd: bool(grid(wd).is_uniform), f_exact)
    # over-sampled and border grids
    ob("over_sampler/over_sampled_grid", lambda wd: scene.over_sampler_for(wd.mask, sub).over_sampled_grid, f_coord_grid)
    ob("over_sampler/tables", lambda wd: _os_tables(scene.over_sampler_for(wd.mask, sub)), lambda t: t)
    it = case.get("iterate")
    if it is not None:
        ctx.label("iterate:%s" % it["mode"])
        ob("over_sampler_iterate/array_via_func_from", lambda wd: aa.OverSamplerIterate(
            mask=wd.mask, fractional_accuracy=it["fractional_accuracy"], sub_steps=list(it["sub_steps"])
        ).array_via_func_from(_profile_func, _Profile(wd.o, it["b"], it["q"])), f_array, per=60.0)
        ob("over_sampler_uniform/array_via_func_from", lambda wd: scene.over_sampler_for(wd.mask, sub).array_via_func_from(
            _profile_func, _Profile(wd.o, it["b"], it["q"])), f_array, per=60.0)

    def relocator(wd):
        s = sub if isinstance(sub, int) else aa.Array2D(values=np.asarray(sub, dtype=int), mask=wd.mask)
        return aa.BorderRelocator(mask=wd.mask, sub_size=s)

    ob("border_relocator/sub_grid", lambda wd: relocator(wd).sub_grid, f_coord_grid)
    ob("border_relocator/sub_border_grid", lambda wd: relocator(wd).sub_border_grid, f_coord_grid)
    ob("border_relocator/border_grid", lambda wd: relocator(wd).border_grid, f_grid)
    ob("border_relocator/sub_border_slim", lambda wd: relocator(wd).sub_border_slim, f_exact)
    # sub-size tables created on the mask of the OTHER world (same bools and scales, other origin): the sub-pixels
    # must sit on the mask being sampled, not where the table came from
    n_un = int((~m).sum())
    tsub = sub_table_list(case, n_un)
    other = {0: w1, 1: w0}
    if any(abs(v) > 0 for v in case["offset"]):
        for wd in (w0, w1):
            subtracted_relation(ctx, "grid/subtracted_from/over_sampler", aa, wd, table_forms(aa, other[wd.which].mask, tsub)["array2d"], case["offset"])
    for form in ("array2d", "array2d-float", "ndarray", "list"):
        tab = lambda wd: table_forms(aa, other[wd.which].mask, tsub)[form]
        ob("sub_table/%s/over_sampler_uniform" % form, lambda wd: aa.OverSamplerUniform(mask=wd.mask, sub_size=tab(wd)), f_sampler_grid)
        ob("sub_table/%s/grid_over_sampler" % form, lambda wd: aa.Grid2D.from_mask(
            mask=wd.mask, over_sampling=aa.OverSamplingUniform(sub_size=tab(wd))).over_sampler, f_sampler_grid)
        if form in ("array2d", "ndarray"):
            ob("sub_table/%s/tables" % form, lambda wd: _os_tables(aa.OverSamplerUniform(mask=wd.mask, sub_size=tab(wd))), lambda t: t)
    ob("sub_table/array2d/border_relocator", lambda wd: aa.BorderRelocator(
        mask=wd.mask, sub_size=table_forms(aa, other[wd.which].mask, tsub)["array2d"]), f_sampler_grid)
    # centre, extent
    ob("mask/mask_centre", lambda wd: wd.mask.mask_centre, f_coord)
    ob("geometry/extent", lambda wd: wd.mask.geometry.extent, f_extent)
    ob("geometry/scaled_maxima", lambda wd: wd.mask.geometry.scaled_maxima, f_coord)
    ob("geometry/scaled_minima", lambda wd: wd.mask.geometry.scaled_minima, f_coord)
    ob("geometry/central_pixel_coordinates", lambda wd: wd.mask.geometry.central_pixel_coordinates, f_close)
    ob("geometry/shape_native_scaled", lambda wd: wd.mask.geometry.shape_native_scaled, f_close)
    # zoom
    ob("mask/zoom_region", lambda wd: wd.mask.zoom_region, f_exact)
    ob("mask/zoom_centre", lambda wd: wd.mask.zoom_centre, f_close, per=1.0 / min(w0.ps))
    ob("mask/zoom_offset_pixels", lambda wd: wd.mask.zoom_offset_pixels, f_close, per=1.0 / min(w0.ps))
    ob("mask/zoom_mask_unmasked", lambda wd: wd.mask.zoom_mask_unmasked, f_mask_grid)
    ob("array/zoomed_around_mask", lambda wd: arr(wd).zoomed_around_mask(buffer=case["buffer"]), f_array)
    ob("array/extent_of_zoomed_array", lambda wd: arr(wd).extent_of_zoomed_array(buffer=case["buffer"]), f_extent)
    # resize / pad / trim
    new_shape = tuple(case["new_shape"])
    ob("mask/resized_from", lambda wd: wd.mask.resized_from(new_shape=new_shape), f_mask_grid)
    ob("mask/rescaled_from", lambda wd: wd.mask.rescaled_from(rescale_factor=case["rescale"]), f_mask)
    ob("array/resized_from", lambda wd: arr(wd).resized_from(new_shape=new_shape), f_array)
    ob("array/padded_before_convolution_from", lambda wd: arr(wd).padded_before_convolution_from(kernel_shape=pad_kernel), f_array)
    ob("array/trimmed_after_convolution_from", lambda wd: arr(wd).trimmed_after_convolution_from(kernel_shape=kernel), f_array)
    ob("mask/trimmed_array_from", lambda wd: _trimmed_array(aa, wd, vals, pad_kernel), f_array)
    ob("mask/unmasked_blurred_array_from", lambda wd: _trimmed_array(aa, wd, vals, pad_kernel, blur=True), f_array)
    # distances and radial projection about a centre that moves with the origin
    rc = case["radial_centre"]
    ob("grid/distances_to_coordinate_from", lambda wd: grid(wd).distances_to_coordinate_from(coordinate=wd.at(rc)).slim, f_close)
    if radial_tie((h, w), w0.ps, rc, w0.mag):      # only the aniso "which direction is longest" tie is left
        ctx.tie()
        ctx.label("radial:tie")
    else:
        ctx.label("radial:compared")
        ob("grid/grid_2d_radial_projected_shape_slim_from",
           lambda wd: grid(wd).grid_2d_radial_projected_shape_slim_from(centre=wd.at(rc)), f_exact)
        ob("grid/grid_2d_radial_projected_from",
           lambda wd: grid(wd).grid_2d_radial_projected_from(centre=wd.at(rc), angle=case["radial_angle"]), f_coord_grid)
    # removal of coordinates within a distance of a translated point
    cen = rel_centres(m, w0.ps)
    dist = np.sqrt(((cen - np.asarray(case["remove_centre"])) ** 2).sum(axis=1))
    if np.any(np.abs(dist - case["remove_distance"]) < 1e-6 + ULPS_TIE * EPS * coord_mag(w0.mag)):
        ctx.tie()
    else:
        ob("grid/grid_with_coordinates_within_distance_removed_from",
           lambda wd: grid(wd).grid_with_coordinates_within_distance_removed_from(
               coordinates=[wd.at(case["remove_centre"])], distance=case["remove_distance"]), f_grid)


def f_coord_grid(g):
    return [("coordinates", "coord", _xy(g))]


def f_mask_grid(m):
    aa = _aa()
    return f_mask(m) + [("grid", "coord", _xy(aa.Grid2D.from_mask(mask=m)))]


def _os_tables(osamp):
    return [("sub_total", "exact", np.asarray(osamp.sub_total)),
            ("slim_for_sub_slim", "exact", np.asarray(osamp.slim_for_sub_slim)),
            ("sub_fraction", "close", np.asarray(osamp.sub_fraction, dtype=float))]


def _trimmed_array(aa, wd, vals, kernel, blur=False):
    h, w = vals.shape
    padded = aa.Array2D.no_mask(values=np.pad(vals, ((kernel[0] // 2,) * 2, (kernel[1] // 2,) * 2)),
                                pixel_scales=wd.ps, origin=wd.origin)
    if blur:
        psf = aa.Kernel2D.no_mask(values=1.0 + np.arange(kernel[0] * kernel[1], dtype=float).reshape(kernel), pixel_scales=wd.ps)
        return padded.mask.unmasked_blurred_array_from(padded_array=padded, psf=psf, image_shape=(h, w))
    return padded.mask.trimmed_array_from(padded_array=padded, image_shape=(h, w))


# ---------------------------------------------------------------------------------------------
# sub-check: image_mesh
# ---------------------------------------------------------------------------------------------
@st.composite
def image_mesh_cases(draw):
    case = draw(frames())
    kind = draw(st.sampled_from(["overlay", "overlay", "hilbert"]))
    case["kind"] = kind
    if kind == "overlay":
        mask = draw(offcentre_masks(lo=1, hi=9))
        case["mask"] = mask
        y0, y1, x0, x1 = bbox(mask)
        shape = []
        for n in (y1 - y0 + 1, x1 - x0 + 1):
            free = [k for k in range(1, 9) if not overlay_tie(n, k)]
            shape.append(draw(st.sampled_from(free)) if free and draw(st.integers(0, 9)) > 0 else draw(st.integers(1, 8)))
        case["shape"] = shape
        h, w = len(mask), len(mask[0])
        npts = draw(st.integers(1, 8))
        near = near_margin(case)
        case["points"] = [[draw(pix_coords(h, near)), draw(pix_coords(w, near))] for _ in range(npts)]
    else:
        s = case["pixel_scales"][0]
        case["pixel_scales"] = [s, s]
        k = draw(st.integers(1, 4))                    # unmasked half-width in pixels
        n = 2 * k + 3 + 2 * draw(st.integers(0, 1))    # odd frame with >= 1 pixel margin
        case["frame"] = n
        case["radius_pix"] = k + draw(st.sampled_from([0.2, 0.45, 0.7]))
        case["pixels"] = draw(st.integers(2, 30))
        case["weight_floor"] = draw(st.sampled_from([0.0, 0.1, 0.5]))
        case["weight_power"] = draw(st.sampled_from([0.0, 1.0, 2.0]))
        # affine adapt image a + by*y + bx*x, positive over the frame
        case["affine"] = [draw(st.floats(-0.8, 0.8)), draw(st.floats(-0.8, 0.8))]
    return case


@st.composite
def pix_coords(draw, n, near):
    """a pixel-unit coordinate in [-1, n+1]: pixel centres, quarter points, points `near` from a pixel boundary and
    arbitrary fractions in [near, 1-near].  `near` = 4 tie bands of the case's magnitude class, so no generated
    point sits in a tie band (constructed, not filtered)."""
    i = draw(st.integers(-1, n))
    f = draw(st.one_of(st.sampled_from([0.5, 0.5, 0.25, 0.75, near, 1.0 - near]), st.floats(near, 1.0 - near)))
    return i + f


def near_margin(case):
    return 4.0 * tie_pix(case_mag(case), min(case["pixel_scales"]))


def pix_ties(u, case):
    """guard: points inside the tie band (none by construction; replay files of older cases may have some)."""
    u = np.asarray(u, dtype=float).reshape(-1, 2)
    t = tie_pix(case_mag(case), min(case["pixel_scales"]))
    return np.any(np.abs(u - np.round(u)) < t, axis=1)


def body_image_mesh(case, ctx):
    aa = _aa()
    w0, w1, d = worlds(case)
    if case["kind"] == "overlay":
        m = np.asarray(case["mask"], dtype=bool)
        h, w = m.shape
        frame_labels(case, ctx, m)
        ctx.label("mesh:overlay")
        y0, y1, x0, x1 = bbox(m)
        shape = tuple(case["shape"])
        if overlay_tie(y1 - y0 + 1, shape[0]) or overlay_tie(x1 - x0 + 1, shape[1]):
            ctx.tie()
            ctx.label("overlay:tie")
        else:
            ctx.label("overlay:compared")
            observe(ctx, "image_mesh/overlay",
                    lambda wd: aa.image_mesh.Overlay(shape=shape).image_plane_mesh_grid_from(mask=wd.mask),
                    f_coord_grid, w0, w1, d)
        # counts of (translated) mesh points per image pixel
        u = np.asarray(case["points"], dtype=float)
        u = u[(u[:, 0] > 0) & (u[:, 0] < h) & (u[:, 1] > 0) & (u[:, 1] < w)]   # the counters index the frame
        keep = ~pix_ties(u, case)
        ctx.tie(int((~keep).sum()))
        if keep.any():
            u = u[keep]
            ctx.label("mesh-points:compared")
            observe(ctx, "image_mesh/mesh_pixels_per_image_pixels_from",
                    lambda wd: aa.image_mesh.Overlay(shape=shape).mesh_pixels_per_image_pixels_from(
                        mask=wd.mask, mesh_grid=aa.Grid2DIrregular(values=wd.pix_to_scaled(u, (h, w)))).native,
                    f_exact, w0, w1, d)
            observe(ctx, "mapper_grids/mesh_pixels_per_image_pixels",
                    lambda wd: aa.MapperGrids(
                        mask=wd.mask, source_plane_data_grid=None,
                        image_plane_mesh_grid=aa.Grid2DIrregular(values=wd.pix_to_scaled(u, (h, w)))
                    ).mesh_pixels_per_image_pixels.native,
                    f_exact, w0, w1, d)
        return
    # Hilbert on a circular mask in an odd frame
    n = case["frame"]
    s = w0.ps[0]
    radius = case["radius_pix"] * s

    def cmask(wd):
        return aa.Mask2D.circular(shape_native=(n, n), radius=radius, pixel_scales=wd.ps, origin=wd.origin)

    m = np.asarray(cmask(w0), dtype=bool)
    frame_labels(case, ctx, m)
    ctx.nt(case["shift"][0] != 0.0 and case["shift"][1] != 0.0)   # a circular mask is centred by construction
    ctx.label("mesh:hilbert")
    observe(ctx, "mask/circular", cmask, f_mask_grid, w0, w1, d)
    observe(ctx, "mask/is_circular", lambda wd: cmask(wd).is_circular, f_exact, w0, w1, d)
    observe(ctx, "mask/circular_radius", lambda wd: cmask(wd).circular_radius, f_close, w0, w1, d)
    by, bx = case["affine"]
    half = (n - 1) / 2.0
    ii, jj = np.meshgrid(np.arange(n), np.arange(n), indexing="ij")
    adapt = 1.0 + by * (half - ii) / half + bx * (jj - half) / half + 1.0   # in [0.4, 3.6] > 0

    def hilbert(wd):
        ad = aa.Array2D.no_mask(values=adapt.copy(), pixel_scales=wd.ps, origin=wd.origin)
        mesh = aa.image_mesh.Hilbert(pixels=case["pixels"], weight_floor=case["weight_floor"],
                                     weight_power=case["weight_power"])
        return mesh.image_plane_mesh_grid_from(mask=cmask(wd), adapt_data=ad)

    # two chained interpolations (barycentric on absolute coordinates, then the inverse CDF along the curve) amplify
    # the rounding of the coordinates: measured <= ~1e3 ulp of the largest coordinate, allowed 64*64 ulp
    observe(ctx, "image_mesh/hilbert", hilbert, f_coord_grid, w0, w1, d, atol=ATOL_HILBERT, per=64.0)


# ---------------------------------------------------------------------------------------------
# sub-check: imaging
# ---------------------------------------------------------------------------------------------
@st.composite
def imaging_cases(draw):
    case = draw(frames())
    kh = draw(st.sampled_from([1, 3, 3, 5]))
    kw = draw(st.sampled_from([1, 3, 3, 5]))
    ring = draw(st.sampled_from([0, 1, 2]))
    mask = draw(offcentre_masks(lo=2, hi=6, ring=ring, min_unmasked=2))
    case["mask"] = mask
    case["ring"] = ring
    case["kernel"] = [kh, kw]
    n = sum(1 for r in mask for v in r if not v)
    case["sub"] = draw(scene.sub_sizes(n, max_sub=3))
    case["noise_value"] = draw(st.sampled_from([1e8, 50.0]))
    case["snr"] = draw(gens.positives(0.5, 10.0))
    case["zero_data"] = draw(st.booleans())
    return case


def _imaging(aa, wd, shape, kernel_shape):
    h, w = shape
    vals = 1.0 + np.arange(h * w, dtype=float).reshape(h, w) % 7 + 0.25 * np.arange(h * w).reshape(h, w)
    noise = 0.5 + (np.arange(h * w, dtype=float).reshape(h, w) % 5) * 0.3
    kh, kw = kernel_shape
    k = 1.0 + np.arange(kh * kw, dtype=float).reshape(kh, kw)
    return aa.Imaging(
        data=aa.Array2D.no_mask(values=vals, pixel_scales=wd.ps, origin=wd.origin),
        noise_map=aa.Array2D.no_mask(values=noise, pixel_scales=wd.ps, origin=wd.origin),
        psf=aa.Kernel2D.no_mask(values=k, pixel_scales=wd.ps),
    )


def f_dataset(ds, grids=("uniform", "pixelization", "blurring")):
    out = []
    for name in ("data", "noise_map"):
        out += [("%s.%s" % (name, n), k, v) for n, k, v in f_array(getattr(ds, name))]
    out += [("dataset.mask.%s" % n, k, v) for n, k, v in f_mask(ds.mask)]
    for g in grids:
        gr = getattr(ds.grids, g)
        out.append(("grids.%s" % g, "coord", _xy(gr)))
        out.append(("grids.%s.origin" % g, "coord", np.asarray(gr.mask.origin, dtype=float)))
    return out


def body_imaging(case, ctx):
    aa = _aa()
    w0, w1, d = worlds(case)
    m = np.asarray(case["mask"], dtype=bool)
    frame_labels(case, ctx, m)
    kernel = tuple(case["kernel"])
    sub = case["sub"]

    def ds(wd):
        return _imaging(aa, wd, m.shape, kernel)

    def ob(key, fn, facets=f_dataset, **kw):
        return observe(ctx, key, fn, facets, w0, w1, d, **kw)

    no_blur = lambda t: f_dataset(t, grids=("uniform", "pixelization"))   # blurring grid needs a masked surround
    ob("imaging/unmasked", ds, no_blur)
    ob("imaging/apply_mask", lambda wd: ds(wd).apply_mask(mask=wd.mask))
    ob("imaging/apply_mask/border_relocator",
       lambda wd: ds(wd).apply_mask(mask=wd.mask).grids.border_relocator.sub_grid, f_coord_grid)
    ob("imaging/apply_mask-twice", lambda wd: ds(wd).apply_mask(mask=wd.mask).apply_mask(
        mask=wd.new_mask(np.zeros(m.shape, dtype=bool) | m | np.roll(m, 1, axis=0))))
    ctx.label("noise_scaling:zero-data" if case["zero_data"] else "noise_scaling:keep-data")
    ob("imaging/apply_noise_scaling", lambda wd: ds(wd).apply_noise_scaling(
        mask=wd.mask, noise_value=case["noise_value"], should_zero_data=case["zero_data"]), no_blur)
    ob("imaging/apply_noise_scaling", lambda wd: ds(wd).apply_noise_scaling(
        mask=wd.mask, signal_to_noise_value=case["snr"], should_zero_data=case["zero_data"]), no_blur)

    def over(wd):
        base = ds(wd).apply_mask(mask=wd.mask)
        s = sub if isinstance(sub, int) else aa.Array2D(values=np.asarray(sub, dtype=int), mask=base.mask)
        if not isinstance(sub, int) and base.mask.shape_native != m.shape:
            s = max(sub)     # apply_mask padded the frame: per-pixel sub sizes no longer line up
        out = base.apply_over_sampling(over_sampling=aa.OverSamplingDataset(
            uniform=aa.OverSamplingUniform(sub_size=s), pixelization=aa.OverSamplingUniform(sub_size=s)))
        return out

    def f_over(out):
        f = f_dataset(out)
        f.append(("grids.uniform.over_sampled", "coord", _xy(out.grids.uniform.over_sampler.over_sampled_grid)))
        f.append(("grids.pixelization.over_sampled", "coord", _xy(out.grids.over_sampler_pixelization.over_sampled_grid)))
        return f

    ob("imaging/apply_over_sampling", over, f_over)
    ob("imaging/trimmed_after_convolution_from",
       lambda wd: ds(wd).trimmed_after_convolution_from(kernel_shape=kernel), lambda t: f_dataset(t, grids=()))


# ---------------------------------------------------------------------------------------------
# sub-check: simulate
# ---------------------------------------------------------------------------------------------
@st.composite
def simulate_cases(draw):
    case = draw(frames())
    case["shape"] = draw(gens.shapes(lo=3, hi=8))
    case["kernel"] = [draw(st.sampled_from([1, 3])), draw(st.sampled_from([1, 3]))]
    case["use_psf"] = draw(st.booleans())
    case["poisson_in_data"] = draw(st.booleans())
    case["poisson_in_noise_map"] = draw(st.booleans())
    case["subtract_sky"] = draw(st.booleans())
    case["sky"] = draw(st.sampled_from([0.0, 0.5, 3.0]))
    case["snr_limit"] = draw(gens.positives(0.5, 8.0))
    case["limit_mask"] = draw(st.booleans())
    h, w = case["shape"]
    case["mask"] = draw(gens.masks(shape=[h, w], min_unmasked=1))
    return case


def body_simulate(case, ctx):
    aa = _aa()
    from autoarray.dataset import preprocess
    w0, w1, d = worlds(case)
    m = np.asarray(case["mask"], dtype=bool)
    h, w = m.shape
    frame_labels(case, ctx)          # the simulated frames are unmasked: non-trivial by the shift alone
    for l in gens.mask_stats(m):
        ctx.label(l)
    kernel = tuple(case["kernel"])
    ctx.label("sim:noise-map-poisson" if case["poisson_in_noise_map"] else "sim:noise-map-constant")
    ctx.label("sim:psf" if case["use_psf"] else "sim:no-psf")
    vals = 2.0 + np.arange(h * w, dtype=float).reshape(h, w) % 7 + 0.25 * np.arange(h * w).reshape(h, w)
    noise = 0.5 + (np.arange(h * w, dtype=float).reshape(h, w) % 5) * 0.3

    def image(wd):
        return aa.Array2D.no_mask(values=vals.copy(), pixel_scales=wd.ps, origin=wd.origin)

    def simulate(wd):
        kh, kw = kernel
        psf = aa.Kernel2D.no_mask(values=1.0 + np.arange(kh * kw, dtype=float).reshape(kh, kw), pixel_scales=wd.ps) \
            if case["use_psf"] else None
        sim = aa.SimulatorImaging(
            exposure_time=300.0, background_sky_level=case["sky"], subtract_background_sky=case["subtract_sky"],
            psf=psf, add_poisson_noise_to_data=case["poisson_in_data"],
            include_poisson_noise_in_noise_map=case["poisson_in_noise_map"], noise_seed=7)
        return sim.via_image_from(image=image(wd))

    def f_sim_data(ds):
        out = [("data.%s" % n, k, v) for n, k, v in f_array(ds.data)]
        out += [("dataset.mask.%s" % n, k, v) for n, k, v in f_mask(ds.mask)]
        out.append(("grids.uniform", "coord", _xy(ds.grids.uniform)))
        return out

    def f_sim_noise(ds):
        return [("noise_map.%s" % n, k, v) for n, k, v in f_array(ds.noise_map)]

    observe(ctx, "simulator/via_image_from/data", simulate, f_sim_data, w0, w1, d)
    observe(ctx, "simulator/via_image_from/noise_map-%s" % ("poisson" if case["poisson_in_noise_map"] else "constant"),
            simulate, f_sim_noise, w0, w1, d)

    lim_mask = (np.arange(h * w).reshape(h, w) % 3 == 0) if case["limit_mask"] else None

    def snr_limit(wd, masked):
        data, nm = image(wd), aa.Array2D.no_mask(values=noise.copy(), pixel_scales=wd.ps, origin=wd.origin)
        if masked:
            data, nm = aa.Array2D(values=vals.copy(), mask=wd.mask), aa.Array2D(values=noise.copy(), mask=wd.mask)
        return preprocess.noise_map_with_signal_to_noise_limit_from(
            data=data, noise_map=nm, signal_to_noise_limit=case["snr_limit"], noise_limit_mask=lim_mask)

    observe(ctx, "preprocess/noise_map_with_signal_to_noise_limit_from", lambda wd: snr_limit(wd, False), f_array, w0, w1, d)
    observe(ctx, "preprocess/noise_map_with_signal_to_noise_limit_from", lambda wd: snr_limit(wd, True), f_array, w0, w1, d)

    def exposure(wd):
        return aa.Array2D.full(fill_value=300.0, shape_native=(h, w), pixel_scales=wd.ps, origin=wd.origin)

    observe(ctx, "preprocess/noise_map_via_data_eps_and_exposure_time_map_from",
            lambda wd: preprocess.noise_map_via_data_eps_and_exposure_time_map_from(data_eps=image(wd), exposure_time_map=exposure(wd)),
            f_array, w0, w1, d)
    observe(ctx, "preprocess/data_eps_with_poisson_noise_added",
            lambda wd: preprocess.data_eps_with_poisson_noise_added(data_eps=image(wd), exposure_time_map=exposure(wd), seed=3),
            f_array, w0, w1, d)
    observe(ctx, "preprocess/array_with_new_shape",
            lambda wd: preprocess.array_with_new_shape(array=image(wd), new_shape=(h + 2, max(1, w - 1))), f_array, w0, w1, d)
    observe(ctx, "kernel/convolved_array_from",
            lambda wd: aa.Kernel2D.no_mask(values=np.ones((3, 3)) / 9.0, pixel_scales=wd.ps).convolved_array_from(array=image(wd)),
            f_array, w0, w1, d)


# ---------------------------------------------------------------------------------------------
# sub-check: shared_config  (ONE instance of every configuration object serves both origins)
# ---------------------------------------------------------------------------------------------
class _Profile:
    """A function of position relative to a centre, A + b.(r - c) + q|r - c|^2 > 0, in the (obj, grid) form the over
    samplers call.  With q = 0 every symmetric sub-grid average equals the value at the pixel centre."""

    def __init__(self, centre, b, q):
        self.centre = np.asarray(centre, dtype=float)
        self.b = b
        self.q = q

    def image(self, grid):
        g = np.asarray(grid, dtype=float).reshape(-1, 2) - self.centre
        return 50.0 + self.b[0] * g[:, 0] + self.b[1] * g[:, 1] + self.q * (g[:, 0] ** 2 + g[:, 1] ** 2)


def _profile_func(obj, grid, *args, **kwargs):
    return obj.image(grid)


def iterate_spec(draw):
    """fractional accuracies that are decisive for _Profile (ratio of successive sub-size averages is within
    [1 - 4e-2, 1] and, for q > 0, at least 1e-7 away from 1): 0.5 accepts the first step everywhere, 1 - 1e-9 with
    q > 0 accepts nowhere, so the path through the thresholds cannot depend on rounding."""
    mode = draw(st.sampled_from(["accept-first", "never-accept"]))
    return {"mode": mode, "fractional_accuracy": 0.5 if mode == "accept-first" else 1.0 - 1e-9,
            "sub_steps": draw(st.sampled_from([[2, 4], [2, 3, 4], [3, 6]])),
            "b": [draw(st.sampled_from([-0.75, 0.5, 1.0])), draw(st.sampled_from([-1.0, 0.25, 0.5]))],
            "q": draw(st.sampled_from([0.0, 0.5])) if mode == "accept-first" else draw(st.sampled_from([0.25, 0.5]))}


@st.composite
def shared_cases(draw):
    case = draw(frames())
    ring = draw(st.sampled_from([1, 1, 2]))
    mask = draw(offcentre_masks(lo=2, hi=5, ring=ring, min_unmasked=3))
    case["mask"] = mask
    case["subs"] = [draw(st.integers(1, 3)) for _ in range(5)]
    n_un = sum(1 for r in mask for v in r if not v)
    case["sub_table"] = draw(st.lists(st.integers(1, 3), min_size=n_un, max_size=n_un))
    case["offset"] = [draw(gens.reals(-3, 3, allow_zero=False)), draw(gens.reals(-3, 3))]
    case["iterate"] = iterate_spec(draw)
    case["warp"] = draw(scene.warps())
    y0, y1, x0, x1 = bbox(mask)
    shape = []
    for n in (y1 - y0 + 1, x1 - x0 + 1):
        free = [k for k in range(1, 7) if not overlay_tie(n, k)]
        shape.append(draw(st.sampled_from(free)) if free else 1)
    case["overlay_shape"] = shape
    src = scene.apply_warp(rel_sub_centres(mask, case["pixel_scales"], case["subs"][1]), case["warp"], [0.0, 0.0])
    mesh = []
    for ax in (0, 1):
        free = [k for k in (3, 4, 5) if not _axis_ties(src[:, ax], k, case["mag"]).any()]
        mesh.append(draw(st.sampled_from(free)) if free else draw(st.integers(3, 5)))
    case["mesh_shape"] = mesh
    case["poisson_in_noise_map"] = draw(st.booleans())
    return case


def body_shared_config(case, ctx):
    aa = _aa()
    w0, w1, d = worlds(case)
    m = np.asarray(case["mask"], dtype=bool)
    h, w = m.shape
    frame_labels(case, ctx, m)
    subs = case["subs"]
    # one instance of every configuration object, used for both origins
    os_u, os_p, os_n = (aa.OverSamplingUniform(sub_size=subs[i]) for i in range(3))
    os_data = aa.OverSamplingDataset(uniform=os_u, pixelization=os_p, non_uniform=os_n)
    os_u2, os_p2 = aa.OverSamplingUniform(sub_size=subs[3]), aa.OverSamplingUniform(sub_size=subs[4])
    os_data2 = aa.OverSamplingDataset(uniform=os_u2, pixelization=os_p2)
    it = case["iterate"]
    os_it = aa.OverSamplingIterate(fractional_accuracy=it["fractional_accuracy"], sub_steps=list(it["sub_steps"]))
    psf = aa.Kernel2D.no_mask(values=1.0 + np.arange(9, dtype=float).reshape(3, 3), pixel_scales=w0.ps)
    sim = aa.SimulatorImaging(exposure_time=300.0, background_sky_level=0.5, psf=psf,
                              include_poisson_noise_in_noise_map=case["poisson_in_noise_map"], noise_seed=7)
    overlay = aa.image_mesh.Overlay(shape=tuple(case["overlay_shape"]))
    mesh = aa.mesh.Rectangular(shape=tuple(case["mesh_shape"]))
    reg = aa.reg.Constant(coefficient=1.0)
    settings = aa.SettingsInversion(use_w_tilde=False, use_positive_only_solver=False, force_edge_pixels_to_zeros=False)
    ctx.label("iterate:%s" % it["mode"])

    vals = 2.0 + np.arange(h * w, dtype=float).reshape(h, w) % 7 + 0.25 * np.arange(h * w).reshape(h, w)
    noise = 0.5 + (np.arange(h * w, dtype=float).reshape(h, w) % 5) * 0.3
    flipped = dict(case, order=1 - case.get("order", 0))
    f0, f1 = World(flipped, 0), World(flipped, 1)

    def ob(key, fn, facets, **kw):
        """o then o+d (or the reverse, by the case's order) and straight afterwards in the opposite order, so each
        world is evaluated once right after the other one and once right after itself: A B B A."""
        observe(ctx, key, fn, facets, w0, w1, d, **kw)
        observe(ctx, key, fn, facets, f0, f1, d, **kw)

    def f_sampler(o):
        return [("over_sampled_grid", "coord", _xy(o.over_sampled_grid)), ("mask.origin", "coord", np.asarray(o.mask.origin, dtype=float)),
                ("sub_total", "exact", np.asarray(o.sub_total)), ("slim_for_sub_slim", "exact", np.asarray(o.slim_for_sub_slim))]

    ob("shared/over_sampling_uniform/over_sampler_from", lambda wd: os_u.over_sampler_from(mask=wd.new_mask()), f_sampler)
    ob("shared/grid/over_sampler", lambda wd: aa.Grid2D.from_mask(mask=wd.new_mask(), over_sampling=os_p).over_sampler, f_sampler)

    # ONE per-pixel sub-size table (each API form) built on the mask of the world that is built first, and ONE scheme
    # per constructor built from that world's grid / data, all of them then used for both origins
    first = w1 if case.get("order", 0) else w0
    tsub = sub_table_list(case, int((~m).sum()))
    forms = table_forms(aa, first.new_mask(), tsub)
    schemes = {k: aa.OverSamplingUniform(sub_size=v) for k, v in forms.items()}
    first_grid = aa.Grid2D.from_mask(mask=first.new_mask())
    schemes["from_radial_bins"] = aa.OverSamplingUniform.from_radial_bins(
        grid=first_grid, sub_size_list=[3, 2, 1], radial_list=[0.7 * min(w0.ps), 1.6 * max(w0.ps), 1.0e3],
        centre_list=[first.at((0.1 * w0.ps[0], -0.2 * w0.ps[1]))])
    schemes["from_adapt"] = aa.OverSamplingUniform.from_adapt(
        data=aa.Array2D(values=vals.copy(), mask=first.new_mask()), noise_map=aa.Array2D(values=noise.copy(), mask=first.new_mask()),
        signal_to_noise_cut=6.0, sub_size_lower=1, sub_size_upper=3)
    for form, tab in forms.items():
        ob("shared/sub_table/%s/over_sampler_uniform" % form,
           lambda wd: aa.OverSamplerUniform(mask=wd.new_mask(), sub_size=tab), f_sampler_grid)
    for name, sch in schemes.items():
        ob("shared/sub_table/%s/grid_over_sampler" % name,
           lambda wd: aa.Grid2D.from_mask(mask=wd.new_mask(), over_sampling=sch).over_sampler, f_sampler_grid)
        ob("shared/sub_table/%s/over_sampler_from" % name, lambda wd: sch.over_sampler_from(mask=wd.new_mask()), f_sampler_grid)
        ob("shared/sub_table/%s/scheme_sub_size" % name,
           lambda wd: aa.OverSamplerUniform(mask=wd.new_mask(), sub_size=sch.sub_size), f_sampler_grid)
    ob("shared/sub_table/array2d/tables", lambda wd: _os_tables(aa.OverSamplerUniform(mask=wd.new_mask(), sub_size=forms["array2d"])), lambda t: t)
    ob("shared/sub_table/array2d/border_relocator",
       lambda wd: aa.BorderRelocator(mask=wd.new_mask(), sub_size=forms["array2d"]), f_sampler_grid)
    for wd in ((w1, w0) if case.get("order", 0) else (w0, w1)):
        subtracted_relation(ctx, "shared/sub_table/subtracted_from", aa, wd, forms["array2d"], case.get("offset", [1.0, -2.0]))
    os_table = aa.OverSamplingDataset(uniform=schemes["array2d"], pixelization=schemes["from_adapt"], non_uniform=schemes["ndarray"])

    def dataset(wd):
        return aa.Imaging(data=aa.Array2D.no_mask(values=vals.copy(), pixel_scales=wd.ps, origin=wd.origin),
                          noise_map=aa.Array2D.no_mask(values=noise.copy(), pixel_scales=wd.ps, origin=wd.origin),
                          psf=psf, over_sampling=os_data)

    def f_masked(ds):
        f = f_dataset(ds)
        g = ds.grids
        f.append(("grids.uniform.over_sampled", "coord", _xy(g.uniform.over_sampler.over_sampled_grid)))
        f.append(("grids.pixelization.over_sampled", "coord", _xy(g.over_sampler_pixelization.over_sampled_grid)))
        if g.non_uniform is not None:
            f.append(("grids.non_uniform.over_sampled", "coord", _xy(g.over_sampler_non_uniform.over_sampled_grid)))
        f.append(("grids.border_relocator.sub_grid", "coord", _xy(g.border_relocator.sub_grid)))
        return f

    ob("shared/imaging/apply_mask", lambda wd: dataset(wd).apply_mask(mask=wd.new_mask()), f_masked)
    ob("shared/sub_table/imaging/apply_over_sampling",
       lambda wd: dataset(wd).apply_mask(mask=wd.new_mask()).apply_over_sampling(over_sampling=os_table), f_masked)
    ob("shared/imaging/apply_over_sampling",
       lambda wd: dataset(wd).apply_mask(mask=wd.new_mask()).apply_over_sampling(over_sampling=os_data2), f_masked)

    def iterate(wd):
        grid = aa.Grid2D.from_mask(mask=wd.new_mask(), over_sampling=os_it)
        return grid.over_sampler.array_via_func_from(_profile_func, _Profile(wd.o, it["b"], it["q"]))

    ob("shared/over_sampling_iterate/array_via_func_from", iterate, f_array, per=60.0)
    ob("shared/over_sampling_uniform/array_via_func_from",
       lambda wd: aa.Grid2D.from_mask(mask=wd.new_mask(), over_sampling=os_n).over_sampler.array_via_func_from(
           _profile_func, _Profile(wd.o, it["b"], it["q"])), f_array, per=60.0)

    def f_sim(ds):
        out = [("data.%s" % n, k, v) for n, k, v in f_array(ds.data)]
        out += [("noise_map.%s" % n, k, v) for n, k, v in f_array(ds.noise_map)]
        out.append(("grids.uniform", "coord", _xy(ds.grids.uniform)))
        return out

    ob("shared/simulator/via_image_from",
       lambda wd: sim.via_image_from(image=aa.Array2D.no_mask(values=vals.copy(), pixel_scales=wd.ps, origin=wd.origin)), f_sim)
    ob("shared/image_mesh/overlay", lambda wd: overlay.image_plane_mesh_grid_from(mask=wd.new_mask()), f_coord_grid)

    # rectangular mapper from the shared mesh / regularization / over sampling, inversion with the shared settings
    src_rel = scene.apply_warp(rel_sub_centres(m, w0.ps, subs[1]), case["warp"], [0.0, 0.0])
    tie_sub = _rect_ties(src_rel, tuple(case["mesh_shape"]), w0.mag)
    ctx.tie(int(tie_sub.sum()))
    ctx.label("rect:has-ties" if tie_sub.any() else "rect:tie-free")

    def mapper(wd, ds=None):
        mask = wd.new_mask() if ds is None else ds.mask
        osamp = os_p.over_sampler_from(mask=mask)
        src = scene.apply_warp(np.asarray(osamp.over_sampled_grid), case["warp"], wd.o)
        mg = mesh.mapper_grids_from(mask=mask, source_plane_data_grid=aa.Grid2DIrregular(values=src), border_relocator=None)
        return aa.Mapper(mapper_grids=mg, over_sampler=osamp, regularization=reg)

    slim_for_sub = np.repeat(np.arange(int((~m).sum())), subs[1] ** 2)
    keep_pix = np.ones(int((~m).sum()), dtype=bool)
    keep_pix[np.unique(slim_for_sub[tie_sub])] = False

    def f_mapper(mp):
        return [("source_plane_mesh_grid", "coord", _xy(mp.source_plane_mesh_grid)),
                ("mesh.origin", "coord", np.asarray(mp.source_plane_mesh_grid.origin, dtype=float)),
                ("over_sampled_grid", "coord", _xy(mp.over_sampler.over_sampled_grid)),
                ("image_plane_data_grid", "coord", _xy(mp.mapper_grids.image_plane_data_grid)),
                ("pix_indexes", "exact", np.asarray(mp.pix_indexes_for_sub_slim_index)[~tie_sub]),
                ("mapping_matrix", "close", np.asarray(mp.mapping_matrix, dtype=float)[keep_pix])]

    ob("shared/mapper_rectangular", mapper, f_mapper)
    if not tie_sub.any():
        def inversion(wd):
            ds = dataset(wd).apply_mask(mask=wd.new_mask())
            if ds.mask.shape_native != m.shape:
                raise HarnessError("apply_mask padded a ring-padded frame")
            return aa.Inversion(dataset=ds, linear_obj_list=[mapper(wd, ds)], settings=settings)

        def f_inv(inv):
            return [("data_vector", "close", np.asarray(inv.data_vector, dtype=float)),
                    ("curvature_matrix", "close", np.asarray(inv.curvature_matrix, dtype=float)),
                    ("regularization_matrix", "close", np.asarray(inv.regularization_matrix, dtype=float))]

        ob("shared/inversion", inversion, f_inv, atol=1e-7)


# ---------------------------------------------------------------------------------------------
# sub-check: constructors  (every construction / I/O route that takes or carries an origin)
# ---------------------------------------------------------------------------------------------
@st.composite
def constructor_cases(draw):
    case = draw(frames())
    mask = draw(offcentre_masks(lo=1, hi=6))
    h, w = len(mask), len(mask[0])
    case["mask"] = mask
    case["coords"] = [[draw(st.integers(0, h - 1)), draw(st.integers(0, w - 1))] for _ in range(draw(st.integers(1, 4)))]
    case["buffer"] = draw(st.integers(0, 1))
    case["invert"] = draw(st.booleans())
    case["resized"] = [draw(st.integers(1, 9)), draw(st.integers(1, 9))]
    case["radius_pix"] = draw(st.sampled_from([0.7, 1.2, 1.8, 2.6]))
    case["axis_ratio"] = draw(st.sampled_from([0.4, 0.7, 1.0]))
    case["angle"] = draw(st.sampled_from([0.0, 30.0, 90.0, 135.0]))
    case["sub"] = draw(st.integers(1, 3))
    return case


def f_route_mask(m):
    """what a mask produced by a construction route is observed for: origin, extent, bools, pixel scales, the
    pixel-centre grid built on it and one over-sampled grid built on it."""
    aa = _aa()
    out = f_mask_grid(m)
    if not np.asarray(m, dtype=bool).all():
        out.append(("over_sampled_grid", "coord", _xy(aa.OverSamplerUniform(mask=m, sub_size=2).over_sampled_grid)))
    return out


def f_route_array(a):
    return [("values", "close", np.asarray(a.native, dtype=float))] + [("mask." + n, k, v) for n, k, v in f_route_mask(a.mask)]


def f_route_grid(g):
    out = [("coordinates", "coord", _xy(g)), ("origin", "coord", np.asarray(g.origin, dtype=float))]
    out += [("mask." + n, k, v) for n, k, v in f_route_mask(g.mask)]
    if getattr(g, "over_sampling", None) is not None:
        out.append(("grid.over_sampler.over_sampled_grid", "coord", _xy(g.over_sampler.over_sampled_grid)))
    return out


def f_route_vector(v):
    return [("grid", "coord", _xy(v.grid)), ("values", "close", np.asarray(v.native, dtype=float))] + \
           [("mask." + n, k, v_) for n, k, v_ in f_route_mask(v.mask)]


def absolute_route(ctx, key, wd, obj, ps=None, origin=None):
    """both worlds could be wrong together: the mask a route returns must sit at the origin it was given and its
    pixel centres must be the closed form o + ((H-1)/2 - i) * sy, o + (j - (W-1)/2) * sx."""
    aa = _aa()
    m = obj if isinstance(obj, aa.Mask2D) else obj.mask
    ps = wd.ps if ps is None else ps
    origin = wd.o if origin is None else np.asarray(origin, dtype=float)
    t = tol(wd.mag)
    ctx.close(np.asarray(m.origin, dtype=float), origin, key, atol=t, what=key + " origin vs the origin passed to the route")
    b = np.asarray(m, dtype=bool)
    if not b.all():
        ctx.close(_xy(aa.Grid2D.from_mask(mask=m)), origin + rel_centres(b, ps), key, atol=t,
                  what=key + " pixel centres vs closed form at the origin passed to the route")


def body_constructors(case, ctx):
    import shutil
    import tempfile
    aa = _aa()
    w0, w1, d = worlds(case)
    m = np.asarray(case["mask"], dtype=bool)
    h, w = m.shape
    frame_labels(case, ctx, m)
    vals = np.arange(1.0, h * w + 1.0).reshape(h, w)
    osu = aa.OverSamplingUniform(sub_size=case["sub"])
    tmp = tempfile.mkdtemp(prefix="vp_c12_")

    def ob(key, fn, facets, **kw):
        """translation relation between the worlds plus the absolute closed form in each world"""
        holder = {}

        def keep(wd):
            holder[wd.which] = fn(wd)
            return holder[wd.which]

        if observe(ctx, key, keep, facets, w0, w1, d):
            for wd in (w0, w1):
                absolute_route(ctx, key, wd, holder[wd.which], **kw)

    def centres(wd, full=True):
        b = np.zeros((h, w), dtype=bool) if full else m
        return wd.o + rel_centres(b, wd.ps)

    try:
        inv = case["invert"]
        # ---- Mask2D
        ob("route/Mask2D", lambda wd: aa.Mask2D(mask=m.copy(), pixel_scales=wd.ps, origin=wd.origin), f_route_mask)
        ob("route/Mask2D-list-invert", lambda wd: aa.Mask2D(mask=(~m).tolist(), pixel_scales=wd.ps, origin=wd.origin, invert=True), f_route_mask)
        other = {0: w1, 1: w0}
        ob("route/Mask2D-from-Mask2D", lambda wd: aa.Mask2D(mask=other[wd.which].mask, pixel_scales=wd.ps, origin=wd.origin), f_route_mask)
        ob("route/Mask2D.all_false", lambda wd: aa.Mask2D.all_false(shape_native=(h, w), pixel_scales=wd.ps, origin=wd.origin), f_route_mask)
        ob("route/Mask2D.all_false-invert", lambda wd: aa.Mask2D.all_false(shape_native=(h, w), pixel_scales=wd.ps, origin=wd.origin, invert=True), f_route_mask)
        s_ = min(w0.ps)
        n = 7
        r = case["radius_pix"] * s_
        iso = (s_, s_)
        ob("route/Mask2D.circular", lambda wd: aa.Mask2D.circular(
            shape_native=(n, n + 1), radius=r, pixel_scales=wd.ps, origin=wd.origin, invert=inv), f_route_mask)
        ob("route/Mask2D.circular_annular", lambda wd: aa.Mask2D.circular_annular(
            shape_native=(n, n), inner_radius=0.45 * r, outer_radius=r + 0.3 * s_, pixel_scales=iso, origin=wd.origin, invert=inv),
           f_route_mask, ps=iso)
        ob("route/Mask2D.circular_anti_annular", lambda wd: aa.Mask2D.circular_anti_annular(
            shape_native=(n + 2, n + 2), inner_radius=0.45 * r, outer_radius=r + 0.3 * s_, outer_radius_2=r + 1.3 * s_,
            pixel_scales=iso, origin=wd.origin, invert=inv), f_route_mask, ps=iso)
        ob("route/Mask2D.elliptical", lambda wd: aa.Mask2D.elliptical(
            shape_native=(n, n), major_axis_radius=r + 0.3 * s_, axis_ratio=case["axis_ratio"], angle=case["angle"],
            pixel_scales=iso, origin=wd.origin, invert=inv), f_route_mask, ps=iso)
        ob("route/Mask2D.elliptical_annular", lambda wd: aa.Mask2D.elliptical_annular(
            shape_native=(n, n), inner_major_axis_radius=0.4 * r, inner_axis_ratio=case["axis_ratio"], inner_phi=case["angle"],
            outer_major_axis_radius=r + 0.8 * s_, outer_axis_ratio=case["axis_ratio"], outer_phi=case["angle"],
            pixel_scales=iso, origin=wd.origin, invert=inv), f_route_mask, ps=iso)
        ob("route/Mask2D.from_pixel_coordinates", lambda wd: aa.Mask2D.from_pixel_coordinates(
            shape_native=(h + 2, w + 2), pixel_coordinates=[[c[0] + 1, c[1] + 1] for c in case["coords"]], pixel_scales=wd.ps,
            origin=wd.origin, buffer=case["buffer"], invert=inv), f_route_mask)

        def fits_path(wd, name):
            return os.path.join(tmp, "%s_%d.fits" % (name, wd.which))

        def mask_via_fits(wd, **kw):
            wd.new_mask().output_to_fits(file_path=fits_path(wd, "mask"), overwrite=True)
            return aa.Mask2D.from_fits(file_path=fits_path(wd, "mask"), pixel_scales=wd.ps, origin=wd.origin, **kw)

        ob("route/Mask2D.from_fits", mask_via_fits, f_route_mask)
        ob("route/Mask2D.from_fits-hdu-invert", lambda wd: mask_via_fits(wd, hdu=0, invert=True), f_route_mask)
        ob("route/Mask2D.from_fits-resized", lambda wd: mask_via_fits(wd, resized_mask_shape=tuple(case["resized"])), f_route_mask)
        ob("route/Mask2D.from_primary_hdu", lambda wd: aa.Mask2D.from_primary_hdu(
            primary_hdu=wd.new_mask().hdu_for_output, origin=wd.origin), f_route_mask)
        # ---- Array2D
        ob("route/Array2D", lambda wd: aa.Array2D(values=vals.copy(), mask=wd.new_mask()), f_route_array)
        ob("route/Array2D.no_mask-native", lambda wd: aa.Array2D.no_mask(values=vals.copy(), pixel_scales=wd.ps, origin=wd.origin), f_route_array)
        ob("route/Array2D.no_mask-slim-shape_native", lambda wd: aa.Array2D.no_mask(
            values=vals.ravel().copy(), shape_native=(h, w), pixel_scales=wd.ps, origin=wd.origin), f_route_array)
        ob("route/Array2D.no_mask-list", lambda wd: aa.Array2D.no_mask(values=vals.tolist(), pixel_scales=wd.ps, origin=wd.origin), f_route_array)
        ob("route/Array2D.full", lambda wd: aa.Array2D.full(fill_value=3.0, shape_native=(h, w), pixel_scales=wd.ps, origin=wd.origin), f_route_array)
        ob("route/Array2D.ones", lambda wd: aa.Array2D.ones(shape_native=(h, w), pixel_scales=wd.ps, origin=wd.origin), f_route_array)
        ob("route/Array2D.zeros", lambda wd: aa.Array2D.zeros(shape_native=(h, w), pixel_scales=wd.ps, origin=wd.origin), f_route_array)
        ob("route/Array2D.apply_mask", lambda wd: aa.Array2D.no_mask(
            values=vals.copy(), pixel_scales=wd.ps, origin=wd.origin).apply_mask(mask=wd.new_mask()), f_route_array)

        def array_via_fits(wd):
            aa.Array2D.no_mask(values=vals.copy(), pixel_scales=wd.ps, origin=wd.origin).output_to_fits(
                file_path=fits_path(wd, "array"), overwrite=True)
            return aa.Array2D.from_fits(file_path=fits_path(wd, "array"), pixel_scales=wd.ps, hdu=0, origin=wd.origin)

        ob("route/Array2D.from_fits", array_via_fits, f_route_array)
        ob("route/Array2D.from_primary_hdu", lambda wd: aa.Array2D.from_primary_hdu(
            primary_hdu=aa.Array2D.no_mask(values=vals.copy(), pixel_scales=wd.ps, origin=wd.origin).hdu_for_output,
            origin=wd.origin), f_route_array)
        # ---- Grid2D (positions passed in are the closed-form pixel centres of the world)
        ob("route/Grid2D", lambda wd: aa.Grid2D(values=centres(wd, full=False), mask=wd.new_mask(), over_sampling=osu), f_route_grid)
        ob("route/Grid2D.from_mask", lambda wd: aa.Grid2D.from_mask(mask=wd.new_mask(), over_sampling=osu), f_route_grid)
        ob("route/Grid2D.no_mask-native", lambda wd: aa.Grid2D.no_mask(
            values=centres(wd).reshape(h, w, 2), pixel_scales=wd.ps, origin=wd.origin, over_sampling=osu), f_route_grid)
        ob("route/Grid2D.no_mask-slim-shape_native", lambda wd: aa.Grid2D.no_mask(
            values=centres(wd), shape_native=(h, w), pixel_scales=wd.ps, origin=wd.origin, over_sampling=osu), f_route_grid)
        ob("route/Grid2D.from_yx_1d", lambda wd: aa.Grid2D.from_yx_1d(
            y=centres(wd)[:, 0], x=centres(wd)[:, 1].tolist(), shape_native=(h, w), pixel_scales=wd.ps, origin=wd.origin,
            over_sampling=osu), f_route_grid)
        ob("route/Grid2D.from_yx_2d", lambda wd: aa.Grid2D.from_yx_2d(
            y=centres(wd)[:, 0].reshape(h, w), x=centres(wd)[:, 1].reshape(h, w).tolist(), pixel_scales=wd.ps, origin=wd.origin,
            over_sampling=osu), f_route_grid)
        ob("route/Grid2D.uniform", lambda wd: aa.Grid2D.uniform(shape_native=(h, w), pixel_scales=wd.ps, origin=wd.origin, over_sampling=osu), f_route_grid)

        def bbox_of(wd, pad):
            return [wd.o[0] - (h - pad) * wd.ps[0] / 2.0, wd.o[0] + (h - pad) * wd.ps[0] / 2.0,
                    wd.o[1] - (w - pad) * wd.ps[1] / 2.0, wd.o[1] + (w - pad) * wd.ps[1] / 2.0]

        ob("route/Grid2D.bounding_box", lambda wd: aa.Grid2D.bounding_box(
            bounding_box=bbox_of(wd, 0), shape_native=(h, w), over_sampling=osu), f_route_grid)
        if h > 1 and w > 1:
            ob("route/Grid2D.bounding_box-buffer_around_corners", lambda wd: aa.Grid2D.bounding_box(
                bounding_box=bbox_of(wd, 1), shape_native=(h, w), buffer_around_corners=True, over_sampling=osu), f_route_grid)
            # Grid2D.from_extent has no origin argument and the library's own test pins the origin of the returned
            # grid's mask to (0, 0) whatever the extent: the route cannot carry an origin (precondition), so only the
            # coordinates it returns are held to the translation relation, not the mask it is attached to
            observe(ctx, "route/Grid2D.from_extent", lambda wd: aa.Grid2D.from_extent(
                extent=(bbox_of(wd, 1)[2], bbox_of(wd, 1)[3], bbox_of(wd, 1)[0], bbox_of(wd, 1)[1]), shape_native=(h, w)),
                f_coord_grid, w0, w1, d)

        def grid_via_fits(wd):
            aa.Array2D.no_mask(values=np.zeros((1, 1)), pixel_scales=1.0)   # (keeps the import side effects identical)
            from autoarray.structures.arrays import array_2d_util
            array_2d_util.numpy_array_2d_to_fits(array_2d=centres(wd).reshape(h, w, 2), file_path=fits_path(wd, "grid"), overwrite=True)
            return aa.Grid2D.from_fits(file_path=fits_path(wd, "grid"), pixel_scales=wd.ps, origin=wd.origin, over_sampling=osu)

        ob("route/Grid2D.from_fits", grid_via_fits, f_route_grid)
        # ---- VectorYX2D
        vec = np.stack([vals, -vals], axis=-1)
        ob("route/VectorYX2D.no_mask", lambda wd: aa.VectorYX2D.no_mask(values=vec.copy(), pixel_scales=wd.ps, origin=wd.origin), f_route_vector)
        ob("route/VectorYX2D.no_mask-slim", lambda wd: aa.VectorYX2D.no_mask(
            values=vec.reshape(-1, 2).copy(), shape_native=(h, w), pixel_scales=wd.ps, origin=wd.origin), f_route_vector)
        ob("route/VectorYX2D.full", lambda wd: aa.VectorYX2D.full(fill_value=(1.0, 2.0), shape_native=(h, w), pixel_scales=wd.ps, origin=wd.origin), f_route_vector)
        ob("route/VectorYX2D.ones", lambda wd: aa.VectorYX2D.ones(shape_native=(h, w), pixel_scales=wd.ps, origin=wd.origin), f_route_vector)
        ob("route/VectorYX2D.zeros", lambda wd: aa.VectorYX2D.zeros(shape_native=(h, w), pixel_scales=wd.ps, origin=wd.origin), f_route_vector)
        # ---- rectangular mesh constructed directly
        ob("route/Mesh2DRectangular", lambda wd: aa.Mesh2DRectangular(
            values=centres(wd), shape_native=(h, w), pixel_scales=wd.ps, origin=wd.origin), f_route_grid)
        # routes that have no origin argument cannot carry one: a stated precondition, not exercised
        ctx.label("precondition:no-origin-argument:Array2D.from_yx_and_values,Imaging.from_fits,Grid2D.from_extent(mask)")
    finally:
        shutil.rmtree(tmp, ignore_errors=True)


# ---------------------------------------------------------------------------------------------
# sub-check: pixel_indices
# ---------------------------------------------------------------------------------------------
@st.composite
def pixel_index_cases(draw):
    case = draw(frames())
    h, w = draw(gens.shapes(lo=1, hi=12))
    case["shape"] = [h, w]
    n = draw(st.integers(1, 10))
    near = near_margin(case)
    case["points"] = [[draw(pix_coords(h, near)), draw(pix_coords(w, near))] for _ in range(n)]
    case["pixels"] = [[draw(st.integers(-1, h)), draw(st.integers(-1, w))] for _ in range(draw(st.integers(1, 4)))]
    return case


def body_pixel_indices(case, ctx):
    aa = _aa()
    from autoarray.geometry import geometry_util
    from autoarray.structures.grids import grid_2d_util
    w0, w1, d = worlds(case)
    h, w = case["shape"]
    frame_labels(case, ctx)
    ctx.label("frame:nonsquare" if h != w else "frame:square")
    u_all = np.asarray(case["points"], dtype=float)
    tie = pix_ties(u_all, case)
    ctx.tie(int(tie.sum()))
    inside = (u_all[:, 0] > 0) & (u_all[:, 0] < h) & (u_all[:, 1] > 0) & (u_all[:, 1] < w)
    ctx.label("points:some-outside" if (~inside).any() else "points:all-inside")

    def geom(wd):
        return aa.Mask2D.all_false(shape_native=(h, w), pixel_scales=wd.ps, origin=wd.origin).geometry

    def ob(key, fn, facets, **kw):
        return observe(ctx, key, fn, facets, w0, w1, d, **kw)

    def as_grid(wd, u):
        pts = wd.pix_to_scaled(u, (h, w))
        return aa.Grid2D.no_mask(values=pts, shape_native=(len(pts), 1), pixel_scales=1.0)

    # float pixel coordinates are continuous: every point is compared (1e-8: |y/scale| reaches 4e3)
    per_pix = 1.0 / min(w0.ps)
    ob("geometry/grid_pixels_2d_from", lambda wd: geom(wd).grid_pixels_2d_from(grid_scaled_2d=as_grid(wd, u_all)).slim,
       f_close, atol=1e-8, per=per_pix)
    ob("geometry_util/grid_pixels_2d_slim_from", lambda wd: geometry_util.grid_pixels_2d_slim_from(
        grid_scaled_2d_slim=wd.pix_to_scaled(u_all, (h, w)), shape_native=(h, w), pixel_scales=wd.ps, origin=wd.origin),
       f_close, atol=1e-8, per=per_pix)
    if (~tie).any():
        u = u_all[~tie]
        for i in range(min(len(u), 3)):
            ob("geometry/pixel_coordinates_2d_from",
               lambda wd: geom(wd).pixel_coordinates_2d_from(scaled_coordinates_2d=tuple(wd.pix_to_scaled(u[i], (h, w))[0])), f_exact)
            ob("geometry/scaled_coordinate_2d_to_scaled_at_pixel_centre_from",
               lambda wd: geom(wd).scaled_coordinate_2d_to_scaled_at_pixel_centre_from(
                   scaled_coordinate_2d=tuple(wd.pix_to_scaled(u[i], (h, w))[0])), f_coord)
        ob("geometry/grid_pixel_centres_2d_from",
           lambda wd: geom(wd).grid_pixel_centres_2d_from(grid_scaled_2d=as_grid(wd, u)).slim, f_exact)
        ob("geometry/grid_pixel_indexes_2d_from",
           lambda wd: geom(wd).grid_pixel_indexes_2d_from(grid_scaled_2d=as_grid(wd, u)).slim, f_exact)
        ob("geometry_util/grid_pixel_centres_2d_slim_from", lambda wd: geometry_util.grid_pixel_centres_2d_slim_from(
            grid_scaled_2d_slim=wd.pix_to_scaled(u, (h, w)), shape_native=(h, w), pixel_scales=wd.ps, origin=wd.origin), f_exact)
        ob("geometry_util/grid_pixel_indexes_2d_slim_from", lambda wd: geometry_util.grid_pixel_indexes_2d_slim_from(
            grid_scaled_2d_slim=wd.pix_to_scaled(u, (h, w)), shape_native=(h, w), pixel_scales=wd.ps, origin=wd.origin), f_exact)
        ob("geometry_util/grid_pixel_centres_2d_from", lambda wd: geometry_util.grid_pixel_centres_2d_from(
            grid_scaled_2d=wd.pix_to_scaled(u, (h, w)).reshape(-1, 1, 2), shape_native=(h, w), pixel_scales=wd.ps,
            origin=wd.origin), f_exact)
        ui = u[inside[~tie]]
        if len(ui):
            ob("grid_2d_util/grid_pixels_in_mask_pixels_from", lambda wd: grid_2d_util.grid_pixels_in_mask_pixels_from(
                grid=wd.pix_to_scaled(ui, (h, w)), shape_native=(h, w), pixel_scales=wd.ps, origin=wd.origin), f_exact)
    # pixel -> scaled
    pix = np.asarray(case["pixels"], dtype=float)
    for i in range(len(pix)):
        ob("geometry/scaled_coordinates_2d_from",
           lambda wd: geom(wd).scaled_coordinates_2d_from(pixel_coordinates_2d=(int(pix[i, 0]), int(pix[i, 1]))), f_coord)
    ob("geometry/grid_scaled_2d_from", lambda wd: geom(wd).grid_scaled_2d_from(
        grid_pixels_2d=aa.Grid2D.no_mask(values=pix + 0.5, shape_native=(len(pix), 1), pixel_scales=1.0)).slim, f_coord)
    ob("geometry_util/grid_scaled_2d_slim_from", lambda wd: geometry_util.grid_scaled_2d_slim_from(
        grid_pixels_2d_slim=pix + 0.5, shape_native=(h, w), pixel_scales=wd.ps, origin=wd.origin), f_coord)


# ---------------------------------------------------------------------------------------------
# sub-check: mappers
# ---------------------------------------------------------------------------------------------
def rel_sub_centres(mask, ps, sub):
    """sub-pixel centres of the unmasked pixels relative to the origin (closed form, numpy only)."""
    m = np.asarray(mask, dtype=bool)
    cen = rel_centres(m, ps)
    subs = [sub] * len(cen) if isinstance(sub, int) else list(sub)
    out = []
    for (cy, cx), s_ in zip(cen, subs):
        a = (np.arange(s_) + 0.5) / s_
        yy = cy + ps[0] / 2.0 - a * ps[0]
        xx = cx - ps[1] / 2.0 + a * ps[1]
        out.append(np.stack(np.meshgrid(yy, xx, indexing="ij"), axis=-1).reshape(-1, 2))
    return np.concatenate(out, axis=0)


def _axis_ties(vals, n, mag):
    """points within a tie band of an interior boundary when [min-1e-8, max+1e-8] is split into n equal cells."""
    lo = vals.min() - 1e-8
    hi = vals.max() + 1e-8
    cell = (hi - lo) / n
    t = (vals - lo) / cell
    r = np.round(t)
    return (np.abs(t - r) < tie_pix(mag, cell)) & (r >= 1) & (r <= n - 1)


def _rect_ties(src_rel, shape, mag):
    """rows of the (origin-relative) source grid within a tie band of an interior cell boundary of the overlaid
    mesh (bounding box + 1e-8 buffer, split into `shape` equal cells).  The outer boundary is NOT excluded: the
    1e-8 buffer has to keep the extreme points inside the mesh at every magnitude of the class."""
    return _axis_ties(src_rel[:, 0], shape[0], mag) | _axis_ties(src_rel[:, 1], shape[1], mag)


@st.composite
def mapper_cases(draw, mags=MAGS):
    case = draw(frames(mags))
    ring = draw(st.sampled_from([0, 1]))
    mask = draw(offcentre_masks(lo=2, hi=5, ring=ring, min_unmasked=3))
    case["mask"] = mask
    n = sum(1 for r in mask for v in r if not v)
    spec = draw(scene.obj_specs(n, kinds=("rect", "rect", "delaunay"), reg_types=("constant",), max_sub=2,
                                reg_none=True, max_mesh=4))
    if spec["type"] == "rect":
        # choose, per axis, a mesh size for which no source point sits in a tie band of an interior cell boundary
        # (constructed; the body still guards row-wise for the rare case that no size in 3..5 is free)
        src = scene.apply_warp(rel_sub_centres(mask, case["pixel_scales"], spec["sub"]), spec["warp"], [0.0, 0.0])
        for ax in (0, 1):
            free = [k for k in (3, 4, 5) if not _axis_ties(src[:, ax], k, case["mag"]).any()]
            if free:
                spec["shape"][ax] = draw(st.sampled_from(free))
    else:
        # Delaunay: Qhull's in-circle test and the shoelace areas behind the interpolation weights are evaluated on
        # absolute coordinates, so both are only resolved to eps*(M/separation)^2.  The class is bounded to where
        # that is still small: |o|,|d| <= 1e4, and pixel scales >= 1 in the 1e4 class.
        if case["mag"] > 1e4:
            f = 1e4 / case["mag"]
            case["origin"] = [v * f for v in case["origin"]]
            if case["shift_kind"] != "tiny":
                case["shift"] = [v * f for v in case["shift"]]
            case["mag"] = 1e4
        # general position by construction: a lattice row / column with exactly zero jitter is collinear / co-circular
        spec["jitter"] = [j if abs(j) > 1e-3 else 0.04 + 0.2 * float(scene._hash01(i + 1.0)) for i, j in enumerate(spec["jitter"])]
        if case["mag"] > 100.0:
            s_ = draw(st.floats(1.0, 5.0))
            case["pixel_scales"] = [s_, s_ if case["pixel_scales"][0] == case["pixel_scales"][1] else draw(st.floats(1.0, 5.0))]
    case["obj"] = spec
    return case


def _delaunay_guard(verts, src, mag=100.0):
    """(degenerate, tie_rows): the vertex set is near co-circular / collinear (triangulation ambiguous), and the
    source points whose assignment is discontinuous (hull boundary, nearest-vertex tie outside the hull)."""
    from scipy.spatial import Delaunay, ConvexHull
    v = np.asarray(verts, dtype=float)
    v = v - v.mean(axis=0)
    scale = max(np.abs(v).max(), 1e-12)
    vn = v / scale
    tri = Delaunay(vn)
    degenerate = False
    # Qhull works on the absolute coordinates: its in-circle test lifts to x^2+y^2 ~ M^2, so in units of the spread
    # of the vertices the test is only resolved to ~eps*(M/scale)^2
    tie_circ = TIE_CIRC + ULPS_TOL * EPS * (coord_mag(mag) / scale) ** 2
    tie_hull = TIE_HULL + ULPS_TIE * EPS * coord_mag(mag)
    for s, nbrs in zip(tri.simplices, tri.neighbors):
        a, b, c = vn[s]
        area2 = abs((b[0] - a[0]) * (c[1] - a[1]) - (b[1] - a[1]) * (c[0] - a[0]))
        if area2 < tie_circ:
            degenerate = True
        for nb in nbrs:
            if nb < 0:
                continue
            opp = [p for p in tri.simplices[nb] if p not in s]
            if not opp:
                continue
            p = vn[opp[0]]
            mat = np.array([[q[0] - p[0], q[1] - p[1], (q[0] - p[0]) ** 2 + (q[1] - p[1]) ** 2] for q in (a, b, c)])
            if abs(np.linalg.det(mat)) < tie_circ:
                degenerate = True
    # three or more vertices on one hull edge: Qhull may or may not emit zero-area triangles along that edge
    hull_n = ConvexHull(vn)
    on_edge = np.abs(vn @ hull_n.equations[:, :2].T + hull_n.equations[:, 2]) < tie_circ
    if (on_edge.sum(axis=0) > 2).any():
        degenerate = True
    hull = ConvexHull(v)
    pts = np.asarray(src, dtype=float) - np.asarray(verts, dtype=float).mean(axis=0)
    # signed distance to every hull facet (normals are unit length): inside <= 0
    sd = pts @ hull.equations[:, :2].T + hull.equations[:, 2]
    worst = sd.max(axis=1)
    tie = np.abs(worst) < tie_hull
    outside = worst > 0
    if outside.any():
        d2 = ((pts[outside][:, None, :] - v[None, :, :]) ** 2).sum(axis=2)
        d2.sort(axis=1)
        near = np.sqrt(d2[:, 1]) - np.sqrt(d2[:, 0]) < tie_hull
        idx = np.nonzero(outside)[0]
        tie[idx[near]] = True
    return degenerate, tie


def body_mappers(case, ctx):
    aa = _aa()
    w0, w1, d = worlds(case)
    m = np.asarray(case["mask"], dtype=bool)
    frame_labels(case, ctx, m)
    spec = case["obj"]
    ctx.label("mapper:%s" % spec["type"])
    ctx.label("sub:per-pixel" if isinstance(spec["sub"], list) else "sub:uniform")
    built = []
    for wd in (w0, w1):
        built.append(scene.build_linear_obj(spec, wd.mask))
    (mp0, info0), (mp1, info1) = built
    src0, src1 = info0["source_grid"], info1["source_grid"]
    if src0.shape != src1.shape or np.abs(src1 - (src0 + d)).max() > tol(w0.mag, 1e-10):
        raise HarnessError("scene source grid is not translated with the origin")
    slim_for_sub = np.asarray(info0["over_sampler"].slim_for_sub_slim).astype(int)
    n_pix = int((~m).sum())

    def pair(key, fn, facets, **kw):
        return observe(ctx, key, lambda wd: fn(mp0 if wd.which == 0 else mp1), facets, w0, w1, d, **kw)

    pair("mapper/image_plane_data_grid", lambda mp: mp.mapper_grids.image_plane_data_grid, f_grid)
    pair("mapper/source_plane_data_grid", lambda mp: mp.source_plane_data_grid, f_coord_grid)
    pair("mapper/source_plane_mesh_grid", lambda mp: mp.source_plane_mesh_grid, f_coord_grid)
    pair("mapper/slim_index_for_sub_slim_index", lambda mp: mp.slim_index_for_sub_slim_index, f_exact)
    pair("mapper/pixels", lambda mp: mp.pixels, f_exact)

    if spec["type"] == "rect":
        shape = tuple(spec["shape"])
        pair("mesh_rectangular/origin", lambda mp: mp.source_plane_mesh_grid.origin, f_coord)
        pair("mesh_rectangular/extent", lambda mp: mp.source_plane_mesh_grid.geometry.extent, f_extent)
        pair("mesh_rectangular/pixel_scales", lambda mp: mp.source_plane_mesh_grid.pixel_scales, f_close)
        pair("mesh_rectangular/neighbors", lambda mp: np.asarray(mp.source_plane_mesh_grid.neighbors), f_exact)
        tie_sub = _rect_ties(src0 - w0.o, shape, w0.mag)
        ctx.tie(int(tie_sub.sum()))
        ctx.label("rect:has-ties" if tie_sub.any() else "rect:tie-free")
        keep_sub = ~tie_sub
        pair("mapper_rectangular/pix_indexes_for_sub_slim_index",
             lambda mp: np.asarray(mp.pix_indexes_for_sub_slim_index)[keep_sub], f_exact)
        pair("mapper_rectangular/pix_weights_for_sub_slim_index",
             lambda mp: np.asarray(mp.pix_weights_for_sub_slim_index, dtype=float)[keep_sub], f_close)
        pair("mapper_rectangular/pix_sizes_for_sub_slim_index",
             lambda mp: np.asarray(mp.pix_sizes_for_sub_slim_index)[keep_sub], f_exact)
        keep_pix = np.ones(n_pix, dtype=bool)
        keep_pix[np.unique(slim_for_sub[tie_sub])] = False
        pair("mapper_rectangular/mapping_matrix",
             lambda mp: np.asarray(mp.mapping_matrix, dtype=float)[keep_pix], f_close, atol=ATOL_MATRIX)
        return
    verts0 = info0["vertices"]
    if np.abs(info1["vertices"] - (verts0 + d)).max() > tol(w0.mag, 1e-10):
        raise HarnessError("scene Delaunay vertices are not translated with the origin")
    degenerate, tie_sub = _delaunay_guard(verts0 - w0.o, src0 - w0.o, w0.mag)
    if degenerate:
        ctx.tie()
        ctx.label("delaunay:degenerate-skipped")
        return
    ctx.tie(int(tie_sub.sum()))
    ctx.label("delaunay:has-ties" if tie_sub.any() else "delaunay:tie-free")
    keep_pix = np.ones(n_pix, dtype=bool)
    keep_pix[np.unique(slim_for_sub[tie_sub])] = False
    pair("mesh_delaunay/neighbors", lambda mp: _sorted_neighbors(mp.source_plane_mesh_grid.neighbors), f_exact)
    pair("mapper_delaunay/pix_sizes_for_sub_slim_index",
         lambda mp: np.asarray(mp.pix_sizes_for_sub_slim_index)[~tie_sub], f_exact)
    # barycentric weights are ratios of shoelace areas x1*y2-... of ABSOLUTE coordinates: resolved to eps*(M/separation)^2
    pair("mapper_delaunay/mapping_matrix",
         lambda mp: np.asarray(mp.mapping_matrix, dtype=float)[keep_pix], f_close, atol=ATOL_MATRIX,
         per=coord_mag(w0.mag) / info0["min_sep"] ** 2)


def _sorted_neighbors(nb):
    a = np.asarray(nb).astype(int)
    sizes = np.asarray(nb.sizes).astype(int)
    out = np.full(a.shape, -1, dtype=int)
    for i in range(len(a)):
        out[i, :sizes[i]] = np.sort(a[i, :sizes[i]])
    return out


SUBCHECKS = [
    SubCheck("mask_grids", body_mask_grids, strategy=mask_grid_cases(), examples={"quick": 350, "thorough": 8000},
             shards={"quick": 5, "thorough": 16}),
    SubCheck("image_mesh", body_image_mesh, strategy=image_mesh_cases(), examples={"quick": 330, "thorough": 8000},
             shards={"quick": 3, "thorough": 16}),
    SubCheck("imaging", body_imaging, strategy=imaging_cases(), examples={"quick": 180, "thorough": 4000},
             shards={"quick": 3, "thorough": 16}),
    SubCheck("simulate", body_simulate, strategy=simulate_cases(), examples={"quick": 200, "thorough": 4000},
             shards={"quick": 2, "thorough": 8}),
    SubCheck("shared_config", body_shared_config, strategy=shared_cases(), examples={"quick": 105, "thorough": 2500},
             shards={"quick": 3, "thorough": 16}),
    SubCheck("constructors", body_constructors, strategy=constructor_cases(), examples={"quick": 90, "thorough": 2000},
             shards={"quick": 2, "thorough": 12}),
    SubCheck("pixel_indices", body_pixel_indices, strategy=pixel_index_cases(), examples={"quick": 300, "thorough": 8000},
             shards={"quick": 1, "thorough": 8}),
    SubCheck("mappers", body_mappers, strategy=mapper_cases(), examples={"quick": 300, "thorough": 6000},
             shards={"quick": 2, "thorough": 16}),
]
