"""C02 — pixel indices and scaled (y,x) coordinates are consistent inverse maps; the shape-based mask
constructors unmask exactly the pixels whose centre satisfies the documented radial inequality."""
import math

import numpy as np
from hypothesis import strategies as st

from vp import gens
from vp.engine import SubCheck
from vp.ref import geometry as ref

PROPERTY = "C02"
TECHNIQUE = ("property-based testing (Hypothesis) plus enumeration of all small shapes, against closed-form "
             "coordinate formulas, round trips and an independent evaluation of the documented mask inequalities")
RULE = (
    "geometry2d: Hypothesis shapes 1..12 per axis (independent H, W), isotropic/anisotropic pixel scales in "
    "[0.05,5] (anisotropic 3 in 4; isotropic ones handed over as a single float half of the time), origins in "
    "[-100,100]^2 (unequal components favoured), a generated mask used as the container of the query grid, and one query point for every pixel of the frame built as pixel centre + fraction*scale with "
    "fractions in [-(0.5-1e-9), 0.5-1e-9] (extremes favoured), so the containing pixel is known by construction "
    "and the 1e-9 boundary band is excluded by construction; the k-th container slot queries pixel (k+shift) mod "
    "H*W so position in the container and target pixel are decoupled. enum_shapes: every shape H,W<=12 (quick) / "
    "<=16 (thorough) x fixed (scales, origin) presets with the same body. Oracle: closed forms of the statement "
    "(centre(i,j), extent = union of pixel squares, point -> (i,j) and i*W+j exact, continuous pixel coordinate = "
    "(i+0.5+f_y, j+0.5+f_x) measured from the top-left corner) and the round trips centre->index->centre, "
    "scaled->pixels->scaled, pixels->scaled->pixels. huge_frames: frames with sides drawn log-uniformly up to "
    "60000 in three explicit size classes (H*W below 2^24, between 2^24 and 2^31, above 2^31), 3-7 query points "
    "per case aimed at the first/last pixel, the frame corners, flat indices around 2^24 and 2^31, odd flat "
    "indices above 2^24 and random pixels, through the point-based conversions only (Geometry2D methods, slim "
    "utilities, scalar conversions; no HxW array is allocated); oracle = exact Python-int i*W+j and (i,j), "
    "closed-form centres, with float tolerances and the boundary margin scaled to the float64 resolution at the "
    "coordinate magnitude. Input dtype is an explicit class in geometry2d, enum_shapes, geometry1d and huge_frames "
    "(float64 / float32 / int64 / int32 / list-of-int): whole-number pixel coordinates in that dtype must convert to "
    "the closed-form top-left corners / centres (scales make them non-integral), scaled coordinates rounded to the "
    "dtype (float32) or to whole numbers (int classes) are re-located with exact rational arithmetic and must give "
    "that pixel / continuous coordinate, and the conversions are chained through the library's own return values "
    "(grid_pixel_centres_2d_from -> grid_scaled_2d_from -> grid_pixels_2d_from; row of the int64 centres grid -> "
    "scaled_coordinates_2d_from -> pixel_coordinates_2d_from; the 1D index -> scaled -> index chain). "
    "geometry1d: lengths 1..14, 1D masks, the 1D closed forms. "
    "masks: the five constructors (kinds with more parameters drawn more often) with radii that are either a "
    "fraction of the frame half-diagonal or anchored on / just inside / just outside a chosen pixel's radius "
    "(relative offsets 0, 1e-6..0.1), axis ratios in [0.1,1] (exactly 1 three times in ten), angles in "
    "[-360,360] (exactly 0/90/180/270/360 half of the time), centres in or slightly outside the frame (zero / "
    "exactly a pixel centre / exactly a pixel corner / anywhere), and explicit exact-equality classes: inner == "
    "outer radius, outer == second outer radius, all radii equal, elliptical annuli with every combination of "
    "{angles equal, axis ratios equal, major radii equal}; random origin and invert; oracle = documented inequality evaluated with a rotation matrix at the closed-form centres "
    "measured from the mask origin, pixels within 1e-9 of a threshold skipped and counted. Non-trivial: geometry = "
    "H != W and origin components unequal and some query fraction non-zero; masks = the result has both masked "
    "and unmasked pixels; 1D = mask mixed or origin non-zero; huge_frames = H*W > 2^24 and H != W. Distinct = SHA-1 of the canonical case."
)
ASSUMPTIONS = [
    "coordinates stay O(1e2) (|origin| <= 100, extent <= 130), so rounding error of the closed forms is <= 1e-12 "
    "in scaled units and <= 1e-11 in pixel units; centres are compared with atol 1e-10, extents with atol 1e-11, "
    "continuous pixel coordinates and round trips with atol 1e-9; index-valued outputs are compared exactly",
    "query points keep a distance >= 1e-9 pixel from every pixel boundary (the statement's tie band), radii within "
    "1e-9 (scaled units) of a threshold are not compared",
    "the continuous pixel coordinate is measured from the top-left corner of the frame (docstring of "
    "grid_pixels_2d_slim_from: 'decimal offset from each pixel's top-left corner'), so pixel (i,j) covers "
    "[i,i+1) x [j,j+1)",
    "ellipse angle: major axis `angle` degrees counter-clockwise from +x with y up (docstring of "
    "elliptical_radius_from); annulus radii are passed sorted (inner <= outer <= outer_2)",
    "the grid-valued conversions take a Grid2D container whose mask only supplies the output structure; a mask of "
    "the same geometry is used as container, as Mask2D's own callers do",
    "huge_frames: for |coordinate| up to ~1.5e5 and scales down to 0.05 a pixel fraction of 1e-9 is below float64 "
    "resolution, so query points keep max(1e-9, 64*eps*Q) pixel from every boundary (Q = coordinate magnitude in "
    "pixel units, |origin|/scale + H/2 + H), centres are compared with atol max(1e-10, 32*eps*M) (M = coordinate "
    "magnitude in scaled units), continuous pixel coordinates with atol max(1e-9, 64*eps*Q); index-valued outputs "
    "stay exact (int64 / integral float64 against Python ints)",
    "dtype classes: numpy keeps float32 scalars in float32 when they meet Python floats, so float32 inputs are only "
    "required to be right to float32 resolution (atol 8*eps32*magnitude, boundary margin 16*eps32*Q pixel; points "
    "closer than the margin are counted as ties); int64 / int32 / list-of-int inputs must be right to float64 "
    "resolution; the slim utilities index `.shape`, so a list is handed to them as np.asarray(list) while Grid2D "
    "and the scalar conversions receive the list itself",
    "exact-equality classes of the mask parameters are decided with == on the generated floats; a threshold that "
    "coincides with a pixel's radius is still skipped through the 1e-9 tie band (only that pixel, not the case)",
    "numba is absent, so the @jit kernels run as plain Python (same source, no compilation step)",
]

EDGE = 0.5 - 1e-9
BAND = 1e-9
ATOL_CENTRE = 1e-10
ATOL_EXTENT = 1e-11
ATOL_PIX = 1e-9


def _aa():
    import autoarray as aa
    return aa


# ---------------------------------------------------------------------------------------------
# comparison helpers: one key per entry point and per axis, so y-only / x-only faults get their own key
# ---------------------------------------------------------------------------------------------
def _axis_equal(ctx, got, want, key, what):
    g = np.asarray(got)
    w = np.asarray(want)
    if g.shape != w.shape:
        ctx.fail(key + "/shape", "%s: shape %s want %s" % (what, g.shape, w.shape))
        return
    ctx.equal(g[..., 0], w[..., 0], key + "/y", what + " [y component]")
    ctx.equal(g[..., 1], w[..., 1], key + "/x", what + " [x component]")


def _axis_close(ctx, got, want, key, atol, what):
    g = np.asarray(got)
    w = np.asarray(want)
    if g.shape != w.shape:
        ctx.fail(key + "/shape", "%s: shape %s want %s" % (what, g.shape, w.shape))
        return
    ctx.close(g[..., 0], w[..., 0], key + "/y", atol=atol, what=what + " [y component]")
    ctx.close(g[..., 1], w[..., 1], key + "/x", atol=atol, what=what + " [x component]")


# ---------------------------------------------------------------------------------------------
# input dtypes and library-produced inputs (shared by the 2D and huge-frame sub-checks)
# ---------------------------------------------------------------------------------------------
DTYPES = ["float64", "float32", "int64", "int32", "list-of-int"]
# draw order: Hypothesis favours the first element, so the integer class (library-produced centres) comes first
_DTYPES_DRAW = ["int64", "float32", "int32", "list-of-int", "float64"]
EPS64 = 2.0 ** -52
EPS32 = 2.0 ** -23


def _scalar(v, dt):
    """One coordinate handed to a scalar conversion in the given dtype class (whole numbers for the int classes)."""
    if dt == "float64":
        return float(v)
    if dt == "float32":
        return np.float32(v)
    if dt == "int64":
        return np.int64(int(v))
    if dt == "int32":
        return np.int32(int(v))
    return int(v)


def _pair(a, b, dt):
    return [_scalar(a, dt), _scalar(b, dt)] if dt == "list-of-int" else (_scalar(a, dt), _scalar(b, dt))


def _cast(a, dt):
    """(k,2) values in the dtype class: numpy array, or a nested list of Python ints."""
    a = np.asarray(a)
    if dt == "list-of-int":
        return [[int(v) for v in row] for row in a]
    return a.astype(dt)


def _close2(ctx, got, want, key, tol, what):
    g = np.asarray(got, dtype=float)
    w = np.asarray(want, dtype=float)
    if g.shape != w.shape:
        ctx.fail(key, "%s: shape %s want %s" % (what, g.shape, w.shape))
        return
    ctx.close(g[:, 0], w[:, 0], key, atol=float(tol[0]), what=what + " [y component]")
    ctx.close(g[:, 1], w[:, 1], key, atol=float(tol[1]), what=what + " [x component]")


def _dtype_checks(ctx, aa, geom, shape, scales, origin, IJ, P, CONT, dt, pre, tol_sc64, tol_px64, marg64):
    """Conversions fed with other dtypes than float64 and with the library's own return values.

    IJ (k,2) whole pixel indices, P (k,2) float64 points inside those pixels, CONT (k,2) their continuous pixel
    coordinates.  Pixel-unit inputs are whole numbers in the int classes; scaled-unit inputs are the points
    rounded to the dtype (float32) or to whole numbers (int classes) and re-located with exact rational
    arithmetic.  float32 inputs are only required to be right to float32 resolution (numpy keeps float32 scalars
    in float32 when they meet Python floats), all other classes to float64 resolution."""
    h, w = int(shape[0]), int(shape[1])
    sy, sx = float(scales[0]), float(scales[1])
    oy, ox = float(origin[0]), float(origin[1])
    k = len(IJ)
    ctx.label("dtype:" + dt)
    My, Mx = abs(oy) + h * sy / 2.0, abs(ox) + w * sx / 2.0
    Qy, Qx = My / sy + h, Mx / sx + w
    tol_sc64 = np.asarray(tol_sc64, dtype=float) * np.ones(2)
    tol_px64 = np.asarray(tol_px64, dtype=float) * np.ones(2)
    marg64 = np.asarray(marg64, dtype=float) * np.ones(2)
    if dt == "float32":
        tol_sc = np.maximum(tol_sc64, 8.0 * EPS32 * np.array([My, Mx]))
        tol_px = np.maximum(tol_px64, 8.0 * EPS32 * np.array([Qy, Qx]))
        marg = np.maximum(marg64, 16.0 * EPS32 * np.array([Qy, Qx]))
    else:
        tol_sc, tol_px, marg = tol_sc64, tol_px64, marg64
    fam = dt
    gu = aa.util.geometry
    kw = dict(shape_native=(h, w), pixel_scales=(sy, sx), origin=(oy, ox))
    mask1k = aa.Mask2D.all_false(shape_native=(1, k), pixel_scales=1.0)

    C = np.empty((k, 2))
    C[:, 0] = oy + ((h - 1) / 2.0 - IJ[:, 0]) * sy
    C[:, 1] = ox + (IJ[:, 1] - (w - 1) / 2.0) * sx
    CORNER = np.empty((k, 2))                              # top-left corner of pixel (i, j)
    CORNER[:, 0] = oy + (h / 2.0 - IJ[:, 0]) * sy
    CORNER[:, 1] = ox + (IJ[:, 1] - w / 2.0) * sx
    if np.any(CORNER != np.rint(CORNER)):
        ctx.label("dtype:true-values-non-integral")

    # (a) whole-number pixel coordinates in the dtype class -> scaled coordinates ------------------------------
    arr = _cast(IJ, dt)
    arr_np = np.asarray(arr)                               # the slim utilities index .shape, so they get an array
    got = gu.grid_scaled_2d_slim_from(grid_pixels_2d_slim=arr_np, **kw)
    _close2(ctx, got, CORNER, pre + "dtype/util.grid_scaled_2d_slim_from/" + fam, tol_sc,
            "grid_scaled_2d_slim_from(%s whole pixel coordinates) vs top-left corners" % dt)
    G = aa.Grid2D(values=arr, mask=mask1k)
    got = geom.grid_scaled_2d_from(grid_pixels_2d=G)
    _close2(ctx, np.asarray(got.slim), CORNER, pre + "dtype/grid_scaled_2d_from/" + fam, tol_sc,
            "Geometry2D.grid_scaled_2d_from(Grid2D of %s) vs top-left corners" % dt)
    nsc = min(k, 4)
    got = np.array([[float(v) for v in geom.scaled_coordinates_2d_from(_pair(IJ[r, 0], IJ[r, 1], dt))]
                    for r in range(nsc)])
    _close2(ctx, got, C[:nsc], pre + "dtype/scaled_coordinates_2d_from/" + fam, tol_sc,
            "scaled_coordinates_2d_from(%s pair) vs centres" % dt)

    # (b) library-produced inputs: centres (int64 Grid2D) -> scaled -> pixels, and row-wise centre -> index ------
    cont = aa.Grid2D(values=P.copy(), mask=mask1k)
    cen = geom.grid_pixel_centres_2d_from(grid_scaled_2d=cont)
    sc = geom.grid_scaled_2d_from(grid_pixels_2d=cen)
    _close2(ctx, np.asarray(sc.slim), CORNER, pre + "chain/centres-to-scaled", tol_sc64,
            "grid_scaled_2d_from(grid_pixel_centres_2d_from(p)) vs top-left corners")
    px = geom.grid_pixels_2d_from(grid_scaled_2d=sc)
    _close2(ctx, np.asarray(px.slim), IJ.astype(float), pre + "chain/centres-scaled-pixels", 2.0 * tol_px64,
            "grid_pixels_2d_from(grid_scaled_2d_from(centres)) vs (i, j)")
    ut = gu.grid_pixel_centres_2d_slim_from(grid_scaled_2d_slim=P.copy(), **kw)          # float array of whole numbers
    got = gu.grid_scaled_2d_slim_from(grid_pixels_2d_slim=np.asarray(ut).astype("int"), **kw)
    _close2(ctx, got, CORNER, pre + "chain/util-centres-to-scaled", tol_sc64,
            "grid_scaled_2d_slim_from(grid_pixel_centres_2d_slim_from(p).astype(int)) vs top-left corners")
    # (b2) memory layout of the supplied (k,2) coordinates: the same values as a Fortran-ordered array, a transposed
    # stack np.array([y, x]).T, a row-stepped view and a column-stepped view give identical answers
    if dt == "float64":
        big_r = np.zeros((2 * k, 2)); big_r[::2] = P
        big_c = np.zeros((k, 4)); big_c[:, ::2] = P
        lay = [("fortran", np.asfortranarray(P.copy())), ("stacked-T", np.array([P[:, 0].copy(), P[:, 1].copy()]).T),
               ("row-stepped", big_r[::2]), ("col-stepped", big_c[:, ::2])]
        fns = [("grid_pixel_centres_2d_slim_from", "grid_scaled_2d_slim"), ("grid_pixel_indexes_2d_slim_from", "grid_scaled_2d_slim"),
               ("grid_pixels_2d_slim_from", "grid_scaled_2d_slim"), ("grid_scaled_2d_slim_from", "grid_pixels_2d_slim")]
        base = {fn: np.asarray(getattr(gu, fn)(**{arg: P.copy()}, **kw)) for fn, arg in fns}
        gbase = {m_: np.asarray(getattr(geom, m_)(**{arg: aa.Grid2D(values=P.copy(), mask=mask1k)}).slim)
                 for m_, arg in (("grid_pixel_centres_2d_from", "grid_scaled_2d"), ("grid_pixel_indexes_2d_from", "grid_scaled_2d"),
                                 ("grid_pixels_2d_from", "grid_scaled_2d"), ("grid_scaled_2d_from", "grid_pixels_2d"))}
        for lname, PL in lay:
            assert np.array_equal(PL, P)
            for fn, arg in fns:
                ctx.equal(np.asarray(getattr(gu, fn)(**{arg: PL}, **kw)), base[fn], pre + "layout/util." + fn,
                          "%s of a %s (k,2) array vs the C-ordered array of the same values" % (fn, lname))
            for m_, arg in (("grid_pixel_centres_2d_from", "grid_scaled_2d"), ("grid_pixel_indexes_2d_from", "grid_scaled_2d"),
                            ("grid_pixels_2d_from", "grid_scaled_2d"), ("grid_scaled_2d_from", "grid_pixels_2d")):
                for cname, G_ in (("Grid2D", aa.Grid2D(values=PL, mask=mask1k)),):
                    got_ = getattr(geom, m_)(**{arg: G_})
                    got_ = np.asarray(got_.slim) if hasattr(got_, "slim") else np.asarray(got_)
                    ctx.equal(got_.reshape(gbase[m_].shape), gbase[m_], pre + "layout/" + m_,
                              "Geometry2D.%s(%s of a %s array) vs the C-ordered input" % (m_, cname, lname))
            ctx.equal(np.asarray(PL), P, pre + "layout/input-changed", lname)
    rows = np.asarray(cen.slim)
    back = []
    for r in range(nsc):
        yx = geom.scaled_coordinates_2d_from((rows[r, 0], rows[r, 1]))          # numpy integer scalars
        back.append(geom.pixel_coordinates_2d_from((yx[0], yx[1])))
    ctx.equal(np.array(back), IJ[:nsc], pre + "chain/centres-scaled-centres",
              "pixel_coordinates_2d_from(scaled_coordinates_2d_from(row of grid_pixel_centres_2d_from))")

    if dt == "float64":
        return

    # (c) scaled coordinates in the dtype class -> pixels / indices ---------------------------------------------
    if dt == "float32":
        S = P.astype(np.float32)
        V = S.astype(np.float64)
    else:
        V = np.rint(P)
        S = _cast(V, dt)
    S_np = np.asarray(S)
    Q = [ref.locate_exact(V[r, 0], V[r, 1], (h, w), (sy, sx), (oy, ox)) for r in range(k)]
    QF = np.array([[float(q[0]), float(q[1])] for q in Q])
    LOC = np.array([[math.floor(q[0]), math.floor(q[1])] for q in Q], dtype=np.int64)
    inside = np.array([0 <= q[0] < h and 0 <= q[1] < w for q in Q])
    dist = np.array([[min(float(q[0] - math.floor(q[0])), float(math.floor(q[0]) + 1 - q[0])),
                      min(float(q[1] - math.floor(q[1])), float(math.floor(q[1]) + 1 - q[1]))] for q in Q])
    ok = inside & (dist[:, 0] > marg[0]) & (dist[:, 1] > marg[1])
    ctx.tie(int((inside & ~ok).sum()))
    got = gu.grid_pixels_2d_slim_from(grid_scaled_2d_slim=S_np, **kw)
    _close2(ctx, got, QF, pre + "dtype/util.grid_pixels_2d_slim_from/" + fam, tol_px,
            "grid_pixels_2d_slim_from(%s scaled coordinates) vs exact continuous coordinate" % dt)
    GS = aa.Grid2D(values=S, mask=mask1k)
    got = geom.grid_pixels_2d_from(grid_scaled_2d=GS)
    _close2(ctx, np.asarray(got.slim), QF, pre + "dtype/grid_pixels_2d_from/" + fam, tol_px,
            "Geometry2D.grid_pixels_2d_from(Grid2D of %s) vs exact continuous coordinate" % dt)
    if ok.any():
        ctx.label("dtype:scaled-input-located")
        sel = np.nonzero(ok)[0]
        want_flat = [int(LOC[r, 0]) * w + int(LOC[r, 1]) for r in sel]
        got = gu.grid_pixel_centres_2d_slim_from(grid_scaled_2d_slim=S_np, **kw)
        ctx.equal(np.asarray(got)[sel], LOC[sel], pre + "dtype/util.grid_pixel_centres_2d_slim_from/" + fam,
                  "grid_pixel_centres_2d_slim_from(%s scaled coordinates)" % dt)
        got = gu.grid_pixel_indexes_2d_slim_from(grid_scaled_2d_slim=S_np, **kw)
        ctx.check([int(v) for v in np.asarray(got)[sel]] == want_flat,
                  pre + "dtype/util.grid_pixel_indexes_2d_slim_from/" + fam,
                  "grid_pixel_indexes_2d_slim_from(%s scaled coordinates) vs i*W+j" % dt)
        got = geom.grid_pixel_centres_2d_from(grid_scaled_2d=GS)
        ctx.equal(np.asarray(got.slim)[sel], LOC[sel], pre + "dtype/grid_pixel_centres_2d_from/" + fam,
                  "Geometry2D.grid_pixel_centres_2d_from(Grid2D of %s)" % dt)
        got = geom.grid_pixel_indexes_2d_from(grid_scaled_2d=GS)
        ctx.check([int(v) for v in np.asarray(got.slim)[sel]] == want_flat,
                  pre + "dtype/grid_pixel_indexes_2d_from/" + fam,
                  "Geometry2D.grid_pixel_indexes_2d_from(Grid2D of %s) vs i*W+j" % dt)
        for r in sel[:4]:
            got = geom.pixel_coordinates_2d_from(_pair(V[r, 0], V[r, 1], dt))
            ctx.equal(np.array([int(got[0]), int(got[1])]), LOC[r], pre + "dtype/pixel_coordinates_2d_from/" + fam,
                      "pixel_coordinates_2d_from(%s pair)" % dt)

    # (d) float32 continuous (non-whole) pixel coordinates -> scaled --------------------------------------------
    if dt == "float32":
        C32 = CONT.astype(np.float32)
        want = np.array([ref.corner_from_pixel_exact(float(C32[r, 0]), float(C32[r, 1]), (h, w), (sy, sx), (oy, ox))
                         for r in range(k)])
        got = gu.grid_scaled_2d_slim_from(grid_pixels_2d_slim=C32, **kw)
        _close2(ctx, got, want, pre + "dtype/util.grid_scaled_2d_slim_from/float32-fractional", tol_sc,
                "grid_scaled_2d_slim_from(float32 continuous pixel coordinates)")
        got = geom.grid_scaled_2d_from(grid_pixels_2d=aa.Grid2D(values=C32, mask=mask1k))
        _close2(ctx, np.asarray(got.slim), want, pre + "dtype/grid_scaled_2d_from/float32-fractional", tol_sc,
                "Geometry2D.grid_scaled_2d_from(Grid2D of float32 continuous pixel coordinates)")


# ---------------------------------------------------------------------------------------------
# 2D geometry
# ---------------------------------------------------------------------------------------------
def _check_geometry(shape, scales, origin, mask_l, fracs, shift, ctx, scalar=False, dtype="float64"):
    aa = _aa()
    h, w = int(shape[0]), int(shape[1])
    sy, sx = float(scales[0]), float(scales[1])
    oy, ox = float(origin[0]), float(origin[1])
    n = h * w
    m = np.asarray(mask_l, dtype=bool).reshape(h, w)
    un = ~m

    # classification
    ctx.label("shape:nonsquare" if h != w else "shape:square")
    if h == 1 or w == 1:
        ctx.label("shape:1xN")
    ctx.label("parity:%s-%s" % ("even" if h % 2 == 0 else "odd", "even" if w % 2 == 0 else "odd"))
    ctx.label("scales:aniso" if sy != sx else "scales:iso")
    # isotropic scales may be handed over as one float (documented alternative to the (y,x) pair)
    ps = sy if (scalar and sy == sx) else (sy, sx)
    if not isinstance(ps, tuple):
        ctx.label("scales:passed-as-float")
    ctx.label("origin:zero" if (oy == 0.0 and ox == 0.0) else ("origin:unequal" if oy != ox else "origin:equal"))
    if m.any() and un.any():
        ctx.label("container:mixed-mask")
    any_frac = any(f[0] != 0.0 or f[1] != 0.0 for f in fracs)
    if any(abs(f[0]) >= 0.499 or abs(f[1]) >= 0.499 for f in fracs):
        ctx.label("frac:near-boundary")
    ctx.nt(h != w and oy != ox and any_frac)

    # closed forms
    C = ref.centres_2d((h, w), (sy, sx), (oy, ox))          # (H, W, 2)
    Cs = C.reshape(n, 2)
    ii, jj = np.divmod(np.arange(n), w)                      # row-major pixel (i, j)
    IJ = np.stack([ii, jj], axis=1)

    mask = aa.Mask2D(mask=m.copy(), pixel_scales=ps, origin=(oy, ox))
    geom = mask.geometry

    # -- extent = union of the pixel squares -------------------------------------------------
    ext = geom.extent
    want_ext = ref.extent_2d((h, w), (sy, sx), (oy, ox))
    ctx.check(len(ext) == 4, "extent/shape", "extent has %d entries" % len(ext))
    ctx.close(np.asarray(ext[:2], dtype=float), np.asarray(want_ext[:2]), "extent/x", atol=ATOL_EXTENT,
              what="geometry.extent (x_min, x_max)")
    ctx.close(np.asarray(ext[2:], dtype=float), np.asarray(want_ext[2:]), "extent/y", atol=ATOL_EXTENT,
              what="geometry.extent (y_min, y_max)")

    # -- pixel centres -----------------------------------------------------------------------
    uni = aa.Grid2D.uniform(shape_native=(h, w), pixel_scales=ps, origin=(oy, ox))
    _axis_close(ctx, np.asarray(uni.slim), Cs, "centres/Grid2D.uniform", ATOL_CENTRE, "Grid2D.uniform slim")
    allf = mask.derive_grid.all_false
    _axis_close(ctx, np.asarray(allf.slim), Cs, "centres/derive_grid.all_false", ATOL_CENTRE,
                "derive_grid.all_false slim")
    fm = aa.Grid2D.from_mask(mask=mask)
    _axis_close(ctx, np.asarray(fm.slim), C[un], "centres/Grid2D.from_mask", ATOL_CENTRE, "Grid2D.from_mask slim")
    got_sc = np.array([geom.scaled_coordinates_2d_from((int(i), int(j))) for i, j in IJ], dtype=float)
    _axis_close(ctx, got_sc, Cs, "centres/scaled_coordinates_2d_from", ATOL_CENTRE,
                "geometry.scaled_coordinates_2d_from((i,j))")

    # -- centre -> index -> centre -----------------------------------------------------------
    got_pc = np.array([geom.pixel_coordinates_2d_from((float(c[0]), float(c[1]))) for c in Cs])
    _axis_equal(ctx, got_pc, IJ, "roundtrip/centre-to-index", "pixel_coordinates_2d_from(centre(i,j))")
    back = np.array([geom.scaled_coordinates_2d_from((int(p[0]), int(p[1]))) for p in got_pc], dtype=float)
    _axis_close(ctx, back, Cs, "roundtrip/centre-index-centre", ATOL_CENTRE, "centre -> index -> centre")
    idx_c = geom.grid_pixel_indexes_2d_from(grid_scaled_2d=uni)
    ctx.equal(np.asarray(idx_c.slim), np.arange(n), "roundtrip/centre-to-flat-index",
              "grid_pixel_indexes_2d_from(Grid2D.uniform) vs arange(H*W)")
    cen_c = geom.grid_pixel_centres_2d_from(grid_scaled_2d=fm)
    _axis_equal(ctx, np.asarray(cen_c.slim), np.argwhere(un), "roundtrip/centre-to-index-grid",
                "grid_pixel_centres_2d_from(Grid2D.from_mask) vs argwhere(~mask)")

    # -- query points: pixel centre + fraction of the pixel ----------------------------------
    F = np.array([fracs[p % len(fracs)] for p in range(n)], dtype=float)       # (n, 2): (down, right)
    P = np.empty((n, 2))
    P[:, 0] = Cs[:, 0] - F[:, 0] * sy        # positive fraction = towards larger row index (down)
    P[:, 1] = Cs[:, 1] + F[:, 1] * sx
    want_cont = IJ + 0.5 + F                  # continuous pixel coordinate from the top-left corner

    got_t = np.array([geom.pixel_coordinates_2d_from((float(p[0]), float(p[1]))) for p in P])
    _axis_equal(ctx, got_t, IJ, "index/pixel_coordinates_2d_from", "pixel_coordinates_2d_from(point in pixel (i,j))")

    # a few points through the centre-of-containing-pixel helper (at most 12 per case)
    step = max(1, n // 12)
    sel = np.arange(0, n, step)
    got_ctr = np.array([geom.scaled_coordinate_2d_to_scaled_at_pixel_centre_from((float(P[k, 0]), float(P[k, 1])))
                        for k in sel], dtype=float)
    _axis_close(ctx, got_ctr, Cs[sel], "index/scaled_at_pixel_centre", ATOL_CENTRE,
                "scaled_coordinate_2d_to_scaled_at_pixel_centre_from(point)")

    # containers: (a) the generated mask, slot k queries pixel (k+shift) mod n; (b) the unmasked frame
    nun = int(un.sum())
    tgt = (np.arange(nun) + int(shift)) % n
    cont_m = aa.Grid2D(values=P[tgt].copy(), mask=mask)
    mask_all = aa.Mask2D.all_false(shape_native=(h, w), pixel_scales=ps, origin=(oy, ox))
    cont_a = aa.Grid2D(values=P.copy(), mask=mask_all)
    for tag, cont, t in (("masked-container", cont_m, tgt), ("full-container", cont_a, np.arange(n))):
        g = cont.mask.geometry
        cen = g.grid_pixel_centres_2d_from(grid_scaled_2d=cont)
        _axis_equal(ctx, np.asarray(cen.slim), IJ[t], "index/grid_pixel_centres_2d_from",
                    "grid_pixel_centres_2d_from (%s)" % tag)
        idx = g.grid_pixel_indexes_2d_from(grid_scaled_2d=cont)
        ctx.equal(np.asarray(idx.slim), (IJ[t][:, 0] * w + IJ[t][:, 1]), "index/grid_pixel_indexes_2d_from",
                  "grid_pixel_indexes_2d_from vs i*W+j (%s)" % tag)
        pix = g.grid_pixels_2d_from(grid_scaled_2d=cont)
        _axis_close(ctx, np.asarray(pix.slim), want_cont[t], "continuous/grid_pixels_2d_from", ATOL_PIX,
                    "grid_pixels_2d_from vs (i+0.5+fy, j+0.5+fx) (%s)" % tag)
        rt = g.grid_scaled_2d_from(grid_pixels_2d=pix)
        _axis_close(ctx, np.asarray(rt.slim), P[t], "continuous/roundtrip-scaled-pixels-scaled", ATOL_PIX,
                    "grid_scaled_2d_from(grid_pixels_2d_from(p)) (%s)" % tag)
        pin = aa.Grid2D(values=want_cont[t].copy(), mask=cont.mask)
        sc = g.grid_scaled_2d_from(grid_pixels_2d=pin)
        _axis_close(ctx, np.asarray(sc.slim), P[t], "continuous/grid_scaled_2d_from", ATOL_PIX,
                    "grid_scaled_2d_from((i+0.5+fy, j+0.5+fx)) vs point (%s)" % tag)
        rt2 = g.grid_pixels_2d_from(grid_scaled_2d=sc)
        _axis_close(ctx, np.asarray(rt2.slim), want_cont[t], "continuous/roundtrip-pixels-scaled-pixels", ATOL_PIX,
                    "grid_pixels_2d_from(grid_scaled_2d_from(q)) (%s)" % tag)

    # native-layout utility (same anchor file): (H, W, 2) points -> (H, W, 2) pixel indices
    nat = aa.util.geometry.grid_pixel_centres_2d_from(
        grid_scaled_2d=P.reshape(h, w, 2).copy(), shape_native=(h, w), pixel_scales=(sy, sx), origin=(oy, ox))
    _axis_equal(ctx, np.asarray(nat), IJ.reshape(h, w, 2), "index/util.grid_pixel_centres_2d_from",
                "util.geometry.grid_pixel_centres_2d_from (native)")

    # input dtype classes and library-produced inputs on (at most) 12 of the pixels
    _dtype_checks(ctx, aa, geom, (h, w), (sy, sx), (oy, ox), IJ[sel].astype(np.int64), P[sel], want_cont[sel], dtype, "",
                  ATOL_CENTRE, ATOL_PIX, BAND)


_SCALE = st.one_of(st.sampled_from([0.05, 0.1, 0.25, 0.5, 1.0, 2.0, 5.0]), st.floats(0.05, 5.0, allow_nan=False))


@st.composite
def _scales(draw):
    """(s_y, s_x) in [0.05, 5]: anisotropic three times out of four (by construction, not rejection)."""
    s = float(draw(_SCALE))
    if draw(st.integers(0, 3)) == 0:
        return [s, s]
    t = float(draw(_SCALE))
    if t == s:
        t = s * 2.0 if s <= 2.5 else s / 2.0
    return [s, t]


@st.composite
def _origins(draw):
    """(o_y, o_x) in [-100, 100]^2: zero 1/8, equal components 1/8, unequal components 3/4."""
    k = draw(st.integers(0, 7))
    if k == 0:
        return [0.0, 0.0]
    a = float(draw(st.one_of(gens.reals(-2, 2), st.floats(-100.0, 100.0, allow_nan=False))))
    if k == 1:
        return [a, a]
    b = float(draw(st.one_of(gens.reals(-2, 2), st.floats(-100.0, 100.0, allow_nan=False))))
    if b == a:
        b = a - 1.5 if a > 0 else a + 1.5
    return [a, b]


@st.composite
def _shapes(draw, lo=1, hi=12):
    """Independent H, W; frames with a unit axis (1xN / Nx1, which cannot show axis mix-ups but exercise the
    degenerate central pixel) are an explicit choice made about one time in six."""
    h, w = draw(gens.shapes(lo, hi))
    k = draw(st.integers(0, 11))
    if k == 0:
        h = 1
    elif k == 1:
        w = 1
    else:
        h, w = max(h, 2), max(w, 2)
    return [h, w]


_FRAC = st.one_of(
    st.sampled_from([0.0, EDGE, -EDGE, 0.25, -0.25, 0.499, -0.499, 0.125, -0.375]),
    st.floats(-EDGE, EDGE, allow_nan=False),
)


@st.composite
def geometry2d(draw):
    shape = draw(_shapes(1, 12))
    scales = draw(_scales())
    origin = draw(_origins())
    mask = draw(gens.masks(shape=shape))
    fracs = draw(st.lists(st.lists(_FRAC, min_size=2, max_size=2), min_size=2, max_size=5))
    if all(f[0] == 0.0 and f[1] == 0.0 for f in fracs):
        fracs[0] = [EDGE, -0.25]
    shift = draw(st.integers(0, shape[0] * shape[1] - 1))
    scalar = draw(st.booleans()) if scales[0] == scales[1] else False
    return {"shape": shape, "scales": scales, "origin": origin, "mask": mask, "fracs": fracs, "shift": shift,
            "scalar_scale": scalar, "dtype": draw(st.sampled_from(_DTYPES_DRAW))}


def body_geometry2d(case, ctx):
    _check_geometry(case["shape"], case["scales"], case["origin"], case["mask"], case["fracs"], case["shift"], ctx,
                    scalar=bool(case.get("scalar_scale", False)), dtype=str(case.get("dtype", "float64")))


_PRESETS = [
    {"scales": [1.0, 1.0], "origin": [0.0, 0.0]},
    {"scales": [0.5, 2.0], "origin": [1.5, -3.25]},
    {"scales": [0.07, 0.3], "origin": [-41.3, 77.7]},
]
_PRESETS_THOROUGH = _PRESETS + [
    {"scales": [5.0, 0.05], "origin": [100.0, -100.0]},
    {"scales": [0.05, 0.05], "origin": [-99.99, -0.013]},
]
_ENUM_FRACS = [[EDGE, -EDGE], [-EDGE, EDGE], [0.0, 0.0], [-0.3, 0.499], [0.125, -0.0625]]


def cases_enum_shapes(tier):
    lim = 12 if tier == "quick" else 16
    presets = _PRESETS if tier == "quick" else _PRESETS_THOROUGH
    for h in range(1, lim + 1):
        for w in range(1, lim + 1):
            for k in range(len(presets)):
                yield {"shape": [h, w], "preset": k}


def body_enum_shapes(case, ctx):
    h, w = case["shape"]
    p = _PRESETS_THOROUGH[case["preset"]]
    # container mask: checkerboard with the first pixel unmasked (mixed whenever H*W > 1)
    mask = [[bool((i + j) % 2) for j in range(w)] for i in range(h)]
    _check_geometry([h, w], p["scales"], p["origin"], mask, _ENUM_FRACS, (h * w) // 2, ctx,
                    dtype=DTYPES[(h + 2 * w + case["preset"]) % len(DTYPES)])


# ---------------------------------------------------------------------------------------------
# 1D geometry
# ---------------------------------------------------------------------------------------------
@st.composite
def geometry1d(draw):
    n = draw(st.integers(1, 14))
    s = draw(gens.positives(0.05, 5.0))
    o = draw(st.one_of(st.just(0.0), gens.reals(-2, 2), st.floats(-100.0, 100.0)))
    bits = draw(st.lists(st.booleans(), min_size=n, max_size=n))
    if all(bits):
        bits[draw(st.integers(0, n - 1))] = False
    fr = draw(st.lists(_FRAC, min_size=1, max_size=4))
    return {"n": n, "scale": s, "origin": o, "mask": bits, "fracs": fr, "dtype": draw(st.sampled_from(_DTYPES_DRAW))}


def body_geometry1d(case, ctx):
    aa = _aa()
    n, s, o = int(case["n"]), float(case["scale"]), float(case["origin"])
    m = np.asarray(case["mask"], dtype=bool)
    un = ~m
    fr = case["fracs"]
    ctx.label("1d:len-%s" % ("even" if n % 2 == 0 else "odd"))
    ctx.label("1d:origin-zero" if o == 0.0 else "1d:origin-nonzero")
    if m.any():
        ctx.label("1d:mixed-mask")
    ctx.nt(bool(m.any()) or o != 0.0)

    X = ref.centres_1d(n, s, o)
    mask = aa.Mask1D(mask=m.copy(), pixel_scales=(s,), origin=(o,))
    ext = mask.geometry.extent
    ctx.check(len(ext) == 2, "extent1d/shape", "extent has %d entries" % len(ext))
    ctx.close(np.asarray(ext, dtype=float), np.asarray(ref.extent_1d(n, s, o)), "extent1d", atol=ATOL_EXTENT,
              what="Mask1D.geometry.extent")
    g = aa.Grid1D.from_mask(mask=mask)
    ctx.close(np.asarray(g.slim), X[un], "centres1d/Grid1D.from_mask", atol=ATOL_CENTRE, what="Grid1D.from_mask slim")
    u = aa.Grid1D.uniform(shape_native=(n,), pixel_scales=(s,), origin=(o,))
    ctx.close(np.asarray(u.slim), X, "centres1d/Grid1D.uniform", atol=ATOL_CENTRE, what="Grid1D.uniform slim")

    gu = aa.util.geometry
    got_c = np.array([gu.scaled_coordinates_1d_from(pixel_coordinates_1d=(k,), shape_slim=(n,), pixel_scales=(s,),
                                                    origins=(o,))[0] for k in range(n)], dtype=float)
    ctx.close(got_c, X, "centres1d/util.scaled_coordinates_1d_from", atol=ATOL_CENTRE,
              what="scaled_coordinates_1d_from((k,))")
    F = np.array([fr[k % len(fr)] for k in range(n)], dtype=float)
    P = X + F * s
    got_i = np.array([gu.pixel_coordinates_1d_from(scaled_coordinates_1d=(float(p),), shape_slim=(n,),
                                                   pixel_scales=(s,), origins=(o,))[0] for p in P])
    ctx.equal(got_i, np.arange(n), "index1d/util.pixel_coordinates_1d_from", "pixel_coordinates_1d_from(point in pixel k)")

    # input dtype classes (whole-number pixel coordinate; scaled coordinate rounded to the dtype and re-located
    # exactly) and the chain index -> scaled -> index through the library's own return values
    dt = str(case.get("dtype", "float64"))
    ctx.label("dtype:" + dt)
    M = abs(o) + n * s / 2.0
    Qm = M / s + n
    tol_c = ATOL_CENTRE if dt != "float32" else max(ATOL_CENTRE, 8.0 * EPS32 * M)
    marg = BAND if dt != "float32" else max(BAND, 16.0 * EPS32 * Qm)
    one = (lambda v: [_scalar(v, dt)]) if dt == "list-of-int" else (lambda v: (_scalar(v, dt),))
    got_c = np.array([float(gu.scaled_coordinates_1d_from(pixel_coordinates_1d=one(k), shape_slim=(n,),
                                                          pixel_scales=(s,), origins=(o,))[0]) for k in range(n)])
    ctx.close(got_c, X, "dtype1d/util.scaled_coordinates_1d_from/" + dt, atol=tol_c,
              what="scaled_coordinates_1d_from(%s whole pixel coordinate)" % dt)
    if np.any(X != np.rint(X)):
        ctx.label("dtype:true-values-non-integral")
    chain = []
    for k in range(n):
        kk = gu.pixel_coordinates_1d_from(scaled_coordinates_1d=(float(P[k]),), shape_slim=(n,), pixel_scales=(s,),
                                          origins=(o,))
        xx = gu.scaled_coordinates_1d_from(pixel_coordinates_1d=kk, shape_slim=(n,), pixel_scales=(s,), origins=(o,))
        chain.append(gu.pixel_coordinates_1d_from(scaled_coordinates_1d=xx, shape_slim=(n,), pixel_scales=(s,),
                                                  origins=(o,))[0])
    ctx.equal(np.array(chain), np.arange(n), "chain1d/index-scaled-index",
              "pixel_coordinates_1d_from(scaled_coordinates_1d_from(pixel_coordinates_1d_from(p)))")
    if dt != "float64":
        V = P.astype(np.float32).astype(np.float64) if dt == "float32" else np.rint(P)
        for k in range(n):
            q = ref.locate_exact(0.0, V[k], (1, n), (1.0, s), (0.0, o))[1]
            fl = math.floor(q)
            if not (0 <= q < n):
                continue
            if min(float(q - fl), float(fl + 1 - q)) <= marg:
                ctx.tie(1)
                continue
            ctx.label("dtype:scaled-input-located")
            got = gu.pixel_coordinates_1d_from(scaled_coordinates_1d=one(V[k]), shape_slim=(n,), pixel_scales=(s,),
                                               origins=(o,))[0]
            ctx.check(int(got) == fl, "dtype1d/util.pixel_coordinates_1d_from/" + dt,
                      "pixel_coordinates_1d_from(%s %r): got %r want %d" % (dt, V[k], got, fl))


# ---------------------------------------------------------------------------------------------
# size regime: frames with more than 2**24 / 2**31 pixels through the point-based conversions
# (cost O(number of points); no H x W array is ever allocated)
# ---------------------------------------------------------------------------------------------
EPS = 2.0 ** -52
SIDE_MAX = 60000
P24 = 2 ** 24
P31 = 2 ** 31
_UNIT = st.one_of(st.sampled_from([0.0, 1.0, -1.0, 0.5, -0.5, 0.999, -0.999]), st.floats(-1.0, 1.0, allow_nan=False))
_TARGETS = ["first", "last", "last-row-first-col", "first-row-last-col", "near-2^24", "odd-above-2^24", "near-2^31",
            "above-2^31", "random"]


@st.composite
def _log_int(draw, lo, hi):
    """Integer in [lo, hi], log-uniform (so every order of magnitude is equally likely)."""
    lo, hi = int(lo), int(hi)
    if lo >= hi:
        return lo
    u = draw(st.floats(math.log(lo), math.log(hi + 1), allow_nan=False))
    return max(lo, min(hi, int(math.exp(u))))


@st.composite
def huge_cases(draw):
    cls = draw(st.sampled_from(["below-2^24", "2^24..2^31", "2^24..2^31", "above-2^31", "above-2^31"]))
    if cls == "below-2^24":
        a = draw(_log_int(1, 4000))
        b = draw(_log_int(1, 4000))
    elif cls == "2^24..2^31":
        a = draw(_log_int(300, SIDE_MAX))
        b = draw(_log_int((P24 + 2) // a + 1, min(SIDE_MAX, (P31 - 1) // a)))
    else:
        a = draw(_log_int(P31 // SIDE_MAX + 2, SIDE_MAX))
        b = draw(_log_int(P31 // a + 2, SIDE_MAX))
    h, w = (a, b) if draw(st.booleans()) else (b, a)
    n = h * w
    scales = draw(_scales())
    origin = draw(_origins())
    pts = []
    for _ in range(draw(st.integers(3, 7))):
        tag = draw(st.sampled_from(_TARGETS))
        if tag == "first":
            t = 0
        elif tag == "last":
            t = max(0, n - 1 - draw(st.integers(0, 1)))
        elif tag == "last-row-first-col":
            t = (h - 1) * w
        elif tag == "first-row-last-col":
            t = w - 1
        elif tag == "near-2^24" and n > P24 + 4:
            t = P24 + draw(st.integers(-2, 3))
        elif tag == "odd-above-2^24" and n > P24 + 4:
            t = draw(st.integers(P24 // 2, (n - 2) // 2)) * 2 + 1      # float32 holds no odd integer above 2**24
        elif tag == "near-2^31" and n > P31 + 4:
            t = P31 + draw(st.integers(-2, 3))
        elif tag == "above-2^31" and n > P31 + 4:
            t = draw(st.integers(P31, n - 1))
        else:
            tag = "random"
            t = draw(st.integers(0, n - 1))
        i, j = divmod(t, w)
        pts.append({"i": i, "j": j, "uy": float(draw(_UNIT)), "ux": float(draw(_UNIT)), "tag": tag})
    return {"shape": [h, w], "scales": scales, "origin": origin, "points": pts,
            "dtype": draw(st.sampled_from(_DTYPES_DRAW))}


def _ints(a):
    return [int(v) for v in np.asarray(a).ravel()]


def body_huge(case, ctx):
    aa = _aa()
    h, w = int(case["shape"][0]), int(case["shape"][1])
    sy, sx = float(case["scales"][0]), float(case["scales"][1])
    oy, ox = float(case["origin"][0]), float(case["origin"][1])
    n = h * w                                                       # exact (Python int)
    pts = case["points"]
    k = len(pts)

    ctx.label("size:" + ("above-2^31" if n > P31 else ("2^24..2^31" if n > P24 else "below-2^24")))
    ctx.label("shape:nonsquare" if h != w else "shape:square")
    ctx.label("scales:aniso" if sy != sx else "scales:iso")
    for p in pts:
        ctx.label("target:" + p["tag"])
        t = p["i"] * w + p["j"]
        if t > P31:
            ctx.label("target:flat-index>2^31")
        elif t > P24:
            ctx.label("target:flat-index>2^24")
    ctx.nt(n > P24 and h != w)

    # magnitudes: scaled units (My, Mx) and pixel units (Qy, Qx); every float tolerance is a multiple of the
    # float64 resolution at that magnitude, and query points keep a margin of max(1e-9, 64 ulp) pixel from the
    # pixel boundaries (a coordinate at 1e5 cannot be placed to 1e-9 pixel at scale 0.05)
    My, Mx = abs(oy) + h * sy / 2.0, abs(ox) + w * sx / 2.0
    Qy, Qx = My / sy + h, Mx / sx + w
    marg = np.array([max(1e-9, 64.0 * EPS * Qy), max(1e-9, 64.0 * EPS * Qx)])
    tol_sc = np.array([max(1e-10, 32.0 * EPS * My), max(1e-10, 32.0 * EPS * Mx)])
    tol_px = np.array([max(1e-9, 64.0 * EPS * Qy), max(1e-9, 64.0 * EPS * Qx)])
    if marg.max() > 1e-9:
        ctx.label("margin:ulp-limited")
    assert marg.max() < 1e-3

    IJ = np.array([[p["i"], p["j"]] for p in pts], dtype=np.int64)
    assert (IJ >= 0).all() and (IJ[:, 0] < h).all() and (IJ[:, 1] < w).all()
    FLAT = [int(p["i"]) * w + int(p["j"]) for p in pts]           # exact integer arithmetic
    U = np.array([[p["uy"], p["ux"]] for p in pts], dtype=float)
    F = U * (0.5 - marg)                                            # fraction of the pixel (down, right)
    C = np.empty((k, 2))
    C[:, 0] = oy + ((h - 1) / 2.0 - IJ[:, 0]) * sy
    C[:, 1] = ox + (IJ[:, 1] - (w - 1) / 2.0) * sx
    P = np.empty((k, 2))
    P[:, 0] = C[:, 0] - F[:, 0] * sy
    P[:, 1] = C[:, 1] + F[:, 1] * sx
    CONT = IJ + 0.5 + F

    def axis_close(got, want, key, tol, what):
        g = np.asarray(got, dtype=float)
        if g.shape != want.shape:
            ctx.fail(key + "/shape", "%s: shape %s want %s" % (what, g.shape, want.shape))
            return
        ctx.close(g[:, 0], want[:, 0], key + "/y", atol=float(tol[0]), what=what + " [y component]")
        ctx.close(g[:, 1], want[:, 1], key + "/x", atol=float(tol[1]), what=what + " [x component]")

    def flat_equal(got, key, what):
        g = np.asarray(got).ravel()
        ok = len(g) == k and all(float(v) == int(v) for v in g) and _ints(g) == FLAT
        ctx.check(ok, key, "%s: got %s want %s" % (what, _ints(g) if len(g) <= 8 else "...", FLAT))

    geom = aa.Geometry2D(shape_native=(h, w), pixel_scales=(sy, sx), origin=(oy, ox))
    gu = aa.util.geometry
    kw = dict(shape_native=(h, w), pixel_scales=(sy, sx), origin=(oy, ox))

    # extent
    ext = np.asarray(geom.extent, dtype=float)
    want_ext = np.array([ox - w * sx / 2.0, ox + w * sx / 2.0, oy - h * sy / 2.0, oy + h * sy / 2.0])
    ctx.close(ext[:2], want_ext[:2], "huge/extent/x", atol=float(tol_sc[1]), what="Geometry2D.extent x")
    ctx.close(ext[2:], want_ext[2:], "huge/extent/y", atol=float(tol_sc[0]), what="Geometry2D.extent y")

    # scalar conversions
    got = np.array([geom.pixel_coordinates_2d_from((float(p[0]), float(p[1]))) for p in P])
    _axis_equal(ctx, got, IJ, "huge/index/pixel_coordinates_2d_from", "pixel_coordinates_2d_from(point)")
    got = np.array([geom.pixel_coordinates_2d_from((float(c[0]), float(c[1]))) for c in C])
    _axis_equal(ctx, got, IJ, "huge/roundtrip/centre-to-index", "pixel_coordinates_2d_from(centre)")
    got = np.array([geom.scaled_coordinates_2d_from((int(a), int(b))) for a, b in IJ], dtype=float)
    axis_close(got, C, "huge/centres/scaled_coordinates_2d_from", tol_sc, "scaled_coordinates_2d_from((i,j))")

    # slim utilities on a (k, 2) array
    got = gu.grid_pixel_centres_2d_slim_from(grid_scaled_2d_slim=P.copy(), **kw)
    _axis_equal(ctx, got, IJ, "huge/index/util.grid_pixel_centres_2d_slim_from", "grid_pixel_centres_2d_slim_from")
    flat_equal(gu.grid_pixel_indexes_2d_slim_from(grid_scaled_2d_slim=P.copy(), **kw),
               "huge/index/util.grid_pixel_indexes_2d_slim_from", "grid_pixel_indexes_2d_slim_from vs i*W+j")
    got_px = gu.grid_pixels_2d_slim_from(grid_scaled_2d_slim=P.copy(), **kw)
    axis_close(got_px, CONT, "huge/continuous/util.grid_pixels_2d_slim_from", tol_px, "grid_pixels_2d_slim_from")
    got = gu.grid_scaled_2d_slim_from(grid_pixels_2d_slim=CONT.copy(), **kw)
    axis_close(got, P, "huge/continuous/util.grid_scaled_2d_slim_from", 2.0 * tol_sc, "grid_scaled_2d_slim_from")
    got = gu.grid_scaled_2d_slim_from(grid_pixels_2d_slim=np.asarray(got_px, dtype=float), **kw)
    axis_close(got, P, "huge/continuous/util.roundtrip-scaled-pixels-scaled", 4.0 * tol_sc,
               "grid_scaled_2d_slim_from(grid_pixels_2d_slim_from(p))")

    # Geometry2D methods; the container grid (1 x k, unit pixel scale) only supplies the output structure
    cont = aa.Grid2D.no_mask(values=P.reshape(1, k, 2).copy(), pixel_scales=1.0)
    cen = geom.grid_pixel_centres_2d_from(grid_scaled_2d=cont)
    _axis_equal(ctx, np.asarray(cen.slim), IJ, "huge/index/grid_pixel_centres_2d_from", "Geometry2D.grid_pixel_centres_2d_from")
    idx = geom.grid_pixel_indexes_2d_from(grid_scaled_2d=cont)
    flat_equal(np.asarray(idx.slim), "huge/index/grid_pixel_indexes_2d_from", "Geometry2D.grid_pixel_indexes_2d_from vs i*W+j")
    pix = geom.grid_pixels_2d_from(grid_scaled_2d=cont)
    axis_close(np.asarray(pix.slim), CONT, "huge/continuous/grid_pixels_2d_from", tol_px, "Geometry2D.grid_pixels_2d_from")
    back = geom.grid_scaled_2d_from(grid_pixels_2d=pix)
    axis_close(np.asarray(back.slim), P, "huge/continuous/roundtrip-scaled-pixels-scaled", 4.0 * tol_sc,
               "Geometry2D.grid_scaled_2d_from(grid_pixels_2d_from(p))")
    again = geom.grid_pixels_2d_from(grid_scaled_2d=back)
    axis_close(np.asarray(again.slim), CONT, "huge/continuous/roundtrip-pixels-scaled-pixels", 2.0 * tol_px,
               "Geometry2D.grid_pixels_2d_from(grid_scaled_2d_from(q))")

    # input dtype classes and library-produced inputs
    _dtype_checks(ctx, aa, geom, (h, w), (sy, sx), (oy, ox), IJ, P, CONT, str(case.get("dtype", "float64")), "huge/",
                  tol_sc, tol_px, marg)


# ---------------------------------------------------------------------------------------------
# shape-based mask constructors
# ---------------------------------------------------------------------------------------------
KINDS = ["circular", "circular_annular", "circular_anti_annular", "elliptical", "elliptical_annular"]
# kinds with more parameters (and therefore more exact-equality classes) are drawn more often
_KIND_WEIGHTS = (["circular"] * 1 + ["circular_annular"] * 2 + ["circular_anti_annular"] * 2
                 + ["elliptical"] * 3 + ["elliptical_annular"] * 4)
# angles exactly on an axis are an explicit class (half of all angle draws), 0 / 90 most often
_AXIS_ANGLES = [0.0, 0.0, 0.0, 90.0, 90.0, 90.0, 180.0, 180.0, 360.0, 360.0, 270.0, -90.0, -180.0, -360.0]
_OBLIQUE_ANGLES = [45.0, -45.0, 135.0, 225.0, 30.0, 60.0, -30.0, 315.0]
# relative offset of an anchored radius from the chosen pixel's radius; 0.0 = exactly on it (tie band)
_DELTAS = [0.0, 0.0, 1e-6, 1e-4, 1e-2, 0.03, 0.1]


@st.composite
def _angle(draw):
    k = draw(st.integers(0, 9))
    if k <= 4:
        return float(draw(st.sampled_from(_AXIS_ANGLES)))
    if k <= 6:
        return float(draw(st.sampled_from(_OBLIQUE_ANGLES)))
    return float(draw(st.floats(-360.0, 360.0, allow_nan=False)))


@st.composite
def _ratio(draw):
    """Axis ratio in [0.1, 1]; exactly 1 (a circle whatever the angle) three times in ten."""
    k = draw(st.integers(0, 9))
    if k <= 2:
        return 1.0
    if k <= 5:
        return float(draw(st.sampled_from([0.5, 0.1, 0.8, 0.25])))
    return float(draw(st.floats(0.1, 1.0, allow_nan=False)))


@st.composite
def _radius(draw, shape, scales, centre, q=None, angle=None):
    """A threshold radius: a fraction of the frame half-diagonal, or anchored just inside / outside the
    (circular or elliptical) radius of a chosen pixel."""
    h, w = shape
    diag = 0.5 * math.hypot(h * scales[0], w * scales[1])
    if q is not None:
        diag = diag / max(q, 0.3)
    if draw(st.integers(0, 2)) == 0:
        return float(draw(st.floats(0.0, 1.2)) * diag)
    i = draw(st.integers(0, h - 1))
    j = draw(st.integers(0, w - 1))
    dy, dx = ref.offsets(shape, scales, centre)
    r = ref.circular_radius(dy, dx) if q is None else ref.elliptical_radius(dy, dx, q, angle)
    rp = float(r[i, j])
    d = draw(st.sampled_from(_DELTAS))
    if d == 0.0:
        return rp                      # exactly the pixel's radius (also 0.0 when the centre sits on the pixel)
    if not (rp > 1e-6):
        return float(draw(st.floats(0.0, 1.2)) * diag)
    sign = draw(st.sampled_from([-1.0, 1.0]))
    return rp * (1.0 + sign * d)


@st.composite
def mask_cases(draw, kinds=tuple(KINDS)):
    kind = draw(st.sampled_from([k for k in _KIND_WEIGHTS if k in kinds]))
    shape = draw(_shapes(1, 12))
    h, w = shape
    scales = draw(_scales())
    origin = draw(_origins())
    ck = draw(st.sampled_from(["zero", "pixel-centre", "pixel-corner", "any", "any"]))
    if ck == "zero":
        centre = [0.0, 0.0]
    elif ck in ("pixel-centre", "pixel-corner"):
        i = draw(st.integers(0, h - 1))
        j = draw(st.integers(0, w - 1))
        off = 0.0 if ck == "pixel-centre" else 0.5
        centre = [float(((h - 1) / 2.0 - i - off) * scales[0]), float((j + off - (w - 1) / 2.0) * scales[1])]
    else:
        centre = [float(draw(st.floats(-0.6, 0.6)) * h * scales[0]), float(draw(st.floats(-0.6, 0.6)) * w * scales[1])]
    invert = draw(st.booleans())
    scalar = draw(st.booleans()) if scales[0] == scales[1] else False
    p = {}
    if kind == "circular":
        p["radius"] = draw(_radius(shape, scales, centre))
    elif kind == "circular_annular":
        a, b = sorted([draw(_radius(shape, scales, centre)), draw(_radius(shape, scales, centre))])
        if draw(st.integers(0, 3)) == 0:
            b = a                                           # inner radius == outer radius exactly
        p["inner_radius"], p["outer_radius"] = a, b
    elif kind == "circular_anti_annular":
        a, b, c = sorted([draw(_radius(shape, scales, centre)) for _ in range(3)])
        rel = draw(st.integers(0, 6))
        if rel == 0:
            b = a                                           # inner == outer
        elif rel == 1:
            c = b                                           # outer == outer_2
        elif rel == 2:
            b = c = a                                       # all three equal
        p["inner_radius"], p["outer_radius"], p["outer_radius_2"] = a, b, c
    elif kind == "elliptical":
        p["axis_ratio"] = draw(_ratio())
        p["angle"] = draw(_angle())
        p["major_axis_radius"] = draw(_radius(shape, scales, centre, p["axis_ratio"], p["angle"]))
    else:
        # every combination of {angles equal, axis ratios equal, major radii equal} is an explicit class
        same_phi = draw(st.integers(0, 4)) < 2
        same_q = draw(st.integers(0, 4)) < 2
        same_r = draw(st.integers(0, 3)) == 0
        p["inner_axis_ratio"] = draw(_ratio())
        p["inner_phi"] = draw(_angle())
        p["outer_axis_ratio"] = p["inner_axis_ratio"] if same_q else draw(_ratio())
        p["outer_phi"] = p["inner_phi"] if same_phi else draw(_angle())
        if not same_q and p["outer_axis_ratio"] == p["inner_axis_ratio"]:
            p["outer_axis_ratio"] = 0.35 if p["inner_axis_ratio"] != 0.35 else 0.7
        if not same_phi and p["outer_phi"] == p["inner_phi"]:
            p["outer_phi"] = p["inner_phi"] + 20.0 if p["inner_phi"] <= 300.0 else p["inner_phi"] - 20.0
        ro = draw(_radius(shape, scales, centre, p["outer_axis_ratio"], p["outer_phi"]))
        if same_r:
            ri = ro
        else:
            ri = draw(_radius(shape, scales, centre, p["inner_axis_ratio"], p["inner_phi"]))
            # inner ellipse mostly the smaller one, so that an annulus exists
            if draw(st.integers(0, 3)) > 0:
                ri = ri * draw(st.sampled_from([0.2, 0.4, 0.6]))
        p["inner_major_axis_radius"], p["outer_major_axis_radius"] = float(ri), float(ro)
    return {"kind": kind, "shape": shape, "scales": scales, "origin": origin, "centre": centre,
            "invert": invert, "params": p, "centre_kind": ck, "scalar_scale": scalar}


def _equality_labels(case):
    """Exact-equality classes of the constructor parameters (all decided with ==, never with a tolerance)."""
    kind, p = case["kind"], case["params"]
    out = []
    angs = [p[k] for k in ("angle", "inner_phi", "outer_phi") if k in p]
    qs = [p[k] for k in ("axis_ratio", "inner_axis_ratio", "outer_axis_ratio") if k in p]
    for a in angs:
        if a % 90.0 == 0.0:
            out.append("eq:angle-multiple-of-90")
        for v in (0.0, 90.0, 180.0, 360.0):
            if abs(a) == v:
                out.append("eq:|angle|==%d" % int(v))
    if any(q == 1.0 for q in qs):
        out.append("eq:axis_ratio==1")
    if qs and all(q == 1.0 for q in qs):
        out.append("eq:all-axis-ratios==1")
    if kind == "circular_annular" and p["inner_radius"] == p["outer_radius"]:
        out.append("eq:inner_radius==outer_radius")
    if kind == "circular_anti_annular":
        if p["inner_radius"] == p["outer_radius"]:
            out.append("eq:inner_radius==outer_radius")
        if p["outer_radius"] == p["outer_radius_2"]:
            out.append("eq:outer_radius==outer_radius_2")
    if kind == "elliptical_annular":
        sp = p["inner_phi"] == p["outer_phi"]
        sq = p["inner_axis_ratio"] == p["outer_axis_ratio"]
        sr = p["inner_major_axis_radius"] == p["outer_major_axis_radius"]
        out.append("eq:ell-annular:phi-%s,ratio-%s" % ("equal" if sp else "differ", "equal" if sq else "differ"))
        if sr:
            out.append("eq:inner_major_radius==outer_major_radius")
        if sp and sq and sr:
            out.append("eq:ell-annular:identical-ellipses")
    if any(v == 0.0 for k, v in p.items() if "radius" in k):
        out.append("eq:radius==0")
    # centre exactly on a pixel centre / pixel corner in the oracle's arithmetic
    dy, dx = ref.offsets(case["shape"], case["scales"], case["centre"])
    if np.any((dy == 0.0) & (dx == 0.0)):
        out.append("eq:centre-exactly-on-pixel-centre")
    sy, sx = float(case["scales"][0]), float(case["scales"][1])
    if np.any((np.abs(dy) == sy / 2.0) & (np.abs(dx) == sx / 2.0)):
        out.append("eq:centre-exactly-on-pixel-corner")
    return out


def _construct(aa, case):
    sy, sx = float(case["scales"][0]), float(case["scales"][1])
    kw = dict(shape_native=(int(case["shape"][0]), int(case["shape"][1])),
              pixel_scales=sy if (case.get("scalar_scale") and sy == sx) else (sy, sx),
              origin=(float(case["origin"][0]), float(case["origin"][1])),
              centre=(float(case["centre"][0]), float(case["centre"][1])),
              invert=bool(case["invert"]))
    kw.update({k: float(v) for k, v in case["params"].items()})
    return getattr(aa.Mask2D, case["kind"])(**kw)


def body_masks(case, ctx):
    aa = _aa()
    kind = case["kind"]
    h, w = case["shape"]
    scales = [float(case["scales"][0]), float(case["scales"][1])]
    origin = [float(case["origin"][0]), float(case["origin"][1])]
    centre = [float(case["centre"][0]), float(case["centre"][1])]
    invert = bool(case["invert"])

    ctx.label("kind:" + kind)
    ctx.label("invert" if invert else "no-invert")
    ctx.label("shape:nonsquare" if h != w else "shape:square")
    if h == 1 or w == 1:
        ctx.label("shape:1xN")
    ctx.label("scales:aniso" if scales[0] != scales[1] else "scales:iso")
    if case.get("scalar_scale") and scales[0] == scales[1]:
        ctx.label("scales:passed-as-float")
    ctx.label("origin:zero" if origin == [0.0, 0.0] else "origin:nonzero")
    ctx.label("centre:" + str(case.get("centre_kind", "any")))
    if kind.startswith("elliptical"):
        angs = [case["params"][k] for k in ("angle", "inner_phi", "outer_phi") if k in case["params"]]
        if any(a % 90.0 != 0.0 for a in angs):
            ctx.label("angle:oblique")
        qs = [case["params"][k] for k in ("axis_ratio", "inner_axis_ratio", "outer_axis_ratio") if k in case["params"]]
        if any(q < 0.999 for q in qs):
            ctx.label("ellipse:flattened")

    for l in _equality_labels(case):
        ctx.label(l)

    mask = _construct(aa, case)
    got_masked = np.asarray(mask, dtype=bool)
    ctx.check(got_masked.shape == (h, w), "mask/%s/shape" % kind, "mask shape %s want %s" % (got_masked.shape, (h, w)))
    if got_masked.shape != (h, w):
        return
    ctx.close(np.asarray(mask.origin, dtype=float), np.asarray(origin), "mask/%s/attrs" % kind, atol=0.0,
              what="mask.origin")
    ctx.close(np.asarray(mask.pixel_scales, dtype=float), np.asarray(scales), "mask/%s/attrs" % kind, atol=0.0,
              what="mask.pixel_scales")

    want_un, tie = ref.shape_unmasked(kind, case["params"], (h, w), scales, centre, band=BAND)
    ctx.tie(int(tie.sum()))
    if tie.any():
        ctx.label("eq:threshold-exactly-on-a-pixel-radius(tie-band)")
    got_un = got_masked if invert else ~got_masked      # invert=True: documented region becomes the masked one
    cmp = ~tie
    ctx.nt(bool(got_masked.any() and (~got_masked).any()))
    if want_un[cmp].any() and (~want_un[cmp]).any():
        ctx.label("result:mixed")
    bad = cmp & (got_un != want_un)
    if bad.any():
        i, j = [int(v[0]) for v in np.nonzero(bad)]
        extra = int((bad & got_un).sum())
        missing = int((bad & ~got_un).sum())
        cls = "extra" if missing == 0 else ("missing" if extra == 0 else "both")
        ctx.fail("mask/%s/%s" % (kind, "inverted" if invert else "plain"),
                 "%d pixel(s) differ from the documented inequality (%d wrongly inside, %d wrongly outside, class=%s); "
                 "first at (%d,%d): got %s want %s" % (int(bad.sum()), extra, missing, cls, i, j,
                                                         "inside" if got_un[i, j] else "outside",
                                                         "inside" if want_un[i, j] else "outside"))
    ctx.comparisons += 1


SUBCHECKS = [
    SubCheck("geometry2d", body_geometry2d, strategy=geometry2d(), examples={"quick": 2500, "thorough": 32000},
             shards={"quick": 5, "thorough": 16}),
    SubCheck("enum_shapes", body_enum_shapes, cases=cases_enum_shapes, shards={"quick": 2, "thorough": 16}),
    SubCheck("geometry1d", body_geometry1d, strategy=geometry1d(), examples={"quick": 500, "thorough": 12000},
             shards={"quick": 1, "thorough": 4}),
    SubCheck("huge_frames", body_huge, strategy=huge_cases(), examples={"quick": 2100, "thorough": 24000},
             shards={"quick": 3, "thorough": 8}),
    SubCheck("masks", body_masks, strategy=mask_cases(), examples={"quick": 5000, "thorough": 80000},
             shards={"quick": 5, "thorough": 16}),
]
