"""C02 — pixel indices and scaled (y,x) coordinates are consistent inverse maps; the shape-based mask
constructors unmask exactly the pixels whose centre satisfies the documented radial inequality."""
import math

import numpy as np
from hypothesis import strategies as st

from vp import gens
from vp.engine import SubCheck
from vp.ref import geometry as ref

PROPERTY = "C02"
TECHNIQUE = ("property-based testing (Hypothesis) plus enumeration of all small shapes, against closed-form "
             "coordinate formulas, round trips and an independent evaluation of the documented mask inequalities")
RULE = (
    "geometry2d: Hypothesis shapes 1..12 per axis (independent H, W), isotropic/anisotropic pixel scales in "
    "[0.05,5] (anisotropic 3 in 4; isotropic ones handed over as a single float half of the time), origins in "
    "[-100,100]^2 (unequal components favoured), a generated mask used as the container of the query grid, and one query point for every pixel of the frame built as pixel centre + fraction*scale with "
    "fractions in [-(0.5-1e-9), 0.5-1e-9] (extremes favoured), so the containing pixel is known by construction "
    "and the 1e-9 boundary band is excluded by construction; the k-th container slot queries pixel (k+shift) mod "
    "H*W so position in the container and target pixel are decoupled. enum_shapes: every shape H,W<=12 (quick) / "
    "<=16 (thorough) x fixed (scales, origin) presets with the same body. Oracle: closed forms of the statement "
    "(centre(i,j), extent = union of pixel squares, point -> (i,j) and i*W+j exact, continuous pixel coordinate = "
    "(i+0.5+f_y, j+0.5+f_x) measured from the top-left corner) and the round trips centre->index->centre, "
    "scaled->pixels->scaled, pixels->scaled->pixels. geometry1d: lengths 1..14, 1D masks, the 1D closed forms. "
    "masks: the five constructors with radii that are either a fraction of the frame half-diagonal or anchored "
    "just inside/outside a chosen pixel's radius (relative offsets 1e-6..0.1), axis ratios in [0.1,1], angles in "
    "[-360,360], centres in or slightly outside the frame (zero / pixel centre / pixel corner / anywhere), random "
    "origin and invert; oracle = documented inequality evaluated with a rotation matrix at the closed-form centres "
    "measured from the mask origin, pixels within 1e-9 of a threshold skipped and counted. Non-trivial: geometry = "
    "H != W and origin components unequal and some query fraction non-zero; masks = the result has both masked "
    "and unmasked pixels; 1D = mask mixed or origin non-zero. Distinct = SHA-1 of the canonical case."
)
ASSUMPTIONS = [
    "coordinates stay O(1e2) (|origin| <= 100, extent <= 130), so rounding error of the closed forms is <= 1e-12 "
    "in scaled units and <= 1e-11 in pixel units; centres are compared with atol 1e-10, extents with atol 1e-11, "
    "continuous pixel coordinates and round trips with atol 1e-9; index-valued outputs are compared exactly",
    "query points keep a distance >= 1e-9 pixel from every pixel boundary (the statement's tie band), radii within "
    "1e-9 (scaled units) of a threshold are not compared",
    "the continuous pixel coordinate is measured from the top-left corner of the frame (docstring of "
    "grid_pixels_2d_slim_from: 'decimal offset from each pixel's top-left corner'), so pixel (i,j) covers "
    "[i,i+1) x [j,j+1)",
    "ellipse angle: major axis `angle` degrees counter-clockwise from +x with y up (docstring of "
    "elliptical_radius_from); annulus radii are passed sorted (inner <= outer <= outer_2)",
    "the grid-valued conversions take a Grid2D container whose mask only supplies the output structure; a mask of "
    "the same geometry is used as container, as Mask2D's own callers do",
    "numba is absent, so the @jit kernels run as plain Python (same source, no compilation step)",
]

EDGE = 0.5 - 1e-9
BAND = 1e-9
ATOL_CENTRE = 1e-10
ATOL_EXTENT = 1e-11
ATOL_PIX = 1e-9


def _aa():
    import autoarray as aa
    return aa


# ---------------------------------------------------------------------------------------------
# comparison helpers: one key per entry point and per axis, so y-only / x-only faults get their own key
# ---------------------------------------------------------------------------------------------
def _axis_equal(ctx, got, want, key, what):
    g = np.asarray(got)
    w = np.asarray(want)
    if g.shape != w.shape:
        ctx.fail(key + "/shape", "%s: shape %s want %s" % (what, g.shape, w.shape))
        return
    ctx.equal(g[..., 0], w[..., 0], key + "/y", what + " [y component]")
    ctx.equal(g[..., 1], w[..., 1], key + "/x", what + " [x component]")


def _axis_close(ctx, got, want, key, atol, what):
    g = np.asarray(got)
    w = np.asarray(want)
    if g.shape != w.shape:
        ctx.fail(key + "/shape", "%s: shape %s want %s" % (what, g.shape, w.shape))
        return
    ctx.close(g[..., 0], w[..., 0], key + "/y", atol=atol, what=what + " [y component]")
    ctx.close(g[..., 1], w[..., 1], key + "/x", atol=atol, what=what + " [x component]")


# ---------------------------------------------------------------------------------------------
# 2D geometry
# ---------------------------------------------------------------------------------------------
def _check_geometry(shape, scales, origin, mask_l, fracs, shift, ctx, scalar=False):
    aa = _aa()
    h, w = int(shape[0]), int(shape[1])
    sy, sx = float(scales[0]), float(scales[1])
    oy, ox = float(origin[0]), float(origin[1])
    n = h * w
    m = np.asarray(mask_l, dtype=bool).reshape(h, w)
    un = ~m

    # classification
    ctx.label("shape:nonsquare" if h != w else "shape:square")
    if h == 1 or w == 1:
        ctx.label("shape:1xN")
    ctx.label("parity:%s-%s" % ("even" if h % 2 == 0 else "odd", "even" if w % 2 == 0 else "odd"))
    ctx.label("scales:aniso" if sy != sx else "scales:iso")
    # isotropic scales may be handed over as one float (documented alternative to the (y,x) pair)
    ps = sy if (scalar and sy == sx) else (sy, sx)
    if not isinstance(ps, tuple):
        ctx.label("scales:passed-as-float")
    ctx.label("origin:zero" if (oy == 0.0 and ox == 0.0) else ("origin:unequal" if oy != ox else "origin:equal"))
    if m.any() and un.any():
        ctx.label("container:mixed-mask")
    any_frac = any(f[0] != 0.0 or f[1] != 0.0 for f in fracs)
    if any(abs(f[0]) >= 0.499 or abs(f[1]) >= 0.499 for f in fracs):
        ctx.label("frac:near-boundary")
    ctx.nt(h != w and oy != ox and any_frac)

    # closed forms
    C = ref.centres_2d((h, w), (sy, sx), (oy, ox))          # (H, W, 2)
    Cs = C.reshape(n, 2)
    ii, jj = np.divmod(np.arange(n), w)                      # row-major pixel (i, j)
    IJ = np.stack([ii, jj], axis=1)

    mask = aa.Mask2D(mask=m.copy(), pixel_scales=ps, origin=(oy, ox))
    geom = mask.geometry

    # -- extent = union of the pixel squares -------------------------------------------------
    ext = geom.extent
    want_ext = ref.extent_2d((h, w), (sy, sx), (oy, ox))
    ctx.check(len(ext) == 4, "extent/shape", "extent has %d entries" % len(ext))
    ctx.close(np.asarray(ext[:2], dtype=float), np.asarray(want_ext[:2]), "extent/x", atol=ATOL_EXTENT,
              what="geometry.extent (x_min, x_max)")
    ctx.close(np.asarray(ext[2:], dtype=float), np.asarray(want_ext[2:]), "extent/y", atol=ATOL_EXTENT,
              what="geometry.extent (y_min, y_max)")

    # -- pixel centres -----------------------------------------------------------------------
    uni = aa.Grid2D.uniform(shape_native=(h, w), pixel_scales=ps, origin=(oy, ox))
    _axis_close(ctx, np.asarray(uni.slim), Cs, "centres/Grid2D.uniform", ATOL_CENTRE, "Grid2D.uniform slim")
    allf = mask.derive_grid.all_false
    _axis_close(ctx, np.asarray(allf.slim), Cs, "centres/derive_grid.all_false", ATOL_CENTRE,
                "derive_grid.all_false slim")
    fm = aa.Grid2D.from_mask(mask=mask)
    _axis_close(ctx, np.asarray(fm.slim), C[un], "centres/Grid2D.from_mask", ATOL_CENTRE, "Grid2D.from_mask slim")
    got_sc = np.array([geom.scaled_coordinates_2d_from((int(i), int(j))) for i, j in IJ], dtype=float)
    _axis_close(ctx, got_sc, Cs, "centres/scaled_coordinates_2d_from", ATOL_CENTRE,
                "geometry.scaled_coordinates_2d_from((i,j))")

    # -- centre -> index -> centre -----------------------------------------------------------
    got_pc = np.array([geom.pixel_coordinates_2d_from((float(c[0]), float(c[1]))) for c in Cs])
    _axis_equal(ctx, got_pc, IJ, "roundtrip/centre-to-index", "pixel_coordinates_2d_from(centre(i,j))")
    back = np.array([geom.scaled_coordinates_2d_from((int(p[0]), int(p[1]))) for p in got_pc], dtype=float)
    _axis_close(ctx, back, Cs, "roundtrip/centre-index-centre", ATOL_CENTRE, "centre -> index -> centre")
    idx_c = geom.grid_pixel_indexes_2d_from(grid_scaled_2d=uni)
    ctx.equal(np.asarray(idx_c.slim), np.arange(n), "roundtrip/centre-to-flat-index",
              "grid_pixel_indexes_2d_from(Grid2D.uniform) vs arange(H*W)")
    cen_c = geom.grid_pixel_centres_2d_from(grid_scaled_2d=fm)
    _axis_equal(ctx, np.asarray(cen_c.slim), np.argwhere(un), "roundtrip/centre-to-index-grid",
                "grid_pixel_centres_2d_from(Grid2D.from_mask) vs argwhere(~mask)")

    # -- query points: pixel centre + fraction of the pixel ----------------------------------
    F = np.array([fracs[p % len(fracs)] for p in range(n)], dtype=float)       # (n, 2): (down, right)
    P = np.empty((n, 2))
    P[:, 0] = Cs[:, 0] - F[:, 0] * sy        # positive fraction = towards larger row index (down)
    P[:, 1] = Cs[:, 1] + F[:, 1] * sx
    want_cont = IJ + 0.5 + F                  # continuous pixel coordinate from the top-left corner

    got_t = np.array([geom.pixel_coordinates_2d_from((float(p[0]), float(p[1]))) for p in P])
    _axis_equal(ctx, got_t, IJ, "index/pixel_coordinates_2d_from", "pixel_coordinates_2d_from(point in pixel (i,j))")

    # a few points through the centre-of-containing-pixel helper (at most 12 per case)
    step = max(1, n // 12)
    sel = np.arange(0, n, step)
    got_ctr = np.array([geom.scaled_coordinate_2d_to_scaled_at_pixel_centre_from((float(P[k, 0]), float(P[k, 1])))
                        for k in sel], dtype=float)
    _axis_close(ctx, got_ctr, Cs[sel], "index/scaled_at_pixel_centre", ATOL_CENTRE,
                "scaled_coordinate_2d_to_scaled_at_pixel_centre_from(point)")

    # containers: (a) the generated mask, slot k queries pixel (k+shift) mod n; (b) the unmasked frame
    nun = int(un.sum())
    tgt = (np.arange(nun) + int(shift)) % n
    cont_m = aa.Grid2D(values=P[tgt].copy(), mask=mask)
    mask_all = aa.Mask2D.all_false(shape_native=(h, w), pixel_scales=ps, origin=(oy, ox))
    cont_a = aa.Grid2D(values=P.copy(), mask=mask_all)
    for tag, cont, t in (("masked-container", cont_m, tgt), ("full-container", cont_a, np.arange(n))):
        g = cont.mask.geometry
        cen = g.grid_pixel_centres_2d_from(grid_scaled_2d=cont)
        _axis_equal(ctx, np.asarray(cen.slim), IJ[t], "index/grid_pixel_centres_2d_from",
                    "grid_pixel_centres_2d_from (%s)" % tag)
        idx = g.grid_pixel_indexes_2d_from(grid_scaled_2d=cont)
        ctx.equal(np.asarray(idx.slim), (IJ[t][:, 0] * w + IJ[t][:, 1]), "index/grid_pixel_indexes_2d_from",
                  "grid_pixel_indexes_2d_from vs i*W+j (%s)" % tag)
        pix = g.grid_pixels_2d_from(grid_scaled_2d=cont)
        _axis_close(ctx, np.asarray(pix.slim), want_cont[t], "continuous/grid_pixels_2d_from", ATOL_PIX,
                    "grid_pixels_2d_from vs (i+0.5+fy, j+0.5+fx) (%s)" % tag)
        rt = g.grid_scaled_2d_from(grid_pixels_2d=pix)
        _axis_close(ctx, np.asarray(rt.slim), P[t], "continuous/roundtrip-scaled-pixels-scaled", ATOL_PIX,
                    "grid_scaled_2d_from(grid_pixels_2d_from(p)) (%s)" % tag)
        pin = aa.Grid2D(values=want_cont[t].copy(), mask=cont.mask)
        sc = g.grid_scaled_2d_from(grid_pixels_2d=pin)
        _axis_close(ctx, np.asarray(sc.slim), P[t], "continuous/grid_scaled_2d_from", ATOL_PIX,
                    "grid_scaled_2d_from((i+0.5+fy, j+0.5+fx)) vs point (%s)" % tag)
        rt2 = g.grid_pixels_2d_from(grid_scaled_2d=sc)
        _axis_close(ctx, np.asarray(rt2.slim), want_cont[t], "continuous/roundtrip-pixels-scaled-pixels", ATOL_PIX,
                    "grid_pixels_2d_from(grid_scaled_2d_from(q)) (%s)" % tag)

    # native-layout utility (same anchor file): (H, W, 2) points -> (H, W, 2) pixel indices
    nat = aa.util.geometry.grid_pixel_centres_2d_from(
        grid_scaled_2d=P.reshape(h, w, 2).copy(), shape_native=(h, w), pixel_scales=(sy, sx), origin=(oy, ox))
    _axis_equal(ctx, np.asarray(nat), IJ.reshape(h, w, 2), "index/util.grid_pixel_centres_2d_from",
                "util.geometry.grid_pixel_centres_2d_from (native)")


_SCALE = st.one_of(st.sampled_from([0.05, 0.1, 0.25, 0.5, 1.0, 2.0, 5.0]), st.floats(0.05, 5.0, allow_nan=False))


@st.composite
def _scales(draw):
    """(s_y, s_x) in [0.05, 5]: anisotropic three times out of four (by construction, not rejection)."""
    s = float(draw(_SCALE))
    if draw(st.integers(0, 3)) == 0:
        return [s, s]
    t = float(draw(_SCALE))
    if t == s:
        t = s * 2.0 if s <= 2.5 else s / 2.0
    return [s, t]


@st.composite
def _origins(draw):
    """(o_y, o_x) in [-100, 100]^2: zero 1/8, equal components 1/8, unequal components 3/4."""
    k = draw(st.integers(0, 7))
    if k == 0:
        return [0.0, 0.0]
    a = float(draw(st.one_of(gens.reals(-2, 2), st.floats(-100.0, 100.0, allow_nan=False))))
    if k == 1:
        return [a, a]
    b = float(draw(st.one_of(gens.reals(-2, 2), st.floats(-100.0, 100.0, allow_nan=False))))
    if b == a:
        b = a - 1.5 if a > 0 else a + 1.5
    return [a, b]


@st.composite
def _shapes(draw, lo=1, hi=12):
    """Independent H, W; frames with a unit axis (1xN / Nx1, which cannot show axis mix-ups but exercise the
    degenerate central pixel) are an explicit choice made about one time in six."""
    h, w = draw(gens.shapes(lo, hi))
    k = draw(st.integers(0, 11))
    if k == 0:
        h = 1
    elif k == 1:
        w = 1
    else:
        h, w = max(h, 2), max(w, 2)
    return [h, w]


_FRAC = st.one_of(
    st.sampled_from([0.0, EDGE, -EDGE, 0.25, -0.25, 0.499, -0.499, 0.125, -0.375]),
    st.floats(-EDGE, EDGE, allow_nan=False),
)


@st.composite
def geometry2d(draw):
    shape = draw(_shapes(1, 12))
    scales = draw(_scales())
    origin = draw(_origins())
    mask = draw(gens.masks(shape=shape))
    fracs = draw(st.lists(st.lists(_FRAC, min_size=2, max_size=2), min_size=2, max_size=5))
    if all(f[0] == 0.0 and f[1] == 0.0 for f in fracs):
        fracs[0] = [EDGE, -0.25]
    shift = draw(st.integers(0, shape[0] * shape[1] - 1))
    scalar = draw(st.booleans()) if scales[0] == scales[1] else False
    return {"shape": shape, "scales": scales, "origin": origin, "mask": mask, "fracs": fracs, "shift": shift,
            "scalar_scale": scalar}


def body_geometry2d(case, ctx):
    _check_geometry(case["shape"], case["scales"], case["origin"], case["mask"], case["fracs"], case["shift"], ctx,
                    scalar=bool(case.get("scalar_scale", False)))


_PRESETS = [
    {"scales": [1.0, 1.0], "origin": [0.0, 0.0]},
    {"scales": [0.5, 2.0], "origin": [1.5, -3.25]},
    {"scales": [0.07, 0.3], "origin": [-41.3, 77.7]},
]
_PRESETS_THOROUGH = _PRESETS + [
    {"scales": [5.0, 0.05], "origin": [100.0, -100.0]},
    {"scales": [0.05, 0.05], "origin": [-99.99, -0.013]},
]
_ENUM_FRACS = [[EDGE, -EDGE], [-EDGE, EDGE], [0.0, 0.0], [-0.3, 0.499], [0.125, -0.0625]]


def cases_enum_shapes(tier):
    lim = 12 if tier == "quick" else 16
    presets = _PRESETS if tier == "quick" else _PRESETS_THOROUGH
    for h in range(1, lim + 1):
        for w in range(1, lim + 1):
            for k in range(len(presets)):
                yield {"shape": [h, w], "preset": k}


def body_enum_shapes(case, ctx):
    h, w = case["shape"]
    p = _PRESETS_THOROUGH[case["preset"]]
    # container mask: checkerboard with the first pixel unmasked (mixed whenever H*W > 1)
    mask = [[bool((i + j) % 2) for j in range(w)] for i in range(h)]
    _check_geometry([h, w], p["scales"], p["origin"], mask, _ENUM_FRACS, (h * w) // 2, ctx)


# ---------------------------------------------------------------------------------------------
# 1D geometry
# ---------------------------------------------------------------------------------------------
@st.composite
def geometry1d(draw):
    n = draw(st.integers(1, 14))
    s = draw(gens.positives(0.05, 5.0))
    o = draw(st.one_of(st.just(0.0), gens.reals(-2, 2), st.floats(-100.0, 100.0)))
    bits = draw(st.lists(st.booleans(), min_size=n, max_size=n))
    if all(bits):
        bits[draw(st.integers(0, n - 1))] = False
    fr = draw(st.lists(_FRAC, min_size=1, max_size=4))
    return {"n": n, "scale": s, "origin": o, "mask": bits, "fracs": fr}


def body_geometry1d(case, ctx):
    aa = _aa()
    n, s, o = int(case["n"]), float(case["scale"]), float(case["origin"])
    m = np.asarray(case["mask"], dtype=bool)
    un = ~m
    fr = case["fracs"]
    ctx.label("1d:len-%s" % ("even" if n % 2 == 0 else "odd"))
    ctx.label("1d:origin-zero" if o == 0.0 else "1d:origin-nonzero")
    if m.any():
        ctx.label("1d:mixed-mask")
    ctx.nt(bool(m.any()) or o != 0.0)

    X = ref.centres_1d(n, s, o)
    mask = aa.Mask1D(mask=m.copy(), pixel_scales=(s,), origin=(o,))
    ext = mask.geometry.extent
    ctx.check(len(ext) == 2, "extent1d/shape", "extent has %d entries" % len(ext))
    ctx.close(np.asarray(ext, dtype=float), np.asarray(ref.extent_1d(n, s, o)), "extent1d", atol=ATOL_EXTENT,
              what="Mask1D.geometry.extent")
    g = aa.Grid1D.from_mask(mask=mask)
    ctx.close(np.asarray(g.slim), X[un], "centres1d/Grid1D.from_mask", atol=ATOL_CENTRE, what="Grid1D.from_mask slim")
    u = aa.Grid1D.uniform(shape_native=(n,), pixel_scales=(s,), origin=(o,))
    ctx.close(np.asarray(u.slim), X, "centres1d/Grid1D.uniform", atol=ATOL_CENTRE, what="Grid1D.uniform slim")

    gu = aa.util.geometry
    got_c = np.array([gu.scaled_coordinates_1d_from(pixel_coordinates_1d=(k,), shape_slim=(n,), pixel_scales=(s,),
                                                    origins=(o,))[0] for k in range(n)], dtype=float)
    ctx.close(got_c, X, "centres1d/util.scaled_coordinates_1d_from", atol=ATOL_CENTRE,
              what="scaled_coordinates_1d_from((k,))")
    F = np.array([fr[k % len(fr)] for k in range(n)], dtype=float)
    P = X + F * s
    got_i = np.array([gu.pixel_coordinates_1d_from(scaled_coordinates_1d=(float(p),), shape_slim=(n,),
                                                   pixel_scales=(s,), origins=(o,))[0] for p in P])
    ctx.equal(got_i, np.arange(n), "index1d/util.pixel_coordinates_1d_from", "pixel_coordinates_1d_from(point in pixel k)")


# ---------------------------------------------------------------------------------------------
# shape-based mask constructors
# ---------------------------------------------------------------------------------------------
KINDS = ["circular", "circular_annular", "circular_anti_annular", "elliptical", "elliptical_annular"]
_ANGLES = st.one_of(st.sampled_from([0.0, 30.0, 45.0, 90.0, -45.0, 135.0, 180.0, -90.0, 270.0, 360.0, -360.0, 60.0]),
                    st.floats(-360.0, 360.0, allow_nan=False))
_RATIOS = st.one_of(st.sampled_from([1.0, 0.5, 0.1, 0.8, 0.25]), st.floats(0.1, 1.0, allow_nan=False))
_DELTAS = [1e-6, 1e-4, 1e-2, 0.03, 0.1]


@st.composite
def _radius(draw, shape, scales, centre, q=None, angle=None):
    """A threshold radius: a fraction of the frame half-diagonal, or anchored just inside / outside the
    (circular or elliptical) radius of a chosen pixel."""
    h, w = shape
    diag = 0.5 * math.hypot(h * scales[0], w * scales[1])
    if q is not None:
        diag = diag / max(q, 0.3)
    if draw(st.integers(0, 2)) == 0:
        return float(draw(st.floats(0.0, 1.2)) * diag)
    i = draw(st.integers(0, h - 1))
    j = draw(st.integers(0, w - 1))
    dy, dx = ref.offsets(shape, scales, centre)
    r = ref.circular_radius(dy, dx) if q is None else ref.elliptical_radius(dy, dx, q, angle)
    rp = float(r[i, j])
    if not (rp > 1e-6):
        return float(draw(st.floats(0.0, 1.2)) * diag)
    d = draw(st.sampled_from(_DELTAS))
    sign = draw(st.sampled_from([-1.0, 1.0]))
    return rp * (1.0 + sign * d)


@st.composite
def mask_cases(draw, kinds=tuple(KINDS)):
    kind = draw(st.sampled_from(list(kinds)))
    shape = draw(_shapes(1, 12))
    h, w = shape
    scales = draw(_scales())
    origin = draw(_origins())
    ck = draw(st.sampled_from(["zero", "pixel-centre", "pixel-corner", "any", "any"]))
    if ck == "zero":
        centre = [0.0, 0.0]
    elif ck in ("pixel-centre", "pixel-corner"):
        i = draw(st.integers(0, h - 1))
        j = draw(st.integers(0, w - 1))
        off = 0.0 if ck == "pixel-centre" else 0.5
        centre = [float(((h - 1) / 2.0 - i - off) * scales[0]), float((j + off - (w - 1) / 2.0) * scales[1])]
    else:
        centre = [float(draw(st.floats(-0.6, 0.6)) * h * scales[0]), float(draw(st.floats(-0.6, 0.6)) * w * scales[1])]
    invert = draw(st.booleans())
    scalar = draw(st.booleans()) if scales[0] == scales[1] else False
    p = {}
    if kind == "circular":
        p["radius"] = draw(_radius(shape, scales, centre))
    elif kind == "circular_annular":
        a, b = sorted([draw(_radius(shape, scales, centre)), draw(_radius(shape, scales, centre))])
        p["inner_radius"], p["outer_radius"] = a, b
    elif kind == "circular_anti_annular":
        a, b, c = sorted([draw(_radius(shape, scales, centre)) for _ in range(3)])
        p["inner_radius"], p["outer_radius"], p["outer_radius_2"] = a, b, c
    elif kind == "elliptical":
        p["axis_ratio"] = float(draw(_RATIOS))
        p["angle"] = float(draw(_ANGLES))
        p["major_axis_radius"] = draw(_radius(shape, scales, centre, p["axis_ratio"], p["angle"]))
    else:
        p["inner_axis_ratio"] = float(draw(_RATIOS))
        p["inner_phi"] = float(draw(_ANGLES))
        p["outer_axis_ratio"] = float(draw(_RATIOS))
        p["outer_phi"] = float(draw(_ANGLES))
        ri = draw(_radius(shape, scales, centre, p["inner_axis_ratio"], p["inner_phi"]))
        ro = draw(_radius(shape, scales, centre, p["outer_axis_ratio"], p["outer_phi"]))
        # inner ellipse mostly the smaller one, so that an annulus exists
        if draw(st.integers(0, 3)) > 0:
            ri = ri * draw(st.sampled_from([0.2, 0.4, 0.6]))
        p["inner_major_axis_radius"], p["outer_major_axis_radius"] = float(ri), float(ro)
    return {"kind": kind, "shape": shape, "scales": scales, "origin": origin, "centre": centre,
            "invert": invert, "params": p, "centre_kind": ck, "scalar_scale": scalar}


def _construct(aa, case):
    sy, sx = float(case["scales"][0]), float(case["scales"][1])
    kw = dict(shape_native=(int(case["shape"][0]), int(case["shape"][1])),
              pixel_scales=sy if (case.get("scalar_scale") and sy == sx) else (sy, sx),
              origin=(float(case["origin"][0]), float(case["origin"][1])),
              centre=(float(case["centre"][0]), float(case["centre"][1])),
              invert=bool(case["invert"]))
    kw.update({k: float(v) for k, v in case["params"].items()})
    return getattr(aa.Mask2D, case["kind"])(**kw)


def body_masks(case, ctx):
    aa = _aa()
    kind = case["kind"]
    h, w = case["shape"]
    scales = [float(case["scales"][0]), float(case["scales"][1])]
    origin = [float(case["origin"][0]), float(case["origin"][1])]
    centre = [float(case["centre"][0]), float(case["centre"][1])]
    invert = bool(case["invert"])

    ctx.label("kind:" + kind)
    ctx.label("invert" if invert else "no-invert")
    ctx.label("shape:nonsquare" if h != w else "shape:square")
    if h == 1 or w == 1:
        ctx.label("shape:1xN")
    ctx.label("scales:aniso" if scales[0] != scales[1] else "scales:iso")
    if case.get("scalar_scale") and scales[0] == scales[1]:
        ctx.label("scales:passed-as-float")
    ctx.label("origin:zero" if origin == [0.0, 0.0] else "origin:nonzero")
    ctx.label("centre:" + str(case.get("centre_kind", "any")))
    if kind.startswith("elliptical"):
        angs = [case["params"][k] for k in ("angle", "inner_phi", "outer_phi") if k in case["params"]]
        if any(a % 90.0 != 0.0 for a in angs):
            ctx.label("angle:oblique")
        qs = [case["params"][k] for k in ("axis_ratio", "inner_axis_ratio", "outer_axis_ratio") if k in case["params"]]
        if any(q < 0.999 for q in qs):
            ctx.label("ellipse:flattened")

    mask = _construct(aa, case)
    got_masked = np.asarray(mask, dtype=bool)
    ctx.check(got_masked.shape == (h, w), "mask/%s/shape" % kind, "mask shape %s want %s" % (got_masked.shape, (h, w)))
    if got_masked.shape != (h, w):
        return
    ctx.close(np.asarray(mask.origin, dtype=float), np.asarray(origin), "mask/%s/attrs" % kind, atol=0.0,
              what="mask.origin")
    ctx.close(np.asarray(mask.pixel_scales, dtype=float), np.asarray(scales), "mask/%s/attrs" % kind, atol=0.0,
              what="mask.pixel_scales")

    want_un, tie = ref.shape_unmasked(kind, case["params"], (h, w), scales, centre, band=BAND)
    ctx.tie(int(tie.sum()))
    got_un = got_masked if invert else ~got_masked      # invert=True: documented region becomes the masked one
    cmp = ~tie
    ctx.nt(bool(got_masked.any() and (~got_masked).any()))
    if want_un[cmp].any() and (~want_un[cmp]).any():
        ctx.label("result:mixed")
    bad = cmp & (got_un != want_un)
    if bad.any():
        i, j = [int(v[0]) for v in np.nonzero(bad)]
        extra = int((bad & got_un).sum())
        missing = int((bad & ~got_un).sum())
        cls = "extra" if missing == 0 else ("missing" if extra == 0 else "both")
        ctx.fail("mask/%s/%s" % (kind, "inverted" if invert else "plain"),
                 "%d pixel(s) differ from the documented inequality (%d wrongly inside, %d wrongly outside, class=%s); "
                 "first at (%d,%d): got %s want %s" % (int(bad.sum()), extra, missing, cls, i, j,
                                                         "inside" if got_un[i, j] else "outside",
                                                         "inside" if want_un[i, j] else "outside"))
    ctx.comparisons += 1


SUBCHECKS = [
    SubCheck("geometry2d", body_geometry2d, strategy=geometry2d(), examples={"quick": 3000, "thorough": 32000},
             shards={"quick": 6, "thorough": 16}),
    SubCheck("enum_shapes", body_enum_shapes, cases=cases_enum_shapes, shards={"quick": 4, "thorough": 16}),
    SubCheck("geometry1d", body_geometry1d, strategy=geometry1d(), examples={"quick": 1000, "thorough": 12000},
             shards={"quick": 1, "thorough": 4}),
    SubCheck("masks", body_masks, strategy=mask_cases(), examples={"quick": 6000, "thorough": 80000},
             shards={"quick": 5, "thorough": 16}),
]
