"""C18 — border relocation only pulls outliers radially inward; sub-border pixel selection."""
import math

import numpy as np
from hypothesis import strategies as st

from vp import gens
from vp import scene
from vp.engine import SubCheck

PROPERTY = "C18"
RULE = (
    "kernel: relocated_grid_via_jit_from on generated border point sets (ring, star/non-convex, off-centre cluster, "
    "collinear, blob, duplicates, single point; 1..24 points) and coordinate sets made of points on rays through "
    "border points at factors 0..100 of the border radius, exact copies of border points, free points and points near "
    "the centroid. relocator: BorderRelocator(mask, sub_size) on Hypothesis masks (inner area up to 8x8; ring-padded "
    "masks ~3/4, masks touching the outer ring ~1/4; holes, several components, non-convex), uniform sub-size 1..4 "
    "or per-pixel 1..3 (passed as int / Array2D / ndarray), anisotropic pixel scales and origins; the source grid is "
    "the closed-form over-sampled grid pushed through an affine / sinusoidal warp, then a drawn set of points pushed "
    "outward by 1.5-4x (sometimes 10-100x), pulled inward, and set exactly onto border points; mesh vertices drawn "
    "over [-1.5,2.5]^2 of the grid's bounding box, some pulled towards the border centroid, some set onto border points. mesh: the same scenes through "
    "mesh.Rectangular / Delaunay / Voronoi .mapper_grids_from(border_relocator=...). Input dtypes (kernel, relocator, "
    "mesh): ~40% of the cases scale the scene to 8/20/60 units and round every coordinate to a whole number; the "
    "data grid, the mesh vertices and (kernel) the border set are then handed over independently as float64 / float32 "
    "/ int64 / int32 arrays or nested Python lists (of ints when whole), otherwise as float64 / float32 / list of "
    "floats; the reference works on the float64 values of exactly what was handed over, and when a float32 set is "
    "involved the tolerance / bands are 1e-4 / 1e-5 of the scale (the code then forms the centroid in single "
    "precision). Results kept across calls: every array returned by the kernel, by relocated_grid_from / "
    "relocated_mesh_grid_from (first grid, a second shifted+stretched grid with equally many points and vertices, back "
    "on the first grid, and a mesh with exactly as many vertices as the data grid has points) and by two "
    "mapper_grids_from calls sharing one relocator is snapshotted and compared (exact) after every later call, and "
    "the first results are re-checked against their own oracle at the end. preload: the mesh scenes with the vertices "
    "drawn as all inside the smallest border radius / all outside the largest / mixed, each run through "
    "mapper_grids_from four ways - relocator (control), relocator + Preloads(relocated_grid = the control's data "
    "grid), neither, preload only: with a relocator both returned grids must satisfy the relocation oracle and the "
    "preload run must reproduce the control's data grid and mesh grid exactly (the preload stands for the data grid "
    "only, the vertices are still relocated); without a relocator the vertices (and, without preload, the data grid) "
    "come back unchanged; non-trivial there = at least one vertex moved (rectangular: the general rule). "
    "rewrap: one flattened boolean pattern "
    "(12..36 cells; all unmasked, Bernoulli, one run) re-wrapped to 2-4 shapes H x W = cells drawn with repetition "
    "(4x6 then 6x4 / 3x8 / 2x12 ..., the same shape again), with the same or per-step sub-size maps, pixel scales and "
    "origins; one Mask2D + BorderRelocator per step is built in sequence in the same process and each is checked "
    "against its own reference (border pixels, sub_border_slim via attribute and via function, sub_grid, "
    "sub_border_grid, one relocation); non-trivial there = two steps of different shape whose reference sub-border "
    "index lists differ. subborder: sub_border_slim / "
    "sub_border_grid on masks up to 10x10. Oracles: (1) the statement's rule re-implemented in plain numpy "
    "(centroid = mean of the border points = source grid at the sub-border indices, radii, nearest border point by "
    "squared distance, factor r_border/r_point applied iff < 1 and r_point > r_min) at atol 1e-10*scale "
    "(scale = max(|centroid|, largest radius)); (2) invariants that do not use the reference's nearest-point choice: "
    "points with r < r_min (band 1e-12*scale) bit-identical, border points bit-identical, points whose nearest border "
    "point is clearly farther out bit-identical, output radius <= input radius and <= max border radius "
    "(relative 1e-12 + 1e-12*scale), output on the ray from the centroid through the input (cross/dot products, "
    "1e-10*scale*r), shape and order preserved; a nearest-border tie (squared distances within 1e-12*scale^2) "
    "accepts either candidate and is counted; (3) sub-border: border pixels from the set definition on the mask "
    "padded by a masked ring, one index per border pixel in slim order, owned by that pixel, whose pixel-unit "
    "distance from the bounding-box centre is the maximum over the pixel's sub-pixels (1e-12; any tied maximiser "
    "accepted; for non-uniform sub-size maps either bounding box - of sub-pixel centres or of pixel squares - is "
    "accepted, consistently per case); sub_border_grid rows = closed-form centres of the selected sub-pixels "
    "(1e-9*scale). Non-trivial (kernel/relocator/mesh) = at least one point moved and at least one point beyond the "
    "minimum border radius not moved; (subborder) = >= 3 border pixels and some border pixel with sub-size >= 2. "
    "Distinct = SHA-1 of the canonical case."
)
ASSUMPTIONS = [
    "border pixels of a mask = unmasked pixels with a masked 8-neighbour on the mask padded by one masked ring that "
    "can reach the array edge along one axis direction without crossing an unmasked pixel (the definition C10 verifies)",
    "over-sampled sub-pixel order: pixels in row-major slim order, sub-pixels row-major inside each pixel, centres "
    "from the closed form centre(i,j) + ((s-1)/2 - a, b - (s-1)/2) * pixel_scale / s (verified independently by C02/C14)",
    "a coordinate the rule does not move is returned unchanged (bit-identical), including border points themselves",
    "coordinates are finite with |value| <= ~1e4 (no overflow in squared distances, also for int32 input); unsigned and "
    "sub-32-bit integer dtypes are not generated (their differences / squares wrap around inside numpy)",
    "an array handed back by a relocation call belongs to the caller: later calls must not change it",
    "numba is absent, so the @jit kernels run as plain Python (same source, no compilation step)",
]
TECHNIQUE = ("property-based testing (Hypothesis) against a plain-numpy re-implementation of the stated relocation rule "
             "plus order/ray/radius invariants and the set definition of the farthest sub-pixel")

TOL = 1e-10     # reference comparison, relative to the scene scale
BAND = 1e-12    # tie bands (radius threshold, nearest border point, farthest sub-pixel), relative to scale
TOL32 = 1e-4    # the same two numbers when a coordinate set is handed over in single precision (the code then
BAND32 = 1e-5   # forms the centroid in float32: relative error ~1e-7 of the scale)


# ---------------------------------------------------------------------------------------------
# reference: over-sampled grid, border pixels, farthest sub-pixels
# ---------------------------------------------------------------------------------------------
def sub_list_for(sub, n):
    return [int(sub)] * n if isinstance(sub, int) else [int(s) for s in sub]


def ref_border_pixels(m):
    """Slim indices (row-major over unmasked pixels) of border pixels, from the set definition."""
    h, w = m.shape
    pm = np.pad(m, 1, constant_values=True)
    out = []
    k = 0
    for y in range(h):
        for x in range(w):
            if m[y, x]:
                continue
            edge = bool(pm[y:y + 3, x:x + 3].sum() > 0)  # centre is unmasked, so any True is a neighbour
            clear = bool(m[:y, x].all() or m[y + 1:, x].all() or m[y, :x].all() or m[y, x + 1:].all())
            if edge and clear:
                out.append(k)
            k += 1
    return out


def ref_sub_geometry(m, subs, ps, origin):
    """Returns (scaled centres [N,2], pixel-unit coordinates [N,2] (row, col; row grows downward),
    owner pixel [N], offsets [n+1])."""
    h, w = m.shape
    nat = np.argwhere(~m)
    scaled, pix, owner, offs = [], [], [], [0]
    for k, (i, j) in enumerate(nat):
        s = subs[k]
        yc = -(i - (h - 1) / 2.0) * ps[0] + origin[0]
        xc = (j - (w - 1) / 2.0) * ps[1] + origin[1]
        for a in range(s):
            for b in range(s):
                scaled.append([yc + ps[0] / 2.0 - (a + 0.5) * ps[0] / s, xc - ps[1] / 2.0 + (b + 0.5) * ps[1] / s])
                pix.append([i - 0.5 + (a + 0.5) / s, j - 0.5 + (b + 0.5) / s])
                owner.append(k)
        offs.append(offs[-1] + s * s)
    return (np.asarray(scaled, dtype=float).reshape(-1, 2), np.asarray(pix, dtype=float).reshape(-1, 2),
            np.asarray(owner, dtype=int), offs, nat)


def check_sub_border(ctx, m, subs, got_slim, geom):
    """Validates the implementation's sub-border indices against the statement.  Returns the integer index
    array if it is usable as a border definition, else None (after reporting)."""
    scaled, pix, owner, offs, nat = geom
    border = ref_border_pixels(m)
    g = np.asarray(got_slim)
    if g.ndim != 1 or len(g) != len(border):
        ctx.fail("sub-border/count", "sub_border_slim has shape %s, mask has %d border pixels %s" % (g.shape, len(border), border))
        return None
    ctx.comparisons += 1
    gi = g.astype(int)
    if not np.array_equal(gi, g):
        ctx.fail("sub-border/format", "sub_border_slim not integral: %r" % (g,))
        return None
    n_sub = len(pix)
    if len(gi) and (gi.min() < 0 or gi.max() >= n_sub):
        ctx.fail("sub-border/range", "sub_border_slim %s outside range(%d)" % (gi.tolist(), n_sub))
        return None
    own = owner[gi] if len(gi) else np.zeros(0, dtype=int)
    if not np.array_equal(own, np.asarray(border, dtype=int)):
        if sorted(own.tolist()) == sorted(border):
            ctx.fail("sub-border/order", "sub-border indices belong to border pixels in order %s, border pixels are %s" % (own.tolist(), border))
        else:
            ctx.fail("sub-border/owner", "sub-border indices %s belong to pixels %s, border pixels are %s" % (gi.tolist(), own.tolist(), border))
        return None
    ctx.comparisons += 1
    if not border:
        return gi
    # bounding-box centre, two readings (identical for a uniform sub-size)
    ca = np.array([(pix[:, 0].max() + pix[:, 0].min()) / 2.0, (pix[:, 1].max() + pix[:, 1].min()) / 2.0])
    cb = np.array([(nat[:, 0].max() + nat[:, 0].min()) / 2.0, (nat[:, 1].max() + nat[:, 1].min()) / 2.0])
    uniform = len(set(subs)) == 1
    readings = [ca] if uniform else [ca, cb]
    ext = max(1.0, float(np.abs(pix).max()))
    worst = None
    tie_seen = False
    ok_any = False
    for c in readings:
        bad = None
        for t, k in enumerate(border):
            lo, hi = offs[k], offs[k + 1]
            d = np.sqrt((pix[lo:hi, 0] - c[0]) ** 2 + (pix[lo:hi, 1] - c[1]) ** 2)
            dmax = d.max()
            if int((d >= dmax - BAND * ext).sum()) > 1 and hi - lo > 1:
                tie_seen = True
            dg = d[gi[t] - lo]
            if dg < dmax - BAND * ext:
                bad = (k, int(gi[t]), float(dg), float(dmax), int(lo + int(np.argmax(d))))
                break
        if bad is None:
            ok_any = True
            break
        worst = worst or bad
    if tie_seen:
        ctx.label("subborder:farthest-tie")
    ctx.comparisons += 1
    if not ok_any:
        ctx.fail("sub-border/not-farthest",
                 "border pixel %d: selected sub-pixel %d is %.17g pixels from the bounding-box centre, sub-pixel %d of "
                 "the same pixel is %.17g away (sub sizes %s)" % (worst[0], worst[1], worst[2], worst[4], worst[3],
                                                                  subs if not uniform else subs[0]))
        return None
    return gi


# ---------------------------------------------------------------------------------------------
# reference: relocation rule and invariants
# ---------------------------------------------------------------------------------------------
def _radii(v):
    return np.sqrt(v[:, 0] * v[:, 0] + v[:, 1] * v[:, 1])


def check_relocation(ctx, pfx, got, grid, border, border_rows=(), TOL=TOL, BAND=BAND, label=True):
    """Compares `got` with the statement's rule applied to `grid` against the border point set `border`
    (both taken at their float64 values, whatever dtype they were handed over in).
    `border_rows`: indices of grid rows that are border points themselves.  TOL / BAND: reference tolerance
    and tie band relative to the scene scale (TOL32 / BAND32 when single precision inputs are involved).  Returns (n_moved, n_outer_unmoved)
    according to the reference."""
    grid = np.asarray(grid, dtype=float).reshape(-1, 2)
    border = np.asarray(border, dtype=float).reshape(-1, 2)
    g = np.asarray(got)
    ctx.comparisons += 1
    if g.shape != grid.shape:
        ctx.fail_stop(pfx + "/count", "output shape %s, input shape %s" % (g.shape, grid.shape))
    g = g.astype(float)
    n = len(grid)
    c = np.array([border[:, 0].sum() / len(border), border[:, 1].sum() / len(border)])
    rb = _radii(border - c)
    rmin, rmax = float(rb.min()), float(rb.max())
    v = grid - c
    r = _radii(v)
    scale = max(float(np.abs(c).max()), float(r.max()) if n else 0.0, rmax, 1e-300)
    atol = TOL * scale
    band = BAND * scale
    if not np.all(np.isfinite(g)):
        ctx.fail_stop(pfx + "/non-finite", "non-finite output rows %s" % np.argwhere(~np.isfinite(g).all(axis=1)).ravel()[:5].tolist())

    # expected outcomes per point
    expected = grid.copy()
    alt = {}                    # index -> list of acceptable outcomes when the nearest border point ties
    must_be_identical = np.zeros(n, dtype=bool)
    klass = np.zeros(n, dtype=int)   # 0 interior, 1 threshold band, 2 moved, 3 outer unmoved, 4 tie
    brows = set(int(b) for b in border_rows)
    for i in range(n):
        if r[i] < rmin - band:
            must_be_identical[i] = True
            continue
        if r[i] <= rmin + band:
            klass[i] = 1
            if i not in brows:
                ctx.tie()   # bit-identity not demanded inside the threshold band (closeness still is)
            continue
        d2 = (grid[i, 0] - border[:, 0]) ** 2 + (grid[i, 1] - border[:, 1]) ** 2
        cand = np.flatnonzero(d2 <= d2.min() + BAND * scale * scale)
        outs = []
        for j in cand:
            if rb[j] < r[i]:
                outs.append((True, c + (rb[j] / r[i]) * v[i]))
            else:
                outs.append((False, grid[i].copy()))
        if len(cand) > 1 and (float(rb[cand].max()) - float(rb[cand].min())) > band:
            klass[i] = 4
            ctx.tie()
            alt[i] = [o for _, o in outs]
            expected[i] = outs[0][1]
            continue
        moved, o = outs[0]
        expected[i] = o
        klass[i] = 2 if moved else 3
        if not moved and float(rb[cand].min()) > r[i] * (1.0 + BAND) + band:
            must_be_identical[i] = True
    for i in border_rows:
        must_be_identical[i] = True

    # (1) bit-identity classes
    same = (g == grid).all(axis=1) & (np.signbit(g) == np.signbit(grid)).all(axis=1)      # bit-for-bit: -0.0 stays -0.0
    for i in np.flatnonzero(must_be_identical & ~same)[:1]:
        if int(i) in brows:
            key = "/border-point-changed"
        elif klass[i] == 0:
            key = "/interior-changed"
        else:
            key = "/unmoved-changed"
        ctx.fail(pfx + key, "point %d %s (r=%.17g; border r_min=%.17g r_max=%.17g, centroid %s) returned as %s" % (
            i, grid[i].tolist(), r[i], rmin, rmax, c.tolist(), g[i].tolist()))
    ctx.comparisons += 1

    # (2) invariants independent of the nearest-point choice
    vo = g - c
    ro = _radii(vo)
    outward = ro > r * (1.0 + BAND) + band
    if outward.any():
        i = int(np.flatnonzero(outward)[0])
        ctx.fail(pfx + "/outward", "point %d %s r=%.17g moved outward to %s r=%.17g" % (i, grid[i].tolist(), r[i], g[i].tolist(), ro[i]))
    beyond = ro > rmax * (1.0 + BAND) + band
    if beyond.any():
        i = int(np.flatnonzero(beyond)[0])
        ctx.fail(pfx + "/beyond-max-radius", "output %d %s has r=%.17g > largest border radius %.17g" % (i, g[i].tolist(), ro[i], rmax))
    cross = np.abs(vo[:, 0] * v[:, 1] - vo[:, 1] * v[:, 0])
    dot = vo[:, 0] * v[:, 0] + vo[:, 1] * v[:, 1]
    off = (cross > TOL * scale * np.maximum(r, band)) | (dot < -TOL * scale * np.maximum(r, band))
    if off.any():
        i = int(np.flatnonzero(off)[0])
        ctx.fail(pfx + "/off-ray", "point %d %s -> %s leaves its ray from the centroid %s (cross=%.3g dot=%.3g)" % (
            i, grid[i].tolist(), g[i].tolist(), c.tolist(), cross[i], dot[i]))
    ctx.comparisons += 3

    # (3) the rule itself
    err = np.abs(g - expected).max(axis=1) if n else np.zeros(0)
    badrows = []
    for i in np.flatnonzero(err > atol):
        if i in alt and any(np.abs(g[i] - o).max() <= atol for o in alt[i]):
            continue
        badrows.append(int(i))
    ctx.comparisons += 1
    if badrows:
        # permutation of the expected rows -> order defect
        if not alt:
            gs = g[np.lexsort((g[:, 1], g[:, 0]))]
            es = expected[np.lexsort((expected[:, 1], expected[:, 0]))]
            if np.abs(gs - es).max() <= atol:
                ctx.fail(pfx + "/order", "output rows are a permutation of the expected rows; first misplaced row %d" % badrows[0])
        i = badrows[0]
        if np.asarray(got).dtype.kind in "iub":
            ctx.fail(pfx + "/integer-output", "output has dtype %s: point %d %s relocated to %s, want %s" % (
                np.asarray(got).dtype, i, grid[i].tolist(), g[i].tolist(), expected[i].tolist()))
        if klass[i] in (2, 4) and np.abs(g[i] - grid[i]).max() <= atol:
            key = "/not-moved"
        elif klass[i] in (2, 4):
            key = "/moved-wrong"
        else:
            key = "/unmoved-moved"
        ctx.fail(pfx + key, "point %d %s (r=%.17g): got %s want %s (centroid %s, r_min=%.17g, %d border points, atol=%.3g)" % (
            i, grid[i].tolist(), r[i], g[i].tolist(), expected[i].tolist(), c.tolist(), rmin, len(border), atol))
    n_moved = int((klass == 2).sum())
    n_outer_unmoved = int((klass == 3).sum())
    if not label:
        return n_moved, n_outer_unmoved
    tag = pfx.split("/")[-1]
    ctx.label("%s:has-interior" % tag if (klass == 0).any() else "%s:no-interior" % tag)
    if (klass == 4).any():
        ctx.label("%s:nearest-tie" % tag)
    if n_moved:
        ctx.label("%s:moved" % tag)
    if n_outer_unmoved:
        ctx.label("%s:outer-unmoved" % tag)
    if n_moved and n_outer_unmoved:
        ctx.label("%s:moved+outer-unmoved" % tag)
    return n_moved, n_outer_unmoved


# ---------------------------------------------------------------------------------------------
# coordinate sets in the dtypes a caller can hand over
# ---------------------------------------------------------------------------------------------
FLOAT_KINDS = ["float64", "float64", "float64", "float32", "pylist"]
WHOLE_KINDS = ["float64", "int64", "int64", "int32", "int32", "float32", "pylist"]


def as_input(values, kind, whole, allow_list=True):
    """Returns (container, ref): `container` is a fresh object of the requested kind (float64 / float32 / int64 /
    int32 ndarray, or a nested Python list - of ints when `whole`), `ref` the float64 values of exactly what is
    handed over (the reference works on these).  `whole` rounds to whole numbers first."""
    v = np.array(values, dtype=float).reshape(-1, 2)
    if whole:
        v = np.rint(v)
    if kind == "pylist" and not allow_list:
        kind = "int64" if whole else "float64"
    if kind in ("int64", "int32"):
        assert whole
        arr = v.astype(kind)
    elif kind == "float32":
        arr = v.astype(np.float32)
    elif kind == "pylist":
        arr = [[int(a), int(b)] for a, b in v] if whole else v.tolist()
    else:
        arr = v.copy()
    return arr, np.array(arr, dtype=float).reshape(-1, 2)


def whole_factor(whole, extent, maxabs):
    """Scale factor that spreads `extent` over `whole` units while keeping |coordinates| <= 1e4."""
    return min(float(whole) / max(extent, 1e-9), 1.0e4 / max(maxabs, 1e-9))


def draw_dtypes(draw):
    whole = draw(st.sampled_from([None, None, None, 8, 20, 60]))
    kinds = WHOLE_KINDS if whole else FLOAT_KINDS
    return whole, draw(st.sampled_from(kinds)), draw(st.sampled_from(kinds))


def tolerances(*kinds):
    return (TOL32, BAND32) if "float32" in kinds else (TOL, BAND)


def rows_on_border(pts_ref, border_ref, candidates):
    """Rows among `candidates` whose float64 value equals a border point exactly."""
    out = []
    for i in candidates:
        if len(border_ref) and bool(((border_ref == pts_ref[i]).all(axis=1)).any()):
            out.append(int(i))
    return out


class Kept:
    """Results handed out earlier must not change when the same code serves later calls."""

    def __init__(self, ctx, key):
        self.ctx, self.key, self.items = ctx, key, []

    def add(self, name, obj):
        self.items.append((name, obj, np.array(obj, copy=True)))

    def recheck(self, after):
        for name, obj, snap in self.items:
            now = np.asarray(obj)
            self.ctx.comparisons += 1
            if now.shape != snap.shape or not np.array_equal(now, snap):
                bad = np.argwhere(now != snap)[:1].tolist() if now.shape == snap.shape else "shape"
                self.ctx.fail(self.key, "the array returned by %s changed after %s (first difference at %s)" % (name, after, bad))


# ---------------------------------------------------------------------------------------------
# sub-check: the relocation kernel on arbitrary border point sets
# ---------------------------------------------------------------------------------------------
@st.composite
def kernel_case(draw):
    kind = draw(st.sampled_from(["ring", "star", "star", "cluster", "cluster", "line", "blob", "dup", "single"]))
    cy, cx = draw(gens.reals(-20, 20)), draw(gens.reals(-20, 20))
    border = []
    if kind in ("ring", "star"):
        nb = draw(st.integers(3, 16))
        r0 = draw(st.floats(0.5, 5.0))
        ph = draw(st.floats(0.0, 6.28))
        for k in range(nb):
            rr = r0 * (draw(st.floats(0.25, 0.6)) if (kind == "star" and k % 2) else draw(st.floats(0.9, 1.1)))
            a = ph + 2 * math.pi * k / nb
            border.append([cy + rr * math.sin(a), cx + rr * math.cos(a)])
    elif kind == "cluster":
        nb = draw(st.integers(4, 20))
        far = draw(st.integers(1, 3))
        for k in range(nb):
            if k < far:
                border.append([cy + draw(gens.reals(4, 12)), cx + draw(gens.reals(-12, 12))])
            else:
                border.append([cy + draw(gens.reals(-1, 1)), cx + draw(gens.reals(-1, 1))])
    elif kind == "line":
        nb = draw(st.integers(2, 8))
        dy, dx = draw(gens.reals(-2, 2)), draw(gens.reals(-2, 2, allow_zero=False))
        for k in range(nb):
            t = draw(gens.reals(-3, 3))
            border.append([cy + t * dy, cx + t * dx])
    elif kind == "blob":
        nb = draw(st.integers(1, 24))
        for k in range(nb):
            border.append([cy + draw(gens.reals(-5, 5)), cx + draw(gens.reals(-5, 5))])
    elif kind == "dup":
        nb = draw(st.integers(2, 6))
        base = [[cy + draw(gens.reals(-5, 5)), cx + draw(gens.reals(-5, 5))] for _ in range(nb)]
        border = base + [list(base[draw(st.integers(0, nb - 1))]) for _ in range(draw(st.integers(1, 4)))]
    else:
        border = [[cy, cx]]
    nb = len(border)
    npts = draw(st.integers(1, 24))
    pts = []
    for _ in range(npts):
        pk = draw(st.sampled_from(["ray", "ray", "ray", "copy", "free", "near-centre", "between", "negzero"]))
        if pk == "ray":
            f = draw(st.one_of(st.floats(0.0, 4.0), st.sampled_from([0.5, 1.0, 1.5, 2.0, 10.0, 100.0])))
            pts.append({"k": "ray", "b": draw(st.integers(0, nb - 1)), "f": f})
        elif pk == "copy":
            pts.append({"k": "copy", "b": draw(st.integers(0, nb - 1))})
        elif pk == "free":
            pts.append({"k": "free", "p": [cy + draw(gens.reals(-15, 15)), cx + draw(gens.reals(-15, 15))]})
        elif pk == "negzero":
            pts.append({"k": "negzero", "axis": draw(st.integers(0, 1)), "o": draw(gens.reals(-3, 3))})
        elif pk == "near-centre":
            pts.append({"k": "centre", "p": [draw(gens.reals(-0.3, 0.3)), draw(gens.reals(-0.3, 0.3))]})
        else:
            pts.append({"k": "between", "b": draw(st.integers(0, nb - 1)), "b2": draw(st.integers(0, nb - 1)),
                        "f": draw(st.floats(0.5, 3.0))})
    whole, gk, bk = draw_dtypes(draw)
    return {"kind": kind, "border": border, "points": pts, "whole": whole, "grid_dtype": gk, "border_dtype": bk}


def _kernel_points(case):
    border = np.asarray(case["border"], dtype=float)
    c = border.mean(axis=0)
    out = []
    for p in case["points"]:
        if p["k"] == "ray":
            out.append(c + p["f"] * (border[p["b"]] - c))
        elif p["k"] == "copy":
            out.append(border[p["b"]].copy())
        elif p["k"] == "free":
            out.append(np.asarray(p["p"], dtype=float))
        elif p["k"] == "centre":
            out.append(c + np.asarray(p["p"], dtype=float))
        elif p["k"] == "negzero":                     # one component exactly -0.0 (the sign bit is part of "bit-for-bit")
            q = np.array([c[0] + p["o"], c[1] + 0.5 * p["o"]])
            q[p["axis"]] = -0.0
            out.append(q)
        else:
            mid = 0.5 * (border[p["b"]] + border[p["b2"]])
            out.append(c + p["f"] * (mid - c))
    return border, np.asarray(out, dtype=float).reshape(-1, 2)


def body_kernel(case, ctx):
    from autoarray.structures.grids import grid_2d_util
    border, pts = _kernel_points(case)
    ctx.label("border:%s" % case["kind"])
    for p in case["points"]:
        ctx.label("pt:%s" % p["k"])
    whole = case.get("whole")
    gk, bk = case.get("grid_dtype", "float64"), case.get("border_dtype", "float64")
    gk = ("int64" if whole else "float64") if gk == "pylist" else gk     # the util kernel takes ndarrays only
    bk = ("int64" if whole else "float64") if bk == "pylist" else bk
    c = border.mean(axis=0)
    if whole:
        q = whole_factor(whole, float(np.abs(border - c).max()), max(float(np.abs(border).max()), float(np.abs(pts).max())))
        border, pts, c = border * q, pts * q, c * q
    ctx.label("dtype:grid-%s" % gk, "dtype:border-%s" % bk, "values:whole" if whole else "values:real")
    if gk != bk:
        ctx.label("dtype:mixed")
    tol, band = tolerances(gk, bk)
    border_in, border_ref = as_input(border, bk, whole, allow_list=False)
    grid_in, pts_ref = as_input(pts, gk, whole, allow_list=False)
    got = grid_2d_util.relocated_grid_via_jit_from(grid=grid_in, border_grid=border_in)
    copies = rows_on_border(pts_ref, border_ref, [i for i, p in enumerate(case["points"]) if p["k"] == "copy"])
    moved, outer = check_relocation(ctx, "kernel", got, pts_ref, border_ref, border_rows=copies, TOL=tol, BAND=band)
    ctx.nt(moved >= 1 and outer >= 1)
    # a later call with another coordinate set of the same shape must leave the earlier result alone
    kept = Kept(ctx, "kernel/kept-result-changed")
    kept.add("the first call", got)
    grid2_in, pts2_ref = as_input(c + 1.375 * (pts - c) + 0.25, gk, whole, allow_list=False)
    got2 = grid_2d_util.relocated_grid_via_jit_from(grid=grid2_in, border_grid=as_input(border, bk, whole, allow_list=False)[0])
    kept.recheck("a second call with an equally shaped coordinate set")
    check_relocation(ctx, "kernel", got2, pts2_ref, border_ref, border_rows=(), TOL=tol, BAND=band, label=False)
    ties = ctx.ties     # same points, same bands: not counted twice
    check_relocation(ctx, "kernel/kept", got, pts_ref, border_ref, border_rows=copies, TOL=tol, BAND=band, label=False)
    ctx.ties = ties


# ---------------------------------------------------------------------------------------------
# scenes for BorderRelocator / meshes
# ---------------------------------------------------------------------------------------------
@st.composite
def reloc_case(draw, max_inner=8, with_mesh_type=False, with_vertex_class=False):
    ring = draw(st.sampled_from([1, 1, 1, 2, 1, 1, 0, 0]))
    mask = draw(gens.masks(lo=2 * ring + 1, hi=max_inner + 2 * ring, ring=ring, min_unmasked=1))
    n = sum(1 for row in mask for v in row if not v)
    per_pixel = draw(st.sampled_from([False, False, True]))
    if per_pixel:
        sub = draw(st.lists(st.integers(1, 3), min_size=n, max_size=n))
        sub_form = draw(st.sampled_from(["array2d", "ndarray"]))
    else:
        sub = draw(st.sampled_from([1, 1, 2, 2, 3, 4]))
        sub_form = draw(st.sampled_from(["int", "int", "array2d", "ndarray"]))
    subs = sub_list_for(sub, n)
    total = sum(s * s for s in subs)
    case = {
        "mask": mask, "pixel_scales": draw(gens.pixel_scales()), "origin": draw(gens.origins(mag=50.0)),
        "sub": sub, "sub_form": sub_form, "warp": draw(scene.warps()),
    }
    k_out = draw(st.integers(0, min(total, 10)))
    case["push"] = [[draw(st.integers(0, total - 1)),
                     draw(st.one_of(st.floats(1.5, 4.0), st.floats(1.5, 4.0), st.sampled_from([10.0, 100.0])))]
                    for _ in range(k_out)]
    case["pull"] = [[draw(st.integers(0, total - 1)), draw(st.floats(0.0, 0.6))] for _ in range(draw(st.integers(0, 4)))]
    case["snap"] = [[draw(st.integers(0, total - 1)), draw(st.integers(0, 50))] for _ in range(draw(st.integers(0, 3)))]
    nv = draw(st.integers(3, 10))
    case["vertices"] = [[draw(st.floats(-1.5, 2.5)), draw(st.floats(-1.5, 2.5))] for _ in range(nv)]
    case["vertex_inner"] = [[draw(st.integers(0, nv - 1)), draw(st.floats(0.0, 0.2))] for _ in range(draw(st.integers(0, 2)))]
    case["vertex_snap"] = [[draw(st.integers(0, nv - 1)), draw(st.integers(0, 50))] for _ in range(draw(st.integers(0, 2)))]
    case["whole"], case["grid_dtype"], case["mesh_dtype"] = draw_dtypes(draw)
    if with_vertex_class:
        case["vertex_class"] = draw(st.sampled_from(["inside", "outside", "mixed", "mixed"]))
    if with_mesh_type:
        case["mesh"] = draw(st.sampled_from(["rectangular", "delaunay", "delaunay", "voronoi"]))
        case["rect_shape"] = [draw(st.integers(3, 5)), draw(st.integers(3, 5))]
    return case


class _Scene:
    pass


def build_reloc_scene(case, ctx):
    """Mask, relocator, validated sub-border indices, source grid, mesh vertices."""
    import autoarray as aa
    s = _Scene()
    m = np.asarray(case["mask"], dtype=bool)
    s.m = m
    ps, origin = case["pixel_scales"], case["origin"]
    s.mask = aa.Mask2D(mask=m.copy(), pixel_scales=tuple(ps), origin=tuple(origin))
    n = int((~m).sum())
    subs = sub_list_for(case["sub"], n)
    s.subs = subs
    form = case["sub_form"]
    if form == "int":
        sub_arg = int(case["sub"])
    elif form == "array2d":
        sub_arg = aa.Array2D(values=np.asarray(subs, dtype=int), mask=s.mask)
    else:
        sub_arg = np.asarray(subs, dtype=int)
    for l in gens.mask_stats(m):
        ctx.label(l)
    ctx.label("sub:%s" % ("per-pixel" if len(set(subs)) > 1 else "uniform%d" % subs[0]), "subform:%s" % form)
    ctx.label("ps:aniso" if ps[0] != ps[1] else "ps:iso")
    s.relocator = aa.BorderRelocator(mask=s.mask, sub_size=sub_arg)
    s.geom = ref_sub_geometry(m, subs, ps, origin)
    s.border_pixels = ref_border_pixels(m)
    if not s.border_pixels:
        ctx.label("border:empty")
        return None
    gi = check_sub_border(ctx, m, subs, s.relocator.sub_border_slim, s.geom)
    if gi is None:
        from vp.engine import KnownSkip
        raise KnownSkip("sub-border")
    s.bidx = gi
    base = s.geom[0]
    src = scene.apply_warp(base, case["warp"], np.asarray(origin, dtype=float))
    c0 = src.mean(axis=0)
    for idx, f in case["push"]:
        src[idx] = c0 + f * (src[idx] - c0)
    for idx, f in case["pull"]:
        src[idx] = c0 + f * (src[idx] - c0)
    bset = set(int(b) for b in gi)
    for idx, k in case["snap"]:
        if idx not in bset:
            src[idx] = src[gi[k % len(gi)]]
    s.src = src
    lo = src.min(axis=0)
    hi = src.max(axis=0)
    span = np.maximum(hi - lo, 1e-3)
    verts = lo + np.asarray(case["vertices"], dtype=float) * span
    cb = src[gi].mean(axis=0)
    vclass = case.get("vertex_class", "mixed")
    if vclass in ("inside", "outside"):
        # every vertex inside the smallest / outside the largest border radius, directions kept
        rbs = np.sqrt(((src[gi] - cb) ** 2).sum(axis=1))
        for k in range(len(verts)):
            d = verts[k] - cb
            nd = float(np.sqrt((d ** 2).sum()))
            d = d / nd if nd > 0 else np.array([1.0, 0.0])
            frac = (0.37 * (k + 1)) % 1.0
            rad = 0.9 * frac * float(rbs.min()) if vclass == "inside" else (1.5 + 2.0 * frac) * max(float(rbs.max()), 1e-3 * float(span.max()))
            verts[k] = cb + rad * d
    else:
        for idx, f in case.get("vertex_inner", []):
            verts[idx] = cb + f * (verts[idx] - cb)     # vertices well inside the smallest border radius
        for idx, k in case["vertex_snap"]:
            verts[idx] = src[gi[k % len(gi)]]
    # dtype classes: optionally whole-number coordinates, handed over as float64 / float32 / int64 / int32 arrays
    # or nested Python lists; `src` / `verts` are the float64 values of what is handed over
    s.whole = case.get("whole")
    s.gk, s.mk = case.get("grid_dtype", "float64"), case.get("mesh_dtype", "float64")
    if s.whole:
        q = whole_factor(s.whole, float(span.max()), max(float(np.abs(src).max()), float(np.abs(verts).max())))
        src, verts = src * q, verts * q
    s.tol, s.band = tolerances(s.gk, s.mk)
    s.src = as_input(src, s.gk, s.whole)[1]
    s.verts = as_input(verts, s.mk, s.whole)[1]
    s.vertex_border_rows = rows_on_border(s.verts, s.src[gi], [idx for idx, _ in case["vertex_snap"]])
    ctx.label("dtype:grid-%s" % s.gk, "dtype:mesh-%s" % s.mk, "values:whole" if s.whole else "values:real")
    if s.gk != s.mk:
        ctx.label("dtype:mixed")
    return s


def grid_input(s, values):
    """A fresh Grid2DIrregular of the scene's data-grid kind and the float64 values it holds."""
    import autoarray as aa
    arr, ref = as_input(values, s.gk, s.whole)
    return aa.Grid2DIrregular(values=arr), ref


def mesh_input(s, values):
    import autoarray as aa
    arr, ref = as_input(values, s.mk, s.whole)
    return aa.Grid2DIrregular(values=arr), ref


def body_relocator(case, ctx):
    s = build_reloc_scene(case, ctx)
    if s is None:
        return
    kw = dict(TOL=s.tol, BAND=s.band)
    border = s.src[s.bidx]
    brows = [int(b) for b in s.bidx]
    kept = Kept(ctx, "relocator/kept-result-changed")
    grid, _ = grid_input(s, s.src)
    got = s.relocator.relocated_grid_from(grid=grid)
    ctx.check(len(got) == len(s.src), "relocator/grid/count", "relocated grid has %d rows, input %d" % (len(got), len(s.src)))
    moved, outer = check_relocation(ctx, "relocator/grid", np.asarray(got), s.src, border, border_rows=brows, **kw)
    ctx.nt(moved >= 1 and outer >= 1)
    kept.add("relocated_grid_from (first call)", got)
    mesh_in, _ = mesh_input(s, s.verts)
    gotm = s.relocator.relocated_mesh_grid_from(grid=grid, mesh_grid=mesh_in)
    check_relocation(ctx, "relocator/mesh", np.asarray(gotm), s.verts, border, border_rows=s.vertex_border_rows, **kw)
    kept.recheck("relocated_mesh_grid_from")
    kept.add("relocated_mesh_grid_from (first call)", gotm)
    # a second call returns the same answer (cached sub-border indices)
    again = s.relocator.relocated_grid_from(grid=grid_input(s, s.src)[0])
    ctx.equal(np.asarray(again), np.asarray(got), "relocator/grid/repeat", "second relocated_grid_from call")
    kept.recheck("a second relocated_grid_from call on an equal grid")
    # the same relocator then serves a different source-plane grid (one relocator per dataset serves every model):
    # mesh and data relocation must use the border of the grid they are given, not of an earlier one
    # (added after the independently seeded change C18b)
    c0 = s.src.mean(axis=0)
    span = np.maximum(s.src.max(axis=0) - s.src.min(axis=0), 1e-3)
    grid2, src2 = grid_input(s, c0 + 1.75 * (s.src - c0) + np.array([0.375, -0.25]) * span)
    mesh2, verts2 = mesh_input(s, c0 + 1.75 * (s.verts - c0) + np.array([0.375, -0.25]) * span)
    border2 = src2[s.bidx]
    vrows2 = rows_on_border(verts2, border2, s.vertex_border_rows)
    gotm2 = s.relocator.relocated_mesh_grid_from(grid=grid2, mesh_grid=mesh2)
    check_relocation(ctx, "relocator/reuse/mesh", np.asarray(gotm2), verts2, border2, border_rows=vrows2, label=False, **kw)
    kept.recheck("relocated_mesh_grid_from on a second grid (equally many vertices)")
    kept.add("relocated_mesh_grid_from (second grid)", gotm2)
    got2 = s.relocator.relocated_grid_from(grid=grid2)
    check_relocation(ctx, "relocator/reuse/grid", np.asarray(got2), src2, border2, border_rows=brows, label=False, **kw)
    kept.recheck("relocated_grid_from on a second grid (equal length)")
    kept.add("relocated_grid_from (second grid)", got2)
    gotm3 = s.relocator.relocated_mesh_grid_from(grid=grid, mesh_grid=mesh_input(s, s.verts)[0])
    check_relocation(ctx, "relocator/reuse/mesh-back", np.asarray(gotm3), s.verts, border, border_rows=s.vertex_border_rows,
                     label=False, **kw)
    kept.recheck("relocated_mesh_grid_from back on the first grid")
    # a mesh with exactly as many vertices as the data grid has sub-pixels (the two result shapes coincide)
    meshn, vertsn = mesh_input(s, c0 + 1.3 * (s.src[::-1] - c0) - np.array([0.125, 0.3125]) * span)
    gotmn = s.relocator.relocated_mesh_grid_from(grid=grid, mesh_grid=meshn)
    check_relocation(ctx, "relocator/reuse/mesh-as-long-as-grid", np.asarray(gotmn), vertsn, border,
                     border_rows=rows_on_border(vertsn, border, range(len(vertsn))), label=False, **kw)
    kept.recheck("relocated_mesh_grid_from with as many vertices as the data grid has points")
    # the results handed out first still satisfy their own oracle after all later calls
    ties = ctx.ties     # same points, same bands: not counted twice
    check_relocation(ctx, "relocator/kept/grid", np.asarray(got), s.src, border, border_rows=brows, label=False, **kw)
    check_relocation(ctx, "relocator/kept/mesh", np.asarray(gotm), s.verts, border, border_rows=s.vertex_border_rows,
                     label=False, **kw)
    ctx.ties = ties


def _mapper_grids(s, case, grid, mesh_grid):
    import autoarray as aa
    kind = case["mesh"]
    if kind == "rectangular":
        mesh = aa.mesh.Rectangular(shape=tuple(case["rect_shape"]))
        return mesh.mapper_grids_from(mask=s.mask, source_plane_data_grid=grid, border_relocator=s.relocator)
    mesh = aa.mesh.Delaunay() if kind == "delaunay" else aa.mesh.Voronoi()
    return mesh.mapper_grids_from(mask=s.mask, source_plane_data_grid=grid, border_relocator=s.relocator,
                                  source_plane_mesh_grid=mesh_grid)


def body_mesh(case, ctx):
    s = build_reloc_scene(case, ctx)
    if s is None:
        return
    kw = dict(TOL=s.tol, BAND=s.band)
    border = s.src[s.bidx]
    brows = [int(b) for b in s.bidx]
    kind = case["mesh"]
    ctx.label("mesh:%s" % kind)
    mg = _mapper_grids(s, case, grid_input(s, s.src)[0], mesh_input(s, s.verts)[0])
    moved, outer = check_relocation(ctx, "mesh/%s/data-grid" % kind, np.asarray(mg.source_plane_data_grid), s.src, border,
                                    border_rows=brows, **kw)
    ctx.nt(moved >= 1 and outer >= 1)
    kept = Kept(ctx, "mesh/%s/kept-result-changed" % kind)
    kept.add("mapper_grids_from(...).source_plane_data_grid", mg.source_plane_data_grid)
    if kind != "rectangular":
        check_relocation(ctx, "mesh/%s/mesh-grid" % kind, np.asarray(mg.source_plane_mesh_grid), s.verts, border,
                         border_rows=s.vertex_border_rows, **kw)
        kept.add("mapper_grids_from(...).source_plane_mesh_grid", mg.source_plane_mesh_grid)
    # the same relocator builds the grids of a second model; the first model's grids must stay what they were
    c0 = s.src.mean(axis=0)
    span = np.maximum(s.src.max(axis=0) - s.src.min(axis=0), 1e-3)
    grid2, src2 = grid_input(s, c0 + 1.75 * (s.src - c0) + np.array([0.375, -0.25]) * span)
    mesh2, verts2 = mesh_input(s, c0 + 1.75 * (s.verts - c0) + np.array([0.375, -0.25]) * span)
    border2 = src2[s.bidx]
    mg2 = _mapper_grids(s, case, grid2, mesh2)
    kept.recheck("a second mapper_grids_from call with the same relocator")
    check_relocation(ctx, "mesh/%s/reuse/data-grid" % kind, np.asarray(mg2.source_plane_data_grid), src2, border2,
                     border_rows=brows, label=False, **kw)
    if kind != "rectangular":
        check_relocation(ctx, "mesh/%s/reuse/mesh-grid" % kind, np.asarray(mg2.source_plane_mesh_grid), verts2, border2,
                         border_rows=rows_on_border(verts2, border2, s.vertex_border_rows), label=False, **kw)


def _mapper_grids_opts(s, case, grid, mesh_grid, relocator, preloads):
    import autoarray as aa
    kind = case["mesh"]
    kwargs = {} if preloads is None else {"preloads": preloads}
    if kind == "rectangular":
        mesh = aa.mesh.Rectangular(shape=tuple(case["rect_shape"]))
        return mesh.mapper_grids_from(mask=s.mask, source_plane_data_grid=grid, border_relocator=relocator, **kwargs)
    mesh = aa.mesh.Delaunay() if kind == "delaunay" else aa.mesh.Voronoi()
    return mesh.mapper_grids_from(mask=s.mask, source_plane_data_grid=grid, border_relocator=relocator,
                                  source_plane_mesh_grid=mesh_grid, **kwargs)


def body_preload(case, ctx):
    """mapper_grids_from with / without a border relocator x with / without Preloads(relocated_grid=...): the
    preload stands for the relocated DATA grid only; the mesh vertices handed back must still obey the rule."""
    import autoarray as aa
    s = build_reloc_scene(case, ctx)
    if s is None:
        return
    kw = dict(TOL=s.tol, BAND=s.band)
    border = s.src[s.bidx]
    brows = [int(b) for b in s.bidx]
    kind = case["mesh"]
    tri = kind != "rectangular"
    ctx.label("mesh:%s" % kind, "vertices:%s" % case.get("vertex_class", "mixed"))
    pfx = "preload/%s" % kind

    def inputs():
        return grid_input(s, s.src)[0], mesh_input(s, s.verts)[0]

    # A: relocator, no preload (control)
    g, v = inputs()
    mg_a = _mapper_grids_opts(s, case, g, v, s.relocator, None)
    data_a = np.array(mg_a.source_plane_data_grid, copy=True)
    moved, outer = check_relocation(ctx, pfx + "/relocator/data-grid", data_a, s.src, border, border_rows=brows, **kw)
    mesh_a = np.array(mg_a.source_plane_mesh_grid, copy=True)
    vm = 0
    if tri:
        vm, vo = check_relocation(ctx, pfx + "/relocator/mesh-grid", mesh_a, s.verts, border,
                                  border_rows=s.vertex_border_rows, **kw)
        ctx.label("vertices-moved:%s" % ("none" if vm == 0 else ("all" if vm == len(s.verts) else "some")))
    ctx.nt((vm >= 1) if tri else (moved >= 1 and outer >= 1))
    # B: relocator and the relocated data grid of the same inputs as a preload
    g, v = inputs()
    pre = aa.Preloads(relocated_grid=aa.Grid2DIrregular(values=data_a.copy()))
    mg_b = _mapper_grids_opts(s, case, g, v, s.relocator, pre)
    ctx.equal(np.asarray(mg_b.source_plane_data_grid), data_a, pfx + "/relocator+preload/data-grid",
              "data grid with Preloads(relocated_grid) vs the one obtained without preloads")
    if tri:
        ties = ctx.ties
        check_relocation(ctx, pfx + "/relocator+preload/mesh-grid", np.asarray(mg_b.source_plane_mesh_grid), s.verts, border,
                         border_rows=s.vertex_border_rows, label=False, **kw)
        ctx.ties = ties
    ctx.equal(np.asarray(mg_b.source_plane_mesh_grid), mesh_a, pfx + "/relocator+preload/mesh-grid-vs-control",
              "mesh grid with Preloads(relocated_grid) vs the one obtained without preloads")
    # C: no relocator, no preload: nothing is relocated
    g, v = inputs()
    mg_c = _mapper_grids_opts(s, case, g, v, None, None)
    ctx.equal(np.asarray(mg_c.source_plane_data_grid, dtype=float), s.src, pfx + "/no-relocator/data-grid",
              "data grid without a border relocator vs input")
    if tri:
        ctx.equal(np.asarray(mg_c.source_plane_mesh_grid, dtype=float), s.verts, pfx + "/no-relocator/mesh-grid",
                  "mesh vertices without a border relocator vs input")
    # D: no relocator but a preloaded relocated grid: the preload may stand in for the data grid, the vertices are
    # not relocated (there is no relocator to apply the rule)
    g, v = inputs()
    pre = aa.Preloads(relocated_grid=aa.Grid2DIrregular(values=data_a.copy()))
    mg_d = _mapper_grids_opts(s, case, g, v, None, pre)
    dd = np.asarray(mg_d.source_plane_data_grid, dtype=float)
    ctx.check(dd.shape == s.src.shape and (np.array_equal(dd, data_a) or np.array_equal(dd, s.src)),
              pfx + "/preload-only/data-grid", "data grid with a preload and no relocator is neither the preload nor the input")
    if tri:
        ctx.equal(np.asarray(mg_d.source_plane_mesh_grid, dtype=float), s.verts, pfx + "/preload-only/mesh-grid",
                  "mesh vertices with a preload and no border relocator vs input")


# ---------------------------------------------------------------------------------------------
# sub-check: sub-border indices and grid
# ---------------------------------------------------------------------------------------------
@st.composite
def subborder_case(draw):
    ring = draw(st.sampled_from([1, 1, 1, 2, 0, 0]))
    mask = draw(gens.masks(lo=2 * ring + 1, hi=10, ring=ring, min_unmasked=1))
    n = sum(1 for row in mask for v in row if not v)
    per_pixel = draw(st.booleans())
    if per_pixel:
        sub = draw(st.lists(st.integers(1, 4), min_size=n, max_size=n))
        sub_form = draw(st.sampled_from(["array2d", "ndarray"]))
    else:
        sub = draw(st.integers(1, 5))
        sub_form = draw(st.sampled_from(["int", "array2d", "ndarray"]))
    return {"mask": mask, "pixel_scales": draw(gens.pixel_scales()), "origin": draw(gens.origins(mag=50.0)),
            "sub": sub, "sub_form": sub_form}


def body_subborder(case, ctx):
    import autoarray as aa
    from autoarray.inversion.pixelization import border_relocator as brmod
    m = np.asarray(case["mask"], dtype=bool)
    ps, origin = case["pixel_scales"], case["origin"]
    mask = aa.Mask2D(mask=m.copy(), pixel_scales=tuple(ps), origin=tuple(origin))
    n = int((~m).sum())
    subs = sub_list_for(case["sub"], n)
    form = case["sub_form"]
    if form == "int":
        sub_arg = int(case["sub"])
    elif form == "array2d":
        sub_arg = aa.Array2D(values=np.asarray(subs, dtype=int), mask=mask)
    else:
        sub_arg = np.asarray(subs, dtype=int)
    for l in gens.mask_stats(m):
        ctx.label(l)
    ctx.label("sub:%s" % ("per-pixel" if len(set(subs)) > 1 else "uniform"), "subform:%s" % form)
    ctx.label("ps:aniso" if ps[0] != ps[1] else "ps:iso")
    geom = ref_sub_geometry(m, subs, ps, origin)
    border = ref_border_pixels(m)
    ctx.nt(len(border) >= 3 and any(subs[k] >= 2 for k in border))
    br = aa.BorderRelocator(mask=mask, sub_size=sub_arg)
    gi = check_sub_border(ctx, m, subs, br.sub_border_slim, geom)
    # the module-level function (the documented mechanism) must agree with the cached attribute
    direct = brmod.sub_border_pixel_slim_indexes_from(mask_2d=m.copy(), sub_size=np.asarray(subs, dtype=int))
    gd = check_sub_border(ctx, m, subs, direct, geom)
    if gi is None:
        return
    if gd is not None:
        ctx.equal(gd, gi, "sub-border/function-vs-attribute", "sub_border_pixel_slim_indexes_from vs BorderRelocator.sub_border_slim")
    sbg = np.asarray(br.sub_border_grid, dtype=float)
    want = geom[0][gi] if len(gi) else np.zeros((0, 2))
    scale = max(1.0, float(np.abs(geom[0]).max()))
    ctx.close(sbg.reshape(-1, 2), want, "sub-border/grid-view", atol=1e-9 * scale,
              what="sub_border_grid vs closed-form centres of the selected sub-pixels")


# ---------------------------------------------------------------------------------------------
# sub-check: several masks in one process (one flattened pattern re-wrapped to different shapes)
# ---------------------------------------------------------------------------------------------
def _factor_pairs(n):
    return [[h, n // h] for h in range(1, n + 1) if n % h == 0]


@st.composite
def rewrap_case(draw):
    total = draw(st.sampled_from([12, 12, 16, 18, 20, 24, 24, 30, 36]))
    pk = draw(st.sampled_from(["all-unmasked", "all-unmasked", "bernoulli", "bernoulli", "bernoulli", "run"]))
    if pk == "all-unmasked":
        pattern = [False] * total
    elif pk == "bernoulli":
        p = draw(st.sampled_from([5, 7, 9]))
        pattern = [not (b < p) for b in draw(st.lists(st.integers(0, 9), min_size=total, max_size=total))]
    else:
        a = draw(st.integers(0, total - 1)); b = draw(st.integers(a, total - 1))
        pattern = [not (a <= i <= b) for i in range(total)]
    if all(pattern):
        pattern[draw(st.integers(0, total - 1))] = False
    n = sum(1 for v in pattern if not v)
    pairs = _factor_pairs(total)
    nsteps = draw(st.integers(2, 4))
    sub_mode = draw(st.sampled_from(["same", "same", "same", "per-step"]))
    per_pixel = draw(st.sampled_from([False, False, True]))

    def draw_sub():
        if per_pixel:
            return draw(st.lists(st.integers(1, 3), min_size=n, max_size=n))
        return draw(st.integers(1, 3))

    sub0 = draw_sub()
    geo_mode = draw(st.sampled_from(["same", "same", "per-step"]))
    ps0, or0 = draw(gens.pixel_scales()), draw(gens.origins(mag=20.0))
    order = draw(st.permutations(pairs))
    shapes = [order[k % len(order)] for k in range(nsteps)]        # distinct shapes first ...
    if nsteps >= 3 and draw(st.integers(0, 2)) == 0:
        shapes[-1] = shapes[0]                                     # ... sometimes back to the first (A, B, A)
    if draw(st.integers(0, 5)) == 0:
        shapes[1] = shapes[0]                                      # ... or the same shape twice (other geometry / sub-size)
    steps = []
    for k in range(nsteps):
        shape = list(shapes[k])
        sub = sub0 if sub_mode == "same" else draw_sub()
        step = {
            "shape": shape, "sub": sub,
            "sub_form": draw(st.sampled_from(["array2d", "ndarray"] if isinstance(sub, list) else ["int", "array2d", "ndarray"])),
            "pixel_scales": ps0 if geo_mode == "same" else draw(gens.pixel_scales()),
            "origin": or0 if geo_mode == "same" else draw(gens.origins(mag=20.0)),
            "push": [[draw(st.integers(0, 10 ** 6)), draw(st.floats(1.5, 4.0))] for _ in range(draw(st.integers(1, 4)))],
            "stretch": [draw(st.floats(0.5, 2.0)), draw(st.floats(0.5, 2.0))],
        }
        steps.append(step)
    return {"pattern": pattern, "pattern_kind": pk, "steps": steps}


def body_rewrap(case, ctx):
    """2-4 masks / relocators built one after the other in one process from one flattened pattern: anything kept
    per process (sub-border indices, border pixels, sub grids) must be keyed on everything it depends on."""
    import autoarray as aa
    from autoarray.inversion.pixelization import border_relocator as brmod
    pattern = np.asarray(case["pattern"], dtype=bool)
    n = int((~pattern).sum())
    ctx.label("pattern:%s" % case["pattern_kind"], "steps:%d" % len(case["steps"]))
    seen = []        # (shape, reference border pixels) of earlier steps
    visible = False
    for k, st_ in enumerate(case["steps"]):
        h, w = st_["shape"]
        m = pattern.reshape(h, w).copy()
        ps, origin = st_["pixel_scales"], st_["origin"]
        subs = sub_list_for(st_["sub"], n)
        mask = aa.Mask2D(mask=m.copy(), pixel_scales=tuple(ps), origin=tuple(origin))
        form = st_["sub_form"]
        if form == "int":
            sub_arg = int(st_["sub"])
        elif form == "array2d":
            sub_arg = aa.Array2D(values=np.asarray(subs, dtype=int), mask=mask)
        else:
            sub_arg = np.asarray(subs, dtype=int)
        geom = ref_sub_geometry(m, subs, ps, origin)
        border = ref_border_pixels(m)
        pix, offs = geom[1], geom[3]
        ca = [(pix[:, 0].max() + pix[:, 0].min()) / 2.0, (pix[:, 1].max() + pix[:, 1].min()) / 2.0]
        # one reference choice of sub-border indices (first maximiser), used only to classify the case
        ref_idx = [int(offs[b] + np.argmax((pix[offs[b]:offs[b + 1], 0] - ca[0]) ** 2 + (pix[offs[b]:offs[b + 1], 1] - ca[1]) ** 2))
                   for b in border]
        for (shape0, ref0, subs0) in seen:
            if shape0 != [h, w] and ref0 != ref_idx:
                visible = True
                ctx.label("rewrap:same-sub-other-shape" if subs0 == subs else "rewrap:other-sub-other-shape")
            elif shape0 == [h, w]:
                ctx.label("rewrap:same-shape-again")
        seen.append(([h, w], ref_idx, subs))
        if not border:
            continue
        # border pixels of this mask (C10's quantity, re-read here because it sits on the path of every relocation)
        ctx.equal(np.asarray(mask.derive_indexes.border_slim).astype(int), np.asarray(border, dtype=int),
                  "rewrap/border-pixels", "step %d shape %s: derive_indexes.border_slim vs set definition" % (k, [h, w]))
        br = aa.BorderRelocator(mask=mask, sub_size=sub_arg)
        gi = check_sub_border(ctx, m, subs, br.sub_border_slim, geom)
        gd = check_sub_border(ctx, m, subs, brmod.sub_border_pixel_slim_indexes_from(
            mask_2d=m.copy(), sub_size=np.asarray(subs, dtype=int)), geom)
        if gi is None or gd is None:
            from vp.engine import KnownSkip
            raise KnownSkip("sub-border")
        scale = max(1.0, float(np.abs(geom[0]).max()))
        ctx.close(np.asarray(br.sub_grid, dtype=float).reshape(-1, 2), geom[0], "sub-border/sub-grid-view", atol=1e-9 * scale,
                  what="step %d: BorderRelocator.sub_grid vs closed-form sub-pixel centres" % k)
        ctx.close(np.asarray(br.sub_border_grid, dtype=float).reshape(-1, 2), geom[0][gi], "sub-border/grid-view",
                  atol=1e-9 * scale, what="step %d: sub_border_grid vs closed-form centres of the selected sub-pixels" % k)
        # a relocation through this relocator, against its own oracle
        c0 = geom[0].mean(axis=0)
        src = c0 + (geom[0] - c0) * np.asarray(st_["stretch"], dtype=float)
        for idx, f in st_["push"]:
            i = idx % len(src)
            src[i] = c0 + f * (src[i] - c0)
        got = br.relocated_grid_from(grid=aa.Grid2DIrregular(values=src.copy()))
        check_relocation(ctx, "rewrap/grid", np.asarray(got), src, src[gi], border_rows=[int(b) for b in gi], label=(k == 0))
    ctx.nt(visible)


SUBCHECKS = [
    SubCheck("kernel", body_kernel, strategy=kernel_case(), examples={"quick": 1500, "thorough": 24000},
             shards={"quick": 4, "thorough": 8}),
    SubCheck("relocator", body_relocator, strategy=reloc_case(), examples={"quick": 1200, "thorough": 18000},
             shards={"quick": 5, "thorough": 6}),
    SubCheck("mesh", body_mesh, strategy=reloc_case(with_mesh_type=True), examples={"quick": 600, "thorough": 9000},
             shards={"quick": 3, "thorough": 3}),
    SubCheck("subborder", body_subborder, strategy=subborder_case(), examples={"quick": 1000, "thorough": 12000},
             shards={"quick": 4, "thorough": 3}),
    SubCheck("preload", body_preload, strategy=reloc_case(with_mesh_type=True, with_vertex_class=True),
             examples={"quick": 400, "thorough": 6000}, shards={"quick": 2, "thorough": 3}),
    SubCheck("rewrap", body_rewrap, strategy=rewrap_case(), examples={"quick": 400, "thorough": 6000},
             shards={"quick": 2, "thorough": 4}),
]
