"""C14 — resize, pad and trim keep data centred and attached to its coordinates."""
import os
import random

import numpy as np
from hypothesis import strategies as st

from vp import gens
from vp.engine import SubCheck

PROPERTY = "C14"
RULE = (
    "resize_pairs: every (input shape, target shape) pair with sides 1..9 (quick: all 6561) or 1..11 "
    "(thorough: all 14641) with a seeded mask / pixel scales / origin per "
    "pair, run through array_2d_util.resized_array_2d_from, Array2D.resized_from (unmasked, masked with both "
    "mask pad values, both storage modes) and Mask2D.resized_from (both pad values); resize_given: Hypothesis "
    "shapes up to 12 with generated real values (zeros, negatives), masks, scales, origins, pad values; "
    "pad_trim: every (shape 1..9, odd kernel 1..7) pair (thorough: shapes 1..11, kernels 1..9; pad_trim_given: "
    "Hypothesis values and masks) with padded_before_convolution_from, "
    "trimmed_after_convolution_from and Mask2D.trimmed_array_from; imaging_autopad: Hypothesis datasets whose "
    "mask is applied via Imaging.apply_mask / the pad_for_convolver constructor / a second apply_mask; zoom: "
    "Hypothesis masks with zoomed_around_mask, buffers 0..3; repeat_calls / edit_state: Hypothesis sessions of "
    "queries (Mask2D.resized_from, Array2D resized/padded/trimmed/zoomed/extent, Mask2D zoom quantities) on "
    "long-lived objects (one mask object shared by a native-stored, a slim-stored and freshly built arrays), the "
    "same query repeated with one argument varied (pad value, buffer, kernel), and in edit_state interleaved with "
    "in-place edits mask[i,j]=v and copy-derived masks (invert, copy, copy.copy, deepcopy) followed by the same "
    "query again; every result is checked against the reference for the CURRENT contents and against the same "
    "call on a freshly built object; fits_resize: every (file shape, target shape) pair with sides 1..5 (quick) / 1..8 (thorough), a FITS file "
    "written with astropy in a per-case temp dir, loaded through Mask2D.from_fits for invert x flip_for_ds9 in "
    "{off,on}^2: loading with resized_mask_shape must equal loading without it followed by resized_from(new_shape) "
    "and the numpy reference (new pixels unmasked); pad_trim also runs Mask2D.unmasked_blurred_array_from (built-in "
    "trim) with a delta kernel; imaging_autopad optionally hand-pads with pad value 0 on the same objects "
    "first. Oracle: a numpy reference embedding "
    "out[i+s]=in[i] with s=(H'-H)/2 when the parity of an axis is preserved and s in {floor,ceil} of "
    "(H'-H)/2 when it is not (the statement does not pin the half pixel), data and mask sharing one shift; "
    "enlarge-then-shrink and pad-then-trim are the identity including pixel scales and origin; with parity "
    "preserved the closed-form pixel-centre coordinate of every surviving pixel is unchanged; auto-padded "
    "imaging keeps the (coordinate, data, noise) triples of unmasked pixels and its frame contains the "
    "blurring region; the zoom window contains every unmasked pixel with its value under one integer "
    "offset. Non-trivial = parity differs on at least one axis or a shape is non-square (resize), the "
    "kernel is bigger than 1x1 and the mask has masked and unmasked pixels (pad/trim), padding actually "
    "happened (imaging), the mask is mixed and its bounding box is non-square or the zoom window leaves the "
    "frame (zoom), a query seen twice on one object with different arguments or on both sides of a content change "
    "(sessions); distinct = SHA-1 of the canonical case."
)
ASSUMPTIONS = [
    "scaled coordinate of native pixel (i,j) of an (H,W) frame is (oy+((H-1)/2-i)*sy, ox+(j-(W-1)/2)*sx) "
    "(C02's closed form); coordinates compared with atol 1e-9*(1+|origin|+side*scale)",
    "for an axis whose parity changes the statement does not pin the half pixel: any shift in "
    "{floor,ceil}((H'-H)/2) is accepted, but data and mask must share it and enlarge-then-shrink must be the identity",
    "Mask2D.trimmed_array_from is only called with an even pad (padded shape = image shape + odd kernel - 1), "
    "as every caller in the repository does",
    "masked entries of a native array are zero (C01), so the reference resizes where(mask, 0, values)",
    "numba is absent, so the @jit kernels run as plain Python",
    "conf.instance['general']['fits']['flip_for_ds9'] may be assigned directly per case (restored afterwards); a "
    "mask FITS file holds 0/1 in float64, int16 or uint8",
    "sessions: a mask may be edited in place through __setitem__ as long as one pixel stays unmasked; a "
    "native-stored array follows its (shared) mask object, a slim-stored array is only queried while the mask "
    "still has its original contents; zoom quantities are pure functions of (contents, pixel scales, origin), so "
    "a freshly built mask with the current contents is their reference",
]
TECHNIQUE = ("exhaustive enumeration of shape pairs plus property-based testing (Hypothesis) against a numpy "
             "reference centring model, round trips and closed-form coordinates")

KERNEL_SIDES = (1, 3, 5, 7)
SCALES = ([1.0, 1.0], [0.5, 2.0], [0.1, 0.1], [2.0, 0.7], [0.05, 0.05], [3.0, 1.5])
ORIGINS = ([0.0, 0.0], [1.0, -3.0], [-17.25, 40.5], [0.3, 0.3], [0.0, 0.0], [99.0, -0.125])


def _aa():
    import autoarray as aa
    return aa


# ---------------------------------------------------------------------------------------------
# reference model
# ---------------------------------------------------------------------------------------------
def ref_embed(inp, out_shape, shift, pad):
    """out[i+sy, j+sx] = inp[i, j] where that lands inside out_shape, `pad` elsewhere."""
    inp = np.asarray(inp)
    h, w = inp.shape
    h2, w2 = out_shape
    sy, sx = shift
    out = np.full((h2, w2), pad, dtype=inp.dtype)
    i0, i1 = max(0, -sy), min(h, h2 - sy)
    j0, j1 = max(0, -sx), min(w, w2 - sx)
    if i1 > i0 and j1 > j0:
        out[i0 + sy:i1 + sy, j0 + sx:j1 + sx] = inp[i0:i1, j0:j1]
    return out


def axis_shifts(n, n2):
    """Admissible shifts for one axis: the exact centred one when parity is preserved, floor and ceil of
    (n2-n)/2 when it is not."""
    d = n2 - n
    if d % 2 == 0:
        return [d // 2]
    return [d // 2, d // 2 + 1]   # python // floors, also for negative d


def matching_shifts(out, inp, pad):
    """Set of admissible (sy, sx) under which `out` is exactly the embedding/crop of `inp`."""
    out = np.asarray(out)
    inp = np.asarray(inp)
    res = set()
    for sy in axis_shifts(inp.shape[0], out.shape[0]):
        for sx in axis_shifts(inp.shape[1], out.shape[1]):
            want = ref_embed(inp, out.shape, (sy, sx), pad)
            if want.shape == out.shape and np.array_equal(want, out):
                res.add((sy, sx))
    return res


def parity_class(shape_in, shape_out):
    eq_y = (shape_in[0] - shape_out[0]) % 2 == 0
    eq_x = (shape_in[1] - shape_out[1]) % 2 == 0
    return "equal-parity" if (eq_y and eq_x) else "mixed-parity"


def coords(shape, ps, origin):
    """Closed-form pixel-centre coordinates, shape (H, W, 2)."""
    h, w = shape
    y = origin[0] + ((h - 1) / 2.0 - np.arange(h)) * ps[0]
    x = origin[1] + (np.arange(w) - (w - 1) / 2.0) * ps[1]
    g = np.zeros((h, w, 2))
    g[:, :, 0] = y[:, None]
    g[:, :, 1] = x[None, :]
    return g


def coord_atol(shape, shape2, ps, origin):
    return 1e-9 * (1.0 + abs(origin[0]) + abs(origin[1]) + max(max(shape), max(shape2)) * max(ps))


def _geometry(ctx, obj_mask, ps, origin, key, what):
    ctx.equal(np.asarray(obj_mask.pixel_scales, dtype=float), np.asarray(ps, dtype=float), key,
              what + " pixel_scales")
    ctx.equal(np.asarray(obj_mask.origin, dtype=float), np.asarray(origin, dtype=float), key, what + " origin")


def _labels_resize(ctx, sin, sout):
    for ax, n, n2 in (("y", sin[0], sout[0]), ("x", sin[1], sout[1])):
        ctx.label("%s:%s->%s" % (ax, "even" if n % 2 == 0 else "odd", "even" if n2 % 2 == 0 else "odd"))
        ctx.label("%s:%s" % (ax, "grow" if n2 > n else ("shrink" if n2 < n else "same")))
    mixed = parity_class(sin, sout) == "mixed-parity"
    ctx.label("mixed-parity" if mixed else "equal-parity")
    nonsq = sin[0] != sin[1] or sout[0] != sout[1]
    if nonsq:
        ctx.label("nonsquare")
    ctx.nt(mixed or nonsq)


# ---------------------------------------------------------------------------------------------
# resize
# ---------------------------------------------------------------------------------------------
def _check_resize(case, ctx):
    aa = _aa()
    from autoarray.structures.arrays import array_2d_util

    sin = tuple(case["in"])
    sout = tuple(case["out"])
    h, w = sin
    ps = tuple(float(v) for v in case["ps"])
    origin = tuple(float(v) for v in case["origin"])
    m = np.asarray(case["mask"], dtype=bool).reshape(h, w)
    if "values" in case:
        vals = np.asarray(case["values"], dtype=float).reshape(h, w)
    else:
        vals = np.arange(1, h * w + 1, dtype=float).reshape(h, w)
    pad_value = float(case.get("pad_value", -7.5))
    store_native = bool(case.get("store_native", False))
    pc = parity_class(sin, sout)
    equal = pc == "equal-parity"
    _labels_resize(ctx, sin, sout)
    if m.any():
        ctx.label("mask:has-masked")
    grow = sout[0] >= h and sout[1] >= w
    atol = coord_atol(sin, sout, ps, origin)
    g_in = coords(sin, ps, origin)
    g_out = coords(sout, ps, origin)

    # -- the numba-style utility -------------------------------------------------------------
    out = array_2d_util.resized_array_2d_from(array_2d=vals.copy(), resized_shape=sout)
    ctx.check(np.asarray(out).shape == sout, "util/resized/shape", "shape %s want %s" % (np.asarray(out).shape, sout))
    sh = matching_shifts(out, vals, 0.0)
    ctx.check(bool(sh), "util/resized/" + pc,
              lambda: "resized_array_2d_from %s->%s is not the centred crop/embedding: got %s" % (sin, sout, _s(out)))
    out_p = array_2d_util.resized_array_2d_from(array_2d=vals.copy(), resized_shape=sout, pad_value=pad_value)
    sh_p = matching_shifts(out_p, vals, pad_value)
    ctx.check(bool(sh_p), "util/resized/pad-value",
              lambda: "resized_array_2d_from %s->%s pad_value=%s: got %s" % (sin, sout, pad_value, _s(out_p)))
    if grow:
        back = array_2d_util.resized_array_2d_from(array_2d=np.asarray(out_p).copy(), resized_shape=sin)
        ctx.equal(back, vals, "util/resized/roundtrip", "enlarge %s->%s then shrink back" % (sin, sout))

    # -- Mask2D.resized_from -----------------------------------------------------------------
    mask = aa.Mask2D(mask=m.copy(), pixel_scales=ps, origin=origin)
    for pv in (None, 0, 1):
        tag = "Mask2D.resized_from %s->%s pad_value=%s" % (sin, sout, pv)
        rm = mask.resized_from(new_shape=sout) if pv is None else mask.resized_from(new_shape=sout, pad_value=pv)
        ctx.check(isinstance(rm, aa.Mask2D) and tuple(rm.shape_native) == sout, "mask2d/resized/shape", tag)
        shm = matching_shifts(np.asarray(rm, dtype=bool), m, bool(pv))
        ctx.check(bool(shm), "mask2d/resized/" + pc, lambda: tag + ": got %s from %s" % (_s(rm), _s(m)))
        _geometry(ctx, rm, ps, origin, "mask2d/resized/geometry", tag)
        if grow:
            back = rm.resized_from(new_shape=sin) if pv is None else rm.resized_from(new_shape=sin, pad_value=pv)
            ctx.equal(np.asarray(back, dtype=bool), m, "mask2d/resized/roundtrip", tag + " then shrink back")
            _geometry(ctx, back, ps, origin, "mask2d/resized/geometry", tag + " round trip")

    # -- Array2D.resized_from ----------------------------------------------------------------
    variants = [("unmasked", None, None), ("masked", 0, m), ("masked", 1, m)]
    for kind, mpv, vm in variants:
        if vm is None:
            a = _unmasked(aa, vals, ps, origin, store_native)
            native_in = vals
            mask_in = np.zeros((h, w), dtype=bool)
            r = a.resized_from(new_shape=sout)
            mpad = False
            # the preprocess wrapper is the same operation
            r2 = aa.preprocess.array_with_new_shape(array=a, new_shape=sout)
            ctx.equal(np.asarray(r2.native, dtype=float), np.asarray(r.native, dtype=float),
                      "preprocess/array_with_new_shape", "array_with_new_shape %s->%s vs resized_from" % (sin, sout))
        else:
            a = aa.Array2D(values=vals.copy(), mask=mask, store_native=store_native)
            native_in = np.where(m, 0.0, vals)
            mask_in = m
            r = a.resized_from(new_shape=sout, mask_pad_value=mpv)
            mpad = bool(mpv)
        tag = "Array2D(%s%s).resized_from %s->%s" % (kind, "" if mpv is None else ",mask_pad_value=%d" % mpv, sin, sout)
        ctx.check(tuple(r.shape_native) == sout and tuple(r.mask.shape) == sout, "array2d/resized/shape", tag)
        r_mask = np.asarray(r.mask, dtype=bool)
        r_nat = np.asarray(r.native, dtype=float)
        # the result's own mask zeroes the data where it is masked (C01); apply the same to the reference
        shm = matching_shifts(r_mask, mask_in, mpad)
        ctx.check(bool(shm), "array2d/resized/mask/" + pc, lambda: tag + ": mask got %s from %s" % (_s(r_mask), _s(mask_in)))
        shd = set()
        for s in [(sy, sx) for sy in axis_shifts(h, sout[0]) for sx in axis_shifts(w, sout[1])]:
            want = ref_embed(native_in, sout, s, 0.0)
            if r_mask.shape == want.shape:
                want = np.where(r_mask, 0.0, want)
            if want.shape == r_nat.shape and np.array_equal(want, r_nat):
                shd.add(s)
        ctx.check(bool(shd), "array2d/resized/values/" + pc,
                  lambda: tag + ": native got %s from %s" % (_s(r_nat), _s(native_in)))
        if shm and shd:
            ctx.check(bool(shm & shd), "array2d/resized/data-mask-detached",
                      lambda: tag + ": data shifted by %s but mask by %s" % (sorted(shd), sorted(shm)))
        _geometry(ctx, r.mask, ps, origin, "array2d/resized/geometry", tag)
        # slim values: the surviving unmasked pixels in row-major order
        if shm & shd:
            s = sorted(shm & shd)[0]
            want_native = np.where(r_mask, 0.0, ref_embed(native_in, sout, s, 0.0))
            ctx.equal(np.asarray(r.slim, dtype=float), want_native[~r_mask], "array2d/resized/slim", tag + " .slim")
            if equal and (~r_mask).any():
                # every surviving unmasked pixel keeps its coordinate: grid of the resized mask at the
                # shifted position == closed-form coordinate of the source pixel in the input frame
                grid = np.asarray(aa.Grid2D.from_mask(mask=r.mask).native, dtype=float)
                src_i, src_j = np.meshgrid(np.arange(sout[0]) - s[0], np.arange(sout[1]) - s[1], indexing="ij")
                inside = (src_i >= 0) & (src_i < h) & (src_j >= 0) & (src_j < w) & ~r_mask
                if inside.any():
                    got = grid[inside]
                    want = g_in[src_i[inside], src_j[inside]]
                    ctx.close(got, want, "array2d/resized/coords", atol=atol,
                              what=tag + " coordinates of surviving pixels")
                # and the closed form on the reported geometry agrees for every unmasked output pixel
                ctx.close(grid[~r_mask], g_out[~r_mask], "array2d/resized/coords", atol=atol,
                          what=tag + " grid of resized mask vs closed form")
        if grow:
            back = r.resized_from(new_shape=sin) if mpv is None else r.resized_from(new_shape=sin, mask_pad_value=mpv)
            ctx.equal(np.asarray(back.native, dtype=float), native_in, "array2d/resized/roundtrip",
                      tag + " then shrink back: native")
            ctx.equal(np.asarray(back.mask, dtype=bool), mask_in, "array2d/resized/roundtrip",
                      tag + " then shrink back: mask")
            _geometry(ctx, back.mask, ps, origin, "array2d/resized/geometry", tag + " round trip")
            ctx.equal(np.asarray(back.slim, dtype=float), native_in[~mask_in], "array2d/resized/roundtrip",
                      tag + " then shrink back: slim")


def _unmasked(aa, vals, ps, origin, store_native=False):
    mask = aa.Mask2D.all_false(shape_native=vals.shape, pixel_scales=ps, origin=origin)
    return aa.Array2D(values=vals.copy(), mask=mask, store_native=store_native)


def _s(x):
    return np.array2string(np.asarray(x), threshold=200, max_line_width=200).replace("\n", "")


def _rand_mask(rng, h, w, p_masked):
    m = [[rng.random() < p_masked for _ in range(w)] for _ in range(h)]
    if all(all(r) for r in m):
        m[rng.randrange(h)][rng.randrange(w)] = False
    return m


def _seed():
    try:
        return int(os.environ.get("VERIF_SEED", "1") or "1")
    except ValueError:
        return 1


def cases_resize(tier):
    seed = _seed()
    sides = range(1, 10) if tier == "quick" else range(1, 12)
    for h in sides:
        for w in sides:
            for h2 in sides:
                for w2 in sides:
                    rng = random.Random("%d/%d/%d/%d/%d" % (seed, h, w, h2, w2))
                    k = rng.randrange(len(SCALES))
                    yield {"in": [h, w], "out": [h2, w2], "ps": SCALES[k],
                           "origin": ORIGINS[rng.randrange(len(ORIGINS))],
                           "mask": _rand_mask(rng, h, w, rng.choice([0.0, 0.2, 0.4, 0.7])),
                           "store_native": rng.random() < 0.5,
                           "pad_value": rng.choice([-7.5, 1.0, 3.25])}


@st.composite
def resize_given(draw):
    h, w = draw(gens.shapes(1, 12))
    h2, w2 = draw(gens.shapes(1, 12))
    mask = draw(gens.masks(shape=[h, w]))
    vals = draw(st.lists(st.one_of(gens.reals(-50, 50), st.sampled_from([0.0, 1e-12, -1e6])),
                         min_size=h * w, max_size=h * w))
    return {"in": [h, w], "out": [h2, w2], "ps": draw(gens.pixel_scales()), "origin": draw(gens.origins()),
            "mask": mask, "values": vals, "store_native": draw(st.booleans()),
            "pad_value": draw(st.sampled_from([-7.5, 1.0, 0.0, 2.0]))}


# ---------------------------------------------------------------------------------------------
# pad for an odd kernel / trim for the same kernel
# ---------------------------------------------------------------------------------------------
def body_pad_trim(case, ctx):
    aa = _aa()
    h, w = case["shape"]
    kh, kw = case["kernel"]
    ps = tuple(float(v) for v in case["ps"])
    origin = tuple(float(v) for v in case["origin"])
    m = np.asarray(case["mask"], dtype=bool).reshape(h, w)
    if "values" in case:
        vals = np.asarray(case["values"], dtype=float).reshape(h, w)
    else:
        vals = (np.arange(1, h * w + 1, dtype=float) * 0.5).reshape(h, w)
    store_native = bool(case.get("store_native", False))
    py, px = kh // 2, kw // 2
    ph, pw = h + kh - 1, w + kw - 1
    ctx.label("kernel:%dx%d" % (kh, kw), "kernel:nonsquare" if kh != kw else "kernel:square")
    ctx.label("y:%s" % ("even" if h % 2 == 0 else "odd"), "x:%s" % ("even" if w % 2 == 0 else "odd"))
    if h != w:
        ctx.label("shape:nonsquare")
    mixed = bool(m.any() and (~m).any())
    if mixed:
        ctx.label("mask:mixed")
    ctx.nt((kh > 1 or kw > 1) and mixed)
    atol = coord_atol((ph, pw), (h, w), ps, origin)
    g_in = coords((h, w), ps, origin)

    mask = aa.Mask2D(mask=m.copy(), pixel_scales=ps, origin=origin)
    native_in = np.where(m, 0.0, vals)
    a = aa.Array2D(values=vals.copy(), mask=mask, store_native=store_native)
    un = _unmasked(aa, vals, ps, origin, store_native)

    for name, arr, nat, msk, mpvs in (("masked", a, native_in, m, (0, 1)),
                                      ("unmasked", un, vals, np.zeros((h, w), dtype=bool), (None, 1))):
        for mpv in mpvs:
            tag = "Array2D(%s %dx%d).padded_before_convolution_from(kernel %dx%d, mask_pad_value=%s)" % (
                name, h, w, kh, kw, mpv)
            if mpv is None:
                p = arr.padded_before_convolution_from(kernel_shape=(kh, kw))
            else:
                p = arr.padded_before_convolution_from(kernel_shape=(kh, kw), mask_pad_value=mpv)
            ctx.check(tuple(p.shape_native) == (ph, pw), "array2d/padded/shape",
                      tag + ": shape %s want %s" % (tuple(p.shape_native), (ph, pw)))
            want_mask = np.pad(msk, ((py, py), (px, px)), constant_values=bool(mpv))
            want_nat = np.pad(nat, ((py, py), (px, px)), constant_values=0.0)
            ctx.equal(np.asarray(p.mask, dtype=bool), want_mask, "array2d/padded/mask", tag + " mask")
            ctx.equal(np.asarray(p.native, dtype=float), want_nat, "array2d/padded/values", tag + " native")
            _geometry(ctx, p.mask, ps, origin, "array2d/padded/geometry", tag)
            if mpv == 1 and tuple(p.mask.shape) == (ph, pw):
                # unmasked set unchanged -> slim values and slim coordinates unchanged, element by element
                ctx.equal(np.asarray(p.slim, dtype=float), nat[~msk], "array2d/padded/slim", tag + " .slim")
                if (~msk).any():
                    grid = np.asarray(aa.Grid2D.from_mask(mask=p.mask).slim, dtype=float)
                    ctx.close(grid, g_in[~msk], "array2d/padded/coords", atol=atol,
                              what=tag + " slim grid of padded mask vs input coordinates")
            # trim for the same kernel == identity
            t = p.trimmed_after_convolution_from(kernel_shape=(kh, kw))
            ttag = tag + ".trimmed_after_convolution_from"
            ctx.equal(np.asarray(t.native, dtype=float), nat, "array2d/pad-trim/identity", ttag + " native")
            ctx.equal(np.asarray(t.mask, dtype=bool), msk, "array2d/pad-trim/identity", ttag + " mask")
            ctx.equal(np.asarray(t.slim, dtype=float), nat[~msk], "array2d/pad-trim/identity", ttag + " slim")
            _geometry(ctx, t.mask, ps, origin, "array2d/pad-trim/geometry", ttag)
            if (~msk).any() and tuple(t.mask.shape) == (h, w):
                grid = np.asarray(aa.Grid2D.from_mask(mask=t.mask).slim, dtype=float)
                ctx.close(grid, g_in[~msk], "array2d/pad-trim/coords", atol=atol, what=ttag + " slim grid")

    # trim on its own: the centred crop of an array that is big enough
    if h - 2 * py >= 1 and w - 2 * px >= 1:
        ctx.label("trim-alone")
        for name, arr, nat, msk in (("masked", a, native_in, m), ("unmasked", un, vals, np.zeros((h, w), dtype=bool))):
            tag = "Array2D(%s %dx%d).trimmed_after_convolution_from(kernel %dx%d)" % (name, h, w, kh, kw)
            t = arr.trimmed_after_convolution_from(kernel_shape=(kh, kw))
            sl = (slice(py, h - py), slice(px, w - px))
            ctx.equal(np.asarray(t.mask, dtype=bool), msk[sl], "array2d/trimmed/mask", tag + " mask")
            ctx.equal(np.asarray(t.native, dtype=float), nat[sl], "array2d/trimmed/values", tag + " native")
            _geometry(ctx, t.mask, ps, origin, "array2d/trimmed/geometry", tag)
            if (~msk[sl]).any() and np.asarray(t.mask).shape == msk[sl].shape:
                grid = np.asarray(aa.Grid2D.from_mask(mask=t.mask).slim, dtype=float)
                ctx.close(grid, g_in[sl][~msk[sl]], "array2d/trimmed/coords", atol=atol, what=tag + " slim grid")

    # Mask2D.trimmed_array_from: the padded frame's mask trims a padded array back to the image shape
    pvals = (np.arange(1, ph * pw + 1, dtype=float) * 0.25 - 3.0).reshape(ph, pw)
    pmask = aa.Mask2D.all_false(shape_native=(ph, pw), pixel_scales=ps, origin=origin)
    parr = aa.Array2D(values=pvals.copy(), mask=pmask, store_native=store_native)
    tag = "Mask2D(%dx%d).trimmed_array_from(image_shape=%dx%d)" % (ph, pw, h, w)
    t = pmask.trimmed_array_from(padded_array=parr, image_shape=(h, w))
    ctx.equal(np.asarray(t.native, dtype=float), pvals[py:py + h, px:px + w], "mask2d/trimmed_array/values", tag)
    ctx.check(not np.asarray(t.mask, dtype=bool).any(), "mask2d/trimmed_array/mask", tag + " result must be unmasked")
    _geometry(ctx, t.mask, ps, origin, "mask2d/trimmed_array/geometry", tag)
    if tuple(t.mask.shape) == (h, w):
        grid = np.asarray(aa.Grid2D.from_mask(mask=t.mask).native, dtype=float)
        ctx.close(grid, coords((ph, pw), ps, origin)[py:py + h, px:px + w], "mask2d/trimmed_array/coords",
                  atol=atol, what=tag + " coordinates of surviving pixels")
    # sibling route with a built-in trim: blur the padded frame, then trim.  With a delta kernel of the case's
    # shape the blur is the identity (sum with exact zeros; atol 1e-12*max|value| stated anyway)
    delta = np.zeros((kh, kw))
    delta[py, px] = 1.0
    psf = aa.Kernel2D.no_mask(values=delta, pixel_scales=ps)
    ub = pmask.unmasked_blurred_array_from(padded_array=parr, psf=psf, image_shape=(h, w))
    btag = "Mask2D(%dx%d).unmasked_blurred_array_from(delta %dx%d, image_shape=%dx%d)" % (ph, pw, kh, kw, h, w)
    ctx.close(np.asarray(ub.native, dtype=float), pvals[py:py + h, px:px + w], "mask2d/unmasked_blurred/values",
              atol=1e-12 * float(np.abs(pvals).max()), what=btag)
    ctx.equal(np.asarray(ub.native, dtype=float),
              np.asarray(pmask.trimmed_array_from(padded_array=psf.convolved_array_from(array=parr),
                                                  image_shape=(h, w)).native, dtype=float),
              "mask2d/unmasked_blurred/values", btag + " vs convolve then trimmed_array_from")
    _geometry(ctx, ub.mask, ps, origin, "mask2d/unmasked_blurred/geometry", btag)
    # and it undoes padded_before_convolution_from of an unmasked image
    p = un.padded_before_convolution_from(kernel_shape=(kh, kw))
    if tuple(p.shape_native) == (ph, pw):
        t = p.mask.trimmed_array_from(padded_array=p, image_shape=(h, w))
        ctx.equal(np.asarray(t.native, dtype=float), vals, "mask2d/trimmed_array/pad-trim-identity",
                  "pad for kernel %dx%d then Mask2D.trimmed_array_from" % (kh, kw))


def cases_pad_trim(tier):
    seed = _seed()
    sides = range(1, 10) if tier == "quick" else range(1, 12)
    ksides = KERNEL_SIDES if tier == "quick" else KERNEL_SIDES + (9,)
    for h in sides:
        for w in sides:
            for kh in ksides:
                for kw in ksides:
                    rng = random.Random("pt/%d/%d/%d/%d/%d" % (seed, h, w, kh, kw))
                    yield {"shape": [h, w], "kernel": [kh, kw], "ps": SCALES[rng.randrange(len(SCALES))],
                           "origin": ORIGINS[rng.randrange(len(ORIGINS))],
                           "mask": _rand_mask(rng, h, w, rng.choice([0.0, 0.3, 0.3, 0.6])),
                           "store_native": rng.random() < 0.5}


@st.composite
def pad_trim_given(draw):
    h, w = draw(gens.shapes(1, 11))
    kh = draw(st.sampled_from(KERNEL_SIDES + (9,)))
    kw = draw(st.sampled_from(KERNEL_SIDES + (9,)))
    mask = draw(gens.masks(shape=[h, w]))
    vals = draw(st.lists(st.one_of(gens.reals(-50, 50), st.sampled_from([0.0, -1e6])), min_size=h * w, max_size=h * w))
    return {"shape": [h, w], "kernel": [kh, kw], "ps": draw(gens.pixel_scales()), "origin": draw(gens.origins()),
            "mask": mask, "values": vals, "store_native": draw(st.booleans())}


# ---------------------------------------------------------------------------------------------
# automatic padding when a mask is applied to imaging data
# ---------------------------------------------------------------------------------------------
@st.composite
def imaging_given(draw):
    ker = draw(gens.kernels(max_side=5, kinds=("nonneg", "normalised")))
    ring = draw(st.sampled_from([0, 0, 1, 2]))   # ring>0: part or all of the blurring region fits the frame
    h, w = draw(gens.shapes(2 * ring + 1, 8 + ring))
    mask = draw(gens.masks(shape=[h, w], ring=ring))
    data = draw(st.lists(gens.reals(-20, 20), min_size=h * w, max_size=h * w))
    noise = draw(st.lists(gens.positives(0.05, 10.0), min_size=h * w, max_size=h * w))
    variant = draw(st.sampled_from(["apply_mask", "apply_mask", "ctor", "twice"]))
    case = {"shape": [h, w], "kernel": ker["values"], "mask": mask, "data": data, "noise": noise,
            "ps": draw(gens.pixel_scales()), "origin": draw(gens.origins()), "variant": variant}
    # hand-padding / hand-resizing with pad value 0 on the very objects the dataset is then built from
    case["pre"] = draw(st.sampled_from(["none", "pad0", "pad0"]))
    if variant == "ctor":
        case["store_native"] = draw(st.booleans())
    if variant == "twice":
        case["mask_first"] = draw(gens.masks(shape=[h, w]))
    return case


def _needs_pad(m, kh, kw):
    h, w = m.shape
    ys, xs = np.nonzero(~m)
    if not len(ys):
        return False
    return bool(ys.min() - kh // 2 < 0 or ys.max() + kh // 2 > h - 1 or xs.min() - kw // 2 < 0 or xs.max() + kw // 2 > w - 1)


def body_imaging(case, ctx):
    aa = _aa()
    h, w = case["shape"]
    ps = tuple(float(v) for v in case["ps"])
    origin = tuple(float(v) for v in case["origin"])
    m = np.asarray(case["mask"], dtype=bool).reshape(h, w)
    data = np.asarray(case["data"], dtype=float).reshape(h, w)
    noise = np.asarray(case["noise"], dtype=float).reshape(h, w)
    ker = np.asarray(case["kernel"], dtype=float)
    kh, kw = ker.shape
    variant = case["variant"]
    need = _needs_pad(m, kh, kw)
    ctx.label("variant:" + variant, "kernel:%dx%d" % (kh, kw), "needs-pad" if need else "no-pad-needed")
    if not need and (kh > 1 or kw > 1):
        ctx.label("no-pad-needed:kernel>1x1")
    if need:
        ys_, xs_ = np.nonzero(~m)
        ny = bool(ys_.min() - kh // 2 < 0 or ys_.max() + kh // 2 > h - 1)
        nx = bool(xs_.min() - kw // 2 < 0 or xs_.max() + kw // 2 > w - 1)
        ctx.label("needs-pad:%s" % ("both-axes" if ny and nx else ("y-only" if ny else "x-only")))
    for l in gens.mask_stats(m):
        ctx.label(l)
    ctx.label("y:%s" % ("even" if h % 2 == 0 else "odd"), "x:%s" % ("even" if w % 2 == 0 else "odd"))

    mask = aa.Mask2D(mask=m.copy(), pixel_scales=ps, origin=origin)
    psf = aa.Kernel2D.no_mask(values=ker.copy(), pixel_scales=ps)
    d = aa.Array2D.no_mask(values=data.copy(), pixel_scales=ps, origin=origin)
    n = aa.Array2D.no_mask(values=noise.copy(), pixel_scales=ps, origin=origin)
    pre = case.get("pre", "none")
    ctx.label("pre:" + pre)
    if pre == "pad0":
        # results discarded: looking at a zero-padded frame first must not change what the dataset does
        mask.resized_from(new_shape=(h + kh - 1, w + kw - 1), pad_value=0)
        mask.resized_from(new_shape=(h + kh - 1, w + kw - 1))
    if variant == "ctor":
        sn = bool(case.get("store_native", False))
        ctx.label("ctor:native-stored" if sn else "ctor:slim-stored")
        d_m = aa.Array2D(values=data.copy(), mask=mask, store_native=sn)
        n_m = aa.Array2D(values=noise.copy(), mask=mask, store_native=sn)
        if pre == "pad0":
            d_m.padded_before_convolution_from(kernel_shape=(kh, kw), mask_pad_value=0)
            n_m.padded_before_convolution_from(kernel_shape=(kh, kw))
            d_m.resized_from(new_shape=(h + kh - 1, w + kw - 1))
        ds = aa.Imaging(data=d_m, noise_map=n_m, psf=psf, pad_for_convolver=True)
    else:
        if pre == "pad0":
            d.padded_before_convolution_from(kernel_shape=(kh, kw), mask_pad_value=0)
            n.padded_before_convolution_from(kernel_shape=(kh, kw), mask_pad_value=0)
        im = aa.Imaging(data=d, noise_map=n, psf=psf)
        if variant == "twice":
            m1 = np.asarray(case["mask_first"], dtype=bool).reshape(h, w)
            im = im.apply_mask(mask=aa.Mask2D(mask=m1.copy(), pixel_scales=ps, origin=origin))
            if tuple(im.data.shape_native) != (h, w):
                ctx.label("twice:first-was-padded")
        ds = im.apply_mask(mask=mask)

    tag = "Imaging %s shape %dx%d kernel %dx%d" % (variant, h, w, kh, kw)
    shape_out = tuple(ds.data.shape_native)
    padded = shape_out != (h, w)
    ctx.label("padded" if padded else "not-padded")
    ctx.nt(padded)
    out_mask = np.asarray(ds.mask, dtype=bool)
    un = ~m
    # one frame for data, noise map and mask
    ctx.check(tuple(ds.noise_map.shape_native) == shape_out and tuple(out_mask.shape) == shape_out
              and tuple(np.asarray(ds.noise_map.mask).shape) == shape_out,
              "imaging/autopad/noise-frame", tag + ": data frame %s, noise frame %s, mask %s" % (
                  shape_out, tuple(ds.noise_map.shape_native), tuple(out_mask.shape)))
    ctx.equal(np.asarray(ds.noise_map.mask, dtype=bool), np.asarray(ds.data.mask, dtype=bool),
              "imaging/autopad/noise-frame", tag + ": noise-map mask vs data mask")
    _geometry(ctx, ds.mask, ps, origin, "imaging/autopad/geometry", tag)
    _geometry(ctx, ds.noise_map.mask, ps, origin, "imaging/autopad/geometry", tag + " noise map")
    # the (coordinate, data, noise) triples of the unmasked pixels, row-major
    ctx.check(int((~out_mask).sum()) == int(un.sum()), "imaging/autopad/mask",
              tag + ": %d unmasked pixels, want %d" % (int((~out_mask).sum()), int(un.sum())))
    ctx.equal(np.asarray(ds.data.slim, dtype=float), data[un], "imaging/autopad/data", tag + " data.slim")
    ctx.equal(np.asarray(ds.noise_map.slim, dtype=float), noise[un], "imaging/autopad/noise", tag + " noise_map.slim")
    atol = coord_atol((h + kh, w + kw), (h, w), ps, origin)
    grid = np.asarray(ds.grids.uniform.slim, dtype=float)
    ctx.close(grid, coords((h, w), ps, origin)[un], "imaging/autopad/coords", atol=atol,
              what=tag + " grids.uniform vs coordinates of the same pixels before masking")
    # native frames: a centred, parity-preserving embedding with the new ring masked
    dy, dx = shape_out[0] - h, shape_out[1] - w
    ctx.check(dy >= 0 and dx >= 0 and dy % 2 == 0 and dx % 2 == 0, "imaging/autopad/frame",
              tag + ": frame %s is not a parity-preserving enlargement of %s" % (shape_out, (h, w)))
    if dy >= 0 and dx >= 0 and dy % 2 == 0 and dx % 2 == 0:
        pad = ((dy // 2, dy // 2), (dx // 2, dx // 2))
        ctx.equal(out_mask, np.pad(m, pad, constant_values=True), "imaging/autopad/mask", tag + " mask")
        ctx.equal(np.asarray(ds.data.native, dtype=float), np.pad(np.where(m, 0.0, data), pad), "imaging/autopad/data",
                  tag + " data.native")
        if tuple(ds.noise_map.shape_native) == shape_out:
            ctx.equal(np.asarray(ds.noise_map.native, dtype=float), np.pad(np.where(m, 0.0, noise), pad),
                      "imaging/autopad/noise", tag + " noise_map.native")
    # the frame now contains the blurring region, so a convolver can be built
    ys, xs = np.nonzero(~out_mask)
    if len(ys):
        inside = (ys.min() - kh // 2 >= 0 and ys.max() + kh // 2 <= shape_out[0] - 1
                  and xs.min() - kw // 2 >= 0 and xs.max() + kw // 2 <= shape_out[1] - 1)
        ctx.check(inside, "imaging/autopad/blurring-region-outside-frame",
                  tag + ": blurring region of the returned mask still leaves the frame %s" % (shape_out,))
        ctx.impl("imaging/autopad/convolver", lambda: ds.convolver)
    # trimming the dataset for the same kernel undoes the padding
    if padded and (dy, dx) == (kh - 1, kw - 1):
        tr = ds.trimmed_after_convolution_from(kernel_shape=(kh, kw))
        ttag = tag + " .trimmed_after_convolution_from"
        ctx.equal(np.asarray(tr.data.mask, dtype=bool), m, "imaging/pad-trim/identity", ttag + " mask")
        ctx.equal(np.asarray(tr.data.native, dtype=float), np.where(m, 0.0, data), "imaging/pad-trim/identity", ttag + " data")
        ctx.equal(np.asarray(tr.noise_map.native, dtype=float), np.where(m, 0.0, noise), "imaging/pad-trim/identity",
                  ttag + " noise map")
        _geometry(ctx, tr.data.mask, ps, origin, "imaging/pad-trim/geometry", ttag)
    elif padded:
        ctx.fail("imaging/autopad/frame", tag + ": padded by %s, kernel needs %s" % ((dy, dx), (kh - 1, kw - 1)))


# ---------------------------------------------------------------------------------------------
# zoom
# ---------------------------------------------------------------------------------------------
@st.composite
def zoom_given(draw):
    kind = draw(st.sampled_from(["any", "any", "ring", "corner"]))
    if kind == "ring":
        mask = draw(gens.masks(lo=3, hi=10, ring=1))
    else:
        mask = draw(gens.masks(lo=1, hi=10))
    h, w = len(mask), len(mask[0])
    if kind == "corner":   # a thin region hugging one edge: the square window leaves the frame
        mask = [[True] * w for _ in range(h)]
        if draw(st.booleans()):
            r = draw(st.sampled_from([0, h - 1]))
            for j in range(draw(st.integers(0, w - 1)), w):
                mask[r][j] = False
        else:
            c = draw(st.sampled_from([0, w - 1]))
            for i in range(0, draw(st.integers(1, h))):
                mask[i][c] = False
    perm = draw(st.permutations(list(range(1, h * w + 1))))
    signs = draw(st.lists(st.booleans(), min_size=h * w, max_size=h * w))
    vals = [0.25 * p * (1 if s else -1) for p, s in zip(perm, signs)]
    return {"mask": mask, "values": vals, "buffer": draw(st.integers(0, 3)),
            "ps": draw(gens.pixel_scales()), "origin": draw(gens.origins()), "store_native": draw(st.booleans())}


def body_zoom(case, ctx):
    aa = _aa()
    m = np.asarray(case["mask"], dtype=bool)
    h, w = m.shape
    vals = np.asarray(case["values"], dtype=float).reshape(h, w)
    buffer = int(case["buffer"])
    ps = tuple(float(v) for v in case["ps"])
    origin = tuple(float(v) for v in case["origin"])
    ys, xs = np.nonzero(~m)
    by, bx = ys.max() - ys.min() + 1, xs.max() - xs.min() + 1
    for l in gens.mask_stats(m):
        ctx.label(l)
    ctx.label("buffer:%d" % buffer)
    if by != bx:
        ctx.label("bbox:nonsquare")
    # the square window of side max(by,bx)+2*buffer centred on the bounding box leaves the frame?
    side = max(by, bx)
    leaves = (ys.min() - (side - by) // 2 - buffer < 0 or ys.max() + (side - by) // 2 + buffer > h - 1
              or xs.min() - (side - bx) // 2 - buffer < 0 or xs.max() + (side - bx) // 2 + buffer > w - 1)
    if leaves:
        ctx.label("window-leaves-frame")
    ctx.nt(bool(m.any()) and (by != bx or leaves))

    mask = aa.Mask2D(mask=m.copy(), pixel_scales=ps, origin=origin)
    a = aa.Array2D(values=vals.copy(), mask=mask, store_native=bool(case.get("store_native", False)))
    z = a.zoomed_around_mask(buffer=buffer)
    zn = np.asarray(z.native, dtype=float)
    tag = "zoomed_around_mask(buffer=%d) of %dx%d, bbox rows %d..%d cols %d..%d" % (
        buffer, h, w, ys.min(), ys.max(), xs.min(), xs.max())
    ctx.check(zn.ndim == 2 and zn.shape[0] >= by and zn.shape[1] >= bx, "zoom/window-too-small",
              lambda: tag + ": window %s cannot contain the %dx%d bounding box" % (zn.shape, by, bx))
    # one integer offset under which every unmasked pixel's value appears at its shifted position
    i0, j0 = int(ys[0]), int(xs[0])
    cands = np.argwhere(zn == vals[i0, j0]) if zn.ndim == 2 else []
    ok = False
    for ci, cj in cands:
        oy, ox = int(ci) - i0, int(cj) - j0
        ti, tj = ys + oy, xs + ox
        if ti.min() < 0 or tj.min() < 0 or ti.max() >= zn.shape[0] or tj.max() >= zn.shape[1]:
            continue
        if np.array_equal(zn[ti, tj], vals[ys, xs]):
            ok = True
            break
    ctx.check(ok, "zoom/values",
              lambda: tag + ": no integer offset places every unmasked value in the window; window=%s" % _s(zn))


# ---------------------------------------------------------------------------------------------
# sessions: repeated calls on the same objects, in-place edits and copy-derived masks
# ---------------------------------------------------------------------------------------------
ZOOM_QUANTITIES = ("zoom_region", "zoom_centre", "zoom_shape_native", "zoom_offset_pixels", "zoom_offset_scaled")
DERIVE_KINDS = ("invert", "copy", "copy.copy", "deepcopy")


def _distinct_values(draw, n):
    perm = draw(st.permutations(list(range(1, n + 1))))
    signs = draw(st.lists(st.booleans(), min_size=n, max_size=n))
    return [0.25 * p * (1 if sg else -1) for p, sg in zip(perm, signs)]


def _session(draw, edits):
    """A list of queries on long-lived objects.  Blocks of: a query, often the same query with one argument
    varied, then (edits=True) an in-place edit and/or a copy-derived mask followed by the same query again."""
    h, w = draw(gens.shapes(1, 8))
    mask = draw(gens.masks(shape=[h, w]))
    vals = _distinct_values(draw, h * w)
    focus_shape = draw(gens.shapes(1, 10))
    focus_kernel = [draw(st.sampled_from(KERNEL_SIDES)), draw(st.sampled_from(KERNEL_SIDES))]
    whos = ["A", "N"] if edits else ["A", "B", "N"]
    sim = [[list(r) for r in mask]]          # tracked contents per mask object; the last one is current
    ops = []
    fit_y = [k for k in KERNEL_SIDES if h - 2 * (k // 2) >= 1]
    fit_x = [k for k in KERNEL_SIDES if w - 2 * (k // 2) >= 1]

    def shape_():
        return focus_shape if draw(st.integers(0, 2)) else draw(gens.shapes(1, 10))

    def kernel_():
        if draw(st.integers(0, 2)):
            return focus_kernel
        return [draw(st.sampled_from(KERNEL_SIDES)), draw(st.sampled_from(KERNEL_SIDES))]

    def trim_kernel_():
        return [draw(st.sampled_from(fit_y)), draw(st.sampled_from(fit_x))]

    kinds = ["mask_resize", "mask_resize", "arr_resize", "arr_pad", "arr_pad", "arr_trim", "arr_zoom", "arr_zoom",
             "mask_zoom", "extent"]
    if edits:
        kinds = kinds + ["mask_zoom", "mask_zoom", "mask_zoom", "arr_zoom"]

    def read_():
        kind = draw(st.sampled_from(kinds))
        if kind == "mask_resize":
            return ["mask_resize", shape_(), draw(st.sampled_from([None, 0, 1]))]
        if kind == "arr_resize":
            return ["arr_resize", draw(st.sampled_from(whos)), shape_(), draw(st.sampled_from([0, 1]))]
        if kind == "arr_pad":
            return ["arr_pad", draw(st.sampled_from(whos)), kernel_(), draw(st.sampled_from([0, 1]))]
        if kind == "arr_trim":
            return ["arr_trim", draw(st.sampled_from(whos)), trim_kernel_()]
        if kind == "arr_zoom":
            return ["arr_zoom", draw(st.sampled_from(whos)), draw(st.integers(0, 3))]
        if kind == "extent":
            return ["extent", draw(st.sampled_from(whos)), draw(st.integers(0, 3))]
        return ["mask_zoom", draw(st.sampled_from(ZOOM_QUANTITIES[:2] + ZOOM_QUANTITIES))]

    def varied_(op):
        """The same query on the same object with one argument varied (pad value / buffer / kernel)."""
        v = list(op)
        kind = op[0]
        if kind == "mask_resize":
            v[2] = draw(st.sampled_from([x for x in (None, 0, 1) if x != op[2]]))
        elif kind in ("arr_resize", "arr_pad"):
            v[3] = 1 - op[3]
        elif kind == "arr_trim":
            v[2] = trim_kernel_()
        elif kind in ("arr_zoom", "extent"):
            v[2] = (op[2] + draw(st.integers(1, 3))) % 4
        else:
            return None
        return v

    def set_():
        cur = sim[-1]
        i = draw(st.integers(0, h - 1)); j = draw(st.integers(0, w - 1))
        v = (not cur[i][j]) if draw(st.integers(0, 3)) else cur[i][j]
        n_un = sum(1 for r in cur for x in r if not x)
        if v and not cur[i][j] and n_un <= 1:
            v = False   # never mask the last unmasked pixel
        cur[i][j] = v
        ops.append(["set", i, j, v])

    def derive_():
        cur = sim[-1]
        how = draw(st.sampled_from(DERIVE_KINDS))
        if how == "invert" and not any(x for r in cur for x in r):
            how = "copy"
        sim.append([[(not x) if how == "invert" else x for x in r] for r in cur])
        ops.append(["derive", how])

    for _ in range(draw(st.integers(2, 5) if edits else st.integers(3, 6))):
        op = read_()
        ops.append(op)
        if (not edits and draw(st.integers(0, 3))) or draw(st.booleans()):
            v = varied_(op)
            if v is not None:
                ops.append(v)
        if edits and draw(st.integers(0, 3)):
            change = draw(st.sampled_from(["set", "set", "derive", "derive+set"]))
            if change.startswith("derive"):
                derive_()
            if change.endswith("set"):
                for _k in range(draw(st.integers(1, 3))):
                    set_()
            ops.append(list(op))           # the same query again: must follow the current contents
            if draw(st.booleans()):
                v = varied_(op)
                if v is not None:
                    ops.append(v)
    return {"shape": [h, w], "mask": mask, "values": vals, "ps": draw(gens.pixel_scales()),
            "origin": draw(gens.origins()), "ops": ops}


@st.composite
def repeat_given(draw):
    return _session(draw, edits=False)


@st.composite
def edit_given(draw):
    return _session(draw, edits=True)


def _verify_resized_array(ctx, aa, r, native_in, mask_in, sout, mpad, ps, origin, key, tag):
    h, w = mask_in.shape
    ctx.check(tuple(r.shape_native) == tuple(sout) and tuple(r.mask.shape) == tuple(sout), key + "/shape", tag)
    r_mask = np.asarray(r.mask, dtype=bool)
    r_nat = np.asarray(r.native, dtype=float)
    shm = matching_shifts(r_mask, mask_in, mpad)
    ctx.check(bool(shm), key + "/mask", lambda: tag + ": mask got %s from %s" % (_s(r_mask), _s(mask_in)))
    shd = set()
    for sh in [(sy, sx) for sy in axis_shifts(h, sout[0]) for sx in axis_shifts(w, sout[1])]:
        want = ref_embed(native_in, tuple(sout), sh, 0.0)
        if r_mask.shape == want.shape:
            want = np.where(r_mask, 0.0, want)
        if want.shape == r_nat.shape and np.array_equal(want, r_nat):
            shd.add(sh)
    ctx.check(bool(shd), key + "/values", lambda: tag + ": native got %s from %s" % (_s(r_nat), _s(native_in)))
    if shm and shd:
        ctx.check(bool(shm & shd), key + "/data-mask-detached", tag)
    _geometry(ctx, r.mask, ps, origin, key + "/geometry", tag)


def _verify_zoom_window(ctx, zn, cur, native_in, key, tag):
    ys, xs = np.nonzero(~cur)
    by, bx = ys.max() - ys.min() + 1, xs.max() - xs.min() + 1
    ok = zn.ndim == 2 and zn.shape[0] >= by and zn.shape[1] >= bx
    if ok:
        ok = False
        want = native_in[ys, xs]
        for oy in range(-int(ys.min()), zn.shape[0] - int(ys.max())):
            for ox in range(-int(xs.min()), zn.shape[1] - int(xs.max())):
                if np.array_equal(zn[ys + oy, xs + ox], want):
                    ok = True
                    break
            if ok:
                break
    ctx.check(ok, key, lambda: tag + ": no integer offset places every currently unmasked value in the window %s; "
                                     "mask=%s" % (_s(zn), _s(cur)))


def body_session(case, ctx):
    import copy as _copy
    aa = _aa()
    h, w = case["shape"]
    ps = tuple(float(v) for v in case["ps"])
    origin = tuple(float(v) for v in case["origin"])
    m0 = np.asarray(case["mask"], dtype=bool).reshape(h, w)
    vals = np.asarray(case["values"], dtype=float).reshape(h, w)
    stored0 = np.where(m0, 0.0, vals)   # what the long-lived arrays hold (masked entries zeroed at construction)

    # objs[k] = one live Mask2D object and the contents it must currently have
    objs = [{"mask": aa.Mask2D(mask=m0.copy(), pixel_scales=ps, origin=origin), "cur": m0.copy(),
             "edited": False, "derived": False}]
    A = aa.Array2D(values=vals.copy(), mask=objs[0]["mask"], store_native=True)   # native-stored, shares mask object 0
    B = aa.Array2D(values=vals.copy(), mask=objs[0]["mask"])                      # slim-stored, shares mask object 0
    seen = {}        # (object id, query kind, shape/kernel) -> set of varying arguments
    read_kinds_before_change = set()
    changed = False

    def fresh_mask(cur):
        return aa.Mask2D(mask=cur.copy(), pixel_scales=ps, origin=origin)

    def phase(o):
        return "after-edit" if o["edited"] else ("after-derive" if o["derived"] else "repeat")

    def array_for(who):
        """(array, the mask-object record it is bound to, its native values now) or None if unusable."""
        if who == "N":
            o = objs[-1]
            return aa.Array2D(values=vals.copy(), mask=o["mask"]), o, np.where(o["cur"], 0.0, vals)
        o = objs[0]
        if who == "B":
            if not np.array_equal(o["cur"], m0):
                ctx.label("skip:slim-array-on-edited-mask")   # a slim array cannot follow a changed pixel count
                return None
            return B, o, stored0
        return A, o, np.where(o["cur"], 0.0, stored0)

    def note(o, who, kind, fixed, varying):
        k = (id(o["mask"]), who, kind, str(fixed))
        seen.setdefault(k, set()).add(str(varying))
        if len(seen[k]) >= 2:
            ctx.label("repeat:%s-same-object-different-args" % kind)
            ctx.nt(True)
        if changed and kind in read_kinds_before_change:
            ctx.label("reread-after-change:%s" % kind)
            ctx.nt(True)
        if not changed:
            read_kinds_before_change.add(kind)

    for op in case["ops"]:
        kind = op[0]
        if kind == "set":
            _, i, j, v = op
            o = objs[-1]
            if v and not o["cur"][i, j] and int((~o["cur"]).sum()) <= 1:
                ctx.label("skip:invalid-op")
                continue
            if o["cur"][i, j] != bool(v):
                o["edited"] = True
                changed = True
                ctx.label("edit:set")
            o["mask"][i, j] = bool(v)
            o["cur"][i, j] = bool(v)
            continue
        if kind == "derive":
            how = op[1]
            o = objs[-1]
            if how == "invert":
                if not o["cur"].any():
                    ctx.label("skip:invalid-op")
                    continue
                new_mask, new_cur = o["mask"].invert(), ~o["cur"]
            elif how == "copy":
                new_mask, new_cur = o["mask"].copy(), o["cur"].copy()
            elif how == "copy.copy":
                new_mask, new_cur = _copy.copy(o["mask"]), o["cur"].copy()
            else:
                new_mask, new_cur = _copy.deepcopy(o["mask"]), o["cur"].copy()
            ctx.label("derive:" + how)
            changed = True
            objs.append({"mask": new_mask, "cur": new_cur, "edited": False, "derived": True})
            ctx.check(isinstance(new_mask, aa.Mask2D), "derive/type", "%s() returned %s" % (how, type(new_mask).__name__))
            ctx.equal(np.asarray(new_mask, dtype=bool), new_cur, "derive/contents", "mask.%s() contents" % how)
            continue

        if kind == "mask_resize":
            _, sout, pv = op
            sout = tuple(sout)
            o = objs[-1]
            ph = phase(o)
            note(o, "mask", "mask_resize", sout, pv)
            tag = "[%s] Mask2D.resized_from(%s, pad_value=%s)" % (ph, sout, pv)
            rm = o["mask"].resized_from(new_shape=sout) if pv is None else o["mask"].resized_from(new_shape=sout, pad_value=pv)
            ctx.check(tuple(rm.shape_native) == sout, ph + "/mask2d/resized/shape", tag)
            ctx.check(bool(matching_shifts(np.asarray(rm, dtype=bool), o["cur"], bool(pv))), ph + "/mask2d/resized/values",
                      lambda: tag + ": got %s from current contents %s" % (_s(rm), _s(o["cur"])))
            _geometry(ctx, rm, ps, origin, ph + "/mask2d/resized/geometry", tag)
            fm = fresh_mask(o["cur"])
            want = fm.resized_from(new_shape=sout) if pv is None else fm.resized_from(new_shape=sout, pad_value=pv)
            ctx.equal(np.asarray(rm, dtype=bool), np.asarray(want, dtype=bool), ph + "/mask2d/resized/values",
                      tag + " vs the same call on a freshly built mask")
            continue

        if kind == "mask_zoom":
            q = op[1]
            o = objs[-1]
            ph = phase(o)
            note(o, "mask", "mask_zoom", "", "")
            ctx.label("mask_zoom:" + q)
            got = getattr(o["mask"], q)
            want = getattr(fresh_mask(o["cur"]), q)
            tag = "[%s] Mask2D.%s" % (ph, q)
            ctx.close(np.asarray(got, dtype=float), np.asarray(want, dtype=float), ph + "/mask2d/" + q,
                      atol=1e-9 * (1.0 + abs(origin[0]) + abs(origin[1]) + max(h, w) * max(ps)),
                      what=tag + " vs a freshly built mask with the current contents")
            if q == "zoom_region":
                ys, xs = np.nonzero(~o["cur"])
                g = [int(v) for v in got]
                ctx.check(g[0] <= ys.min() and g[1] >= ys.max() + 1 and g[2] <= xs.min() and g[3] >= xs.max() + 1,
                          ph + "/mask2d/zoom_region", tag + ": %s does not contain rows %d..%d cols %d..%d" % (
                              g, ys.min(), ys.max(), xs.min(), xs.max()))
            continue

        who = op[1]
        got = array_for(who)
        if got is None:
            continue
        arr, o, native_in = got
        cur = o["cur"]
        ph = phase(o)
        ctx.label("who:" + who)
        fresh_arr = aa.Array2D(values=native_in.copy(), mask=fresh_mask(cur), store_native=(who == "A"))

        if kind == "arr_resize":
            _, _, sout, mpv = op
            sout = tuple(sout)
            note(o, who, "arr_resize", sout, mpv)
            tag = "[%s] Array2D(%s).resized_from(%s, mask_pad_value=%s)" % (ph, who, sout, mpv)
            r = arr.resized_from(new_shape=sout, mask_pad_value=mpv)
            _verify_resized_array(ctx, aa, r, native_in, cur, sout, bool(mpv), ps, origin, ph + "/array2d/resized", tag)
            f = fresh_arr.resized_from(new_shape=sout, mask_pad_value=mpv)
            ctx.equal(np.asarray(r.mask, dtype=bool), np.asarray(f.mask, dtype=bool), ph + "/array2d/resized/mask",
                      tag + " mask vs freshly built array")
            ctx.equal(np.asarray(r.native, dtype=float), np.asarray(f.native, dtype=float), ph + "/array2d/resized/values",
                      tag + " native vs freshly built array")
        elif kind == "arr_pad":
            _, _, (kh, kw), mpv = op
            note(o, who, "arr_pad", (kh, kw), mpv)
            tag = "[%s] Array2D(%s).padded_before_convolution_from(%s, mask_pad_value=%s)" % (ph, who, (kh, kw), mpv)
            r = arr.padded_before_convolution_from(kernel_shape=(kh, kw), mask_pad_value=mpv)
            pad = ((kh // 2, kh // 2), (kw // 2, kw // 2))
            ctx.equal(np.asarray(r.mask, dtype=bool), np.pad(cur, pad, constant_values=bool(mpv)),
                      ph + "/array2d/padded/mask", tag + " mask")
            ctx.equal(np.asarray(r.native, dtype=float), np.pad(native_in, pad), ph + "/array2d/padded/values", tag + " native")
            _geometry(ctx, r.mask, ps, origin, ph + "/array2d/padded/geometry", tag)
            if tuple(r.shape_native) == (h + kh - 1, w + kw - 1):
                note(o, who, "arr_pad_trim", "", (kh, kw))
                t = r.trimmed_after_convolution_from(kernel_shape=(kh, kw))
                # the padded ring is cut away again whatever it was filled with
                ctx.equal(np.asarray(t.mask, dtype=bool), cur, ph + "/array2d/pad-trim/identity", tag + " then trim: mask")
                ctx.equal(np.asarray(t.native, dtype=float), native_in, ph + "/array2d/pad-trim/identity", tag + " then trim: native")
        elif kind == "arr_trim":
            _, _, (kh, kw) = op
            py, px = kh // 2, kw // 2
            if h - 2 * py < 1 or w - 2 * px < 1:
                ctx.label("skip:trim-does-not-fit")
                continue
            note(o, who, "arr_trim", "", (kh, kw))
            tag = "[%s] Array2D(%s).trimmed_after_convolution_from(%s)" % (ph, who, (kh, kw))
            t = arr.trimmed_after_convolution_from(kernel_shape=(kh, kw))
            sl = (slice(py, h - py), slice(px, w - px))
            ctx.equal(np.asarray(t.mask, dtype=bool), cur[sl], ph + "/array2d/trimmed/mask", tag + " mask")
            ctx.equal(np.asarray(t.native, dtype=float), native_in[sl], ph + "/array2d/trimmed/values", tag + " native")
            _geometry(ctx, t.mask, ps, origin, ph + "/array2d/trimmed/geometry", tag)
        elif kind == "arr_zoom":
            buffer = int(op[2])
            note(o, who, "arr_zoom", "", buffer)
            tag = "[%s] Array2D(%s).zoomed_around_mask(buffer=%d)" % (ph, who, buffer)
            z = arr.zoomed_around_mask(buffer=buffer)
            zn = np.asarray(z.native, dtype=float)
            _verify_zoom_window(ctx, zn, cur, native_in, ph + "/zoom/values", tag)
            f = np.asarray(fresh_arr.zoomed_around_mask(buffer=buffer).native, dtype=float)
            ctx.equal(zn, f, ph + "/zoom/values", tag + " vs freshly built array")
        elif kind == "extent":
            buffer = int(op[2])
            note(o, who, "extent", "", buffer)
            tag = "[%s] Array2D(%s).extent_of_zoomed_array(buffer=%d)" % (ph, who, buffer)
            e = np.asarray(arr.extent_of_zoomed_array(buffer=buffer), dtype=float)
            f = np.asarray(fresh_arr.extent_of_zoomed_array(buffer=buffer), dtype=float)
            ctx.close(e, f, ph + "/zoom/extent", atol=1e-9 * (1.0 + abs(origin[0]) + abs(origin[1]) + (max(h, w) + 8) * max(ps)),
                      what=tag + " vs freshly built array")

    # the objects left behind still hold exactly the tracked contents (an edit of a copy must not leak)
    for k, o in enumerate(objs):
        ctx.equal(np.asarray(o["mask"], dtype=bool), o["cur"], "derive/aliasing",
                  "contents of mask object %d at the end of the session" % k)


# ---------------------------------------------------------------------------------------------
# constructor routes with a built-in resize / trim option
# ---------------------------------------------------------------------------------------------
def body_fits_resize(case, ctx):
    """Mask2D.from_fits(resized_mask_shape=S, invert=I) == Mask2D.from_fits(invert=I).resized_from(S), for every
    combination of invert, flip_for_ds9, crop / enlarge and parity; plus the numpy reference for both sides."""
    import shutil
    import tempfile
    from astropy.io import fits
    from autoconf import conf
    aa = _aa()
    sin = tuple(case["in"])
    sout = tuple(case["out"])
    h, w = sin
    ps = tuple(float(v) for v in case["ps"])
    origin = tuple(float(v) for v in case["origin"])
    m = np.asarray(case["mask"], dtype=bool).reshape(h, w)
    hdu = int(case.get("hdu", 0))
    dtype = case.get("dtype", "float64")
    _labels_resize(ctx, sin, sout)
    ctx.label("hdu:%d" % hdu, "dtype:" + dtype)
    grow = sout[0] > h or sout[1] > w
    if grow:
        ctx.label("enlarges")
    if m.any() and (~m).any():
        ctx.label("mask:mixed")
    ctx.nt(grow and bool(m.any()) and bool((~m).any()))   # invert + enlarging is where the order matters
    pc = parity_class(sin, sout)

    section = conf.instance["general"]["fits"]
    old_flip = section["flip_for_ds9"]
    tmp = tempfile.mkdtemp(prefix="vp_c14_")
    try:
        path = os.path.join(tmp, "mask.fits")
        hdus = [fits.PrimaryHDU(m.astype(dtype))] if hdu == 0 else [
            fits.PrimaryHDU(np.zeros((2, 2))), fits.ImageHDU(m.astype(dtype))]
        fits.HDUList(hdus).writeto(path)
        for flip in (False, True):
            section["flip_for_ds9"] = flip
            stored = np.flipud(m) if flip else m
            for invert in (False, True):
                tag = "Mask2D.from_fits(%s, resized_mask_shape=%s, invert=%s) flip_for_ds9=%s" % (sin, sout, invert, flip)
                base_want = ~stored if invert else stored
                base = aa.Mask2D.from_fits(file_path=path, pixel_scales=ps, hdu=hdu, origin=origin, invert=invert)
                ctx.equal(np.asarray(base, dtype=bool), base_want, "from_fits/base", tag + " without the resize option")
                direct = aa.Mask2D.from_fits(file_path=path, pixel_scales=ps, hdu=hdu, origin=origin,
                                             resized_mask_shape=sout, invert=invert)
                ctx.check(isinstance(direct, aa.Mask2D) and tuple(direct.shape_native) == sout, "from_fits/resized/shape", tag)
                two_step = base.resized_from(new_shape=sout)
                key = "from_fits/resized/%s/%s" % ("invert" if invert else "plain", "enlarge" if grow else "crop")
                ctx.equal(np.asarray(direct, dtype=bool), np.asarray(two_step, dtype=bool), key,
                          tag + " vs from_fits(invert=%s).resized_from(%s)" % (invert, sout))
                # numpy reference: centred crop / embedding of the loaded (and inverted) mask, new pixels unmasked
                ctx.check(bool(matching_shifts(np.asarray(direct, dtype=bool), base_want, False)), key,
                          lambda: tag + ": got %s, loaded mask is %s" % (_s(direct), _s(base_want)))
                _geometry(ctx, direct, ps, origin, "from_fits/resized/geometry", tag)
                if sout[0] >= h and sout[1] >= w:
                    ctx.equal(np.asarray(direct.resized_from(new_shape=sin), dtype=bool), base_want,
                              "from_fits/resized/roundtrip", tag + " then shrink back")
    finally:
        conf.instance["general"]["fits"]["flip_for_ds9"] = old_flip
        shutil.rmtree(tmp, ignore_errors=True)


def cases_fits_resize(tier):
    seed = _seed()
    sides = range(1, 6) if tier == "quick" else range(1, 9)
    for h in sides:
        for w in sides:
            for h2 in sides:
                for w2 in sides:
                    rng = random.Random("fits/%d/%d/%d/%d/%d" % (seed, h, w, h2, w2))
                    yield {"in": [h, w], "out": [h2, w2], "ps": SCALES[rng.randrange(len(SCALES))],
                           "origin": ORIGINS[rng.randrange(len(ORIGINS))],
                           "mask": _rand_mask(rng, h, w, rng.choice([0.3, 0.5, 0.5, 0.7])),
                           "hdu": rng.choice([0, 0, 1]), "dtype": rng.choice(["float64", "int16", "uint8"])}


SUBCHECKS = [
    SubCheck("resize_pairs", _check_resize, cases=cases_resize, shards={"quick": 16, "thorough": 16}),
    SubCheck("resize_given", _check_resize, strategy=resize_given(), examples={"quick": 200, "thorough": 4000},
             shards={"quick": 2, "thorough": 8}),
    SubCheck("pad_trim", body_pad_trim, cases=cases_pad_trim, shards={"quick": 8, "thorough": 8}),
    SubCheck("pad_trim_given", body_pad_trim, strategy=pad_trim_given(), examples={"quick": 200, "thorough": 3000},
             shards={"quick": 2, "thorough": 8}),
    SubCheck("imaging_autopad", body_imaging, strategy=imaging_given(), examples={"quick": 400, "thorough": 6000},
             shards={"quick": 4, "thorough": 8}),
    SubCheck("zoom", body_zoom, strategy=zoom_given(), examples={"quick": 400, "thorough": 6000},
             shards={"quick": 2, "thorough": 8}),
    SubCheck("fits_resize", body_fits_resize, cases=cases_fits_resize, shards={"quick": 8, "thorough": 16}),
    SubCheck("repeat_calls", body_session, strategy=repeat_given(), examples={"quick": 400, "thorough": 6000},
             shards={"quick": 4, "thorough": 8}),
    SubCheck("edit_state", body_session, strategy=edit_given(), examples={"quick": 600, "thorough": 8000},
             shards={"quick": 4, "thorough": 8}),
]
