"""C19 — layout regions rotate and extract consistently with the arrays they index."""
import json

import numpy as np
from hypothesis import strategies as st

from vp.engine import SubCheck, HarnessError

PROPERTY = "C19"
TECHNIQUE = ("exhaustive enumeration over bounded shapes/regions/windows/corners plus property-based testing "
             "(Hypothesis) for larger shapes, against index-array reference models and closed forms")
RULE = (
    "enum_rotate: every shape <=5x5 (quick) / <=7x7 (thorough), every valid region inside it, all four read-out "
    "corners; enum_extract: same shapes, every region x every extraction window; enum_front_trailing: shapes "
    "<=4x4 / <=6x6, every 2D region and every 1D region of length<=6/9, every pixel pair (valid, empty, reversed) "
    "and every pixels_from_end; enum_constructors: every integer 4-tuple in [-2,4]^4 / [-3,6]^4 and 2-tuple in "
    "[-3,7]^2 / [-4,10]^2; enum_large: per axis every boundary relation between region and window (abutting on "
    "either side, gap of one pixel, overlap of exactly one pixel, equal, equal low/high edge nested or containing, "
    "nested, containing, clipped by one) at region starts 0..70000, 2**31-1..2**31+300 (thorough: ..2**40+1), region "
    "lengths 1..40000 (thorough ..2**31), margins 1/2/257/300/40000, crossed with representative relations on the "
    "other axis, frame padding 0/1/257, corners cycling, plus a 2086x2128 CCD quadrant (every named region x every "
    "named region as window x corner); given_*: Hypothesis shapes up to 40x40 (three layout slots, random windows, "
    "corners, values), given_large: both axes in a drawn boundary relation at drawn magnitudes (<=70000 and around "
    "256, 2**15, 2**16, 2**31), coordinates up to 70000 / 2**31+300 for front/trailing and constructors. Oracles: "
    "arrays hold their own flat index, rotation reference = fancy-index reflection (independent of negative-stride "
    "slicing), rotated region reference = bounding box of the reflected boolean mask, extraction reference = set "
    "intersection of row/column index ranges, front/trailing reference = slicing the parent's (or the trailing "
    "strip's) own sub-array; above 1600 (rotation) / 40000 (front/trailing) cells the same statements are decided by "
    "O(1) range arithmetic (range(n)[::-1], range slicing and range equality; the closed forms are cross-checked "
    "against the mask / set references on every small case); constructors must raise RegionException iff a "
    "coordinate is negative or an extent is <= 0. Memory layout: every array handed to rotate_array_via_roe_corner_from (all corners, "
    "twice-restores with the intermediate fed back as returned and re-laid), Layout2D.original_orientation_from, "
    "Array2D/Array1D construction feeding extract_*_array_from / original_orientation / "
    "Layout1D.extract_overscan_array_1d_from, and array[region.slice] is held C-contiguous, Fortran-ordered, as "
    "a.T.copy().T, as a window of a bigger frame, as a stepped view or as a negative-stride view (backing buffers "
    "carry sentinels); enum_layouts enumerates frames <=4x4 / <=6x6 x 6 layouts x 4 corners x ~10 regions x "
    "int/float, given_rotate_extract draws the layout (5/6 non-C kinds, 90% of frames with >1 row and >1 column); "
    "oracles are computed from np.array(values) (index order); rotated arrays must not share memory with the "
    "input or its backing buffer. Purity: every Region2D / Region1D / Layout2D / pattern / array "
    "handed to rotate_*, region_after_extraction, front/trailing methods, new_rotated_from, rotated_from_roe_corner, "
    "layout_extracted_from, original_orientation*, extract_*_array_from is value-snapshotted before and compared "
    "after the call; one region object, one pattern and one source layout are rotated for all four corners in turn "
    "(never rotated back) and every earlier result is re-read after every later call; rotation chains "
    "source->c1->c2->c3 and extraction pairs re-read the intermediate layouts. Every case is JSON round-tripped "
    "first so equal coordinates are distinct int objects. Everything is integer-exact (no tolerances, no tie bands). "
    "Non-trivial: rotate = corner != (1,0) and region touches an array edge; extract = window clips exactly one "
    "side of the region or the region touches an array edge; large = a boundary relation on some axis and frame "
    "> 256; front/trailing = first requested pixel > 0 or parent touches the array edge; constructors = invalid "
    "input or a unit extent. Distinct = SHA-1 of the canonical case."
)
ASSUMPTIONS = [
    "read-out corners are passed as tuples and regions as tuples of Python ints or Region objects (what every caller in the repository and its tests does)",
    "regions and extraction windows lie inside the array they refer to (the statement's quantifier)",
    "the docstring of rotate_array_via_roe_corner_from fixes the orientation: the read-out corner ends at the bottom-left (row H-1, column 0) and the shape is preserved, i.e. rows flip iff corner[0]==0, columns flip iff corner[1]==1",
    "numpy fancy indexing and Python set/range arithmetic are the reference for 'content of a region'",
    "Layout2D.layout_extracted_from is only required to update the regions (shape_2d of the result is not part of the statement)",
    "coordinates are unbounded Python ints (no frame-size limit is documented), so magnitudes beyond 2**31 are valid input",
    "a call that returns a new region/layout may share (alias) unchanged argument objects; only a change of an argument's value, or of an earlier result's value, is a violation",
    "a pattern is any deep-copyable object with a `regions` list (what rotate_pattern_ci_via_roe_corner_from requires)",
]

CORNERS = [[1, 0], [0, 0], [1, 1], [0, 1]]
SLOTS = ["parallel_overscan", "serial_prescan", "serial_overscan"]


def _aa():
    import autoarray as aa
    return aa


def _util():
    from autoarray.layout import layout_util
    return layout_util


def _rexc():
    from autoarray import exc
    return exc.RegionException


# ---------------------------------------------------------------------------------------------
# reference models
# ---------------------------------------------------------------------------------------------
def ref_rot_array(a, corner):
    """Reflection by explicit index lists (no negative strides): rows flip iff corner[0]==0, columns
    flip iff corner[1]==1."""
    a = np.asarray(a)
    h, w = a.shape
    ii = [h - 1 - i for i in range(h)] if corner[0] == 0 else list(range(h))
    jj = [w - 1 - j for j in range(w)] if corner[1] == 1 else list(range(w))
    return a[np.ix_(ii, jj)]


def ref_rot_region(r, shape, corner):
    """Bounding box of the reflected boolean mask of the region (and the mask must be that box)."""
    h, w = shape
    m = np.zeros((h, w), dtype=bool)
    m[r[0]:r[1], r[2]:r[3]] = True
    rm = ref_rot_array(m, corner)
    ys, xs = np.nonzero(rm)
    out = [int(ys.min()), int(ys.max()) + 1, int(xs.min()), int(xs.max()) + 1]
    assert rm[out[0]:out[1], out[2]:out[3]].all() and int(rm.sum()) == (out[1] - out[0]) * (out[3] - out[2])
    return out


def ref_overlap(r, win):
    """Rows and columns (original coordinates) in region ∩ window."""
    rows = sorted(set(range(r[0], r[1])) & set(range(win[0], win[1])))
    cols = sorted(set(range(r[2], r[3])) & set(range(win[2], win[3])))
    return rows, cols


def rcoords(r):
    return [int(r[i]) for i in range(4)]


def is_valid_2d(t):
    return t[0] >= 0 and t[1] >= 0 and t[2] >= 0 and t[3] >= 0 and t[1] - t[0] > 0 and t[3] - t[2] > 0


def is_valid_1d(t):
    return t[0] >= 0 and t[1] >= 0 and t[1] - t[0] > 0


def ckey(corner):
    return "corner%d%d" % (corner[0], corner[1])


def touches_edge(r, h, w):
    return r[0] == 0 or r[1] == h or r[2] == 0 or r[3] == w


def region_labels(r, h, w, ctx, prefix="region"):
    if r is None:
        return
    if touches_edge(r, h, w):
        ctx.label(prefix + ":touches-edge")
    else:
        ctx.label(prefix + ":interior")
    if r[1] - r[0] == 1:
        ctx.label(prefix + ":single-row")
    if r[3] - r[2] == 1:
        ctx.label(prefix + ":single-column")
    if r[0] == 0 and r[1] == h and r[2] == 0 and r[3] == w:
        ctx.label(prefix + ":full-array")


# ---------------------------------------------------------------------------------------------
# purity: arguments (regions, layouts, patterns, arrays) must come back from every call unchanged
# ---------------------------------------------------------------------------------------------
class Pattern:
    """Stand-in for a charge-injection pattern: any object with a `regions` list (what
    rotate_pattern_ci_via_roe_corner_from needs)."""

    def __init__(self, regions):
        self.regions = regions


def fresh(case):
    """JSON round trip of the case: a live run sees exactly what a replay sees, and every integer is its own
    object (equal coordinates above CPython's small-int cache are distinct objects, as they are for any
    caller that computed them), so identity comparisons on ints cannot pass by accident."""
    return json.loads(json.dumps(case))


_CLS = []


def snap(o):
    """Value snapshot of an argument object."""
    if o is None:
        return None
    t = type(o)
    if t is int or t is bool or t is float or t is str:
        return o
    if t is tuple or t is list:
        return [v if type(v) is int else snap(v) for v in o]
    if not _CLS:
        aa = _aa()
        _CLS.extend([aa.Region2D, aa.Region1D, aa.Layout2D])
    if t is _CLS[0]:
        return ("Region2D", [int(o[0]), int(o[1]), int(o[2]), int(o[3])])
    if t is _CLS[1]:
        return ("Region1D", [int(o[0]), int(o[1])])
    if t is _CLS[2]:
        return ("Layout2D", snap(o.shape_2d), snap(o.original_roe_corner),
                [snap(o.parallel_overscan), snap(o.serial_prescan), snap(o.serial_overscan)])
    if t is Pattern:
        return ("Pattern", [snap(r) for r in o.regions])
    a = np.array(o, dtype=float)       # ndarray / Array2D / Array1D
    return ("array", list(a.shape), a.tolist())


def pure(ctx, key, mkey, fn, watch, **kw):
    """Call implementation code on valid input (must not raise) and check that none of the watched
    argument objects changed value."""
    before = [snap(x) for x in watch]
    out = ctx.impl(key, fn, **kw)
    after = [snap(x) for x in watch]
    ctx.comparisons += 1
    if before != after:
        i = next(k for k in range(len(watch)) if before[k] != after[k])
        ctx.fail(mkey, "%s changed watched argument #%d: %s -> %s" % (key, i, str(before[i])[:160], str(after[i])[:160]))
    return out


LAYOUTS = ["C", "F", "TT", "window", "stepped", "negstride"]


def lay(values, kind):
    """The same values (index order) held in a given memory layout: C-contiguous copy, Fortran-ordered copy,
    transposed view of the transposed content, window of a bigger frame, stepped view, negative-stride view
    of the reversed content.  Backing buffers larger than the content hold sentinel values (distinct from any
    content) so that anything read in memory order instead of index order is visible."""
    a = np.array(values)
    if kind == "C":
        return a
    def sentinel(shape):
        n = int(np.prod(shape))
        return (-7777 - np.arange(n)).reshape(shape).astype(a.dtype)
    if a.ndim == 1:
        n = a.shape[0]
        if kind == "window":
            big = sentinel((n + 5,))
            big[2:2 + n] = a
            return big[2:2 + n]
        if kind == "stepped":
            big = sentinel((2 * n,))
            big[::2] = a
            return big[::2]
        if kind == "negstride":
            return a[::-1].copy()[::-1]
        return a
    h, w = a.shape
    if kind == "F":
        return np.asfortranarray(a)
    if kind == "TT":
        return a.T.copy().T
    if kind == "window":
        big = sentinel((h + 5, w + 7))
        big[2:2 + h, 3:3 + w] = a
        return big[2:2 + h, 3:3 + w]
    if kind == "stepped":
        big = sentinel((2 * h, 2 * w))
        big[::2, ::2] = a
        return big[::2, ::2]
    if kind == "negstride":
        return a[::-1, ::-1].copy()[::-1, ::-1]
    raise HarnessError("unknown layout %s" % kind)


def with_base(arr):
    """The array and, for a view, its backing buffer (both are watched for modification)."""
    return [arr] + ([arr.base] if isinstance(getattr(arr, "base", None), np.ndarray) else [])


def layout_labels(arr, kind, ctx):
    ctx.label("layout:" + kind)
    a = np.asarray(arr)
    ctx.label("layout:c-contiguous" if a.flags["C_CONTIGUOUS"] else "layout:non-c-contiguous")
    if a.ndim == 2 and a.shape[0] > 1 and a.shape[1] > 1:
        ctx.label("layout:rows>1,cols>1")


def no_alias(ctx, key, out, arr, what):
    ctx.check(not any(np.shares_memory(np.asarray(out), b) for b in with_base(arr)), key,
              "%s shares memory with its input" % what)


def unchanged(ctx, mkey, objs, before, what):
    after = [snap(x) for x in objs]
    ctx.check(before == after, mkey, lambda: "%s: %s -> %s" % (what, str(before)[:200], str(after)[:200]))


# ---------------------------------------------------------------------------------------------
# rotation
# ---------------------------------------------------------------------------------------------
SMALL_CELLS = 1600     # above this only closed forms / range arithmetic are used (no index arrays)


def reflect(a, b, n, flip):
    return [n - b, n - a] if flip else [a, b]


def ref_rot_region_cf(r, shape, corner):
    return reflect(r[0], r[1], shape[0], corner[0] == 0) + reflect(r[2], r[3], shape[1], corner[1] == 1)


_ROT_MEMO = {}


def rot_want(r, shape, corner):
    """Reference rotated region: reflected boolean mask for small frames (cross-checked against the closed
    form, harness error if they ever disagree), closed form beyond."""
    if r is None:
        return None
    k = (tuple(r), tuple(shape), tuple(corner))
    if k in _ROT_MEMO:
        return list(_ROT_MEMO[k])
    cf = ref_rot_region_cf(r, shape, corner)
    if shape[0] * shape[1] <= SMALL_CELLS:
        m = ref_rot_region(r, shape, corner)
        if m != cf:
            raise HarnessError("closed-form reflection %s disagrees with mask reference %s" % (cf, m))
        if len(_ROT_MEMO) < 200000:
            _ROT_MEMO[k] = tuple(cf)
    return cf


def axis_selected(n, flip, A, B):
    """Original indices held by positions A..B-1 of an axis of length n after the (optional) flip, as an
    ascending range; O(1) at any magnitude."""
    m = range(n)[::-1] if flip else range(n)
    s = m[A:B]
    return s[::-1] if flip else s


def check_rotated_region(got, r, shape, corner, ctx, key, what):
    """`got` must be a Region2D inside the frame selecting, in the rotated frame, exactly the original rows
    and columns of r (range arithmetic, any magnitude) and equal the reference coordinates."""
    aa = _aa()
    ctx.check(isinstance(got, aa.Region2D), "rotate-region/type", "%s: result is %s" % (what, type(got).__name__))
    g = rcoords(got)
    h, w = shape
    ok = (0 <= g[0] < g[1] <= h and 0 <= g[2] < g[3] <= w
          and axis_selected(h, corner[0] == 0, g[0], g[1]) == range(r[0], r[1])
          and axis_selected(w, corner[1] == 1, g[2], g[3]) == range(r[2], r[3]))
    ctx.check(ok and g == rot_want(r, shape, corner), key,
              lambda: "%s: region %s in %s -> %s want %s" % (what, r, shape, g, rot_want(r, shape, corner)))


def corner_cycle(start):
    i = CORNERS.index(list(start))
    return CORNERS[i:] + CORNERS[:i]


def check_rotate_region(shape, r, corner, ctx, arr=None, ra=None):
    """rotate_region_via_roe_corner_from for tuple and Region2D input: reflection, commutation (when an
    array is given), involution, argument purity."""
    aa = _aa()
    lu = _util()
    shape = tuple(shape)
    c = tuple(corner)
    ck = ckey(corner)
    if r is None:
        got = lu.rotate_region_via_roe_corner_from(region=None, shape_native=shape, roe_corner=c)
        ctx.check(got is None, "rotate-region/none", "a missing region must stay missing")
        return None
    first = None
    for form in ("tuple", "Region2D"):
        region_in = tuple(r) if form == "tuple" else aa.Region2D(region=tuple(r))
        R = pure(ctx, "rotate-region/" + ck, "rotate-region/mutates-argument", lu.rotate_region_via_roe_corner_from,
                 [region_in], region=region_in, shape_native=shape, roe_corner=c)
        check_rotated_region(R, r, shape, corner, ctx, "rotate-region/reflection/" + ck, "%s input" % form)
        if arr is not None:
            # commutation, using the implementation's own rotation on both sides
            sub = np.asarray(arr)[r[0]:r[1], r[2]:r[3]]       # a (possibly strided) view: region slicing of the input
            ctx.equal(np.asarray(arr)[aa.Region2D(region=tuple(r)).slice], np.array(arr)[np.ix_(range(r[0], r[1]), range(r[2], r[3]))],
                      "region2d/slice", "array[region.slice] for region %s" % (r,))
            rot_sub = lu.rotate_array_via_roe_corner_from(array=sub, roe_corner=c)
            ctx.equal(np.asarray(ra)[R.slice], rot_sub, "rotate/commute/" + ck,
                      "rot(arr)[rot(region)] vs rot(arr[region]) for region %s" % (r,))
            ctx.equal(np.asarray(ra)[R.slice], ref_rot_array(np.array(sub), corner), "rotate/commute-reference/" + ck,
                      "rot(arr)[rot(region)] vs reference rotation of arr[region] for region %s" % (r,))
        RR = pure(ctx, "rotate-region/twice/" + ck, "rotate-region/mutates-argument",
                  lu.rotate_region_via_roe_corner_from, [R, region_in], region=R, shape_native=shape, roe_corner=c)
        ctx.equal(rcoords(RR), list(r), "rotate-region/involution/" + ck, "rotating region %s twice" % (r,))
        check_rotated_region(R, r, shape, corner, ctx, "rotate-region/mutates-argument",
                             "first result re-read after it was rotated again")
        first = first or R
    return first


def check_rotate_util(arr, r, corner, ctx, layout="C"):
    """layout_util level: array flips, region reflection, commutation, involution.  `arr` may be held in any
    memory layout (`layout` names it); every oracle is computed from np.array(arr), i.e. in index order."""
    lu = _util()
    h, w = arr.shape
    c = tuple(corner)
    ck = ckey(corner)
    vals = np.array(arr)

    ra = pure(ctx, "rotate-array/" + ck, "rotate-array/mutates-argument", lu.rotate_array_via_roe_corner_from,
              with_base(arr), array=arr, roe_corner=c)
    want_ra = ref_rot_array(vals, corner)
    ctx.equal(ra, want_ra, "rotate-array/orientation/" + ck,
              "rotated array vs index-reflection reference (input layout %s)" % layout)
    no_alias(ctx, "rotate-array/aliases-input", ra, arr, "rotated array (corner %s, layout %s)" % (c, layout))
    # twice restores: the intermediate fed back as returned, and re-held in the case's layout
    for how, ra_in in (("as returned", np.asarray(ra)), ("re-laid " + layout, lay(want_ra, layout))):
        rra = pure(ctx, "rotate-array/twice/" + ck, "rotate-array/mutates-argument", lu.rotate_array_via_roe_corner_from,
                   with_base(ra_in) + [arr], array=ra_in, roe_corner=c)
        ctx.equal(rra, vals, "rotate-array/involution/" + ck, "rotating the array twice (intermediate %s)" % how)
        no_alias(ctx, "rotate-array/aliases-input", rra, ra_in, "twice-rotated array")
        if layout == "C":
            break
    return ra, check_rotate_region((h, w), r, corner, ctx, arr=arr, ra=ra)


def check_rotate_reuse(shape, r, start, ctx):
    """One Region2D object rotated for all four corners in turn, never rotated back: every result must be
    right, the object must keep its value, earlier results must keep theirs."""
    aa = _aa()
    lu = _util()
    shape = tuple(shape)
    obj = aa.Region2D(region=tuple(r))
    seen = []
    for c in corner_cycle(start):
        R = pure(ctx, "rotate-region/reuse/" + ckey(c), "rotate-region/mutates-argument",
                 lu.rotate_region_via_roe_corner_from, [obj], region=obj, shape_native=shape, roe_corner=tuple(c))
        check_rotated_region(R, r, shape, c, ctx, "rotate-region/reuse/" + ckey(c),
                             "same Region2D object reused (cycle from %s)" % (start,))
        seen.append((R, c))
        for R0, c0 in seen[:-1]:
            check_rotated_region(R0, r, shape, c0, ctx, "rotate-region/earlier-result-changed",
                                 "result for corner %s re-read after rotating for corner %s" % (c0, c))


def check_rotate_pattern(shape, rs, start, ctx):
    """rotate_pattern_ci_via_roe_corner_from: every region of the pattern rotated, the pattern handed in
    (and its region objects) unchanged, for Region2D and tuple regions, one pattern reused for all corners."""
    aa = _aa()
    lu = _util()
    shape = tuple(shape)
    for form in ("Region2D", "tuple"):
        regs = [aa.Region2D(region=tuple(r)) if form == "Region2D" else tuple(r) for r in rs]
        pat = Pattern(list(regs))
        seen = []
        for c in corner_cycle(start):
            out = pure(ctx, "rotate-pattern/" + ckey(c), "rotate-pattern/mutates-argument",
                       lu.rotate_pattern_ci_via_roe_corner_from, [pat] + regs,
                       pattern_ci=pat, shape_native=shape, roe_corner=tuple(c))
            ctx.check(len(pat.regions) == len(regs) and all(a is b for a, b in zip(pat.regions, regs)),
                      "rotate-pattern/mutates-argument", "the input pattern's region list was replaced")
            ctx.check(len(out.regions) == len(rs), "rotate-pattern/" + ckey(c), "number of regions changed")
            for R, r in zip(out.regions, rs):
                check_rotated_region(R, r, shape, c, ctx, "rotate-pattern/" + ckey(c), "pattern (%s regions)" % form)
            seen.append((out, c))
            for o0, c0 in seen[:-1]:
                for R, r in zip(o0.regions, rs):
                    check_rotated_region(R, r, shape, c0, ctx, "rotate-pattern/earlier-result-changed",
                                         "pattern for corner %s re-read after rotating for corner %s" % (c0, c))


def make_layout(shape, regions, corner=None):
    aa = _aa()
    kw = {s: (tuple(r) if r is not None else None) for s, r in zip(SLOTS, regions)}
    if corner is not None:
        kw["original_roe_corner"] = tuple(corner)
    return aa.Layout2D(shape_2d=tuple(shape), **kw)


def layout_regions(layout):
    out = []
    for s in SLOTS:
        r = getattr(layout, s)
        out.append(None if r is None else rcoords(r))
    return out


def check_layout_reuse(shape, regions, start, ctx):
    """One source layout (built from caller-owned Region2D objects) asked for all four orientations in turn,
    then a chain of rotations that is never undone, then rotated_from_roe_corner fed the same Region2D
    objects for every corner.  After every call: arguments and source unchanged, every layout produced so
    far still holds what it held when it was made."""
    aa = _aa()
    shape = tuple(shape)
    inst = [None if r is None else aa.Region2D(region=tuple(r)) for r in regions]
    L0 = aa.Layout2D(shape_2d=shape, **dict(zip(SLOTS, inst)))
    base = [None if r is None else list(r) for r in regions]
    made = [(L0, base, "source layout")]
    owned = [x for x in inst if x is not None]

    def recheck(after):
        for L, want, name in made:
            ctx.check(layout_regions(L) == want, "layout/earlier-layout-changed",
                      lambda: "%s re-read after %s: %s want %s" % (name, after, layout_regions(L), want))

    cyc = corner_cycle(start)
    for c in cyc:
        Lc = pure(ctx, "layout/new_rotated_from/reuse/" + ckey(c), "layout/new_rotated_from/mutates-argument",
                  L0.new_rotated_from, [L0] + owned, roe_corner=tuple(c))
        want = [rot_want(r, shape, c) for r in regions]
        ctx.check(layout_regions(Lc) == want, "layout/new_rotated_from/reuse/" + ckey(c),
                  lambda: "source reused (cycle from %s): %s -> %s want %s" % (start, regions, layout_regions(Lc), want))
        made.append((Lc, want, "layout rotated for %s" % (c,)))
        recheck("new_rotated_from(%s) on the source" % (c,))
    # a chain that is never rotated back: source -> c1 -> c2 -> c3
    L, want = made[1][0], made[1][1]
    for c in cyc[1:3]:
        Ln = pure(ctx, "layout/new_rotated_from/chain/" + ckey(c), "layout/new_rotated_from/mutates-argument",
                  L.new_rotated_from, [L, L0] + owned, roe_corner=tuple(c))
        want = [rot_want(x, shape, c) for x in want]
        ctx.check(layout_regions(Ln) == want, "layout/new_rotated_from/chain/" + ckey(c),
                  lambda: "chained rotation: -> %s want %s" % (layout_regions(Ln), want))
        made.append((Ln, want, "chained layout (%s)" % (c,)))
        recheck("chained new_rotated_from(%s)" % (c,))
        L = Ln
    # the classmethod fed caller-owned Region2D objects, the same objects for every corner
    for c in cyc:
        Lr = pure(ctx, "layout/rotated_from_roe_corner/reuse/" + ckey(c), "layout/rotated_from_roe_corner/mutates-argument",
                  aa.Layout2D.rotated_from_roe_corner, owned + [L0], roe_corner=tuple(c), shape_native=shape,
                  **dict(zip(SLOTS, inst)))
        want = [rot_want(r, shape, c) for r in regions]
        ctx.check(layout_regions(Lr) == want, "layout/rotated_from_roe_corner/reuse/" + ckey(c),
                  lambda: "Region2D arguments reused: %s -> %s want %s" % (regions, layout_regions(Lr), want))
        made.append((Lr, want, "rotated_from_roe_corner(%s)" % (c,)))
        recheck("rotated_from_roe_corner(%s)" % (c,))


def check_rotate_layout(arr, regions, corner, ctx, layout="C"):
    """Layout2D.rotated_from_roe_corner / new_rotated_from / original_orientation_from."""
    aa = _aa()
    h, w = arr.shape
    vals = np.array(arr)
    c = tuple(corner)
    ck = ckey(corner)
    want = [rot_want(r, (h, w), corner) for r in regions]
    orig = [None if r is None else list(r) for r in regions]

    kw = {s: (tuple(r) if r is not None else None) for s, r in zip(SLOTS, regions)}
    L1 = ctx.impl("layout/rotated_from_roe_corner/" + ck, aa.Layout2D.rotated_from_roe_corner, roe_corner=c,
                  shape_native=(h, w), **kw)
    ctx.check(layout_regions(L1) == want, "layout/rotated_from_roe_corner/" + ck,
              "regions %s -> %s want %s" % (regions, layout_regions(L1), want))
    ctx.check(tuple(L1.original_roe_corner) == c and tuple(L1.shape_2d) == (h, w),
              "layout/rotated_from_roe_corner/meta", "original_roe_corner / shape_2d not carried")

    L0 = make_layout((h, w), regions)
    L2 = pure(ctx, "layout/new_rotated_from/" + ck, "layout/new_rotated_from/mutates-argument", L0.new_rotated_from,
              [L0], roe_corner=c)
    ctx.check(layout_regions(L2) == want, "layout/new_rotated_from/" + ck,
              "regions %s -> %s want %s" % (regions, layout_regions(L2), want))
    ctx.check(tuple(L2.original_roe_corner) == c and tuple(L2.shape_2d) == (h, w),
              "layout/new_rotated_from/meta", "original_roe_corner / shape_2d not carried")
    L3 = pure(ctx, "layout/new_rotated_from/twice/" + ck, "layout/new_rotated_from/mutates-argument",
              L2.new_rotated_from, [L2, L0], roe_corner=c)
    ctx.check(layout_regions(L3) == orig,
              "layout/new_rotated_from/involution/" + ck, "rotating the layout twice: %s" % (layout_regions(L3),))
    # the intermediate layout and the source, re-read after the later rotation
    ctx.check(layout_regions(L2) == want and layout_regions(L0) == orig, "layout/earlier-layout-changed",
              lambda: "after rotating twice: source %s (want %s), intermediate %s (want %s)"
              % (layout_regions(L0), orig, layout_regions(L2), want))

    # the rotated layout knows its original corner: original_orientation_from undoes the rotation
    ra = lay(ref_rot_array(vals, corner), layout)
    back = pure(ctx, "layout/original_orientation_from/" + ck, "layout/original_orientation_from/mutates-argument",
                L2.original_orientation_from, with_base(ra) + [L2], array=ra)
    ctx.equal(back, vals, "layout/original_orientation_from/" + ck,
              "original_orientation_from(rot(arr)) (input layout %s)" % layout)
    no_alias(ctx, "layout/original_orientation_from/aliases-input", back, ra, "original_orientation_from result")
    return L2


def check_rotate_arrays(arr, regions, corner, ctx, slim_too=True, layout="C"):
    """Array2D-level entry points: extract_*_array_from on the rotated layout + rotated Array2D, and
    Array2D.original_orientation."""
    aa = _aa()
    h, w = arr.shape
    c = tuple(corner)
    ck = ckey(corner)
    farr = np.array(arr, dtype=float)
    ra = ref_rot_array(farr, corner)
    L = make_layout((h, w), regions).new_rotated_from(roe_corner=c)
    ra_in = lay(ra, layout)            # the values handed to Array2D are held in the case's memory layout
    A = aa.Array2D.no_mask(values=ra_in, pixel_scales=1.0, header=aa.Header(original_roe_corner=c))
    ctx.equal(ra_in, ra, "array2d/constructor-mutates-values", "values handed to Array2D.no_mask (layout %s)" % layout)

    for slot, fn, key in (("parallel_overscan", "extract_parallel_overscan_array_2d_from", "layout/extract-parallel-overscan"),
                          ("serial_overscan", "extract_serial_overscan_array_from", "layout/extract-serial-overscan")):
        r = regions[SLOTS.index(slot)]
        if r is None:
            continue
        got = pure(ctx, key, key + "/mutates-argument", getattr(L, fn), [A, L], array=A)
        want = ref_rot_array(farr[r[0]:r[1], r[2]:r[3]], corner)
        ctx.equal(np.asarray(got.native), want, key, "%s on rotated array, region %s %s" % (fn, r, ck))
        # and in the unrotated frame
        L0 = make_layout((h, w), regions)
        A0 = aa.Array2D.no_mask(values=lay(farr, layout), pixel_scales=1.0)
        got0 = pure(ctx, key, key + "/mutates-argument", getattr(L0, fn), [A0, L0], array=A0)
        ctx.equal(np.asarray(got0.native), farr[r[0]:r[1], r[2]:r[3]], key, "%s region %s" % (fn, r))

    # Array2D.original_orientation: the array is held in the rotated frame, its header names the corner
    mask = aa.Mask2D.all_false(shape_native=(h, w), pixel_scales=1.0)
    an_in = lay(ra, layout)
    An = aa.Array2D(values=an_in, mask=mask, header=aa.Header(original_roe_corner=c), store_native=True)
    before = [snap(An)]
    got = An.original_orientation
    ctx.equal(np.asarray(got), farr, "array2d/original-orientation/" + ck,
              "native-stored Array2D(rot(arr)).original_orientation (values layout %s)" % layout)
    no_alias(ctx, "array2d/original-orientation/aliases-input", got, an_in, "original_orientation result")
    unchanged(ctx, "array2d/original-orientation/mutates-argument", [An], before, "the Array2D changed")
    if slim_too:
        key = "array2d/original-orientation-slim-stored"
        before = [snap(A)]
        try:
            got = A.original_orientation  # Array2D.no_mask stores slim (the default storage)
        except Exception as e:  # same root cause whatever the corner: keep one key
            ctx.fail(key, "slim-stored Array2D(%dx%d, corner %s).original_orientation raised %s: %s"
                     % (h, w, c, type(e).__name__, str(e)[:200]))
        else:
            ctx.equal(np.asarray(got), farr, key, "slim-stored Array2D(rot(arr)).original_orientation, corner %s" % (c,))
            unchanged(ctx, "array2d/original-orientation/mutates-argument", [A], before, "the slim-stored Array2D changed")


def body_enum_rotate(case, ctx):
    case = fresh(case)
    h, w, r, corner = case["h"], case["w"], case["r"], case["c"]
    arr = np.arange(h * w).reshape(h, w)
    ctx.label(ckey(corner))
    region_labels(r, h, w, ctx)
    if h != w:
        ctx.label("shape:nonsquare")
    ctx.nt(corner != [1, 0] and touches_edge(r, h, w))
    check_rotate_util(arr, r, corner, ctx)
    check_rotate_reuse((h, w), r, corner, ctx)
    full = [0, h, 0, w]
    check_rotate_pattern((h, w), [r, full], corner, ctx)
    for k in range(3):  # the region visits every layout slot; the other slots hold None and the full array
        regions = [None, None, None]
        regions[k] = r
        regions[(k + 1) % 3] = full
        check_rotate_layout(arr, regions, corner, ctx)
        if k == (r[0] + r[1] + r[2] + r[3]) % 3:
            check_layout_reuse((h, w), regions, corner, ctx)
    check_rotate_arrays(arr, [r, None, r], corner, ctx)
    if r == full:
        check_rotate_util(arr, None, corner, ctx)


def body_enum_layouts(case, ctx):
    """Small frames x every memory layout x every corner: every array-taking entry point is handed the same
    values held C-contiguous, Fortran-ordered, as a transposed view, as a window of a bigger frame, as a
    stepped view and as a negative-stride view; oracles come from the index-order copy."""
    case = fresh(case)
    h, w, r, corner, layout = case["h"], case["w"], case["r"], case["c"], case["layout"]
    idx = np.arange(h * w).reshape(h, w)
    vals = idx if case["dtype"] == "int" else idx * 0.5 - 3.0
    arr = lay(vals, layout)
    layout_labels(arr, layout, ctx)
    ctx.label(ckey(corner), "dtype:" + case["dtype"])
    ctx.nt(corner != [1, 0] and not np.asarray(arr).flags["C_CONTIGUOUS"])
    check_rotate_util(arr, r, corner, ctx, layout=layout)
    full = [0, h, 0, w]
    check_rotate_layout(arr, [r, None, full], corner, ctx, layout=layout)
    check_rotate_arrays(vals, [r, None, r], corner, ctx, layout=layout)


def cases_enum_layouts(tier):
    lim = 4 if tier == "quick" else 6
    k = 0
    for h in range(1, lim + 1):
        for w in range(1, lim + 1):
            regs = list(all_regions(h, w))
            step = max(1, len(regs) // 8)
            regs = regs[::step][:8] + [regs[-1], [0, h, 0, w]]
            for layout in LAYOUTS:
                for c in CORNERS:
                    for r in regs:
                        k += 1
                        yield {"h": h, "w": w, "r": r, "c": c, "layout": layout, "dtype": ["int", "float"][k % 2]}


def all_regions(h, w):
    for y0 in range(h):
        for y1 in range(y0 + 1, h + 1):
            for x0 in range(w):
                for x1 in range(x0 + 1, w + 1):
                    yield [y0, y1, x0, x1]


def cases_enum_rotate(tier):
    lim = 5 if tier == "quick" else 7
    for h in range(1, lim + 1):
        for w in range(1, lim + 1):
            for r in all_regions(h, w):
                for c in CORNERS:
                    yield {"h": h, "w": w, "r": r, "c": c}


# ---------------------------------------------------------------------------------------------
# extraction
# ---------------------------------------------------------------------------------------------
def axis_class(a0, a1, b0, b1):
    """How the window [b0,b1) meets the region [a0,a1) along one axis."""
    lo, hi = max(a0, b0), min(a1, b1)
    if lo >= hi:
        return "touching" if (a1 == b0 or b1 == a0) else "disjoint"
    cut_lo = b0 > a0
    cut_hi = b1 < a1
    if cut_lo and cut_hi:
        return "clip-both"
    if cut_lo:
        return "clip-low"
    if cut_hi:
        return "clip-high"
    return "whole"


def overlap_ranges(r, win):
    """Rows and columns (original coordinates) in region ∩ window as ranges (O(1) at any magnitude); for
    small extents cross-checked against the set intersection (harness error if they ever disagree)."""
    rows = range(max(r[0], win[0]), min(r[1], win[1]))
    cols = range(max(r[2], win[2]), min(r[3], win[3]))
    if max(r[1], win[1], r[3], win[3]) <= 64:
        srows, scols = ref_overlap(r, win)
        if list(rows) != srows or list(cols) != scols:
            raise HarnessError("range overlap disagrees with set overlap for %s %s" % (r, win))
    return rows, cols


def check_extract_one(idx, r, win, ctx, got, key_prefix, what):
    """`got` is the implementation's region (or None) for original region r and window win.  idx is the
    frame's flat-index array, or None when the frame is too large to hold one (then only the range
    arithmetic runs: None-ness, containment in the window, rows/columns addressed == overlap)."""
    aa = _aa()
    rows, cols = overlap_ranges(r, win)
    ya = axis_class(r[0], r[1], win[0], win[1])
    xa = axis_class(r[2], r[3], win[2], win[3])
    cls = "y-%s/x-%s" % (ya, xa)
    empty = (not rows) or (not cols)
    if got is None:
        ctx.check(empty, key_prefix + "/spurious-none",
                  "%s: region %s window %s overlap rows %s cols %s but got None [%s]" % (what, r, win, rows, cols, cls))
        return
    if empty:
        ctx.fail(key_prefix + "/missing-none",
                 "%s: region %s window %s do not overlap but got %s [%s]" % (what, r, win, rcoords(got), cls))
        return
    ctx.check(isinstance(got, aa.Region2D), key_prefix + "/type", "result is %s" % type(got).__name__)
    g = rcoords(got)
    wh, ww = win[1] - win[0], win[3] - win[2]
    ctx.check(0 <= g[0] < g[1] <= wh and 0 <= g[2] < g[3] <= ww, key_prefix + "/outside-window",
              "%s: region %s window %s -> %s does not fit the %dx%d window [%s]" % (what, r, win, g, wh, ww, cls))
    # rows / columns of the frame addressed through the window == the overlap (range arithmetic)
    ctx.check(range(win[0], win[1])[g[0]:g[1]] == rows and range(win[2], win[3])[g[2]:g[3]] == cols,
              key_prefix + "/overlap", lambda: "%s: region %s window %s -> %s, want rows %s cols %s inside the window [%s]"
              % (what, r, win, g, rows, cols, cls))
    if idx is not None:
        sub = idx[win[0]:win[1], win[2]:win[3]]
        want = idx[np.ix_(list(rows), list(cols))]
        ctx.equal(sub[got.slice], want, key_prefix + "/overlap",
                  "%s: region %s window %s -> %s [%s]" % (what, r, win, g, cls))


def check_extract_util(idx, r, win, ctx):
    aa = _aa()
    lu = _util()
    if r is None:
        got = lu.region_after_extraction(original_region=None, extraction_region=tuple(win))
        ctx.check(got is None, "extract/none-region", "a missing region must stay missing")
        return
    for form in ("tuple", "Region2D"):
        if form == "tuple":
            ri, wi = tuple(r), tuple(win)
        else:
            ri, wi = aa.Region2D(region=tuple(r)), aa.Region2D(region=tuple(win))
        got = pure(ctx, "extract", "extract/mutates-argument", lu.region_after_extraction, [ri, wi],
                   original_region=ri, extraction_region=wi)
        check_extract_one(idx, r, win, ctx, got, "extract", "region_after_extraction(%s)" % form)
        if form == "Region2D":
            # the same two objects used again: same answer, still unchanged
            got2 = pure(ctx, "extract", "extract/mutates-argument", lu.region_after_extraction, [ri, wi],
                        original_region=ri, extraction_region=wi)
            ctx.check((got is None) == (got2 is None) and (got is None or rcoords(got) == rcoords(got2)),
                      "extract/mutates-argument", "second call with the same Region2D objects differs")


def check_extract_layout(idx, regions, win, ctx, corner=None, shape=None, win2=None, light=False):
    """Layout2D.layout_extracted_from: window given as tuple and as a caller-owned Region2D; source layout
    (built from caller-owned Region2D objects) and window unchanged; a second extraction (win2, default the
    full frame) must leave the first result as it was."""
    aa = _aa()
    h, w = idx.shape if shape is None else shape
    inst = [None if r is None else aa.Region2D(region=tuple(r)) for r in regions]
    owned = [x for x in inst if x is not None]
    kw = dict(zip(SLOTS, inst))
    if corner is not None:
        kw["original_roe_corner"] = tuple(corner)
    L = aa.Layout2D(shape_2d=(h, w), **kw)
    wobj = aa.Region2D(region=tuple(win))
    results = []
    for form, wi in ((("tuple", tuple(win)),) if light else (("tuple", tuple(win)), ("Region2D", wobj))):
        E = pure(ctx, "layout/layout_extracted_from", "layout/layout_extracted_from/mutates-input",
                 L.layout_extracted_from, [L, wi] + owned, extraction_region=wi)
        if corner is not None:
            ctx.check(tuple(E.original_roe_corner) == tuple(corner), "layout/layout_extracted_from/meta",
                      "original_roe_corner not carried")
        for s, r in zip(SLOTS, regions):
            got = getattr(E, s)
            if r is None:
                ctx.check(got is None, "layout/layout_extracted_from/none-slot", "%s was None, became %s" % (s, got))
                continue
            check_extract_one(idx, r, win, ctx, got, "layout/layout_extracted_from", "Layout2D.%s (%s window)" % (s, form))
        results.append((E, layout_regions(E)))
    if light:
        return results[0][0]
    w2 = tuple(win2) if win2 is not None else (0, h, 0, w)
    E2 = pure(ctx, "layout/layout_extracted_from", "layout/layout_extracted_from/mutates-input",
              L.layout_extracted_from, [L] + owned, extraction_region=w2)
    for s, r in zip(SLOTS, regions):
        if r is not None:
            check_extract_one(idx, r, list(w2), ctx, getattr(E2, s), "layout/layout_extracted_from", "Layout2D.%s (second window)" % s)
    for E, want in results:
        ctx.check(layout_regions(E) == want, "layout/earlier-layout-changed",
                  lambda: "extracted layout re-read after a later extraction: %s want %s" % (layout_regions(E), want))
    return results[0][0]


def extract_nt(r, win, h, w):
    sides = 0
    rows, cols = overlap_ranges(r, win)
    if rows and cols:
        sides = int(win[0] > r[0]) + int(win[1] < r[1]) + int(win[2] > r[2]) + int(win[3] < r[3])
    return sides == 1 or touches_edge(r, h, w), sides


def body_enum_extract(case, ctx):
    case = fresh(case)
    h, w, r, win, k = case["h"], case["w"], case["r"], case["win"], case["k"]
    idx = np.arange(h * w).reshape(h, w)
    nt, sides = extract_nt(r, win, h, w)
    ctx.nt(nt)
    ctx.label("y-" + axis_class(r[0], r[1], win[0], win[1]))
    ctx.label("x-" + axis_class(r[2], r[3], win[2], win[3]))
    ctx.label("clipped-sides:%d" % sides)
    if touches_edge(r, h, w):
        ctx.label("region:touches-edge")
    check_extract_util(idx, r, win, ctx)
    regions = [None, None, None]
    regions[k % 3] = r
    regions[(k + 1) % 3] = [0, h, 0, w]
    # every case: tuple window, source layout and its Region2D objects unchanged; every third case also the
    # Region2D window and a second extraction followed by a re-read of the first result
    check_extract_layout(idx, regions, win, ctx, light=(case["j"] % 3 != 0))


def cases_enum_extract(tier):
    lim = 5 if tier == "quick" else 7
    k = 0
    for h in range(1, lim + 1):
        for w in range(1, lim + 1):
            regs = list(all_regions(h, w))
            for r in regs:
                for win in regs:
                    k += 1
                    yield {"h": h, "w": w, "r": r, "win": win, "k": k % 3, "j": (k // 3) % 3}


# ---------------------------------------------------------------------------------------------
# front / trailing sub-regions
# ---------------------------------------------------------------------------------------------
def call_region(ctx, key, fn, want, what, parent=None):
    """Call a sub-region method.  `want` is the closed-form coordinate list; the method must return
    exactly it when it is a valid region and raise RegionException when it is not.  The parent region
    object must keep its value whatever the outcome."""
    valid = is_valid_2d(want) if len(want) == 4 else is_valid_1d(want)
    before = snap(parent)
    try:
        try:
            got = fn()
        finally:
            if parent is not None:
                ctx.check(snap(parent) == before, key.split("/")[0] + "/mutates-parent",
                          lambda: "%s changed its parent: %s -> %s" % (what, before, snap(parent)))
    except _rexc():
        ctx.check(not valid, key + "/rejects-valid", "%s: raised RegionException but %s is a valid region" % (what, want))
        return None
    if not valid:
        ctx.fail(key + "/accepts-invalid", "%s: returned %s but the requested region %s is invalid"
                 % (what, [int(got[i]) for i in range(len(want))], want))
        return None
    g = [int(got[i]) for i in range(len(want))]
    ctx.check(g == list(want), key, "%s: got %s want %s" % (what, g, want))
    return got


def check_front_trailing_2d(r, p, pfes, ctx, big=None):
    """r parent region, p=[p0,p1] pixel range, pfes = list of pixels_from_end values.
    `big` = (H, W) of a frame large enough to hold every requested valid sub-region; an index array of that
    shape is only built up to 40000 cells, beyond that the rows / columns selected are compared by range
    arithmetic only."""
    aa = _aa()
    R = aa.Region2D(region=tuple(r))
    y0, y1, x0, x1 = r
    p0, p1 = p
    pt = (p0, p1)
    rows, cols = y1 - y0, x1 - x0
    H, W = big
    arrays = H * W <= 40000
    if arrays:
        ys = np.arange(H)
        xs = np.arange(W)

    def content(got, want_rows, want_cols, key, what):
        # slicing oracle: the sub-region must select exactly these original rows / columns
        if got is None:
            return
        ctx.check(range(H)[got.y_slice] == want_rows and range(W)[got.x_slice] == want_cols
                  and range(H)[got.slice[0]] == want_rows and range(W)[got.slice[1]] == want_cols, key,
                  lambda: "%s: selects rows %s columns %s, want %s / %s" % (
                      what, range(H)[got.y_slice], range(W)[got.x_slice], want_rows, want_cols))
        if not arrays:
            return
        ctx.equal(ys[got.y_slice], want_rows, key, what + " rows selected")
        ctx.equal(xs[got.x_slice], want_cols, key, what + " columns selected")
        i2 = (ys[:, None] * W + xs[None, :])
        ctx.equal(i2[got.slice], i2[np.ix_(list(want_rows), list(want_cols))], key, what + " .slice content")

    par_rows = range(y0, y1)
    par_cols = range(x0, x1)
    trail_rows = range(y1, y1 + max(p1, 0) + 1)
    trail_cols = range(x1, x1 + max(p1, 0) + 1)
    front_rows_ext = range(y0, y0 + max(p1, 0) + 1)   # counted from the parent's first row, possibly beyond it
    front_cols_ext = range(x0, x0 + max(p1, 0) + 1)

    got = call_region(ctx, "region2d/parallel-front", lambda: R.parallel_front_region_from(pixels=pt),
                      [y0 + p0, y0 + p1, x0, x1], "%s.parallel_front_region_from(%s)" % (r, pt), parent=R)
    content(got, front_rows_ext[p0:p1], par_cols, "region2d/parallel-front", "parallel front %s of %s" % (pt, r))
    got = call_region(ctx, "region2d/parallel-trailing", lambda: R.parallel_trailing_region_from(pixels=pt),
                      [y1 + p0, y1 + p1, x0, x1], "%s.parallel_trailing_region_from(%s)" % (r, pt), parent=R)
    content(got, trail_rows[p0:p1], par_cols, "region2d/parallel-trailing", "parallel trailing %s of %s" % (pt, r))
    got = call_region(ctx, "region2d/serial-front", lambda: R.serial_front_region_from(pixels=pt),
                      [y0, y1, x0 + p0, x0 + p1], "%s.serial_front_region_from(%s)" % (r, pt), parent=R)
    content(got, par_rows, front_cols_ext[p0:p1], "region2d/serial-front", "serial front %s of %s" % (pt, r))
    got = call_region(ctx, "region2d/serial-trailing", lambda: R.serial_trailing_region_from(pixels=pt),
                      [y0, y1, x1 + p0, x1 + p1], "%s.serial_trailing_region_from(%s)" % (r, pt), parent=R)
    content(got, par_rows, trail_cols[p0:p1], "region2d/serial-trailing", "serial trailing %s of %s" % (pt, r))

    xr = R.serial_x_front_range_from(pixels=pt)
    ctx.check([int(xr[0]), int(xr[1])] == [x0 + p0, x0 + p1], "region2d/serial-x-front-range",
              "%s.serial_x_front_range_from(%s) = %s" % (r, pt, xr))

    if True:
        got = call_region(ctx, "region2d/serial-towards-roe-full",
                          lambda: R.serial_towards_roe_full_region_from(shape_2d=(H, W), pixels=pt),
                          [0, H, x0 + p0, x0 + p1], "%s.serial_towards_roe_full_region_from(%s, %s)" % (r, (H, W), pt), parent=R)
        content(got, range(H), front_cols_ext[p0:p1], "region2d/serial-towards-roe-full", "serial towards roe full")
        got = call_region(ctx, "region2d/parallel-full", lambda: R.parallel_full_region_from(shape_2d=(H, W)),
                          [y0, y1, 0, W], "%s.parallel_full_region_from(%s)" % (r, (H, W)), parent=R)
        content(got, par_rows, range(W), "region2d/parallel-full", "parallel full")

    for pfe in pfes:   # 0 (empty: must be rejected) .. the parent's own extent along that axis
        if pfe <= rows:
            got = call_region(ctx, "region2d/parallel-front-from-end",
                              lambda: R.parallel_front_region_from(pixels_from_end=pfe),
                              [y1 - pfe, y1, x0, x1], "%s.parallel_front_region_from(pixels_from_end=%d)" % (r, pfe), parent=R)
            content(got, par_rows[rows - pfe:], par_cols, "region2d/parallel-front-from-end", "last %d rows of %s" % (pfe, r))
        if pfe <= cols:
            got = call_region(ctx, "region2d/serial-front-from-end",
                              lambda: R.serial_front_region_from(pixels_from_end=pfe),
                              [y0, y1, x1 - pfe, x1], "%s.serial_front_region_from(pixels_from_end=%d)" % (r, pfe), parent=R)
            content(got, par_rows, par_cols[cols - pfe:], "region2d/serial-front-from-end", "last %d columns of %s" % (pfe, r))


    ctx.check(rcoords(R) == list(r), "region2d/mutates-parent", "parent %s is now %s" % (r, rcoords(R)))


def check_front_trailing_1d(r, p, pfes, ctx, n=None):
    aa = _aa()
    R = aa.Region1D(region=tuple(r))
    x0, x1 = r
    p0, p1 = p
    pt = (p0, p1)
    xs = np.arange(n) if n <= 200000 else None

    def content(got, want, key, what):
        if got is None:
            return
        ctx.check(range(n)[got.slice] == want and range(n)[got.x_slice] == want, key,
                  lambda: "%s: selects %s want %s" % (what, range(n)[got.slice], want))
        if xs is None:
            return
        ctx.equal(xs[got.slice], want, key, what + " .slice")
        ctx.equal(xs[got.x_slice], want, key, what + " .x_slice")

    got = call_region(ctx, "region1d/front", lambda: R.front_region_from(pixels=pt),
                      [x0 + p0, x0 + p1], "%s.front_region_from(%s)" % (r, pt), parent=R)
    content(got, range(x0, x0 + max(p1, 0) + 1)[p0:p1], "region1d/front", "front %s of %s" % (pt, r))
    got = call_region(ctx, "region1d/trailing", lambda: R.trailing_region_from(pixels=pt),
                      [x1 + p0, x1 + p1], "%s.trailing_region_from(%s)" % (r, pt), parent=R)
    content(got, range(x1, x1 + max(p1, 0) + 1)[p0:p1], "region1d/trailing", "trailing %s of %s" % (pt, r))
    tot = x1 - x0
    for pfe in pfes:
        got = call_region(ctx, "region1d/front-from-end", lambda: R.front_region_from(pixels_from_end=pfe),
                          [x1 - pfe, x1], "%s.front_region_from(pixels_from_end=%d)" % (r, pfe), parent=R)
        content(got, range(x0, x1)[tot - pfe:], "region1d/front-from-end", "last %d pixels of %s" % (pfe, r))
    ctx.check([int(R[0]), int(R[1])] == list(r), "region1d/mutates-parent", "parent %s is now %s" % (r, [int(R[0]), int(R[1])]))


def ft_labels(p, ctx):
    if p[0] >= p[1]:
        ctx.label("pixels:empty" if p[0] == p[1] else "pixels:reversed")
    else:
        ctx.label("pixels:valid")
        if p[0] > 0:
            ctx.label("pixels:offset-start")
        if p[1] - p[0] == 1:
            ctx.label("pixels:single")


def body_enum_front_trailing(case, ctx):
    case = fresh(case)
    p = case["p"]
    ft_labels(p, ctx)
    if case["dim"] == 2:
        h, w, r = case["h"], case["w"], case["r"]
        pm = max(h, w) + 1
        ctx.nt((p[0] > 0 and p[0] < p[1]) or touches_edge(r, h, w))
        region_labels(r, h, w, ctx, "parent")
        tot = max(r[1] - r[0], r[3] - r[2])
        check_front_trailing_2d(r, p, list(range(0, tot + 1)), ctx, big=(h + pm + 2, w + pm + 2))
    else:
        n, r = case["n"], case["r"]
        ctx.label("1d")
        ctx.nt((p[0] > 0 and p[0] < p[1]) or r[0] == 0 or r[1] == n)
        check_front_trailing_1d(r, p, list(range(0, r[1] - r[0] + 1)), ctx, n=2 * n + 4)


def cases_enum_front_trailing(tier):
    lim = 4 if tier == "quick" else 6
    for h in range(1, lim + 1):
        for w in range(1, lim + 1):
            pm = max(h, w) + 1
            for r in all_regions(h, w):
                for p0 in range(0, pm + 1):
                    for p1 in range(0, pm + 1):
                        yield {"dim": 2, "h": h, "w": w, "r": r, "p": [p0, p1]}
    lim1 = 6 if tier == "quick" else 9
    for n in range(1, lim1 + 1):
        for x0 in range(n):
            for x1 in range(x0 + 1, n + 1):
                for p0 in range(0, n + 2):
                    for p1 in range(0, n + 2):
                        yield {"dim": 1, "n": n, "r": [x0, x1], "p": [p0, p1]}


# ---------------------------------------------------------------------------------------------
# constructors
# ---------------------------------------------------------------------------------------------
def invalid_class(t):
    if any(v < 0 for v in t):
        return "negative"
    n = len(t) // 2
    for i in range(n):
        if t[2 * i] == t[2 * i + 1]:
            return "empty"
    for i in range(n):
        if t[2 * i] > t[2 * i + 1]:
            return "reversed"
    return "valid"


def try_ctor(fn):
    try:
        return fn(), False
    except _rexc():
        return None, True


def check_ctor_2d(t, ctx, layouts=True):
    aa = _aa()
    valid = is_valid_2d(t)
    cls = invalid_class(t)
    ctx.label("2d:" + cls)
    for form in ("tuple", "list"):
        arg = tuple(t) if form == "tuple" else list(t)
        R, raised = try_ctor(lambda: aa.Region2D(region=arg))
        if valid:
            ctx.check(not raised, "region2d/ctor-rejects-valid", "Region2D(%s) raised RegionException" % (arg,))
        else:
            ctx.check(raised, "region2d/ctor-accepts-invalid/" + cls, "Region2D(%s) was accepted" % (arg,))
    if valid:
        R = aa.Region2D(region=tuple(t))
        y0, y1, x0, x1 = t
        ctx.check([R.y0, R.y1, R.x0, R.x1] == list(t) and rcoords(R) == list(t), "region2d/accessors",
                  "y0,y1,x0,x1 of %s" % (t,))
        ctx.check(R.total_rows == y1 - y0 and R.total_columns == x1 - x0 and tuple(R.shape) == (y1 - y0, x1 - x0),
                  "region2d/accessors", "total_rows/total_columns/shape of %s" % (t,))
        ys = np.arange(y1 + 2)
        xs = np.arange(x1 + 2)
        ctx.equal(ys[R.y_slice], list(range(y0, y1)), "region2d/slice", "y_slice of %s" % (t,))
        ctx.equal(xs[R.x_slice], list(range(x0, x1)), "region2d/slice", "x_slice of %s" % (t,))
        i2 = ys[:, None] * (x1 + 2) + xs[None, :]
        ctx.equal(i2[R.slice], i2[np.ix_(list(range(y0, y1)), list(range(x0, x1)))], "region2d/slice", "slice of %s" % (t,))
        ctx.check(R == tuple(t), "region2d/eq", "Region2D(t) == t for %s" % (t,))
    if layouts:
        # Layout2D converts tuple regions through the same constructor: same accept / reject rule per slot
        for s in SLOTS:
            L, raised = try_ctor(lambda: aa.Layout2D(shape_2d=(max(t[1], 1) + 1, max(t[3], 1) + 1), **{s: tuple(t)}))
            if valid:
                ctx.check(not raised and rcoords(getattr(L, s)) == list(t), "layout/ctor-rejects-valid",
                          "Layout2D(%s=%s)" % (s, t))
            else:
                ctx.check(raised, "layout/ctor-accepts-invalid/" + cls, "Layout2D(%s=%s) was accepted" % (s, t))


def check_ctor_1d(t, ctx):
    aa = _aa()
    valid = is_valid_1d(t)
    cls = invalid_class(t)
    ctx.label("1d:" + cls)
    for form in ("tuple", "list"):
        arg = tuple(t) if form == "tuple" else list(t)
        R, raised = try_ctor(lambda: aa.Region1D(region=arg))
        if valid:
            ctx.check(not raised, "region1d/ctor-rejects-valid", "Region1D(%s) raised RegionException" % (arg,))
        else:
            ctx.check(raised, "region1d/ctor-accepts-invalid/" + cls, "Region1D(%s) was accepted" % (arg,))
    if valid:
        R = aa.Region1D(region=tuple(t))
        x0, x1 = t
        ctx.check([R.x0, R.x1] == list(t) and R.total_pixels == x1 - x0, "region1d/accessors", "x0,x1,total_pixels of %s" % (t,))
        ctx.check(range(x1 + 2)[R.slice] == range(x0, x1) and range(x1 + 2)[R.x_slice] == range(x0, x1),
                  "region1d/slice", "slice / x_slice of %s (range arithmetic)" % (t,))
        if x1 <= 5000:
            xs = np.arange(x1 + 2)
            ctx.equal(xs[R.slice], list(range(x0, x1)), "region1d/slice", "slice of %s" % (t,))
            ctx.equal(xs[R.x_slice], list(range(x0, x1)), "region1d/slice", "x_slice of %s" % (t,))
        ctx.check(R == tuple(t), "region1d/eq", "Region1D(t) == t for %s" % (t,))
    for s in ("prescan", "overscan"):
        L, raised = try_ctor(lambda: aa.Layout1D(shape_1d=(max(t[1], 1) + 1,), **{s: tuple(t)}))
        if valid:
            ctx.check(not raised and [int(getattr(L, s)[0]), int(getattr(L, s)[1])] == list(t),
                      "layout1d/ctor-rejects-valid", "Layout1D(%s=%s)" % (s, t))
        else:
            ctx.check(raised, "layout1d/ctor-accepts-invalid/" + cls, "Layout1D(%s=%s) was accepted" % (s, t))
    if valid and x1 <= 64:
        # Layout1D.extract_overscan_array_1d_from reads exactly the region's pixels
        n = x1 + 2
        vals = np.arange(n, dtype=float) * 1.5 - 2.0
        kind = ["C", "window", "stepped", "negstride"][(x0 + x1) % 4]
        vin = lay(vals, kind)               # the values handed to Array1D in a cycled 1D memory layout
        ctx.label("layout1d:" + kind)
        A = aa.Array1D.no_mask(values=vin, pixel_scales=1.0)
        L = aa.Layout1D(shape_1d=(n,), overscan=tuple(t))
        got = pure(ctx, "layout1d/extract-overscan", "layout1d/extract-overscan/mutates-argument",
                   L.extract_overscan_array_1d_from, [A] + with_base(vin), array=A)
        ctx.equal(np.asarray(got.native), vals[x0:x1], "layout1d/extract-overscan",
                  "overscan %s of a length-%d array (values layout %s)" % (t, n, kind))
        ctx.equal(vin[aa.Region1D(region=tuple(t)).slice], vals[x0:x1], "region1d/slice", "array[region.slice], layout %s" % kind)


def body_enum_constructors(case, ctx):
    case = fresh(case)
    t = case["t"]
    if len(t) == 4:
        valid = is_valid_2d(t)
        ctx.nt((not valid) or t[1] - t[0] == 1 or t[3] - t[2] == 1)
        check_ctor_2d(t, ctx)
    else:
        valid = is_valid_1d(t)
        ctx.nt((not valid) or t[1] - t[0] == 1)
        check_ctor_1d(t, ctx)


def cases_enum_constructors(tier):
    lo, hi = (-2, 4) if tier == "quick" else (-3, 6)
    rng = range(lo, hi + 1)
    for a in rng:
        for b in rng:
            for c in rng:
                for d in rng:
                    yield {"t": [a, b, c, d]}
    lo, hi = (-3, 7) if tier == "quick" else (-4, 10)
    for a in range(lo, hi + 1):
        for b in range(lo, hi + 1):
            yield {"t": [a, b]}


# ---------------------------------------------------------------------------------------------
# Hypothesis strategies
# ---------------------------------------------------------------------------------------------
@st.composite
def interval_in(draw, n):
    """Half-open [a,b) with 0<=a<b<=n, biased to edges, unit extents and the full range."""
    kind = draw(st.sampled_from(["any", "any", "low", "high", "full", "unit"]))
    if kind == "full" or n == 1:
        return [0, n]
    if kind == "low":
        return [0, draw(st.integers(1, n))]
    if kind == "high":
        return [draw(st.integers(0, n - 1)), n]
    if kind == "unit":
        a = draw(st.integers(0, n - 1))
        return [a, a + 1]
    a = draw(st.integers(0, n - 1))
    b = draw(st.integers(a + 1, n))
    return [a, b]


@st.composite
def region_in(draw, h, w):
    y = draw(interval_in(h))
    x = draw(interval_in(w))
    return y + x


@st.composite
def window_for(draw, h, w, r):
    """Window inside the array, steered so that disjoint / touching / one-side clips / containment all occur."""
    def axis(n, a, b):
        kind = draw(st.sampled_from(["any", "clip-low", "clip-high", "contains", "inside", "touch", "any"]))
        if kind == "clip-low" and b - a >= 2:
            lo = draw(st.integers(a + 1, b - 1))
            return [lo, draw(st.integers(b, n))]
        if kind == "clip-high" and b - a >= 2:
            hi = draw(st.integers(a + 1, b - 1))
            return [draw(st.integers(0, a)), hi]
        if kind == "contains":
            return [draw(st.integers(0, a)), draw(st.integers(b, n))]
        if kind == "inside":
            lo = draw(st.integers(a, b - 1))
            return [lo, draw(st.integers(lo + 1, b))]
        if kind == "touch":
            if b < n and draw(st.booleans()):
                return [b, draw(st.integers(b + 1, n))]
            if a > 0:
                return [draw(st.integers(0, a - 1)), a]
        return draw(interval_in(n))
    if r is None:
        return draw(region_in(h, w))
    return axis(h, r[0], r[1]) + axis(w, r[2], r[3])


# ---------------------------------------------------------------------------------------------
# large coordinates with explicit boundary relations (range arithmetic only, no index arrays)
# ---------------------------------------------------------------------------------------------
BASES_QUICK = [0, 1, 255, 256, 257, 300, 2066, 32767, 32768, 40000, 65536, 70000, 2 ** 31 - 1, 2 ** 31, 2 ** 31 + 300]
BASES_THOROUGH = BASES_QUICK + [2, 200, 254, 258, 511, 512, 513, 1000, 2048, 4096, 32769, 65535, 65537, 69999,
                                2 ** 31 - 257, 2 ** 31 + 1, 2 ** 32, 2 ** 32 + 257, 2 ** 40 + 1]
LENGTHS_QUICK = [1, 2, 20, 300, 40000]
LENGTHS_THOROUGH = LENGTHS_QUICK + [3, 256, 257, 2 ** 15, 2 ** 31]
MARGINS = [1, 2, 257, 300, 40000]


def boundary_class(a, b, c, d):
    """Relation of window [c,d) to region [a,b) on one axis, boundary cases named."""
    if d == a or c == b:
        return "abutting"
    if d == a - 1 or c == b + 1:
        return "gap1"
    if d < a or c > b:
        return "disjoint"
    n = min(b, d) - max(a, c)
    if (c, d) == (a, b):
        return "equal"
    if c >= a and d <= b:
        return "nested-equal-edge" if (c == a or d == b) else "nested"
    if c <= a and d >= b:
        return "containing-equal-edge" if (c == a or d == b) else "containing"
    return "overlap1" if n == 1 else "partial"


def axis_relations(a, L):
    """Windows in every boundary relation to the region [a, a+L)."""
    b = a + L
    out = []

    def add(c, d):
        if 0 <= c < d and (c, d) not in out:
            out.append((c, d))

    for m in MARGINS + [a]:
        add(a - m, a)              # abutting: window ends where the region starts
        add(a - 1 - m, a - 1)      # gap of one pixel
        add(a - m, a + 1)          # overlap of exactly one pixel (low side)
        add(a - m, b)              # contains, equal high edge
        add(a - m, b + m)          # contains
        add(a - m, b - 1)          # clips the high side by one
    for m in MARGINS[:4]:
        add(b, b + m)              # abutting: window starts where the region ends
        add(b + 1, b + 1 + m)      # gap of one pixel
        add(b - 1, b + m)          # overlap of exactly one pixel (high side)
        add(a, b + m)              # contains, equal low edge
        add(a + 1, b + m)          # clips the low side by one
    add(a, b)
    add(a, b - 1)
    add(a + 1, b)
    add(a + 1, b - 1)
    add(a, a + 1)
    add(b - 1, b)
    add(0, b + 1)
    add(0, a + 1)
    return out


# (region, window) on the other axis: mostly overlapping so that the focus axis decides the answer
AXIS_REPS = [(0, 1, 0, 1), (3, 8, 0, 10), (51, 2099, 0, 2128), (300, 600, 0, 301), (2066, 2086, 0, 2086),
             (70000, 70300, 69000, 70001), (2 ** 31, 2 ** 31 + 5, 2 ** 31 - 300, 2 ** 31 + 1),
             (300, 600, 0, 300), (0, 5, 7, 9)]
CCD = {"shape": [2086, 2128], "regions": [[2066, 2086, 51, 2099], [0, 2086, 0, 51], [0, 2066, 2099, 2128],
                                          [0, 2066, 51, 2099], [0, 2086, 0, 2128], [0, 2066, 0, 2128]]}


def cases_enum_large(tier):
    bases = BASES_QUICK if tier == "quick" else BASES_THOROUGH
    lengths = LENGTHS_QUICK if tier == "quick" else LENGTHS_THOROUGH
    reps = AXIS_REPS if tier != "quick" else [AXIS_REPS[i] for i in (1, 2, 5, 7)]
    k = 0
    for a in bases:
        for L in lengths:
            for (c, d) in axis_relations(a, L):
                f = [a, a + L, c, d]
                for rep in reps:
                    for focus in ("y", "x"):
                        k += 1
                        y, x = (f, list(rep)) if focus == "y" else (list(rep), f)
                        yield {"y": y, "x": x, "pad": [0, 1, 257][k % 3], "c": CORNERS[k % 4], "k": k % 3}
    # a realistic CCD quadrant: every named region against every named region as window, all corners
    h, w = CCD["shape"]
    for r in CCD["regions"]:
        for win in CCD["regions"]:
            for c in CORNERS:
                k += 1
                yield {"y": [r[0], r[1], win[0], win[1]], "x": [r[2], r[3], win[2], win[3]], "shape": [h, w],
                       "c": c, "k": k % 3}


def magnitude_label(v):
    if v <= 256:
        return "<=256"
    if v <= 2 ** 15:
        return "<=2^15"
    if v <= 2 ** 31:
        return "<=2^31"
    return ">2^31"


def check_chain_ranges(shape, regions, win, corner, ctx):
    """Rotate the layout and the window, extract in the rotated frame: each surviving region must address,
    through the rotated window, exactly the original rows/columns of region ∩ window (range arithmetic)."""
    aa = _aa()
    lu = _util()
    h, w = shape
    c = tuple(corner)
    L0 = make_layout(shape, regions)
    Lr = pure(ctx, "chain/new_rotated_from", "layout/new_rotated_from/mutates-argument", L0.new_rotated_from, [L0], roe_corner=c)
    wobj = aa.Region2D(region=tuple(win))
    Wr = pure(ctx, "chain/rotate-window", "rotate-region/mutates-argument", lu.rotate_region_via_roe_corner_from,
              [wobj], region=wobj, shape_native=(h, w), roe_corner=c)
    check_rotated_region(Wr, win, (h, w), corner, ctx, "rotate-region/reflection/" + ckey(corner), "window")
    Wref = rot_want(win, (h, w), corner)
    Le = pure(ctx, "chain/layout_extracted_from", "layout/layout_extracted_from/mutates-input", Lr.layout_extracted_from,
              [Lr, Wr, L0], extraction_region=Wr)
    for s, r in zip(SLOTS, regions):
        got = getattr(Le, s)
        if r is None:
            ctx.check(got is None, "chain/none-slot", "%s was None, became %s" % (s, got))
            continue
        rows, cols = overlap_ranges(r, win)
        if (not rows) or (not cols):
            ctx.check(got is None, "chain/missing-none", lambda: "slot %s region %s window %s corner %s -> %s, want None"
                      % (s, r, win, c, rcoords(got)))
            continue
        if got is None:
            ctx.fail("chain/spurious-none", "slot %s region %s window %s corner %s -> None, overlap rows %s cols %s"
                     % (s, r, win, c, rows, cols))
            continue
        g = rcoords(got)
        wh, ww = win[1] - win[0], win[3] - win[2]
        ctx.check(0 <= g[0] < g[1] <= wh and 0 <= g[2] < g[3] <= ww, "chain/outside-window",
                  "slot %s -> %s does not fit the %dx%d window" % (s, g, wh, ww))
        sel_rows = axis_selected(h, corner[0] == 0, Wref[0] + g[0], Wref[0] + g[1])
        sel_cols = axis_selected(w, corner[1] == 1, Wref[2] + g[2], Wref[2] + g[3])
        ctx.check(sel_rows == rows and sel_cols == cols, "chain/rotate-then-extract/" + ckey(corner),
                  lambda: "slot %s region %s window %s -> %s selects rows %s cols %s want %s / %s"
                  % (s, r, win, g, sel_rows, sel_cols, rows, cols))


def body_large(case, ctx):
    case = fresh(case)
    y, x, corner, k = case["y"], case["x"], case["c"], case["k"]
    r = [y[0], y[1], x[0], x[1]]
    win = [y[2], y[3], x[2], x[3]]
    if "shape" in case:
        h, w = case["shape"]
    else:
        h = max(y[1], y[3]) + case["pad"]
        w = max(x[1], x[3]) + case["pad"]
    by, bx = boundary_class(*y), boundary_class(*x)
    ctx.label("rel:" + by, "rel:" + bx, ckey(corner))
    ctx.label("magnitude:" + magnitude_label(max(h, w)))
    off = max(abs(y[0] - y[2]), abs(x[0] - x[2]))
    ctx.label("offset-in-window:" + magnitude_label(off))
    boundary = {"abutting", "gap1", "overlap1", "equal", "nested-equal-edge", "containing-equal-edge"}
    ctx.nt((by in boundary or bx in boundary) and max(h, w) > 256)

    idx = np.arange(h * w).reshape(h, w) if h * w <= SMALL_CELLS else None
    # extraction: util (tuple and Region2D arguments), Layout2D (three slots), argument purity
    check_extract_util(idx, r, win, ctx)
    regions = [None, None, None]
    regions[k % 3] = r
    regions[(k + 1) % 3] = [0, h, 0, w]
    check_extract_layout(idx, regions, win, ctx, shape=(h, w), win2=case.get("win2"))
    # rotation of region and window in the large frame, reuse of one object for all corners
    check_rotate_region((h, w), r, corner, ctx)
    check_rotate_region((h, w), win, corner, ctx)
    if k == 0 or "shape" in case:
        check_rotate_reuse((h, w), r, corner, ctx)
        check_layout_reuse((h, w), regions, corner, ctx)
    # rotate, then extract in the rotated frame
    check_chain_ranges((h, w), regions, win, corner, ctx)


def big_ints(lo=0):
    return st.one_of(st.integers(lo, 6), st.integers(lo, 300), st.integers(250, 262), st.integers(2000, 2200),
                     st.integers(32760, 32775), st.integers(65530, 65540), st.integers(lo, 70000),
                     st.integers(2 ** 31 - 3, 2 ** 31 + 300))


@st.composite
def axis_pair(draw):
    """[a, b, c, d]: region [a,b) and window [c,d) in a drawn boundary relation at a drawn magnitude."""
    a = draw(big_ints(0))
    L = draw(st.one_of(st.integers(1, 3), st.integers(1, 400), st.integers(1, 70000)))
    b = a + L
    m = draw(st.one_of(st.integers(1, 3), st.integers(255, 258), st.integers(1, 70000)))
    m2 = draw(st.one_of(st.integers(1, 3), st.integers(255, 258), st.integers(1, 70000)))
    kind = draw(st.sampled_from(["abut-before", "abut-after", "gap1-before", "gap1-after", "overlap1-low",
                                 "overlap1-high", "equal", "equal-low", "equal-high", "nested", "containing",
                                 "clip-low", "clip-high", "disjoint"]))
    lo = max(a - m, 0)
    cand = {
        "abut-before": (lo, a), "abut-after": (b, b + m), "gap1-before": (max(a - 1 - m, 0), a - 1),
        "gap1-after": (b + 1, b + 1 + m), "overlap1-low": (lo, a + 1), "overlap1-high": (b - 1, b + m),
        "equal": (a, b), "equal-low": (a, b + m if m % 2 else max(a + 1, b - 1)),
        "equal-high": (lo if m % 2 else min(a + 1, b - 1), b), "nested": (min(a + m2 % L, b - 1), b - (1 if L > 1 else 0)),
        "containing": (lo, b + m2), "clip-low": (min(a + 1 + m2 % L, b), b + m), "clip-high": (lo, max(b - 1 - m2 % L, a)),
        "disjoint": (b + 1 + m2, b + 1 + m2 + m),
    }[kind]
    c, d = cand
    if not (0 <= c < d):
        c, d = a, b
    return [a, b, c, d]


@st.composite
def given_large(draw):
    y = draw(axis_pair())
    x = draw(axis_pair())
    case = {"y": y, "x": x, "pad": draw(st.sampled_from([0, 1, 257, 40000])), "c": draw(st.sampled_from(CORNERS)),
            "k": draw(st.integers(0, 2))}
    if draw(st.booleans()):
        h = max(y[1], y[3]) + case["pad"]
        w = max(x[1], x[3]) + case["pad"]
        case["win2"] = draw(interval_in(h)) + draw(interval_in(w))
    return case


@st.composite
def given_rotate_extract(draw):
    big = draw(st.sampled_from([False, False, True]))
    hi = 40 if big else 12
    lo = draw(st.sampled_from([1, 2, 2, 2, 2, 2, 2, 2, 2, 2]))     # 1xN / Nx1 frames stay in, but rarely
    h = draw(st.integers(lo, hi))
    w = draw(st.integers(lo, hi))
    layout = draw(st.sampled_from(LAYOUTS))
    regions = [draw(st.one_of(st.none(), region_in(h, w), region_in(h, w))) for _ in range(3)]
    if all(r is None for r in regions):
        regions[draw(st.integers(0, 2))] = draw(region_in(h, w))
    focus = next(r for r in regions if r is not None)
    win = draw(window_for(h, w, focus))
    corner = draw(st.sampled_from(CORNERS))
    scale = draw(st.sampled_from([1.0, -1.0, 0.5, 3.0]))
    offset = draw(st.integers(-50, 50))
    return {"h": h, "w": w, "regions": regions, "win": win, "c": corner, "scale": scale, "offset": offset,
            "layout": layout}


def body_given_rotate_extract(case, ctx):
    case = fresh(case)
    aa = _aa()
    h, w, regions, win, corner = case["h"], case["w"], case["regions"], case["win"], case["c"]
    c = tuple(corner)
    layout = case.get("layout", "C")
    idx = np.arange(h * w).reshape(h, w)
    vals = idx * case["scale"] + case["offset"]     # distinct values, exact in float64 (index order, C-contiguous)
    arr = lay(vals, layout)                         # what the implementation is handed: same values, drawn memory layout
    layout_labels(arr, layout, ctx)
    ctx.label(ckey(corner))
    if h != w:
        ctx.label("shape:nonsquare")
    if max(h, w) > 12:
        ctx.label("shape:large")
    nt = False
    for r in regions:
        region_labels(r, h, w, ctx)
        if r is None:
            ctx.label("slot:none")
            continue
        e_nt, sides = extract_nt(r, win, h, w)
        ctx.label("clipped-sides:%d" % sides)
        ctx.label("y-" + axis_class(r[0], r[1], win[0], win[1]))
        ctx.label("x-" + axis_class(r[2], r[3], win[2], win[3]))
        nt = nt or (sides == 1) or (corner != [1, 0] and touches_edge(r, h, w))
    ctx.nt(nt)

    # 1. rotation: util level per region, layout level, array level
    for r in regions:
        check_rotate_util(arr, r, corner, ctx, layout=layout)
    check_rotate_layout(arr, regions, corner, ctx, layout=layout)
    check_rotate_arrays(idx, regions, corner, ctx, layout=layout)

    first = next(r for r in regions if r is not None)
    check_rotate_reuse((h, w), first, corner, ctx)
    check_rotate_pattern((h, w), [r for r in regions if r is not None], corner, ctx)
    check_layout_reuse((h, w), regions, corner, ctx)

    # 2. extraction in the original frame
    for r in regions:
        check_extract_util(idx, r, win, ctx)
    check_extract_layout(idx, regions, win, ctx, corner=corner)
    check_chain_ranges((h, w), regions, win, corner, ctx)

    # 3. end to end: rotate layout and array, extract the rotated window, read the regions out of the
    #    extracted sub-array; must be the (reference-)rotated content of region ∩ window, None iff empty
    Lr = make_layout((h, w), regions).new_rotated_from(roe_corner=c)
    from autoarray.layout import layout_util as lu
    Ar = lu.rotate_array_via_roe_corner_from(array=arr, roe_corner=c)
    Wr = lu.rotate_region_via_roe_corner_from(region=tuple(win), shape_native=(h, w), roe_corner=c)
    Le = Lr.layout_extracted_from(extraction_region=Wr)
    Sub = np.asarray(Ar)[Wr.slice]
    ctx.equal(Sub, ref_rot_array(vals[win[0]:win[1], win[2]:win[3]], corner), "chain/window-content/" + ckey(corner),
              "rot(arr)[rot(window)] vs rot(arr[window]) (input layout %s)" % layout)
    # the same window cut straight out of the laid-out input and rotated on its own (a strided view as input)
    cut = np.asarray(arr)[aa.Region2D(region=tuple(win)).slice]
    ctx.equal(lu.rotate_array_via_roe_corner_from(array=cut, roe_corner=c), Sub, "chain/window-content/" + ckey(corner),
              "rot(arr[window]) vs rot(arr)[rot(window)] (input layout %s)" % layout)
    for s, r in zip(SLOTS, regions):
        got = getattr(Le, s)
        if r is None:
            ctx.check(got is None, "chain/none-slot", "%s was None, became %s" % (s, got))
            continue
        rows, cols = ref_overlap(r, win)
        if not rows or not cols:
            ctx.check(got is None, "chain/missing-none", "slot %s region %s window %s corner %s -> %s, want None"
                      % (s, r, win, c, None if got is None else rcoords(got)))
            continue
        if got is None:
            ctx.fail("chain/spurious-none", "slot %s region %s window %s corner %s -> None, overlap rows %s cols %s"
                     % (s, r, win, c, rows, cols))
            continue
        g = rcoords(got)
        ctx.check(g[1] <= Sub.shape[0] and g[3] <= Sub.shape[1], "chain/outside-window",
                  "slot %s -> %s does not fit %s" % (s, g, Sub.shape))
        want = ref_rot_array(vals[np.ix_(rows, cols)], corner)
        ctx.equal(Sub[got.slice], want, "chain/rotate-then-extract/" + ckey(corner),
                  "slot %s region %s window %s" % (s, r, win))
        if s in ("parallel_overscan", "serial_overscan") and Sub.size <= 400:
            A = aa.Array2D.no_mask(values=lay(np.array(Sub, dtype=float), layout), pixel_scales=1.0)
            fn = "extract_parallel_overscan_array_2d_from" if s == "parallel_overscan" else "extract_serial_overscan_array_from"
            ext = getattr(Le, fn)(array=A)
            ctx.equal(np.asarray(ext.native), want, "chain/extract-array/" + s, "%s after rotate+extract" % fn)


@st.composite
def given_front_trailing(draw):
    dim = draw(st.sampled_from([2, 2, 1]))
    big = draw(st.booleans())
    m = 70000 if big else 30
    def ext():
        return draw(st.one_of(st.integers(1, 6), big_ints(1) if big else st.integers(1, m)))
    def start():
        return draw(st.one_of(st.just(0), st.integers(0, 5), big_ints(0) if big else st.integers(0, m)))
    kind = draw(st.sampled_from(["valid", "valid", "valid", "inside", "empty", "reversed"]))
    if dim == 2:
        y0, x0 = start(), start()
        r = [y0, y0 + ext(), x0, x0 + ext()]
        tot = min(r[1] - r[0], r[3] - r[2])
    else:
        x0 = start()
        r = [x0, x0 + ext()]
        tot = r[1] - r[0]
    if kind == "inside":
        p0 = draw(st.integers(0, tot - 1))
        p = [p0, draw(st.integers(p0 + 1, tot))]
    elif kind == "valid":
        p0 = draw(st.one_of(st.integers(0, 4), st.integers(0, m)))
        p = [p0, p0 + draw(st.one_of(st.integers(1, 4), st.integers(1, m)))]
    elif kind == "empty":
        p0 = draw(st.integers(0, m))
        p = [p0, p0]
    else:
        p1 = draw(st.integers(0, m))
        p = [p1 + draw(st.integers(1, m)), p1]
    ext_all = [r[1] - r[0]] + ([r[3] - r[2]] if dim == 2 else [])
    pfes = sorted({0, 1, min(ext_all), max(ext_all), draw(st.integers(0, max(ext_all)))})
    return {"dim": dim, "r": r, "p": p, "pfes": pfes}


def body_given_front_trailing(case, ctx):
    case = fresh(case)
    r, p, pfes = case["r"], case["p"], case["pfes"]
    ft_labels(p, ctx)
    ctx.label("dim:%d" % case["dim"])
    if max(r) > 60:
        ctx.label("coords:large")
    pm = max(p[0], p[1], 0)
    if case["dim"] == 2:
        ctx.nt((p[0] > 0 and p[0] < p[1]) or r[0] == 0 or r[2] == 0)
        if p[0] < p[1] and p[1] <= min(r[1] - r[0], r[3] - r[2]):
            ctx.label("pixels:inside-parent")
        H, W = r[1] + pm + 2, r[3] + pm + 2
        if H * W > 40000:
            ctx.label("content-check:ranges-only")
        check_front_trailing_2d(r, p, pfes, ctx, big=(H, W))
    else:
        ctx.nt((p[0] > 0 and p[0] < p[1]) or r[0] == 0)
        if p[0] < p[1] and p[1] <= r[1] - r[0]:
            ctx.label("pixels:inside-parent")
        check_front_trailing_1d(r, p, pfes, ctx, n=r[1] + pm + 2)


@st.composite
def given_constructors(draw):
    dim = draw(st.sampled_from([2, 1]))
    n = 2 * dim
    kind = draw(st.sampled_from(["valid", "valid", "negative", "empty", "reversed", "reversed", "any"]))
    big = draw(st.booleans())
    m = 70000 if big else 12
    t = []
    for _ in range(dim):
        a = draw(big_ints(0) if big else st.integers(0, m))
        t += [a, a + draw(st.one_of(st.integers(1, 3), st.integers(1, m)))]
    if kind == "negative":
        k = draw(st.integers(0, n - 1))
        t[k] = -draw(st.integers(1, m))
        if draw(st.booleans()):   # keep the pair ordered so that only the sign is wrong
            i = k - (k % 2)
            t[i], t[i + 1] = min(t[i], t[i + 1]), max(t[i], t[i + 1])
    elif kind == "empty":
        i = 2 * draw(st.integers(0, dim - 1))
        t[i + 1] = t[i]
    elif kind == "reversed":
        i = 2 * draw(st.integers(0, dim - 1))
        t[i], t[i + 1] = t[i + 1], t[i]
    elif kind == "any":
        t = [draw(st.integers(-m, m)) for _ in range(n)]
    return {"t": t}


def body_given_constructors(case, ctx):
    case = fresh(case)
    t = case["t"]
    if max(abs(v) for v in t) > 60:
        ctx.label("coords:large")
    if len(t) == 4:
        ctx.nt((not is_valid_2d(t)) or t[1] - t[0] == 1 or t[3] - t[2] == 1)
        small = max(t) <= 200
        check_ctor_2d(t, ctx) if small else _ctor_2d_large(t, ctx)
    else:
        ctx.nt((not is_valid_1d(t)) or t[1] - t[0] == 1)
        check_ctor_1d(t, ctx)


def _ctor_2d_large(t, ctx):
    """Large coordinates: accept/reject and accessors only (no (y1+2)x(x1+2) index array)."""
    aa = _aa()
    valid = is_valid_2d(t)
    cls = invalid_class(t)
    ctx.label("2d:" + cls)
    R, raised = try_ctor(lambda: aa.Region2D(region=tuple(t)))
    if valid:
        ctx.check(not raised, "region2d/ctor-rejects-valid", "Region2D(%s) raised RegionException" % (t,))
        if R is not None:
            ctx.check(rcoords(R) == list(t) and tuple(R.shape) == (t[1] - t[0], t[3] - t[2]), "region2d/accessors", "%s" % (t,))
            ctx.check(range(t[1] + 2)[R.y_slice] == range(t[0], t[1]) and range(t[3] + 2)[R.x_slice] == range(t[2], t[3])
                      and range(t[1] + 2)[R.slice[0]] == range(t[0], t[1]) and range(t[3] + 2)[R.slice[1]] == range(t[2], t[3]),
                      "region2d/slice", "y_slice / x_slice / slice of %s (range arithmetic)" % (t,))
    else:
        ctx.check(raised, "region2d/ctor-accepts-invalid/" + cls, "Region2D(%s) was accepted" % (t,))
    for s in SLOTS:
        L, raised = try_ctor(lambda: aa.Layout2D(shape_2d=(max(t[1], 1) + 1, max(t[3], 1) + 1), **{s: tuple(t)}))
        if valid:
            ctx.check(not raised, "layout/ctor-rejects-valid", "Layout2D(%s=%s)" % (s, t))
        else:
            ctx.check(raised, "layout/ctor-accepts-invalid/" + cls, "Layout2D(%s=%s) was accepted" % (s, t))


SUBCHECKS = [
    SubCheck("enum_rotate", body_enum_rotate, cases=cases_enum_rotate, shards={"quick": 16, "thorough": 16},
             doc="exhaustive: shapes x regions x corners; util, Layout2D and Array2D entry points"),
    SubCheck("enum_layouts", body_enum_layouts, cases=cases_enum_layouts, shards={"quick": 8, "thorough": 16},
             doc="frames <=4x4 / <=6x6 x six memory layouts x corners x sample regions, int and float values: "
                 "rotate_array (orientation, twice-restores, no aliasing, input and backing buffer unchanged), "
                 "Layout2D.original_orientation_from, Array2D construction + extract_*_array_from + original_orientation"),
    SubCheck("enum_extract", body_enum_extract, cases=cases_enum_extract, shards={"quick": 16, "thorough": 16},
             doc="exhaustive: shapes x regions x windows; region_after_extraction and Layout2D.layout_extracted_from"),
    SubCheck("enum_front_trailing", body_enum_front_trailing, cases=cases_enum_front_trailing,
             shards={"quick": 8, "thorough": 16},
             doc="exhaustive: parent regions x pixel pairs x pixels_from_end; Region2D and Region1D sub-regions"),
    SubCheck("enum_constructors", body_enum_constructors, cases=cases_enum_constructors,
             shards={"quick": 4, "thorough": 8}, doc="exhaustive small integer tuples: RegionException iff invalid"),
    SubCheck("given_rotate_extract", body_given_rotate_extract, strategy=given_rotate_extract(),
             examples={"quick": 400, "thorough": 8000}, shards={"quick": 4, "thorough": 16},
             doc="shapes up to 40x40, three layout slots, rotate -> extract chain through every entry point"),
    SubCheck("enum_large", body_large, cases=cases_enum_large, shards={"quick": 16, "thorough": 16},
             doc="coordinates up to 2**31+ (quick) / 2**63+ (thorough): every boundary relation between region and window "
                 "per axis x magnitudes x corners, plus a 2086x2128 CCD quadrant; range arithmetic only"),
    SubCheck("given_large", body_large, strategy=given_large(), examples={"quick": 600, "thorough": 10000},
             shards={"quick": 4, "thorough": 16},
             doc="Hypothesis: both axes in drawn boundary relations at drawn magnitudes (<=70000 and around 2**15, 2**31)"),
    SubCheck("given_front_trailing", body_given_front_trailing, strategy=given_front_trailing(),
             examples={"quick": 400, "thorough": 6000}, shards={"quick": 2, "thorough": 8}),
    SubCheck("given_constructors", body_given_constructors, strategy=given_constructors(),
             examples={"quick": 400, "thorough": 6000}, shards={"quick": 2, "thorough": 8}),
]
