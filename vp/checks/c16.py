"""C16 — FITS output followed by input reproduces values, orientation and pixel scale."""
import contextlib
import os
import pathlib
import shutil
import tempfile

import numpy as np
from hypothesis import strategies as st

from vp import gens
from vp.engine import SubCheck

PROPERTY = "C16"
TECHNIQUE = ("property-based testing (Hypothesis) against round-trip, raw-file (astropy) and "
             "metamorphic oracles")
RULE = (
    "Hypothesis draws an object kind (Array2D unmasked / masked / 'raw' = native-stored masked array whose underlying "
    "ndarray holds non-zero numbers at masked pixels, built with store_native=True+skip_mask=True or by arr+c, "
    "arr.native+c, c-arr on a native-stored masked array, expectation np.where(mask,0,raw) on every route; "
    "Kernel2D, Mask2D, Array1D unmasked / masked, "
    "Mask1D, Imaging), a shape 1..7 x 1..7 (1xN, Nx1, square, non-square) or length 1..9, finite float64 values "
    "(reals in [-1e3,1e3] mixed with 0, 1e-300, 1e300, 5e-324, DBL_MAX and negatives), a constructive mask, "
    "pixel scales by class (isotropic; anisotropic with independent components; anisotropic with |sy-sx| < 1e-8; "
    "anisotropic with relative difference 1e-12..1e-9; both components tiny (1e-12..1e-9) with a factor 2-3 between "
    "them; components ordinary 0.05..5, tiny 1e-15..1e-5, large 10..1e12, or arbitrary doubles), "
    "flip_for_ds9 in {false,true} (set per case through "
    "conf.instance and restored), a path kind (absolute, missing nested directory, relative nested, './name', "
    "pathlib, bare name with cwd = the per-case temp dir) and, for the paths/imaging sub-checks, a pre-existing-"
    "file scenario. Every file lives in a per-case tempfile.mkdtemp() directory removed in a finally. Oracles: "
    "write->read round trip must return array_equal native values, the same shape, the same booleans (masks), "
    "zeros at masked pixels and (through from_primary_hdu on the in-memory HDU and on the HDU re-opened from "
    "the written file) EXACTLY the written pixel-scale pair (==; only a double whose repr exceeds the 20-character "
    "FITS card value field, i.e. a 16-17 digit number in exponent form, is compared with rtol 1e-13 on routes that "
    "serialise the header, labelled scales:card-truncated); the raw "
    "file / HDU data read with astropy must equal flipud(native) iff the flip option is on (2D); multi-HDU "
    "files assembled with astropy must read back the object at its HDU index and the decoys in the orientation "
    "implied by the option; Mask2D invert / resized_mask_shape on input must equal numpy inversion / the "
    "in-memory resize of the written mask (and a symmetric centre crop/pad when the size difference is even); "
    "a second write without overwrite must raise and leave the file bytes unchanged (also when only one of an "
    "Imaging dataset's three target files pre-exists), with overwrite the file must be byte-identical to a fresh "
    "write of the new content; missing directories are created and relative / "
    "bare names resolve against cwd; reread: a path is written (repository writer, or an astropy multi-HDU file "
    "with EXPTIME / DATE-OBS / TIME-OBS cards and the object at index k), read, replaced by different content "
    "(other shape, pixel scale, values, HDU layout, exposure cards), read again twice through drawn path forms "
    "(relative / absolute, str / Path), optionally restored and read again, with an optional twin path of equal "
    "content: every read (from_fits values and shape, loaded.header.header_sci_obj / header_hdu_obj item lists, "
    "NAXISn, PIXSCALE cards, exposure_time / date / time, array_2d_util.header_obj_from for every HDU) must "
    "equal what a fresh astropy open of the file shows at that moment and what was written; relative names "
    "recur across cases with different cwd, so a memo keyed on the path string is also stale across cases. Non-trivial: 2D case whose native array differs from its up-down flip and "
    "is non-square; 1D case whose native array differs from its reversal; paths/imaging case with a scenario "
    "other than a fresh write to an absolute path; every reread case (the replacement always differs in shape and "
    "pixel scale). Distinct = SHA-1 of the canonical case."
)
ASSUMPTIONS = [
    "astropy.io.fits is the reference reader/writer for the raw content of a FITS file or HDU",
    "conf.instance['general']['fits']['flip_for_ds9'] may be assigned directly (autoconf DictWrapper.__setitem__) "
    "and is read by the repository at every write/read; it is restored after every case",
    "each (sub-check, shard) runs in its own forked process, so os.chdir into the per-case temp dir is process-local "
    "and is undone in a finally",
    "astropy writes a float header value as repr(value) cut to the 20-character card field: probed exact for every "
    "double whose repr is <= 20 characters (0.050000004, 2.4e-09, 4.84813681109536e-06, 1.000000000001) and off by "
    "<= 5e-14 relative otherwise (2.4000000000000004e-09: 1.7e-16, 1.2345678901234568e-300: 4.6e-14); the in-memory "
    "HDU keeps the Python float, so that route is always exact; values are exact (BITPIX=-64)",
    "a FITS file may be replaced by any writer between two reads in one process; the reference for what a read must "
    "return is a fresh astropy open at that moment",
    "Array1D: a native-stored Array1D keeps whatever the caller (or additive arithmetic) left at masked entries - its "
    "constructor, unlike Array2D's, never zeroes them and there is no 1D native_skip_mask distinction - so 'identical "
    "native values' and 'zeros at masked pixels' can both hold only for a native input that is already zero there; the "
    "harness supplies such inputs for 1D (precondition) and applies the stored-content-at-masked-pixels class to 2D only",
    "Imaging.from_fits re-normalises the PSF (use_normalized_psf default), so the Imaging PSF is compared with "
    "rtol 1e-14 to the already-normalised PSF that was written; data and noise map exactly",
]

SPECIAL = [0.0, -0.0, 1.0, -1.5, 1e-300, -1e-300, 1e300, -1e300, 5e-324, 1.7976931348623157e308]
# "array2d-raw": a masked Array2D stored natively whose underlying ndarray holds non-zero numbers at masked pixels
# (store_native=True with skip_mask=True, or additive arithmetic on a native-stored masked array)
KINDS_2D = ["array2d", "array2d-masked", "array2d-raw", "kernel2d", "mask2d"]
KINDS_1D = ["array1d", "array1d-masked", "mask1d"]
PATH_KINDS_MAIN = ["abs", "nested", "rel-nested", "pathlib"]
PATH_KINDS_ALL = ["abs", "nested", "rel-nested", "dot", "pathlib", "bare", "pathlib-bare"]
CARD_RTOL = 1e-13  # a float whose repr needs more than 20 characters is truncated by the FITS card (>= 14 digits kept)


def card_exact(v):
    """True when astropy stores the float losslessly in a header card: its shortest repr fits the 20-character
    value field (probed: 4.84813681109536e-06 exact, 2.4000000000000004e-09 off by 1.7e-16 relative)."""
    return len(repr(float(v))) <= 20


def _aa():
    import autoarray as aa
    return aa


def _fits():
    from astropy.io import fits
    return fits


# ---------------------------------------------------------------------------------------------
# per-case sandbox: temp dir (also cwd), flip option, restore everything
# ---------------------------------------------------------------------------------------------
@contextlib.contextmanager
def sandbox(flip):
    from autoconf import conf
    section = conf.instance["general"]["fits"]
    old_flip = section["flip_for_ds9"]
    old_cwd = os.getcwd()
    tmp = os.path.realpath(tempfile.mkdtemp(prefix="vp_c16_"))
    try:
        os.chdir(tmp)
        section["flip_for_ds9"] = bool(flip)
        yield tmp
    finally:
        conf.instance["general"]["fits"]["flip_for_ds9"] = old_flip
        os.chdir(old_cwd)
        shutil.rmtree(tmp, ignore_errors=True)


def resolve_path(tmp, path_kind, name):
    """Returns (path handed to the repository, absolute location where the file must appear)."""
    if path_kind == "abs":
        return os.path.join(tmp, name), os.path.join(tmp, name)
    if path_kind == "nested":
        return os.path.join(tmp, "d1", "d2", name), os.path.join(tmp, "d1", "d2", name)
    if path_kind == "rel-nested":
        return os.path.join("r1", "r2", name), os.path.join(tmp, "r1", "r2", name)
    if path_kind == "dot":
        return "./" + name, os.path.join(tmp, name)
    if path_kind == "pathlib":
        return pathlib.Path(tmp) / "p1" / name, os.path.join(tmp, "p1", name)
    if path_kind == "bare":
        return name, os.path.join(tmp, name)
    if path_kind == "pathlib-bare":
        return pathlib.Path(name), os.path.join(tmp, name)
    raise ValueError(path_kind)


def raw_read(path, hdu=0):
    """Raw content of one HDU read with astropy (native byte order copy), file closed afterwards."""
    fits = _fits()
    with fits.open(path, memmap=False) as hl:
        data = np.array(hl[hdu].data)
        n = len(hl)
    return data.astype(data.dtype.newbyteorder("=")), n


def file_bytes(path):
    with open(path, "rb") as f:
        return f.read()


# ---------------------------------------------------------------------------------------------
# objects
# ---------------------------------------------------------------------------------------------
def is_mask(kind):
    return kind in ("mask2d", "mask1d")


def is_2d(kind):
    return kind in KINDS_2D


def build(spec):
    """spec (JSON) -> (object, expected native content)."""
    aa = _aa()
    kind = spec["kind"]
    if is_2d(kind):
        h, w = spec["shape"]
        scales = (float(spec["scales"][0]), float(spec["scales"][1]))
        if kind == "mask2d":
            m = np.asarray(spec["mask"], dtype=bool).reshape(h, w)
            return aa.Mask2D(mask=m.copy(), pixel_scales=scales), m
        vals = np.asarray(spec["values"], dtype=float).reshape(h, w)
        if kind == "array2d":
            return aa.Array2D.no_mask(values=vals.copy(), pixel_scales=scales), vals
        if kind == "kernel2d":
            return aa.Kernel2D.no_mask(values=vals.copy(), pixel_scales=scales, normalize=False), vals
        m = np.asarray(spec["mask"], dtype=bool).reshape(h, w)
        mask = aa.Mask2D(mask=m.copy(), pixel_scales=scales)
        if kind == "array2d-raw":
            how, c = spec["raw"], float(spec.get("c", 0.0))
            if how == "skip_mask":
                obj, raw = aa.Array2D(values=vals.copy(), mask=mask, store_native=True, skip_mask=True), vals
            else:
                base = aa.Array2D(values=vals.copy(), mask=mask, store_native=True)
                if how == "add":
                    obj, raw = base + c, vals + c
                elif how == "native-add":
                    obj, raw = base.native + c, vals + c
                elif how == "rsub":
                    obj, raw = c - base, c - vals
                else:
                    raise ValueError(how)
            return obj, np.where(m, 0.0, raw)
        src = vals.copy() if spec.get("given", "native") == "native" else vals[~m].copy()
        obj = aa.Array2D(values=src, mask=mask, store_native=bool(spec.get("store_native", False)))
        return obj, np.where(m, 0.0, vals)
    n = spec["shape"][0]
    s = float(spec["scales"][0])
    if kind == "mask1d":
        m = np.asarray(spec["mask"], dtype=bool).reshape(n)
        return aa.Mask1D(mask=m.copy(), pixel_scales=s), m
    vals = np.asarray(spec["values"], dtype=float).reshape(n)
    if kind == "array1d":
        return aa.Array1D.no_mask(values=vals.copy(), pixel_scales=s), vals
    m = np.asarray(spec["mask"], dtype=bool).reshape(n)
    mask = aa.Mask1D(mask=m.copy(), pixel_scales=s)
    want = np.where(m, 0.0, vals)
    if spec.get("given", "native") == "native":
        # precondition: a native-stored Array1D keeps whatever the caller put at masked entries (its constructor
        # does not zero them, unlike Array2D), so "identical native values" and "zeros at masked pixels" can only
        # both be demanded of a native input that already is zero there; the harness supplies such an input.
        obj = aa.Array1D(values=want.copy(), mask=mask, store_native=True)
    else:
        obj = aa.Array1D(values=vals[~m].copy(), mask=mask)
    return obj, want


def want_scales(spec):
    if is_2d(spec["kind"]):
        return (float(spec["scales"][0]), float(spec["scales"][1]))
    return (float(spec["scales"][0]),)


def read_file(kind, path, scales, hdu=0, **kw):
    aa = _aa()
    if kind in ("array2d", "array2d-masked", "array2d-raw"):
        return aa.Array2D.from_fits(file_path=path, pixel_scales=scales, hdu=hdu)
    if kind == "kernel2d":
        return aa.Kernel2D.from_fits(file_path=path, hdu=hdu, pixel_scales=scales, normalize=False)
    if kind == "mask2d":
        return aa.Mask2D.from_fits(file_path=path, pixel_scales=scales, hdu=hdu, **kw)
    if kind in ("array1d", "array1d-masked"):
        return aa.Array1D.from_fits(file_path=path, pixel_scales=scales[0], hdu=hdu)
    if kind == "mask1d":
        return aa.Mask1D.from_fits(file_path=path, pixel_scales=scales[0], hdu=hdu)
    raise ValueError(kind)


def read_hdu(kind, hdu):
    aa = _aa()
    cls = {"array2d": aa.Array2D, "array2d-masked": aa.Array2D, "array2d-raw": aa.Array2D, "kernel2d": aa.Kernel2D, "mask2d": aa.Mask2D,
           "array1d": aa.Array1D, "array1d-masked": aa.Array1D, "mask1d": aa.Mask1D}[kind]
    return cls.from_primary_hdu(primary_hdu=hdu)


def native_of(kind, obj):
    if is_mask(kind):
        return np.asarray(obj)
    return np.asarray(obj.native)


def short_kind(kind):
    return kind.replace("-masked", "")


# ---------------------------------------------------------------------------------------------
# comparisons (keys name entry point + route + aspect; three design-phase defects have own keys)
# ---------------------------------------------------------------------------------------------
def cmp_values(ctx, kind, route, got_obj, want, flip, what=""):
    got = native_of(kind, got_obj)
    base = "%s/%s" % (short_kind(kind), route)
    if is_mask(kind):
        ctx.check(got.dtype == np.bool_, base + "/dtype", "%s mask read back with dtype %s" % (what, got.dtype))
    ctx.check(tuple(got_obj.shape_native) == tuple(want.shape), base + "/shape",
              "%s shape_native %s want %s" % (what, tuple(got_obj.shape_native), tuple(want.shape)))
    if (kind in ("array1d", "array1d-masked") and route.startswith("hdu") and flip and got.shape == want.shape
            and not np.array_equal(got, want) and np.array_equal(got, want[::-1])):
        # design finding 2: the 1D HDU is reversed on output by the DS9 option and never un-reversed
        ctx.comparisons += 1
        ctx.fail("array1d-hdu-flip", "%s Array1D via %s with flip_for_ds9=true reads back reversed: got %s want %s"
                 % (what, route, got.tolist()[:8], want.tolist()[:8]))
        return
    ctx.equal(got, want, base + "/values", "%s %s %s flip=%s" % (what, kind, route, flip))


def scale_matches(ctx, g, w, through_card):
    """Exact, unless the value went through a serialised header card that cannot hold its repr (rtol CARD_RTOL)."""
    if through_card and not card_exact(w):
        ctx.label("scales:card-truncated")
        return abs(g - w) <= CARD_RTOL * abs(w)
    return g == w


def cmp_scales(ctx, kind, route, got_obj, want, what=""):
    """Routes 'hdu' (in-memory header, Python float kept as is) and '*-arg' (scale passed by the caller) are exact;
    routes that serialise the header to a file follow the card rule above."""
    base = "%s/%s" % (short_kind(kind), route)
    through_card = not (route == "hdu" or route.endswith("-arg"))
    try:
        got = tuple(float(v) for v in got_obj.pixel_scales)
    except Exception:
        ctx.fail(base + "/pixel-scale", "%s pixel_scales unreadable: %r" % (what, getattr(got_obj, "pixel_scales", None)))
        return
    ok = len(got) == len(want) and all(scale_matches(ctx, g, w, through_card) for g, w in zip(got, want))
    ctx.comparisons += 1
    if ok:
        return
    if (len(want) == 2 and want[0] != want[1] and len(got) == 2
            and all(abs(g - want[0]) <= CARD_RTOL * abs(want[0]) for g in got)):
        # design finding 3: only PIXSCALE = y-scale reaches the header
        ctx.fail("aniso-header", "%s %s via %s: anisotropic pixel scales %s read back from the header as %s"
                 % (what, kind, route, want, got))
        return
    ctx.fail(base + "/pixel-scale", "%s %s via %s: pixel scales %s read back as %s" % (what, kind, route, want, got))


def cmp_raw(ctx, kind, route, raw, want, flip):
    """Orientation of what is physically stored: flipud(native) iff the option is on (2D only)."""
    if not is_2d(kind):
        return
    base = "%s/%s" % (short_kind(kind), route)
    w = want.astype(float)
    ctx.equal(raw.astype(float), np.flipud(w) if flip else w, base + "/raw-orientation",
              "%s raw stored data with flip=%s" % (kind, flip))


def write_file(ctx, kind, obj, path, path_kind, overwrite=False):
    """output_to_fits; a FileNotFoundError for a directory-less name is design finding 1."""
    try:
        obj.output_to_fits(file_path=path, overwrite=overwrite)
    except FileNotFoundError as e:
        if path_kind in ("bare", "pathlib-bare") and getattr(e, "filename", None) in ("", b""):
            ctx.fail_stop("bare-filename", "%s.output_to_fits(%r) in cwd raises FileNotFoundError: %s"
                          % (kind, str(path), e))
        raise


def scale_labels(ctx, scales):
    sc = [float(v) for v in scales]
    if len(sc) == 2:
        sy, sx = sc
        ctx.label("scales:iso" if sy == sx else "scales:aniso")
        if sy != sx:
            if abs(sy - sx) < 1e-8:
                ctx.label("scales:aniso-absdiff<1e-8")
            if abs(sy - sx) <= 1e-9 * max(abs(sy), abs(sx)):
                ctx.label("scales:aniso-reldiff<=1e-9")
    if min(sc) < 1e-5:
        ctx.label("scales:tiny<1e-5")
    if max(sc) > 1e3:
        ctx.label("scales:large>1e3")
    if not all(card_exact(v) for v in sc):
        ctx.label("scales:long-repr")


def labels_for(ctx, spec, want, flip, path_kind=None):
    kind = spec["kind"]
    ctx.label("kind:" + kind, "flip:%s" % ("on" if flip else "off"))
    if path_kind:
        ctx.label("path:" + path_kind)
    if is_2d(kind):
        h, w = want.shape
        ctx.label("shape:1xN" if h == 1 and w > 1 else "shape:Nx1" if w == 1 and h > 1 else
                  "shape:square" if h == w else "shape:nonsquare")
        scale_labels(ctx, spec["scales"])
        asym = not np.array_equal(want, np.flipud(want))
        ctx.label("content:flip-asymmetric" if asym else "content:flip-symmetric")
        nt = asym and h != w
    else:
        scale_labels(ctx, spec["scales"])
        asym = not np.array_equal(want, want[::-1])
        ctx.label("content:reverse-asymmetric" if asym else "content:reverse-symmetric")
        nt = asym
    if not is_mask(kind):
        a = np.abs(want[want != 0]) if want.size else want
        if a.size and a.min() < 1e-200:
            ctx.label("values:tiny")
        if a.size and a.max() > 1e200:
            ctx.label("values:huge")
        if (want < 0).any():
            ctx.label("values:negative")
    if kind == "array2d-raw":
        obj, _ = build(spec)
        under = np.asarray(getattr(obj, "_array", obj))
        m = np.asarray(spec["mask"], dtype=bool)
        ctx.label("raw:" + spec["raw"])
        leak = under.shape == m.shape and bool(np.any(under[m] != 0))
        ctx.label("raw:nonzero-stored-at-masked-pixels" if leak else "raw:nothing-to-leak")
    if "mask" in spec and spec["kind"].endswith("masked"):
        ctx.label("mask:mixed" if np.asarray(spec["mask"]).any() else "mask:none-masked")
    return nt


# ---------------------------------------------------------------------------------------------
# sub-check: roundtrip (2D and 1D objects, file route and HDU routes)
# ---------------------------------------------------------------------------------------------
def round_trip(spec, ctx, tmp, flip, path_kind):
    fits = _fits()
    kind = spec["kind"]
    obj, want = build(spec)
    scales = want_scales(spec)

    # (a) header-data-unit route, in memory
    hdu = obj.hdu_for_output
    raw = np.array(hdu.data)
    if not (kind in ("array1d", "array1d-masked")):
        cmp_raw(ctx, kind, "hdu", raw, want, flip)
    back = read_hdu(kind, hdu)
    cmp_values(ctx, kind, "hdu", back, want, flip, "hdu_for_output->from_primary_hdu")
    cmp_scales(ctx, kind, "hdu", back, scales, "hdu_for_output->from_primary_hdu")

    # (b) HDU written by astropy, re-opened (big-endian on disk) and read both ways
    p_hdu = os.path.join(tmp, "via_hdu.fits")
    obj.hdu_for_output.writeto(p_hdu)
    with fits.open(p_hdu, memmap=False) as hl:
        back = read_hdu(kind, hl[0])
        cmp_values(ctx, kind, "hdu-file", back, want, flip, "hdu_for_output->writeto->open->from_primary_hdu")
        cmp_scales(ctx, kind, "hdu-file", back, scales, "hdu_for_output->writeto->open->from_primary_hdu")
    back = read_file(kind, p_hdu, scales)
    cmp_values(ctx, kind, "hdu-file", back, want, flip, "hdu_for_output->writeto->from_fits")

    # (c) file route
    path, where = resolve_path(tmp, path_kind, "obj.fits")
    write_file(ctx, kind, obj, path, path_kind)
    ctx.check(os.path.isfile(where), "%s/file/location" % short_kind(kind),
              "output_to_fits(%r) did not create %s" % (str(path), where))
    raw, nh = raw_read(where)
    ctx.check(nh == 1, "%s/file/hdu-count" % short_kind(kind), "written file has %d HDUs" % nh)
    cmp_raw(ctx, kind, "file", raw, want, flip)
    back = read_file(kind, path, scales)
    cmp_values(ctx, kind, "file", back, want, flip, "output_to_fits->from_fits")
    cmp_scales(ctx, kind, "file-arg", back, scales, "from_fits(pixel_scales=...)")
    with fits.open(where, memmap=False) as hl:
        back = read_hdu(kind, hl[0])
        cmp_values(ctx, kind, "file-hdu", back, want, flip, "output_to_fits->open->from_primary_hdu")
        cmp_scales(ctx, kind, "file-hdu", back, scales, "output_to_fits->open->from_primary_hdu (header)")

    # Mask2D input options
    if kind == "mask2d":
        aa = _aa()
        inv = read_file(kind, path, scales, invert=True)
        ctx.equal(np.asarray(inv), ~want, "mask2d/file/invert", "from_fits(invert=True)")
        rs = spec.get("resized")
        if rs:
            ctx.label("resized:yes")
            rs = (int(rs[0]), int(rs[1]))
            got = read_file(kind, path, scales, resized_mask_shape=rs)
            ctx.check(tuple(got.shape_native) == rs, "mask2d/file/resized", "resized shape %s want %s"
                      % (tuple(got.shape_native), rs))
            ref = aa.Mask2D(mask=want.copy(), pixel_scales=scales).resized_from(new_shape=rs)
            ctx.equal(np.asarray(got), np.asarray(ref), "mask2d/file/resized",
                      "from_fits(resized_mask_shape) vs in-memory resized_from")
            h, w = want.shape
            if (h - rs[0]) % 2 == 0 and (w - rs[1]) % 2 == 0:
                ctx.label("resized:even-diff")
                ctx.equal(np.asarray(got), centre_resize(want, rs), "mask2d/file/resized",
                          "from_fits(resized_mask_shape) vs symmetric centre crop/pad")
            scg = tuple(float(v) for v in got.pixel_scales)
            ctx.check(scg == scales, "mask2d/file-arg/pixel-scale", "resized mask pixel scales %s want %s"
                      % (scg, scales))


def centre_resize(m, new_shape):
    """Symmetric centre crop / pad-with-False; only used when both size differences are even."""
    h, w = m.shape
    nh, nw = new_shape
    out = np.zeros((nh, nw), dtype=bool)
    dy, dx = (nh - h) // 2, (nw - w) // 2  # exact: differences are even
    for i in range(nh):
        for j in range(nw):
            y, x = i - dy, j - dx
            if 0 <= y < h and 0 <= x < w:
                out[i, j] = m[y, x]
    return out


def body_roundtrip(case, ctx):
    flip = bool(case["flip"])
    with sandbox(flip) as tmp:
        _, want = build(case["obj"])
        ctx.nt(labels_for(ctx, case["obj"], want, flip, case["path"]))
        round_trip(case["obj"], ctx, tmp, flip, case["path"])


def values_list(n):
    return st.lists(st.one_of(gens.reals(-1e3, 1e3), gens.reals(-1e3, 1e3), st.sampled_from(SPECIAL)),
                    min_size=n, max_size=n)


def bool_list(n):
    return st.lists(st.booleans(), min_size=n, max_size=n)


@st.composite
def obj2d(draw, kinds=KINDS_2D, hi=7):
    kind = draw(st.sampled_from(kinds))
    shape_class = draw(st.sampled_from(["nonsquare", "nonsquare", "nonsquare", "1xN", "Nx1", "square"]))
    h = draw(st.integers(1, hi))
    w = draw(st.integers(1, hi))
    if shape_class == "1xN":
        h, w = 1, max(w, 2)
    elif shape_class == "Nx1":
        h, w = max(h, 2), 1
    elif shape_class == "square":
        w = h
    else:
        h, w = max(h, 2), max(w, 2)
        if h == w:
            w = w + 1 if w < hi else w - 1
    spec = {"kind": kind, "shape": [h, w], "scales": draw(scales2d())}
    if kind == "mask2d":
        if draw(st.booleans()):
            spec["mask"] = draw(gens.masks(shape=[h, w]))
        else:
            bits = draw(bool_list(h * w))
            spec["mask"] = [bits[i * w:(i + 1) * w] for i in range(h)]
        how = draw(st.sampled_from(["none", "any", "even-diff"]))
        if how == "any":
            spec["resized"] = [draw(st.integers(1, hi + 2)), draw(st.integers(1, hi + 2))]
        elif how == "even-diff":  # symmetric crop / pad, where the centring convention is unambiguous
            spec["resized"] = [max(1 + (h + 1) % 2, h + 2 * draw(st.integers(-2, 2))),
                               max(1 + (w + 1) % 2, w + 2 * draw(st.integers(-2, 2)))]
        return spec
    spec["values"] = draw(values_list(h * w))
    if kind == "array2d-masked":
        spec["mask"] = draw(gens.masks(shape=[h, w]))
        spec["given"] = draw(st.sampled_from(["native", "slim"]))
        spec["store_native"] = draw(st.booleans())
    if kind == "array2d-raw":
        if h * w == 1:  # room for one masked and one unmasked pixel
            w = 2
            spec["shape"] = [h, w]
            spec["values"] = spec["values"] + draw(values_list(1))
        mask = [list(r) for r in draw(gens.masks(shape=[h, w]))]
        if not any(v for r in mask for v in r):  # at least one masked pixel
            i = draw(st.integers(0, h * w - 1))
            mask[i // w][i % w] = True
        if all(v for r in mask for v in r):
            mask[0][0] = False
        spec["mask"] = mask
        spec["raw"] = draw(st.sampled_from(["skip_mask", "add", "native-add", "rsub"]))
        if spec["raw"] == "skip_mask":
            # what sits at masked pixels is what would leak: make it non-zero
            flat = [v for r in mask for v in r]
            spec["values"] = [(3.25 if (mk and v == 0) else v) for v, mk in zip(spec["values"], flat)]
        else:
            spec["c"] = draw(st.one_of(st.sampled_from([7.5, -2.0, 1e-3, 1e6]), gens.reals(-100, 100, allow_zero=False)))
    return spec


def _dec(text):
    """float of a short decimal literal: its repr is at most as long as the literal, so it fits a FITS card."""
    return float(text)


@st.composite
def scale_value(draw, classes=("ordinary", "any-float", "tiny", "large", "ordinary", "any-float")):
    """One pixel scale: ordinary (0.05..5, <= 4 digits), tiny (1e-12..1e-5, radian-like), large (10..1e12), or an
    arbitrary double in [1e-12, 1e9] (17-digit repr; in exponent form it does not fit a header card)."""
    cls = draw(st.sampled_from(list(classes)))
    if cls == "ordinary":
        return draw(st.one_of(st.sampled_from([0.05, 0.1, 0.5, 1.0, 2.0]),
                              st.integers(50, 5000).map(lambda k: _dec("%de-3" % k))))
    if cls == "tiny":
        return _dec("%de%d" % (draw(st.integers(1, 9999)), draw(st.integers(-15, -8))))
    if cls == "large":
        return _dec("%de%d" % (draw(st.integers(1, 9999)), draw(st.integers(1, 9))))
    # doubles below 1e-4 print in exponent form with up to 17 digits (22-23 characters): the card-truncation class
    return draw(st.one_of(st.floats(1e-9, 1e9, allow_nan=False, allow_infinity=False),
                          st.floats(1e-12, 9e-5, allow_nan=False, allow_infinity=False)))


@st.composite
def scales2d(draw):
    """[sy, sx] by class: isotropic; anisotropic with independent components; anisotropic with |sy-sx| < 1e-8
    (an absolute offset of 1e-9..9.9e-9 or below, on an ordinary or tiny base); anisotropic with relative difference
    1e-12..1e-9; both components tiny with a factor 2-3 between them (e.g. 2.4e-9, 4.8e-9)."""
    from decimal import Decimal
    cls = draw(st.sampled_from(["iso", "aniso", "aniso", "near-abs", "near-rel", "tiny-factor"]))
    if cls == "iso":
        sy = draw(scale_value())
        return [sy, sy]
    if cls == "aniso":
        sy, sx = draw(scale_value()), draw(scale_value())
        if sx == sy:
            sx = sy * 2.0
        return [sy, sx]
    if cls == "near-abs":
        sy = draw(scale_value(classes=("ordinary", "tiny")))
        d = Decimal("%de%d" % (draw(st.integers(1, 99)), draw(st.sampled_from([-10, -10, -11, -13, -16]))))
        sx = float(Decimal(repr(sy)) + (d if draw(st.booleans()) else -d))
        if sx <= 0.0 or sx == sy:
            sx = float(Decimal(repr(sy)) + d)
        return [sy, sx] if draw(st.booleans()) else [sx, sy]
    if cls == "near-rel":
        sy = _dec("%de%d" % (draw(st.integers(1, 99)), draw(st.integers(-9, 3))))
        f = Decimal(1) + Decimal("%de%d" % (draw(st.integers(1, 9)), draw(st.sampled_from([-12, -11, -10, -9]))))
        sx = float(Decimal(repr(sy)) * f)
        if sx == sy:
            sx = sy * (1.0 + 1e-9)
        return [sy, sx] if draw(st.booleans()) else [sx, sy]
    m = draw(st.integers(1, 999))
    e = draw(st.integers(-12, -9))
    k = draw(st.sampled_from([2, 3]))
    sy, sx = _dec("%de%d" % (m, e)), _dec("%de%d" % (m * k, e))
    return [sy, sx] if draw(st.booleans()) else [sx, sy]


@st.composite
def obj1d(draw, kinds=KINDS_1D, hi=9):
    kind = draw(st.sampled_from(kinds))
    n = draw(st.integers(1, hi))
    spec = {"kind": kind, "shape": [n], "scales": [draw(scale_value())]}
    if kind != "mask1d":
        spec["values"] = draw(values_list(n))
    if kind != "array1d":
        m = draw(bool_list(n))
        if kind == "array1d-masked":
            m[draw(st.integers(0, n - 1))] = False  # at least one unmasked pixel
            spec["given"] = draw(st.sampled_from(["native", "slim"]))
        spec["mask"] = m
    return spec


@st.composite
def roundtrip2d_cases(draw):
    return {"obj": draw(obj2d()), "flip": draw(st.booleans()), "path": draw(st.sampled_from(PATH_KINDS_MAIN))}


@st.composite
def roundtrip1d_cases(draw):
    return {"obj": draw(obj1d()), "flip": draw(st.booleans()), "path": draw(st.sampled_from(PATH_KINDS_MAIN))}


# ---------------------------------------------------------------------------------------------
# sub-check: multihdu (files assembled with astropy, object at index k, decoys elsewhere)
# ---------------------------------------------------------------------------------------------
def body_multihdu(case, ctx):
    fits = _fits()
    flip = bool(case["flip"])
    spec = case["obj"]
    kind = spec["kind"]
    k = int(case["k"])
    with sandbox(flip) as tmp:
        obj, want = build(spec)
        scales = want_scales(spec)
        nt = labels_for(ctx, spec, want, flip)
        ctx.label("hdu:%d" % k, "nhdus:%d" % (len(case["decoys"]) + 1))
        ctx.nt(nt and k > 0)
        single = os.path.join(tmp, "single.fits")
        obj.output_to_fits(file_path=single)
        raw, _ = raw_read(single)
        with fits.open(single, memmap=False) as hl:
            header = hl[0].header.copy()
        decoys = []
        for d in case["decoys"]:
            a = np.asarray(d["values"], dtype=float).reshape(d["shape"])
            decoys.append(a)
        # order: decoys with the object inserted at index k
        arrays = list(decoys)
        arrays.insert(k, None)
        hdus = []
        for i, a in enumerate(arrays):
            data = raw if a is None else a
            hdr = header if a is None else None
            hdus.append(fits.PrimaryHDU(data, header=hdr) if i == 0 else fits.ImageHDU(data, header=hdr))
        multi = os.path.join(tmp, "multi.fits")
        fits.HDUList(hdus).writeto(multi)

        back = read_file(kind, multi, scales, hdu=k)
        cmp_values(ctx, kind, "multi-file", back, want, flip, "from_fits(hdu=%d of %d)" % (k, len(arrays)))
        # decoys written by astropy directly: the reader must present them flipped iff the option is on
        for i, a in enumerate(arrays):
            if a is None:
                continue
            if is_2d(kind):
                got = read_file("array2d", multi, (1.0, 1.0), hdu=i)
                ctx.equal(np.asarray(got.native), np.flipud(a) if flip else a, "array2d/multi-file/read-orientation",
                          "from_fits(hdu=%d) of an astropy-written array, flip=%s" % (i, flip))
            else:
                got = read_file("array1d", multi, (1.0,), hdu=i)
                ctx.equal(np.asarray(got.native), a, "array1d/multi-file/read-values",
                          "Array1D.from_fits(hdu=%d) of an astropy-written array" % i)


@st.composite
def multihdu_cases(draw):
    two_d = draw(st.sampled_from([True, False, True, False, True]))
    spec = draw(obj2d(hi=5)) if two_d else draw(obj1d(hi=7))
    spec.pop("resized", None)
    nd = draw(st.sampled_from([2, 1, 2, 0]))
    decoys = []
    for _ in range(nd):
        if two_d:
            h, w = draw(st.integers(1, 4)), draw(st.integers(1, 4))
            decoys.append({"shape": [h, w], "values": draw(values_list(h * w))})
        else:
            n = draw(st.integers(1, 6))
            decoys.append({"shape": [n], "values": draw(values_list(n))})
    k = draw(st.sampled_from(list(range(nd, -1, -1))))
    return {"obj": spec, "flip": draw(st.booleans()), "k": k, "decoys": decoys}


# ---------------------------------------------------------------------------------------------
# sub-check: paths (directory creation, bare names, overwrite semantics)
# ---------------------------------------------------------------------------------------------
SCENARIOS = ["fresh", "fresh-overwrite-true", "exists-no-overwrite", "exists-overwrite"]


def body_paths(case, ctx):
    flip = bool(case["flip"])
    first, second = case["first"], case["second"]
    kind = second["kind"]
    pk, scen = case["path"], case["scenario"]
    with sandbox(flip) as tmp:
        ctx.label("kind:" + kind, "path:" + pk, "scenario:" + scen, "flip:%s" % ("on" if flip else "off"))
        ctx.nt(not (scen == "fresh" and pk == "abs"))
        obj1, want1 = build(first)
        obj2, want2 = build(second)
        scales2 = want_scales(second)
        path, where = resolve_path(tmp, pk, "target.fits")
        base = short_kind(kind)
        ctx.check(not os.path.exists(where), "harness/precondition", "target exists before the case")

        if scen in ("fresh", "fresh-overwrite-true"):
            write_file(ctx, kind, obj2, path, pk, overwrite=(scen == "fresh-overwrite-true"))
        else:
            write_file(ctx, kind, obj1, path, pk, overwrite=False)
            ctx.check(os.path.isfile(where), base + "/paths/location",
                      "first write to %r did not create %s" % (str(path), where))
            before = file_bytes(where)
            if scen == "exists-no-overwrite":
                raised = None
                try:
                    obj2.output_to_fits(file_path=path, overwrite=False)
                except Exception as e:  # astropy raises OSError; any refusal is accepted
                    raised = e
                ctx.check(raised is not None, base + "/paths/overwrite-false-no-error",
                          "second output_to_fits(overwrite=False) onto an existing file did not raise")
                ctx.check(os.path.isfile(where) and file_bytes(where) == before,
                          base + "/paths/overwrite-false-file-changed",
                          "existing file was modified by a refused write")
                back = read_file(kind, path, want_scales(first))
                cmp_values(ctx, kind, "paths-kept", back, want1, flip, "first content after refused write")
                return
            write_file(ctx, kind, obj2, path, pk, overwrite=True)

        # the target now must hold exactly the second content
        ctx.check(os.path.isfile(where), base + "/paths/location",
                  "output_to_fits(%r) did not create %s (cwd=%s)" % (str(path), where, tmp))
        made = sorted(os.path.relpath(os.path.join(r, f), tmp) for r, _, fs in os.walk(tmp) for f in fs)
        ctx.check(made == [os.path.relpath(where, tmp)], base + "/paths/stray-files",
                  "files under the temp dir: %s" % made)
        raw, nh = raw_read(where)
        ctx.check(nh == 1, base + "/paths/replace", "file has %d HDUs after the write (scenario %s)" % (nh, scen))
        ctx.check(tuple(raw.shape) == tuple(want2.shape), base + "/paths/replace",
                  "raw shape %s want %s (scenario %s)" % (tuple(raw.shape), tuple(want2.shape), scen))
        cmp_raw(ctx, kind, "paths", raw, want2, flip)
        back = read_file(kind, path, scales2)
        cmp_values(ctx, kind, "paths", back, want2, flip, "scenario %s path %s" % (scen, pk))
        # byte-identical to a fresh write of the same content elsewhere: nothing of the old file survives
        ref = os.path.join(tmp, "ref_dir", "ref.fits")
        obj2.output_to_fits(file_path=ref)
        ctx.check(file_bytes(where) == file_bytes(ref), base + "/paths/replace",
                  "file differs from a fresh write of the same content (scenario %s)" % scen)


@st.composite
def paths_cases(draw):
    two_d = draw(st.sampled_from([True, True, False]))
    if two_d:
        kind = draw(st.sampled_from(KINDS_2D))
        first = draw(obj2d(kinds=[kind], hi=5))
        second = draw(obj2d(kinds=[kind], hi=5))
        if second["shape"] == first["shape"]:  # the replacement must be distinguishable by shape
            second = dict(second)
            h, w = second["shape"]
            extra_v = draw(values_list(w))
            if "values" in second:
                second["values"] = second["values"] + extra_v
            if "mask" in second:
                second["mask"] = [list(r) for r in second["mask"]] + [[False] * w]
            second["shape"] = [h + 1, w]
    else:
        kind = draw(st.sampled_from(KINDS_1D))
        first = draw(obj1d(kinds=[kind], hi=6))
        second = draw(obj1d(kinds=[kind], hi=6))
        if second["shape"] == first["shape"]:
            second = dict(second)
            n = second["shape"][0]
            if "values" in second:
                second["values"] = second["values"] + draw(values_list(1))
            if "mask" in second:
                second["mask"] = list(second["mask"]) + [False]
            second["shape"] = [n + 1]
    first.pop("resized", None)
    second.pop("resized", None)
    return {"first": first, "second": second, "flip": draw(st.booleans()),
            "path": draw(st.sampled_from(PATH_KINDS_ALL)), "scenario": draw(st.sampled_from(SCENARIOS))}


# ---------------------------------------------------------------------------------------------
# sub-check: imaging (three files per dataset)
# ---------------------------------------------------------------------------------------------
def build_imaging(spec, with_mask=True):
    aa = _aa()
    h, w = spec["shape"]
    scales = (float(spec["scales"][0]), float(spec["scales"][1]))
    data = np.asarray(spec["data"], dtype=float).reshape(h, w)
    noise = np.asarray(spec["noise"], dtype=float).reshape(h, w)
    psf = None
    if spec.get("psf") is not None:
        kh, kw = spec["psf_shape"]
        psf = aa.Kernel2D.no_mask(values=np.asarray(spec["psf"], dtype=float).reshape(kh, kw),
                                  pixel_scales=scales, normalize=True)
    m = spec.get("mask")
    if m is not None and with_mask:
        mm = np.asarray(m, dtype=bool).reshape(h, w)
        mask = aa.Mask2D(mask=mm.copy(), pixel_scales=scales)
        if spec.get("raw"):
            # stored content at masked pixels: data keeps the raw numbers (skip_mask), the noise map is derived by
            # additive arithmetic on a native-stored masked array
            d = aa.Array2D(values=data.copy(), mask=mask, store_native=True, skip_mask=True)
            n = aa.Array2D(values=noise.copy(), mask=mask, store_native=True) + 1.0
            want_d, want_n = np.where(mm, 0.0, data), np.where(mm, 0.0, noise + 1.0)
        else:
            d = aa.Array2D(values=data.copy(), mask=mask)
            n = aa.Array2D(values=noise.copy(), mask=mask)
            want_d, want_n = np.where(mm, 0.0, data), np.where(mm, 0.0, noise)
    else:
        d = aa.Array2D.no_mask(values=data.copy(), pixel_scales=scales)
        n = aa.Array2D.no_mask(values=noise.copy(), pixel_scales=scales)
        want_d, want_n = data, noise
    ds = aa.Imaging(data=d, noise_map=n, psf=psf, check_noise_map=False)
    want_p = None if psf is None else np.asarray(ds.psf.native).copy()
    return ds, want_d, want_n, want_p, scales


def body_imaging(case, ctx):
    aa = _aa()
    flip = bool(case["flip"])
    spec = case["ds"]
    pk, scen = case["path"], case["scenario"]
    with sandbox(flip) as tmp:
        ds, want_d, want_n, want_p, scales = build_imaging(spec)
        h, w = want_d.shape
        asym = not np.array_equal(want_d, np.flipud(want_d))
        ctx.label("path:" + pk, "scenario:" + scen, "flip:%s" % ("on" if flip else "off"),
                  "psf:%s" % ("yes" if want_p is not None else "no"), "mask:%s" % ("yes" if spec.get("mask") else "no"),
                  "raw-at-masked-pixels:%s" % ("yes" if spec.get("raw") else "no"),
                  "shape:square" if h == w else "shape:nonsquare",
                  "scales:iso" if scales[0] == scales[1] else "scales:aniso",
                  "content:flip-asymmetric" if asym else "content:flip-symmetric")
        ctx.nt(asym and h != w and not (scen == "fresh" and pk == "abs"))
        dp, dwhere = resolve_path(tmp, pk, "data.fits")
        npth, nwhere = resolve_path(tmp, pk, "noise_map.fits")
        pp, pwhere = resolve_path(tmp, pk, "psf.fits")

        def out(dataset, overwrite):
            try:
                dataset.output_to_fits(data_path=dp, psf_path=pp, noise_map_path=npth, overwrite=overwrite)
            except FileNotFoundError as e:
                if pk in ("bare", "pathlib-bare") and getattr(e, "filename", None) in ("", b""):
                    ctx.fail_stop("bare-filename", "Imaging.output_to_fits(%r) in cwd raises FileNotFoundError: %s"
                                  % (str(dp), e))
                raise

        if scen == "one-exists-no-overwrite":
            # only one of the target files pre-exists (written with astropy); the refusal must come from that file
            which = case["which"] if (case["which"] != "psf" or want_p is not None) else "noise_map"
            ctx.label("pre-existing:" + which)
            target = {"data": dwhere, "noise_map": nwhere, "psf": pwhere}[which]
            os.makedirs(os.path.dirname(target), exist_ok=True)
            _fits().PrimaryHDU(np.arange(6.0).reshape(2, 3) + 0.5).writeto(target)
            before = file_bytes(target)
            raised = None
            try:
                ds.output_to_fits(data_path=dp, psf_path=pp, noise_map_path=npth, overwrite=False)
            except Exception as e:
                raised = e
            if (isinstance(raised, FileNotFoundError) and pk in ("bare", "pathlib-bare")
                    and getattr(raised, "filename", None) in ("", b"")):
                ctx.fail_stop("bare-filename", "Imaging.output_to_fits(%r) in cwd raises FileNotFoundError: %s"
                              % (str(dp), raised))
            ctx.check(raised is not None, "imaging/paths/overwrite-false-no-error",
                      "Imaging.output_to_fits(overwrite=False) with an existing %s file did not raise" % which)
            ctx.check(os.path.isfile(target) and file_bytes(target) == before,
                      "imaging/paths/overwrite-false-file-changed",
                      "existing %s file modified although overwrite=False" % which)
            return

        if scen in ("exists-no-overwrite", "exists-overwrite"):
            old, old_d, old_n, old_p, _ = build_imaging(case["old"])
            out(old, False)
            before = {p: file_bytes(p) for p in (dwhere, nwhere, pwhere) if os.path.isfile(p)}
            if scen == "exists-no-overwrite":
                raised = None
                try:
                    ds.output_to_fits(data_path=dp, psf_path=pp, noise_map_path=npth, overwrite=False)
                except Exception as e:
                    raised = e
                ctx.check(raised is not None, "imaging/paths/overwrite-false-no-error",
                          "Imaging.output_to_fits(overwrite=False) onto existing files did not raise")
                ctx.check(all(os.path.isfile(p) and file_bytes(p) == b for p, b in before.items()),
                          "imaging/paths/overwrite-false-file-changed", "existing files modified by a refused write")
                return
            out(ds, True)
        else:
            out(ds, scen == "fresh-overwrite-true")

        for pth, lbl in ((dwhere, "data"), (nwhere, "noise_map")):
            ctx.check(os.path.isfile(pth), "imaging/paths/location", "%s file missing at %s" % (lbl, pth))
        ctx.check(os.path.isfile(pwhere) == (want_p is not None), "imaging/paths/location",
                  "psf file presence %s, psf given %s" % (os.path.isfile(pwhere), want_p is not None))
        raw, nh = raw_read(dwhere)
        ctx.check(nh == 1, "imaging/paths/replace", "data file has %d HDUs" % nh)
        cmp_raw(ctx, "array2d", "imaging-data", raw, want_d, flip)
        raw, nh = raw_read(nwhere)
        cmp_raw(ctx, "array2d", "imaging-noise", raw, want_n, flip)

        back = aa.Imaging.from_fits(pixel_scales=scales, data_path=dp, noise_map_path=npth,
                                    psf_path=pp if want_p is not None else None, check_noise_map=False)
        ctx.equal(np.asarray(back.data.native), want_d, "imaging/data/values", "Imaging data round trip flip=%s" % flip)
        ctx.equal(np.asarray(back.noise_map.native), want_n, "imaging/noise/values",
                  "Imaging noise map round trip flip=%s" % flip)
        cmp_scales(ctx, "array2d", "imaging-arg", back.data, scales, "Imaging.from_fits data")
        if want_p is not None:
            raw, nh = raw_read(pwhere)
            cmp_raw(ctx, "kernel2d", "imaging-psf", raw, want_p, flip)
            # rtol 1e-14: from_fits re-normalises an already normalised kernel
            ctx.close(np.asarray(back.psf.native), want_p, "imaging/psf/values", rtol=1e-14, atol=0.0,
                      what="Imaging psf round trip flip=%s" % flip)
        else:
            ctx.check(back.psf is None, "imaging/psf/values", "psf invented on input")


@st.composite
def imaging_spec(draw, hi=6):
    h, w = draw(st.integers(1, hi)), draw(st.integers(1, hi))
    if draw(st.integers(0, 5)) == 0:
        w = h
    elif h == w:
        w = w + 1 if w < hi else w - 1
    n = h * w
    spec = {"shape": [h, w], "scales": draw(scales2d()),
            "data": draw(st.lists(gens.reals(-1e3, 1e3), min_size=n, max_size=n)),
            "noise": draw(st.lists(gens.positives(0.05, 50.0), min_size=n, max_size=n))}
    if draw(st.booleans()):
        kh, kw = draw(st.sampled_from([1, 3])), draw(st.sampled_from([1, 3, 5]))
        vals = draw(st.lists(gens.positives(0.05, 4.0), min_size=kh * kw, max_size=kh * kw))
        spec["psf"] = [v + 0.01 * i for i, v in enumerate(vals)]
        spec["psf_shape"] = [kh, kw]
    else:
        spec["psf"] = None
    spec["mask"] = draw(gens.masks(shape=[h, w])) if draw(st.booleans()) else None
    if spec["mask"] is not None and any(v for r in spec["mask"] for v in r):
        spec["raw"] = draw(st.booleans())
    return spec


@st.composite
def imaging_cases(draw):
    ds = draw(imaging_spec())
    scen = draw(st.sampled_from(SCENARIOS + ["one-exists-no-overwrite"]))
    case = {"ds": ds, "flip": draw(st.booleans()), "scenario": scen,
            "path": draw(st.sampled_from(["rel-nested", "pathlib", "abs", "nested", "bare", "dot", "rel-nested", "pathlib"]))}
    if scen == "one-exists-no-overwrite":
        case["which"] = draw(st.sampled_from(["psf", "noise_map", "data", "psf"] if ds["psf"] is not None
                                             else ["noise_map", "data"]))
    if scen.startswith("exists"):
        old = draw(imaging_spec(hi=4))
        if old["shape"] == ds["shape"]:
            h, w = old["shape"]
            old = dict(old, shape=[h + 1, w], data=old["data"] + [1.0] * w, noise=old["noise"] + [1.0] * w,
                       mask=None)
        if ds["psf"] is not None and old["psf"] is None:
            old = dict(old, psf=[1.0, 2.0, 4.0], psf_shape=[1, 3])
        if ds["psf"] is None:  # no psf file is written for the new dataset, so none may pre-exist
            old = dict(old, psf=None)
        case["old"] = old
    return case

# ---------------------------------------------------------------------------------------------
# sub-check: reread (same path written, read, replaced by different content and read again in one process)
# ---------------------------------------------------------------------------------------------
REREAD_KINDS = ["array2d", "kernel2d", "array1d", "array2d-raw", "mask2d", "array2d-masked", "mask1d"]
PATH_FORMS = ["rel-str", "abs-str", "rel-Path", "abs-Path"]


def path_form(tmp, rel, form):
    p = rel if form.startswith("rel") else os.path.join(tmp, rel)
    return pathlib.Path(p) if form.endswith("Path") else p


def header_items(h):
    return [(k, v) for k, v in h.items()]


def stage(tmp, spec, tag):
    """Raw stored data and header exactly as the repository writes them for `spec` (single-HDU staging file)."""
    fits = _fits()
    obj, want = build(spec)
    p = os.path.join(tmp, "stage", "%s.fits" % tag)
    obj.output_to_fits(file_path=p)
    raw, _ = raw_read(p)
    with fits.open(p, memmap=False) as hl:
        header = hl[0].header.copy()
    os.remove(p)
    return obj, want, raw, header


def put(tmp, rel, content, first):
    """Create / replace the file at tmp/rel.  layout 'repo': the repository writer (overwrite=True when the file
    exists); layout 'multi': an astropy-written HDUList with the object at index k, decoys elsewhere and
    observation cards (EXPTIME, DATE-OBS, TIME-OBS) in the primary header."""
    fits = _fits()
    where = os.path.join(tmp, rel)
    spec, lay = content["obj"], content["layout"]
    obj, want, raw, header = stage(tmp, spec, "x")
    if lay["kind"] == "repo":
        obj.output_to_fits(file_path=rel if lay.get("write_rel", True) else where, overwrite=not first)
        return want, 0, 1
    k = int(lay["k"])
    arrays = [np.asarray(d["values"], dtype=float).reshape(d["shape"]) for d in lay["decoys"]]
    arrays.insert(k, None)
    hdus = []
    for i, a in enumerate(arrays):
        data = raw if a is None else a
        hdr = header.copy() if a is None else fits.Header()
        if i == 0:
            hdr["EXPTIME"] = float(lay["exptime"])
            hdr["DATE-OBS"] = lay["date"]
            hdr["TIME-OBS"] = lay["time"]
        hdus.append(fits.PrimaryHDU(data, header=hdr) if i == 0 else fits.ImageHDU(data, header=hdr))
    os.makedirs(os.path.dirname(where), exist_ok=True)
    fits.HDUList(hdus).writeto(where, overwrite=True)
    return want, k, len(arrays)


def verify(ctx, tmp, rel, form, content, want, k, nh, flip, stage_name):
    """Everything read now from tmp/rel must describe the file as it is now (fresh astropy open = reference)."""
    aa = _aa()
    fits = _fits()
    from autoarray.structures.arrays import array_2d_util
    spec, lay = content["obj"], content["layout"]
    kind = spec["kind"]
    scales = want_scales(spec)
    where = os.path.join(tmp, rel)
    path = path_form(tmp, rel, form)
    what = "%s (%s, %s)" % (stage_name, form, lay["kind"])
    with fits.open(where, memmap=False) as hl:
        ref = [hl[i].header.copy() for i in range(len(hl))]
    ctx.check(len(ref) == nh, "harness/reread-layout", "file has %d HDUs, expected %d" % (len(ref), nh))

    loaded = read_file(kind, path, scales, hdu=k)
    cmp_values(ctx, kind, "reread", loaded, want, flip, what)

    # header_obj_from, every HDU
    for j in range(nh):
        got = array_2d_util.header_obj_from(file_path=path, hdu=j)
        ctx.check(header_items(got) == header_items(ref[j]), "reread/header_obj_from",
                  lambda: "%s: header_obj_from(hdu=%d) = %s but the file now holds %s"
                  % (what, j, header_items(got)[:12], header_items(ref[j])[:12]))

    hdr = getattr(loaded, "header", None)
    if is_mask(kind):
        return
    ctx.check(hdr is not None and hdr.header_sci_obj is not None and hdr.header_hdu_obj is not None,
              "reread/%s/header-missing" % short_kind(kind), "%s: from_fits returned no header objects" % what)
    if hdr is None or hdr.header_sci_obj is None or hdr.header_hdu_obj is None:
        return
    sci, hh = hdr.header_sci_obj, hdr.header_hdu_obj
    base = "reread/%s" % short_kind(kind)
    ctx.check(header_items(sci) == header_items(ref[0]), base + "/header-sci",
              lambda: "%s: loaded.header.header_sci_obj = %s but HDU 0 of the file now holds %s"
              % (what, header_items(sci)[:12], header_items(ref[0])[:12]))
    ctx.check(header_items(hh) == header_items(ref[k]), base + "/header-hdu",
              lambda: "%s: loaded.header.header_hdu_obj = %s but HDU %d of the file now holds %s"
              % (what, header_items(hh)[:12], k, header_items(ref[k])[:12]))
    # the entries a caller actually uses, against what was written (not only against the fresh open)
    naxis = [hh.get("NAXIS%d" % (i + 1)) for i in range(want.ndim)]
    ctx.check(naxis == list(want.shape)[::-1], base + "/header-hdu",
              "%s: header_hdu_obj NAXISn %s, data shape %s" % (what, naxis, want.shape))
    if "PIXSCALEY" in hh and "PIXSCALEX" in hh:
        got_sc = (hh["PIXSCALEY"], hh["PIXSCALEX"])
    else:
        got_sc = tuple([hh.get("PIXSCALE")] * len(scales))
    ok = all(g is not None and scale_matches(ctx, float(g), w, True) for g, w in zip(got_sc, scales))
    ctx.check(ok, base + "/header-hdu-pixel-scale",
              "%s: pixel scale cards %s in loaded.header.header_hdu_obj, file was written with %s" % (what, got_sc, scales))
    if lay["kind"] == "multi":
        ctx.check(hdr.exposure_time == float(lay["exptime"]), base + "/header-sci-exposure",
                  "%s: header.exposure_time %r, file has %r" % (what, hdr.exposure_time, lay["exptime"]))
        ctx.check(hdr.date_of_observation == lay["date"] and hdr.time_of_observation == lay["time"],
                  base + "/header-sci-exposure", "%s: observation date/time %r %r, file has %r %r"
                  % (what, hdr.date_of_observation, hdr.time_of_observation, lay["date"], lay["time"]))
    else:
        ctx.check("EXPTIME" not in sci, base + "/header-sci-exposure",
                  "%s: header_sci_obj has EXPTIME=%r but the file has no such card" % (what, sci.get("EXPTIME")))


def body_reread(case, ctx):
    flip = bool(case["flip"])
    a, b = case["a"], case["b"]
    rel = case["rel"]
    f1, f2, f3 = case["forms"]
    with sandbox(flip) as tmp:
        kind = a["obj"]["kind"]
        ctx.label("kind:" + kind, "flip:%s" % ("on" if flip else "off"), "layouts:%s->%s" % (a["layout"]["kind"], b["layout"]["kind"]),
                  "form-first:" + f1, "form-after-replace:" + f2, "twin:%s" % ("yes" if case["twin"] else "no"),
                  "rel:" + ("nested" if "/" in rel else "flat"))
        scale_labels(ctx, a["obj"]["scales"])
        ctx.nt(True)
        want_a, ka, na = put(tmp, rel, a, first=True)
        twin_rel = None
        if case["twin"]:
            twin_rel = os.path.join("twin_dir", os.path.basename(rel))
            put(tmp, twin_rel, a, first=True)
        verify(ctx, tmp, rel, f1, a, want_a, ka, na, flip, "first read")
        if twin_rel:
            verify(ctx, tmp, twin_rel, f1, a, want_a, ka, na, flip, "first read of the twin path (equal content)")
        want_b, kb, nb = put(tmp, rel, b, first=False)
        verify(ctx, tmp, rel, f2, b, want_b, kb, nb, flip, "read after the path was replaced")
        verify(ctx, tmp, rel, f3, b, want_b, kb, nb, flip, "second read after the path was replaced")
        if twin_rel:
            verify(ctx, tmp, twin_rel, f2, a, want_a, ka, na, flip, "twin path after the other path was replaced")
        if case["back"]:
            put(tmp, rel, a, first=False)
            verify(ctx, tmp, rel, f1, a, want_a, ka, na, flip, "read after the first content was restored")


@st.composite
def layout(draw, two_d):
    if draw(st.booleans()):
        return {"kind": "repo", "write_rel": draw(st.booleans())}
    nd = draw(st.sampled_from([1, 2, 1, 0]))
    decoys = []
    for _ in range(nd):
        if two_d:
            h, w = draw(st.integers(1, 3)), draw(st.integers(1, 3))
            decoys.append({"shape": [h, w], "values": draw(values_list(h * w))})
        else:
            n = draw(st.integers(1, 4))
            decoys.append({"shape": [n], "values": draw(values_list(n))})
    return {"kind": "multi", "k": draw(st.sampled_from(list(range(nd, -1, -1)))), "decoys": decoys,
            "exptime": draw(st.sampled_from([1.0, 565.0, 1200.5, 0.25, 30000.0])) + draw(st.integers(0, 9)),
            "date": draw(st.sampled_from(["2000-01-01", "2011-06-15", "2024-12-31"])),
            "time": draw(st.sampled_from(["00:00:00", "12:34:56", "23:59:59"]))}


@st.composite
def reread_cases(draw):
    kind = draw(st.sampled_from(REREAD_KINDS))
    two_d = kind in KINDS_2D
    mk = (lambda: draw(obj2d(kinds=[kind], hi=4))) if two_d else (lambda: draw(obj1d(kinds=[kind], hi=5)))
    oa, ob = mk(), mk()
    oa.pop("resized", None)
    ob.pop("resized", None)
    if ob["shape"] == oa["shape"]:  # the replacement differs in shape ...
        if two_d:
            h, w = ob["shape"]
            if "values" in ob:
                ob["values"] = ob["values"] + draw(values_list(w))
            if "mask" in ob:
                ob["mask"] = [list(r) for r in ob["mask"]] + [[False] * w]
            ob["shape"] = [h + 1, w]
        else:
            if "values" in ob:
                ob["values"] = ob["values"] + draw(values_list(1))
            if "mask" in ob:
                ob["mask"] = list(ob["mask"]) + [False]
            ob["shape"] = [ob["shape"][0] + 1]
    if ob["scales"] == oa["scales"]:    # ... and in pixel scale
        ob["scales"] = [v * 2.0 for v in ob["scales"]]
    la, lb = draw(layout(two_d)), draw(layout(two_d))
    if la["kind"] == "multi" and lb["kind"] == "multi" and lb["exptime"] == la["exptime"]:
        lb["exptime"] = la["exptime"] + 17.0
    return {"a": {"obj": oa, "layout": la}, "b": {"obj": ob, "layout": lb}, "flip": draw(st.booleans()),
            "rel": draw(st.sampled_from(["target.fits", "sub/target.fits", "data.fits"])),
            "forms": [draw(st.sampled_from(PATH_FORMS)) for _ in range(3)],
            "twin": draw(st.booleans()), "back": draw(st.booleans())}


SUBCHECKS = [
    SubCheck("roundtrip2d", body_roundtrip, strategy=roundtrip2d_cases(),
             examples={"quick": 1600, "thorough": 24000}, shards={"quick": 4, "thorough": 16}),
    SubCheck("roundtrip1d", body_roundtrip, strategy=roundtrip1d_cases(),
             examples={"quick": 800, "thorough": 8000}, shards={"quick": 2, "thorough": 8}),
    SubCheck("multihdu", body_multihdu, strategy=multihdu_cases(),
             examples={"quick": 800, "thorough": 8000}, shards={"quick": 2, "thorough": 8}),
    SubCheck("paths", body_paths, strategy=paths_cases(),
             examples={"quick": 1600, "thorough": 24000}, shards={"quick": 4, "thorough": 16}),
    SubCheck("imaging", body_imaging, strategy=imaging_cases(),
             examples={"quick": 600, "thorough": 8000}, shards={"quick": 2, "thorough": 8}),
    SubCheck("reread", body_reread, strategy=reread_cases(),
             examples={"quick": 400, "thorough": 6000}, shards={"quick": 2, "thorough": 8}),
]
