"""C20 — triangle up-sampling tiles exactly; neighbourhoods and selections are faithful.

Covered variants: the numpy classes `autoarray.structures.triangles.coordinate_array.CoordinateArrayTriangles`
and `autoarray.structures.triangles.array.ArrayTriangles`, and the shapes in `triangles/shape.py`.
The jax variants (`jax_array.py`, `jax_coordinate_array.py`) cannot be imported here (no `jax`
module in /venv) and are NOT covered.
"""
import math

import numpy as np
from hypothesis import strategies as st

from vp import gens
from vp.engine import SubCheck
from vp.ref import tri as R

PROPERTY = "C20"
TECHNIQUE = ("property-based testing (Hypothesis) plus exhaustive enumeration of small lattice sets, against a "
             "plain-numpy geometric oracle (barycentric containment, separating-axis disjointness, explicit line "
             "reflection) and cross-representation round trips; scale-free tolerances over 18 decades of side length "
             "and 30-40 step zoom histories")
RULE = (
    "A case is a triangle set plus a history of operations (up_sample / neighborhood / for_indexes / zoom = "
    "containing_indices(point) then for_indexes) and 2-3 shapes. Sets come from (coords_ops) arbitrary distinct "
    "integer coordinates (cluster, block, row, hexagon, scatter families; both lattice parities), flipped both "
    "ways, in three magnitude regimes: unit (side in [0.05,20], offsets in [-50,50]), scaled (side 2**k, k in "
    "[-40,20], or a power of ten 1e-10..1e6, offsets a small multiple of the side) and offset-dominated (side "
    "2**k, k in [-30,-5], offsets O(1)); (limits_coord) CoordinateArrayTriangles.for_limits_and_scale and "
    "(limits_array) ArrayTriangles.for_limits_and_scale over the same scale regimes; (zoom) the solver loop "
    "up_sample -> containing_indices(Point) -> for_indexes [-> neighborhood] repeated 30-40 times from side 1 (or "
    "2**k), which reaches side ~1e-10..1e-12, run independently on the coordinate object, on its with_vertices "
    "form and on an ArrayTriangles lattice; (enum_small) every single coordinate in [-2,2]^2 and every 2-3 subset "
    "of a 3x2 lattice window, flipped both ways. Every coordinate set is run in both representations in parallel, "
    "each operation is checked against the previous state of the same representation and the two representations "
    "are compared after every operation (until a zoom step makes them select differently). All tolerances are "
    "relative to the current side S: tol = 1e-9*S + 64*eps*max|coordinate| (distance), rel = tol/S capped at 0.02 "
    "(barycentric slack 1e-9+4*rel, area rtol 1e-9+8*rel). Oracle after up_sample: count x4, len x4, summed area and "
    "`.area` conserved, every parent strictly contains the centroids of exactly 4 x multiplicity children, those "
    "are 4 geometrically distinct triangles of area parent/4 whose vertices lie in the closed parent and whose "
    "interiors are pairwise disjoint (separating axis), no child is outside every parent, every parent vertex is "
    "within tol of a child vertex and of `.vertices`. After neighborhood: set of returned triangles == originals U "
    "mirror images across each edge (explicit line reflection), compared as sets of vertex sets at tol. "
    "for_indexes(index): position by position the triangles `reference_triangles[index]` under numpy indexing "
    "semantics, the index given as int64 / int32 / uint8 array, negative or mixed-sign array, Python list "
    "(also negative), boolean mask array or list of the set's length, with repeated entries, or empty (every "
    "form the unchanged code accepts in both representations), and the two representations agree afterwards. "
    "Empty and single-element sets are explicit classes (a quarter of the histories each): the set is emptied "
    "by an empty index in any form or by the chain containing_indices(shape 200-2000 sides outside the mesh) -> "
    "for_indexes(result), or cut down to one triangle, and the history carries on through up_sample / "
    "neighborhood / for_indexes / containing_indices / area / len; the up-sampling and the neighbourhood of the "
    "empty set must be the empty set (count 4*0, no extra triangle), its area 0, containing_indices on it "
    "reports nothing. containing_indices(shape): every "
    "triangle that contains the shape's reference point with barycentric margin >= 0.01 is reported (point placed "
    "with weights >= 0.05 in a chosen triangle: generic, near an edge, near a vertex, at the centroid; or with "
    "weights >= 0.015: next to a corner (one vertex weight 0.85-0.97) or next to an edge midpoint), and a "
    "reference point bitwise equal to a vertex of the chosen triangle is reported for that triangle; shapes are "
    "zero-size, tiny, or comparable to the triangle (extent 0.3x-3x the side, boxes and polygons with aspect 1:1 "
    "and 2:1-4:1 both ways), half of the comparable boxes / triangles / polygons are aimed so that the shape "
    "covers the centroid of a neighbouring triangle of the set (in the natural and in the transposed reading of "
    "the polygon vertices) but usually not the containing triangle's; half of all sized shapes take their "
    "size/side ratio (circle radius, box half-extent with aspect 1, 1/2, 2, 1/4, regular 3-6-gon circumradius) "
    "from the grid {1/(2 sqrt 3), 1/2, 1/sqrt 3, 2/3, 1} x (1 + {0, +-0.002, +-0.01, +-0.03, +-0.08}); "
    "(shape_grid) enumerates shape type x that grid x placements (3 corners x weight {0.85,0.9,0.93,0.95,0.97} x "
    "on/off the median, 3 edge midpoints x 2 depths, centroid) on a hexagon of six triangles and on tiny / huge / "
    "vertex-array sets; failures are keyed by (representation, shape, placement, ratio band). Non-trivial = the initial set has >= 3 "
    "triangles and contains both apex-up and apex-down triangles; distinct = SHA-1 of the canonical case."
)
ASSUMPTIONS = [
    "all sets in the quantifier's domain are subsets (with possible repeats) of one equilateral lattice, so two "
    "triangles of a set either coincide or have disjoint interiors; duplicates are handled by multiplicity "
    "(ArrayTriangles.for_limits_and_scale does emit duplicate triangles on odd rows)",
    "'lies inside' is read as the closed triangle only for a reference point that is bitwise equal to one of the "
    "triangle's own vertices (exact in floating point for the barycentric formula; the repository's own tests "
    "assert it); all other reference points are strictly inside with margin >= 0.05",
    "selection by index is compared position by position against numpy indexing of the previous `.triangles` "
    "(each position as a set of three vertices); index forms rejected by the unchanged code in both "
    "representations (float-dtype arrays, including the float-dtype `np.array([])`) are outside the domain; a "
    "tuple and a bare scalar are not index arrays either (the coordinate form raises IndexError for them, the "
    "vertex-array form returns a malformed object) and are not generated; nothing is asserted about "
    "out-of-range indexes; slices are accepted by both but are not generated",
    "on the empty set containing_indices must report no index (there is no triangle an index could refer to)",
    "ArrayTriangles.for_limits_and_scale is called with y_max > y_min and x_max > x_min (a zero extent yields an "
    "empty set whose `.triangles` cannot be evaluated); nothing is claimed about how well the limits are covered",
    "column 0 of a vertex is what the shapes call x (the vertex-array lattice stores (y, x) pairs; the check is "
    "agnostic to the naming)",
    "double precision limits the scale-free claim: a vertex at distance |c| from the origin is only known to "
    "eps*|c|, so comparisons carry 64*eps*max|coordinate| of slack; the generator keeps that below 2% of the side "
    "(zoom depth <= 40 from side 1 with |coordinate| <= ~2); in a zoom step the point may fall within 1% of a "
    "child edge, then nothing is demanded of containing_indices for that step (counted as a tie)",
    "for a circle the class 'covers a neighbour's centroid but not the containing triangle's' is empty on a "
    "lattice (the containing triangle's centroid is the nearest one); circle shortcuts that depend on the radius "
    "alone are covered by the ratio grid x corner placements instead",
    "reference points of the corner / edge-midpoint classes keep a barycentric margin of 0.015 (the demand "
    "needs 0.01; rounding noise is below 2e-3 in every generated regime)",
    "jax variants are not importable in this environment and are not covered",
    "numba is absent (irrelevant here: the triangle code is plain numpy)",
]

BARY_IN = 1e-9      # strict containment margin for child centroids (true value is >= 1/6)
BARY_CLOSED = 1e-9  # closed containment slack for child vertices
AREA_RTOL = 1e-9
REL_CAP = 0.02
MIN_W = 0.015       # smallest barycentric weight of a placed reference point (the demand needs >= 0.01)
# geometric thresholds of an equilateral triangle in units of its side: inradius, half side, circumradius,
# 2/3 (centroid to far edge of a neighbour), side
THRESHOLDS = [0.5 / 3 ** 0.5, 0.5, 1 / 3 ** 0.5, 2.0 / 3.0, 1.0]
DELTAS = [0.0, 0.002, -0.002, 0.01, -0.01, 0.03, -0.03, 0.08, -0.08]
MAX_UP = 160        # an up_sample is executed only on sets of at most this many triangles
MAX_NB = 300


def _classes():
    from autoarray.structures.triangles.coordinate_array import CoordinateArrayTriangles
    from autoarray.structures.triangles.array import ArrayTriangles
    from autoarray.structures.triangles import shape
    return CoordinateArrayTriangles, ArrayTriangles, shape


def _tol(T, S):
    """Distance tolerance, relative to the side S plus the unavoidable rounding of the coordinates."""
    m = float(np.max(np.abs(T))) if T.size else 0.0
    return min(1e-9 * S + 64.0 * R.EPS * m, REL_CAP * S) if S > 0 else 64.0 * R.EPS * m


def _rel(T, S):
    return _tol(T, S) / S


def _oname(o):
    return {1: "upright", -1: "inverted", 0: "oblique"}[int(o)]


def _tri(ctx, obj, key):
    """`.triangles` of an implementation object as a float (n,3,2) array."""
    T = np.asarray(obj.triangles, dtype=float)
    if T.ndim != 3 or T.shape[1:] != (3, 2):
        ctx.fail_stop(key + "/shape", ".triangles has shape %s, want (n,3,2)" % (T.shape,))
    if not np.all(np.isfinite(T)):
        ctx.fail_stop(key + "/nonfinite", ".triangles contains non-finite values")
    return T


class Rep:
    def __init__(self, name, obj, T):
        self.name = name
        self.obj = obj
        self.T = T


# ---------------------------------------------------------------------------------------------
# oracles
# ---------------------------------------------------------------------------------------------
def check_state(ctx, rep, S):
    n = len(rep.T)
    ctx.check(len(rep.obj) == n, "len/%s" % rep.name, "len()=%s but .triangles has %d rows" % (len(rep.obj), n))
    want = float(R.areas(rep.T).sum())
    ctx.close(float(rep.obj.area), want, "area/%s" % rep.name, rtol=AREA_RTOL + 8 * _rel(rep.T, S), atol=0.0,
              what=".area vs sum of cross-product areas of .triangles")


def check_up(ctx, name, T, child_obj, S):
    key = "up_sample/%s" % name
    C = _tri(ctx, child_obj, key)
    n = len(T)
    ctx.check(C.shape[0] == 4 * n, key + "/count", "%d parents -> %d children" % (n, C.shape[0]))
    ctx.check(len(child_obj) == 4 * n, key + "/count", "len()=%s, want %d" % (len(child_obj), 4 * n))
    tolv = _tol(T, S)
    rel = _rel(T, S)
    b_in, b_closed, a_rtol = BARY_IN + 4 * rel, BARY_CLOSED + 4 * rel, AREA_RTOL + 8 * rel
    aP, aC = R.areas(T), R.areas(C)
    ctx.close(aC.sum(), aP.sum(), key + "/total-area", rtol=a_rtol, what="summed child area vs summed parent area")
    ctx.close(float(child_obj.area), aP.sum(), key + "/total-area", rtol=a_rtol, what=".area after up_sample")
    ori = R.orientation(T, tolv)

    inside = R.min_bary(T, C.mean(axis=1)) > b_in          # (n, 4n): child centroid strictly in parent
    mult = (R.min_bary(T, T.mean(axis=1)) > b_in).sum(axis=1)  # how many parents coincide with parent i
    orphan = np.nonzero(inside.sum(axis=0) == 0)[0]
    ctx.check(len(orphan) == 0, key + "/tiling/orphan",
              lambda: "child %d %s lies in no parent" % (orphan[0], C[orphan[0]].tolist()))
    for i in range(n):
        o = _oname(ori[i])
        kids = np.nonzero(inside[i])[0]
        ctx.check(len(kids) == 4 * mult[i], "%s/tiling/%s" % (key, o),
                  lambda: "parent %d %s (x%d) strictly contains the centroids of %d children, want %d" % (
                      i, T[i].tolist(), mult[i], len(kids), 4 * mult[i]))
        if len(kids) == 0:
            continue
        K = C[kids]
        q = aP[i] / 4.0
        ctx.check(bool(np.all(np.abs(aC[kids] - q) <= a_rtol * q)), "%s/child-area/%s" % (key, o),
                  lambda: "parent %d area %r: child areas %s, want %r each (rtol %g)" % (
                      i, aP[i], aC[kids].tolist(), q, a_rtol))
        vb = R.min_bary(T[i:i + 1], K.reshape(-1, 2))[0]
        ctx.check(bool(np.all(vb >= -b_closed)), "%s/tiling/%s" % (key, o),
                  lambda: "parent %d %s: a child vertex lies outside it (min barycentric %r); children %s" % (
                      i, T[i].tolist(), float(vb.min()), K.tolist()))
        first = R.match(K, K, tolv)
        uniq = np.nonzero(first == np.arange(len(K)))[0]
        ctx.check(len(uniq) == 4 and all(int((first == u).sum()) == mult[i] for u in uniq),
                  "%s/tiling/%s" % (key, o),
                  lambda: "parent %d: %d geometrically distinct children (want 4, each x%d): %s" % (
                      i, len(uniq), mult[i], K.tolist()))
        for a in range(len(uniq)):
            for b in range(a + 1, len(uniq)):
                ctx.check(R.interiors_disjoint(K[uniq[a]], K[uniq[b]], tolv), "%s/tiling/%s" % (key, o),
                          lambda: "parent %d: children %s and %s overlap" % (
                              i, K[uniq[a]].tolist(), K[uniq[b]].tolist()))

    pv = T.reshape(-1, 2)
    for what, cv in (("child .triangles", C.reshape(-1, 2)),
                     ("child .vertices", np.asarray(child_obj.vertices, dtype=float).reshape(-1, 2))):
        if len(pv) == 0:
            continue
        if len(cv) == 0:
            ctx.fail(key + "/vertex-kept", "%s is empty" % what)
            continue
        d = np.abs(pv[:, None, :] - cv[None, :, :]).max(axis=-1).min(axis=1)
        j = int(np.argmax(d))
        ctx.check(bool(d[j] <= tolv), key + "/vertex-kept",
                  lambda: "parent vertex %s is %r away from the nearest vertex in %s (tol %r, side %r)" % (
                      pv[j].tolist(), float(d[j]), what, tolv, S))
    return C


def check_nb(ctx, name, T, nb_obj, S):
    key = "neighborhood/%s" % name
    G = _tri(ctx, nb_obj, key)
    tolv = _tol(T, S)
    ori = R.orientation(T, tolv)
    he = R.horizontal_edge(T, tolv)
    m = R.match(T, G, tolv)
    miss = np.nonzero(m < 0)[0]
    ctx.check(len(miss) == 0, key + "/missing-original",
              lambda: "original triangle %d %s absent from the neighbourhood" % (miss[0], T[miss[0]].tolist()))
    E = R.edge_neighbours(T)
    for e in range(3):
        m = R.match(E[e], G, tolv)
        miss = np.nonzero(m < 0)[0]
        if len(miss):
            i = int(miss[0])
            cls = "base" if he[i] == e else "side"
            ctx.fail("%s/missing-%s/%s" % (key, cls, _oname(ori[i])),
                     "mirror image of triangle %d %s across the edge opposite vertex %d, %s, is absent" % (
                         i, T[i].tolist(), e, E[e][i].tolist()))
        else:
            ctx.comparisons += 1
    allE = np.concatenate([T, E[0], E[1], E[2]], axis=0)
    m = R.match(G, allE, tolv)
    extra = np.nonzero(m < 0)[0]
    ctx.check(len(extra) == 0, key + "/extra",
              lambda: "returned triangle %d %s is neither an original nor an edge reflection" % (
                  extra[0], G[extra[0]].tolist()))
    return G


FORMS = ["int64", "neg", "mixed-neg", "list", "list-neg", "bool", "bool-list", "repeat", "int32", "uint8"]


def _index_form(form, idx, n):
    """The index argument in the requested form plus the numpy index that defines the reference
    `triangles[index]` (idx is a list of in-range non-negative ints)."""
    idx = [int(j) for j in idx]
    if form in (None, "int64", "containing-result"):
        obj = np.array(idx, dtype=np.int64)
    elif form == "neg":
        obj = np.array([j - n for j in idx], dtype=np.int64)
    elif form == "mixed-neg":
        obj = np.array([j - n if i % 2 == 0 else j for i, j in enumerate(idx)], dtype=np.int64)
    elif form == "list":
        obj = list(idx)
    elif form == "list-neg":
        obj = [j - n for j in idx]
    elif form in ("bool", "bool-list"):
        m = np.zeros(n, dtype=bool)
        m[np.array(idx, dtype=int)] = True
        obj = m if form == "bool" else m.tolist()
    elif form == "repeat":
        obj = np.array(idx + idx[:1] + idx[-1:] + idx[:1], dtype=np.int64)
    elif form == "int32":
        obj = np.array(idx, dtype=np.int32)
    elif form == "uint8":
        obj = np.array(idx, dtype=np.uint8 if n <= 255 else np.uint16)
    else:
        raise AssertionError("harness: unknown index form %r" % form)
    ref = np.asarray(obj)
    if ref.size == 0 and ref.dtype != bool:
        ref = np.array([], dtype=np.int64)
    return obj, ref


def check_sel(ctx, name, obj, T, index, ref=None, form="int64"):
    """for_indexes(index) must be, position by position, triangles[index] under numpy indexing semantics."""
    if ref is None:
        index, ref = _index_form(form, index, len(T))
    key = "for_indexes/%s/%s" % (name, form)
    sel = obj.for_indexes(index)
    G = _tri(ctx, sel, key)
    want = T[ref]
    tolv = _tol(T, 0.0) if len(T) else 0.0  # selection must not move anything: rounding slack only
    ctx.check(len(G) == len(want) and len(sel) == len(want), key + "/count",
              lambda: "index %r selects %d triangles, got %d (len() %s)" % (index, len(want), len(G), len(sel)))
    if len(G) == len(want) and len(want):
        d = np.abs(want[:, :, None, :] - G[:, None, :, :]).max(axis=-1)
        h = np.maximum(d.min(axis=2).max(axis=1), d.min(axis=1).max(axis=1))
        j = int(np.argmax(h))
        ctx.check(bool(h[j] <= tolv), key + "/geometry",
                  lambda: "index %r: position %d should be triangle %s, got %s" % (
                      index, j, want[j].tolist(), G[j].tolist()))
    return sel, G


def check_xrep_index(ctx, coord_rep, S):
    """coordinate object vs with_vertices(vertices): same triangle at the same index."""
    obj, T = coord_rep.obj, coord_rep.T
    arr = obj.with_vertices(obj.vertices)
    A = _tri(ctx, arr, "xrep/with_vertices")
    if A.shape != T.shape:
        ctx.fail("xrep/with_vertices", "shapes differ: %s vs %s" % (A.shape, T.shape))
        return
    if len(T):
        d = np.abs(T[:, :, None, :] - A[:, None, :, :]).max(axis=-1)
        h = np.maximum(d.min(axis=2).max(axis=1), d.min(axis=1).max(axis=1))
        j = int(np.argmax(h))
        ctx.check(bool(h[j] <= _tol(T, S)), "xrep/with_vertices",
                  lambda: "triangle %d differs between representations: %s vs %s (side %r)" % (
                      j, T[j].tolist(), A[j].tolist(), S))
    ctx.check(len(arr) == len(obj), "xrep/with_vertices", "len differs: %s vs %s" % (len(arr), len(obj)))
    ctx.close(float(arr.area), float(obj.area), "xrep/area", rtol=AREA_RTOL + 8 * _rel(T, S),
              what="area of the two representations")


def check_xrep_set(ctx, a, b, S, op):
    # counts are NOT compared: ArrayTriangles.neighborhood de-duplicates on bitwise vertex equality and may
    # return geometric duplicates (coincident within the statement's tolerance clause); sets are compared.
    tolv = _tol(a.T, S)
    if len(a.T) != len(b.T):
        ctx.label("xrep:count-differs(geometric-duplicates)")
    m = R.match(a.T, b.T, tolv)
    miss = np.nonzero(m < 0)[0]
    ctx.check(len(miss) == 0, "xrep/%s" % op, lambda: "after %s: %s triangle %s has no counterpart in %s" % (
        op, a.name, a.T[miss[0]].tolist(), b.name))
    m = R.match(b.T, a.T, tolv)
    miss = np.nonzero(m < 0)[0]
    ctx.check(len(miss) == 0, "xrep/%s" % op, lambda: "after %s: %s triangle %s has no counterpart in %s" % (
        op, b.name, b.T[miss[0]].tolist(), a.name))


# ---------------------------------------------------------------------------------------------
# shapes
# ---------------------------------------------------------------------------------------------
def _weights(spec):
    place = spec.get("place") or {"mode": "generic", "u": spec["u"]}
    mode = place["mode"]
    if mode == "generic":
        u = np.array(place["u"], dtype=float)
        w = np.full(3, 1.0 / 3.0) if u.sum() < 1e-9 else 0.05 + 0.85 * (u / u.sum())
    elif mode == "near-edge":      # within 5-8% of the edge opposite vertex e, anywhere along it
        we = 0.05 + 0.03 * place["a"]
        t = 0.1 + 0.8 * place["t"]
        w = np.empty(3)
        e = place["e"] % 3
        w[e], w[(e + 1) % 3], w[(e + 2) % 3] = we, (1 - we) * t, (1 - we) * (1 - t)
    elif mode == "near-vertex":    # 5% + 5% away from vertex e
        w = np.full(3, 0.05)
        w[place["e"] % 3] = 0.9
    elif mode == "centroid":
        w = np.full(3, 1.0 / 3.0)
    elif mode == "corner":         # vertex e carries 0.85-0.97, the other two at least MIN_W each
        e = place["e"] % 3
        we = min(max(place["w"], 0.85), 0.97)
        rem = 1.0 - we
        o1 = MIN_W + (rem - 2 * MIN_W) * place["t"]
        w = np.empty(3)
        w[e], w[(e + 1) % 3], w[(e + 2) % 3] = we, o1, rem - o1
    elif mode == "edge-mid":       # 1.5-8% inside the edge opposite vertex e, within +-10% of its midpoint
        e = place["e"] % 3
        we = MIN_W + 0.065 * place["a"]
        t = 0.4 + 0.2 * place["t"]
        w = np.empty(3)
        w[e], w[(e + 1) % 3], w[(e + 2) % 3] = we, (1 - we) * t, (1 - we) * (1 - t)
    else:
        raise AssertionError("harness: unknown placement %r" % mode)
    if abs(w.sum() - 1.0) > 1e-12 or w.min() < MIN_W - 1e-12:
        raise AssertionError("harness: bad barycentric weights %r" % (w,))
    return w, mode


def _ref_point(spec, tk):
    if spec["at"] == "vertex":
        v = tk[spec["corner"] % 3]
        return float(v[0]), float(v[1])
    w, _ = _weights(spec)
    p = w @ tk
    return float(p[0]), float(p[1])


def _others(T, k, p, S):
    """Indices of the triangles of the set that do not coincide with triangle k, nearest centroid first."""
    c = T.mean(axis=1)
    far = np.nonzero(np.abs(c - c[k]).max(axis=1) > 0.1 * S)[0]
    d = np.hypot(c[far, 0] - p[0], c[far, 1] - p[1])
    return far[np.argsort(d, kind="stable")], c


def _shape_vertices(spec, p, S, T, k):
    """Vertex list of a triangle / polygon shape whose vertex mean is p."""
    pa = np.array(p)
    d = spec.get("directed")
    q = None
    if d:
        others, c = _others(T, k, p, S)
        if len(others):
            cj = c[others[d["j"] % min(3, len(others))]]
            tgt = cj if d["reading"] == "natural" else cj[::-1]   # the point the polygon is aimed at
            ax = tgt - pa
            if np.hypot(ax[0], ax[1]) > 1e-3 * S:
                nrm = np.array([-ax[1], ax[0]]) * d["w"]
                if spec["kind"] == "triangle":
                    q = np.array([2 * ax, -ax + nrm, -ax - nrm])
                else:   # kite whose fan diagonal stays off the axis, so the target is strictly inside one fan part
                    q = np.array([2 * ax, -0.5 * ax + nrm, -ax - 0.3 * nrm, -0.5 * ax - 0.7 * nrm])
    if q is None:
        n = len(spec["pts"])
        sx, sy = spec.get("stretch", [1.0, 1.0])
        q = np.array([[sx * r * S * math.cos(2 * math.pi * (i + j) / n), sy * r * S * math.sin(2 * math.pi * (i + j) / n)]
                      for i, (r, j) in enumerate(spec["pts"])])
    q = q - q.mean(axis=0) + pa
    return [(float(a), float(b)) for a, b in q]


def _make_shape(spec, p, S, T, k):
    """Build the shape so that its reference point (centre / mean of vertices) is p.  Returns the shape and a
    geometric description used only for classification labels."""
    _, _, sh = _classes()
    kind = spec["kind"]
    px, py = p
    exact = spec["at"] == "vertex"
    if kind == "point":
        return sh.Point(px, py), ("point",)
    if kind == "circle":
        r = 0.0 if exact else spec["r"] * S
        return sh.Circle(px, py, r), ("circle", r)
    if kind == "square":
        hx, hy = (0.0, 0.0) if exact else (spec["hx"] * S, spec["hy"] * S)
        d = spec.get("directed")
        if d and not exact:
            others, c = _others(T, k, p, S)
            if len(others):
                cj = c[others[d["j"] % min(3, len(others))]]
                hx = abs(cj[0] - px) * (1 + d["mx"]) + 1e-3 * S
                hy = abs(cj[1] - py) * (1 + d["my"]) + 1e-3 * S
        return sh.Square(top=py - hy, bottom=py + hy, left=px - hx, right=px + hx), ("square", hx, hy)
    verts = _shape_vertices(spec, p, S, T, k)
    if kind == "triangle":
        return sh.Triangle(*verts), ("poly", verts)
    return sh.Polygon(verts), ("poly", verts)


def _covered(desc, p, pts):
    """Which of the points `pts` (centroids of the set's triangles) lie in the shape's own extent
    (classification only): circle, box, or polygon fan in the natural or the transposed reading."""
    if desc[0] == "point":
        return np.zeros(len(pts), dtype=bool)
    if desc[0] == "circle":
        return (pts[:, 0] - p[0]) ** 2 + (pts[:, 1] - p[1]) ** 2 <= desc[1] ** 2
    if desc[0] == "square":
        return (np.abs(pts[:, 0] - p[0]) <= desc[1]) & (np.abs(pts[:, 1] - p[1]) <= desc[2])
    v = np.array(desc[1])
    out = np.zeros(len(pts), dtype=bool)
    for vv in (v, v[:, ::-1]):
        fan = np.array([[vv[0], vv[i], vv[i + 1]] for i in range(1, len(vv) - 1)])
        out |= (R.min_bary(fan, pts) >= 0).any(axis=0)
    return out


def _extent_class(desc, S):
    if desc[0] == "point":
        return None
    if desc[0] == "circle":
        ext = (2 * desc[1], 2 * desc[1])
    elif desc[0] == "square":
        ext = (2 * desc[1], 2 * desc[2])
    else:
        v = np.array(desc[1])
        ext = tuple(v.max(axis=0) - v.min(axis=0))
    big, small = max(ext) / S, min(ext) / S
    size = "zero" if big == 0 else "tiny" if big < 0.3 else "comparable" if big <= 3.0 + 1e-9 else "large"
    if big == 0 or desc[0] == "circle":
        return size, None
    asp = big / small if small > 0 else float("inf")
    aspect = "1:1-2:1" if asp < 2 - 1e-9 else "2:1-4:1" if asp <= 4 + 1e-9 else ">4:1"
    return size, aspect


def _ratio_band(desc, p, S):
    """Size of the shape in units of the side (circle radius, box half-width along column 0, polygon
    circumradius about its vertex mean) and the band between geometric thresholds it falls in."""
    if desc[0] == "point":
        return None
    if desc[0] == "circle":
        ratio = desc[1] / S
    elif desc[0] == "square":
        ratio = desc[1] / S
    else:
        v = np.array(desc[1])
        ratio = float(np.hypot(v[:, 0] - p[0], v[:, 1] - p[1]).max()) / S
    names = ["0.2887", "0.5", "0.5774", "0.6667", "1.0"]
    lo = "0"
    for t, nm in zip(THRESHOLDS, names):
        if ratio < t * (1 - 1e-12):
            return "%s-%s" % (lo, nm)
        lo = nm
    return ">=1.0"


def _far_shape(kind, p, S):
    """A shape of about one side in size whose reference point is p (used far outside the mesh and on the
    empty set)."""
    _, _, sh = _classes()
    px, py = p
    if kind == "point":
        return sh.Point(px, py)
    if kind == "circle":
        return sh.Circle(px, py, 0.5 * S)
    if kind == "square":
        return sh.Square(top=py - 0.5 * S, bottom=py + 0.25 * S, left=px - 0.5 * S, right=px + S)
    if kind == "triangle":
        return sh.Triangle((px - S, py - S), (px + 2 * S, py), (px - S, py + S))
    return sh.Polygon([(px - S, py - S), (px + S, py - S), (px + S, py + S), (px - S, py + S)])


def check_contain(ctx, rep, spec, S):
    T = rep.T
    n = len(T)
    if n == 0:
        # nothing can contain anything: the call must work and report no triangle
        res = np.asarray(rep.obj.containing_indices(_far_shape(spec["kind"], (0.25 * S, -0.5 * S), S)))
        ctx.check(res.size == 0, "containing/%s/%s/empty-set" % (rep.name, spec["kind"]),
                  "containing_indices on the empty set returned %r" % (res.tolist()[:5],))
        ctx.label("contain-on-empty-set")
        return
    k = spec["k"] % n
    p = _ref_point(spec, T[k])
    shape, desc = _make_shape(spec, p, S, T, k)
    # what the implementation will use as reference point must be the point we placed (harness sanity); a
    # point shape and the zero-extent vertex class reproduce it bitwise, the others to a few ulp of their vertices
    if desc[0] == "point" or spec["at"] == "vertex":
        slack = 0.0
    else:
        vmax = max([float(np.abs(np.array(desc[1])).max())] if desc[0] == "poly" else
                   [abs(p[0]) + desc[1], abs(p[1]) + desc[-1]])
        slack = 8 * R.EPS * vmax
    if abs(float(shape.x) - p[0]) > slack or abs(float(shape.y) - p[1]) > slack:
        raise AssertionError("harness: shape reference point %r != placed point %r" % ((shape.x, shape.y), p))
    if slack > 0.01 * S:
        ctx.label("shape:reference-point-uncertain(skipped)")
        ctx.tie()
        return
    res = np.asarray(rep.obj.containing_indices(shape))
    got = set(int(v) for v in res.ravel().tolist())
    cls = "%s/%s" % (spec["kind"], spec["at"])
    if spec["at"] == "vertex":
        want = {k}
    else:
        mb = R.min_bary(T, np.array([p]))[:, 0]
        want = set(int(j) for j in np.nonzero(mb >= 0.01)[0]) | {k}
        band = int(np.count_nonzero((mb > -1e-9) & (mb < 0.01)))
        if band:
            ctx.tie(band)
        place = _weights(spec)[1]
        ctx.label("place:%s" % place)
        cls += "/" + place
        band = _ratio_band(desc, p, S)
        if band:
            cls += "/" + band
            ctx.label("%s:%s/%s" % (spec["kind"], place, band))
        ec = _extent_class(desc, S)
        if ec:
            ctx.label("%s:size-%s" % (spec["kind"], ec[0]))
            if ec[1]:
                ctx.label("%s:aspect-%s" % (spec["kind"], ec[1]))
            cov = _covered(desc, p, T.mean(axis=1))
            same = np.abs(T.mean(axis=1) - T[k].mean(axis=0)).max(axis=1) <= 0.1 * S
            own, other = bool(cov[same].any()), bool(cov[~same].any())
            cover = "other-not-own" if other and not own else "own-and-other" if other else "own-only" if own else "none"
            ctx.label("%s:covers-%s" % (spec["kind"], cover))
    ctx.label("shape:%s/%s" % (spec["kind"], spec["at"]))
    miss = sorted(want - got)
    ctx.check(not miss, "containing/%s/%s" % (rep.name, cls),
              lambda: "reference point %r lies in triangle %d %s but containing_indices returned %s (side %r)" % (
                  p, miss[0], T[miss[0]].tolist(), sorted(got)[:10], S))


# ---------------------------------------------------------------------------------------------
# the battery: run a history on every representation in parallel
# ---------------------------------------------------------------------------------------------
def _sel_indexes(op, n):
    if n == 0:
        return []
    if op.get("mode") == "stride":
        return list(range(op["start"] % n, n, 1 + op["step"] % 3))
    out = []
    for i in op["idx"]:
        j = i % n
        if j not in out:
            out.append(j)
    return out


def _after(ctx, reps, S, op, shapes, together):
    for r in reps:
        check_state(ctx, r, S)
        if r.name == "coord":
            check_xrep_index(ctx, r, S)
    if len(reps) == 2 and together:
        check_xrep_set(ctx, reps[0], reps[1], S, op)
    for r in reps:
        for spec in shapes:
            check_contain(ctx, r, spec, S)


def _zoom_step(ctx, rep, p, S):
    """containing_indices(Point(p)) -> for_indexes, the way the point solver narrows a set down."""
    _, _, sh = _classes()
    T = rep.T
    res = np.asarray(rep.obj.containing_indices(sh.Point(p[0], p[1]))).ravel()
    got = [int(v) for v in res.tolist()]
    mb = R.min_bary(T, np.array([p]))[:, 0]
    want = set(int(j) for j in np.nonzero(mb >= 0.01)[0])
    if not want:
        ctx.tie()
        ctx.label("zoom:point-near-child-edge")
    miss = sorted(want - set(got))
    ctx.check(not miss, "containing/%s/point/zoom" % rep.name,
              lambda: "zoom point %r lies in triangle %d %s (min barycentric %r) but containing_indices returned "
                      "%s (side %r)" % (p, miss[0], T[miss[0]].tolist(), float(mb[miss[0]]), got[:10], S))
    idx = []
    for j in got:
        if 0 <= j < len(T) and j not in idx:
            idx.append(j)
    if not idx:   # tie band (or a reported failure): carry on with the oracle's best triangle
        idx = [int(np.argmax(mb))]
    sel, G = check_sel(ctx, rep.name, rep.obj, T, idx, form="containing-result")
    rep.obj, rep.T = sel, G


def _chain_step(ctx, rep, op, S, p):
    """containing_indices(shape far outside the mesh) -> for_indexes(result): the result (normally no index at
    all) is fed onward unchanged."""
    T = rep.T
    res = np.asarray(rep.obj.containing_indices(_far_shape(op["kind"], p, S)))
    if len(T):
        mb = R.min_bary(T, np.array([p]))[:, 0]
        want = set(int(j) for j in np.nonzero(mb >= 0.01)[0])
        miss = sorted(want - set(int(v) for v in res.ravel().tolist()))
        ctx.check(not miss, "containing/%s/%s/far" % (rep.name, op["kind"]),
                  lambda: "point %r lies in triangle %d but containing_indices returned %s" % (p, miss[0], res.tolist()[:10]))
    else:
        ctx.check(res.size == 0, "containing/%s/%s/empty-set" % (rep.name, op["kind"]),
                  "containing_indices on the empty set returned %r" % (res.tolist()[:5],))
    ctx.label("chain:far-%s" % op["kind"], "chain:result-%s" % ("empty" if res.size == 0 else "nonempty"))
    sel, G = check_sel(ctx, rep.name, rep.obj, T, res, ref=res, form="containing-result")
    rep.obj, rep.T = sel, G


def battery(ctx, reps, S, ops, shapes, zoom=None):
    T0 = reps[0].T
    tolv = _tol(T0, S)
    ori = R.orientation(T0, tolv)
    both = bool((ori == 1).any() and (ori == -1).any())
    ctx.nt(both and len(T0) >= 3)
    ctx.label("orient:both" if both else "orient:single", "n0:%s" % ("1" if len(T0) == 1 else "2" if len(T0) == 2
                                                                    else "3-9" if len(T0) < 10 else "10+"))
    ctx.label("side:%s" % ("<=1e-9" if S <= 1e-9 else "1e-9..1e-5" if S <= 1e-5 else "1e-5..1e-2" if S <= 1e-2
                           else "1e-2..1e2" if S <= 1e2 else ">1e2"))
    mult = (R.min_bary(T0, T0.mean(axis=1)) > BARY_IN + 4 * _rel(T0, S)).sum(axis=1)
    if len(T0) and mult.max() > 1:
        ctx.label("input:duplicate-triangles")
    centre = T0.reshape(-1, 2).mean(axis=0) if len(T0) else np.zeros(2)
    S0 = S
    zp = None
    if zoom is not None:
        zp = _ref_point({"at": "interior", "place": zoom["place"]}, T0[zoom["k"] % len(T0)])

    def hits():
        return ctx.excluded_hits + sum(ctx.known_hits.values())

    h0 = hits()
    together = True
    _after(ctx, reps, S, "initial", shapes, together)
    ups = zooms = 0
    for op in ops:
        if hits() != h0:
            # a step already failed with a key that is known / already reported in this run: the state is
            # corrupt, later failures would only be consequences of the same root cause
            ctx.label("stopped-after-reported-failure")
            break
        n = len(reps[0].T)
        kind = op["op"]
        if n == 0:
            ctx.label("class:op-on-empty-set", "on-empty:%s" % kind)
        elif n == 1:
            ctx.label("class:op-on-single-element-set", "on-single:%s" % kind)
        if kind == "chain":
            far = (float(centre[0] + op["far"][0] * S0), float(centre[1] + op["far"][1] * S0))
            for r in reps:
                _chain_step(ctx, r, op, S, far)
        elif kind == "up":
            if max(len(r.T) for r in reps) > MAX_UP:
                ctx.label("skipped:up-too-large")
                continue
            for r in reps:
                child = r.obj.up_sample()
                r.T = check_up(ctx, r.name, r.T, child, S)
                r.obj = child
            S = S / 2.0
            ups += 1
        elif kind == "nb":
            if max(len(r.T) for r in reps) > MAX_NB:
                ctx.label("skipped:nb-too-large")
                continue
            for r in reps:
                nb = r.obj.neighborhood()
                r.T = check_nb(ctx, r.name, r.T, nb, S)
                r.obj = nb
            ctx.label("nb-after-up" if ups else "nb-at-level0")
        elif kind == "zoom":
            if n == 0:
                continue
            for r in reps:
                _zoom_step(ctx, r, zp, S)
            zooms += 1
            if len(reps) == 2 and together:
                a, b = reps
                if len(a.T) != len(b.T) or (R.match(a.T, b.T, _tol(a.T, S)) < 0).any():
                    together = False   # the two forms picked different boundary triangles: compare no further
                    ctx.label("zoom:representations-diverged")
        elif kind == "sel":
            if not together:
                continue
            idx = _sel_indexes(op, n)
            form = op.get("form", "int64")
            ctx.label("sel:empty" if not idx else "sel:all" if len(idx) == n else "sel:proper-subset", "form:%s" % form)
            want = reps[0].T[np.array(idx, dtype=int)]
            for ri, r in enumerate(reps):
                if ri == 0:
                    ridx = idx
                else:
                    m = R.match(want, r.T, _tol(want, S))
                    if (m < 0).any():
                        ctx.fail_stop("xrep/select-map", "cannot find the selected triangles in %s" % r.name)
                    ridx = [int(v) for v in m]
                sel, G = check_sel(ctx, r.name, r.obj, r.T, ridx, form=form)
                r.obj, r.T = sel, G
        else:
            raise AssertionError("unknown op %r" % kind)
        _after(ctx, reps, S, kind, shapes, together)
    ctx.label("ups:%s" % (ups if ups <= 3 else "4-29" if ups < 30 else "30+"))
    if zooms:
        ctx.label("final-side:%s" % ("<=1e-11" if S <= 1e-11 else "<=1e-9" if S <= 1e-9 else "<=1e-6" if S <= 1e-6
                                     else ">1e-6"))


def _coord_reps(ctx, obj):
    T = _tri(ctx, obj, "triangles/coord")
    arr = obj.with_vertices(obj.vertices)
    A = _tri(ctx, arr, "triangles/array")
    return [Rep("coord", obj, T), Rep("array", arr, A)]


# ---------------------------------------------------------------------------------------------
# strategies
# ---------------------------------------------------------------------------------------------
SIDES = [0.05, 0.1, 0.5, 1.0, 2.0, 20.0]
TENS = [1e-10, 1e-8, 1e-6, 1e-4, 1e3, 1e6]


def sides():
    return st.one_of(st.sampled_from(SIDES), st.floats(0.05, 20.0, allow_nan=False))


def wide_sides():
    """Side lengths over many decades: 2**-40 .. 2**20 and powers of ten."""
    return st.one_of(st.integers(-40, 20).map(lambda k: 2.0 ** k), st.integers(-40, -20).map(lambda k: 2.0 ** k),
                     st.sampled_from(TENS))


@st.composite
def magnitudes(draw):
    """(regime, side, x offset, y offset); offsets scale with the side except in the offset-dominated regime."""
    regime = draw(st.sampled_from(["unit", "unit", "scaled", "scaled", "offset-dominated"]))
    if regime == "unit":
        return regime, draw(sides()), draw(gens.reals(-50, 50)), draw(gens.reals(-50, 50))
    if regime == "scaled":
        s = draw(wide_sides())
        return regime, s, draw(gens.reals(-3, 3)) * s, draw(gens.reals(-3, 3)) * s
    s = 2.0 ** draw(st.integers(-30, -5))
    return regime, s, draw(gens.reals(-2, 2)), draw(gens.reals(-2, 2))


@st.composite
def placements(draw):
    mode = draw(st.sampled_from(["generic", "near-edge", "near-vertex", "centroid", "corner", "corner", "corner",
                                 "edge-mid"]))
    if mode == "corner":
        return {"mode": mode, "e": draw(st.integers(0, 2)),
                "w": draw(st.one_of(st.sampled_from([0.97, 0.95, 0.93, 0.9, 0.85]), st.floats(0.85, 0.97))),
                "t": draw(st.one_of(st.just(0.5), st.floats(0.0, 1.0)))}
    if mode == "edge-mid":
        return {"mode": mode, "e": draw(st.integers(0, 2)), "a": draw(st.floats(0.0, 1.0)), "t": draw(st.floats(0.0, 1.0))}
    if mode == "generic":
        return {"mode": mode, "u": [draw(st.floats(0.0, 1.0)) for _ in range(3)]}
    if mode == "near-edge":
        return {"mode": mode, "e": draw(st.integers(0, 2)), "a": draw(st.floats(0.0, 1.0)), "t": draw(st.floats(0.0, 1.0))}
    if mode == "near-vertex":
        return {"mode": mode, "e": draw(st.integers(0, 2))}
    return {"mode": mode}


@st.composite
def shape_specs(draw):
    kind = draw(st.sampled_from(["point", "circle", "square", "square", "triangle", "polygon"]))
    at = "interior"
    if kind in ("point", "circle", "square"):
        at = draw(st.sampled_from(["interior", "interior", "interior", "vertex"]))
    spec = {"kind": kind, "at": at, "k": draw(st.integers(0, 10 ** 6)), "corner": draw(st.integers(0, 2)),
            "place": draw(placements())}
    if kind != "point" and at == "interior" and draw(st.booleans()):
        # size/side ratio on a fine grid around the geometric thresholds
        ratio = draw(st.sampled_from(THRESHOLDS)) * (1.0 + draw(st.sampled_from(DELTAS)))
        spec["grid"] = True
        if kind == "circle":
            spec["r"] = ratio
        elif kind == "square":
            spec["hx"], spec["hy"] = ratio, ratio * draw(st.sampled_from([1.0, 1.0, 0.5, 2.0, 0.25]))
            if draw(st.booleans()):
                spec["hx"], spec["hy"] = spec["hy"], spec["hx"]
        else:
            n = 3 if kind == "triangle" else draw(st.integers(4, 6))
            rot = draw(st.sampled_from([0.0, 0.25, 0.5, 0.75]))
            spec["pts"] = [[ratio, rot]] * n
        return spec
    size = draw(st.sampled_from(["comparable", "comparable", "comparable", "tiny", "zero"]))
    # long half-extent in units of the side: full extent 0.3x .. 3x for the comparable class
    L = {"comparable": st.floats(0.15, 1.5), "tiny": st.floats(0.005, 0.05), "zero": st.just(0.0)}[size]
    aspect = draw(st.sampled_from(["1:1", "wide", "tall"]))
    ratio = draw(st.one_of(st.sampled_from([2.0, 3.0, 4.0]), st.floats(2.0, 4.0)))
    if kind == "circle":
        spec["r"] = draw(L)
    elif kind == "square":
        h = draw(L)
        spec["hx"], spec["hy"] = (h, h) if aspect == "1:1" else (h, h / ratio) if aspect == "wide" else (h / ratio, h)
        if size == "comparable" and draw(st.booleans()):
            spec["directed"] = {"j": draw(st.integers(0, 2)), "mx": draw(st.floats(0.02, 0.5)),
                                "my": draw(st.floats(0.02, 0.5))}
    elif kind in ("triangle", "polygon"):
        n = 3 if kind == "triangle" else draw(st.integers(3, 6))
        lo, hi = (0.5, 1.0) if size != "tiny" else (0.02, 0.033)   # radii; the bounding box then spans ~0.75x-2x / tiny
        if size == "zero":
            lo, hi = 0.02, 0.033
        spec["pts"] = [[draw(st.floats(lo, hi)), draw(st.floats(0.0, 0.8))] for _ in range(n)]
        spec["stretch"] = [1.0, 1.0] if aspect == "1:1" else [1.5, 1.5 / ratio] if aspect == "wide" else [1.5 / ratio, 1.5]
        if size == "comparable" and draw(st.booleans()):
            spec["directed"] = {"j": draw(st.integers(0, 2)), "w": draw(st.floats(0.1, 0.4)),
                                "reading": draw(st.sampled_from(["natural", "transposed"]))}
    return spec


@st.composite
def op_lists(draw, max_ops=4, max_up=3, styles=("mixed", "ups-first", "empty-set", "single-element")):
    sel_nonempty = st.one_of(
        st.builds(lambda idx: {"op": "sel", "idx": idx}, st.lists(st.integers(0, 10 ** 6), min_size=1, max_size=8)),
        st.builds(lambda idx: {"op": "sel", "idx": idx}, st.lists(st.integers(0, 10 ** 6), min_size=1, max_size=3)),
        st.builds(lambda a, b: {"op": "sel", "mode": "stride", "start": a, "step": b},
                  st.integers(0, 5), st.integers(0, 2)),
        st.just({"op": "sel", "mode": "stride", "start": 0, "step": 0}),
    )
    forms = st.sampled_from(FORMS)
    sel = st.integers(0, 9).flatmap(lambda t: st.just({"op": "sel", "idx": []}) if t >= 8 else sel_nonempty)
    sel = st.builds(lambda o, f: dict(o, form=f), sel, forms)
    empty_sel = st.builds(lambda f: {"op": "sel", "idx": [], "form": f}, forms)
    single_sel = st.builds(lambda i, f: {"op": "sel", "idx": [i], "form": f}, st.integers(0, 10 ** 6), forms)
    chain = st.builds(lambda k, a, d: {"op": "chain", "kind": k,
                                       "far": [d * math.cos(a), d * math.sin(a)]},
                      st.sampled_from(["point", "circle", "square", "triangle", "polygon"]),
                      st.floats(0.0, 6.283), st.sampled_from([200.0, 500.0, 2000.0]))
    anyop = st.one_of(st.just({"op": "up"}), st.just({"op": "nb"}), st.just({"op": "nb"}), sel, sel)
    style = styles[draw(st.integers(0, 10 ** 6)) % len(styles)]   # (sampled_from is strongly biased to the front)
    ops = []
    if style == "ups-first":
        ops = [{"op": "up"}] * draw(st.integers(1, max_up))
    elif style == "empty-set":     # empty the set (empty index in some form, or a shape far outside), then carry on
        pre = [{"op": "up"}] if draw(st.booleans()) else []
        ops = pre + [draw(st.one_of(empty_sel, chain))] + draw(
            st.lists(st.one_of(st.just({"op": "up"}), st.just({"op": "nb"}), empty_sel, chain), min_size=1, max_size=3))
        return [dict(o) for o in ops]
    elif style == "single-element":
        ops = [draw(single_sel)] + draw(st.lists(anyop, min_size=1, max_size=3))
        return [dict(o) for o in ops]
    rest = draw(st.lists(anyop,
                         min_size=0 if ops else 1, max_size=max(1, max_ops - len(ops))))
    out, ups = [], 0
    for o in ops + rest:
        if o["op"] == "up":
            if ups >= max_up:
                continue
            ups += 1
        out.append(dict(o))
    return out or [{"op": "up"}]


@st.composite
def coord_lists(draw, span=30, families=("cluster", "block", "row", "hexagon", "scatter")):
    fam = draw(st.sampled_from(list(families)))
    bx, by = draw(st.integers(-span, span)), draw(st.integers(-span, span))
    if fam == "cluster":
        cells = [[dx, dy] for dx in range(-3, 4) for dy in range(-2, 3)]
        pick = draw(st.lists(st.sampled_from(cells), min_size=1, max_size=10, unique_by=tuple))
        coords = [[bx + dx, by + dy] for dx, dy in pick]
    elif fam == "single":
        coords = [[bx, by]]
    elif fam == "block":
        w, h = draw(st.integers(2, 5)), draw(st.integers(1, 3))
        coords = [[bx + i, by + j] for j in range(h) for i in range(w)]
    elif fam == "row":
        n = draw(st.integers(2, 8))
        coords = [[bx + i, by] for i in range(n)]
    elif fam == "hexagon":
        coords = [[bx + i, by + j] for j in (0, 1) for i in (0, 1, 2)]
        drop = draw(st.lists(st.integers(0, 5), max_size=2, unique=True))
        coords = [c for i, c in enumerate(coords) if i not in drop]
    else:
        coords = draw(st.lists(st.lists(st.integers(-span - 10, span + 10), min_size=2, max_size=2), min_size=1,
                               max_size=8, unique_by=tuple))
    coords = draw(st.permutations(coords))
    return fam, [list(c) for c in coords]


@st.composite
def coord_sets(draw):
    fam, coords = draw(coord_lists())
    regime, side, xo, yo = draw(magnitudes())
    return {"family": fam, "coords": coords, "regime": regime, "side": side, "xo": xo, "yo": yo,
            "flipped": draw(st.booleans())}


@st.composite
def coords_ops_cases(draw):
    case = draw(coord_sets())
    case["ops"] = draw(op_lists())
    case["shapes"] = [draw(shape_specs()) for _ in range(3)]
    return case


def body_coords_ops(case, ctx):
    CT, _, _ = _classes()
    coords = np.array(case["coords"], dtype=int).reshape(-1, 2)
    obj = CT(coordinates=coords, side_length=case["side"], x_offset=case["xo"], y_offset=case["yo"],
             flipped=case["flipped"])
    par = (coords[:, 0] + coords[:, 1]) % 2
    ctx.label("family:%s" % case.get("family", "?"), "flipped:%s" % bool(case["flipped"]),
              "regime:%s" % case.get("regime", "unit"),
              "parity:both" if (par == 0).any() and (par == 1).any() else "parity:%d" % par[0])
    battery(ctx, _coord_reps(ctx, obj), float(case["side"]), case["ops"], case["shapes"])


@st.composite
def limits_cases(draw, min_extent):
    return {"scale": draw(st.one_of(sides(), wide_sides())),
            "cx": draw(gens.reals(-10, 10)), "cy": draw(gens.reals(-10, 10)),
            "wx": draw(st.one_of(st.sampled_from([min_extent, 0.5, 1.0, 2.0]), st.floats(min_extent, 2.5))),
            "wy": draw(st.one_of(st.sampled_from([min_extent, 0.5, 1.0, 2.0]), st.floats(min_extent, 2.5))),
            "ops": draw(op_lists(max_ops=3, max_up=2)),
            "shapes": [draw(shape_specs()) for _ in range(2)]}


def _limits(case):
    s = float(case["scale"])
    x_min, y_min = case["cx"] * s, case["cy"] * s
    return s, x_min, x_min + case["wx"] * s, y_min, y_min + case["wy"] * s


def body_limits_coord(case, ctx):
    CT, _, _ = _classes()
    s, x_min, x_max, y_min, y_max = _limits(case)
    obj = CT.for_limits_and_scale(x_min=x_min, x_max=x_max, y_min=y_min, y_max=y_max, scale=s)
    ctx.label("limits:neg-x" if x_min < 0 else "limits:pos-x")
    reps = _coord_reps(ctx, obj)
    if len(reps[0].T) == 0:
        ctx.fail_stop("for_limits_and_scale/coord/empty", "no triangles for limits %r" % ((x_min, x_max, y_min, y_max, s),))
    battery(ctx, reps, s, case["ops"], case["shapes"])


def body_limits_array(case, ctx):
    _, AT, _ = _classes()
    s, x_min, x_max, y_min, y_max = _limits(case)
    obj = AT.for_limits_and_scale(y_min, y_max, x_min, x_max, s)
    T = _tri(ctx, obj, "for_limits_and_scale/array")
    if len(T) == 0:
        ctx.fail_stop("for_limits_and_scale/array/empty", "no triangles for limits %r" % ((y_min, y_max, x_min, x_max, s),))
    battery(ctx, [Rep("array", obj, T)], s, case["ops"], case["shapes"])


# ---------------------------------------------------------------------------------------------
# the zoom loop: up_sample -> containing_indices(point) -> for_indexes (-> neighborhood), 30-40 times
# ---------------------------------------------------------------------------------------------
@st.composite
def zoom_cases(draw):
    source = draw(st.sampled_from(["coords", "coords", "array-lattice"]))
    start = draw(st.sampled_from(["side-1", "side-1", "pow2"]))
    side = 1.0 if start == "side-1" else 2.0 ** draw(st.integers(-8, 8))
    case = {"source": source, "side": side, "depth": draw(st.integers(30, 40)),
            "with_nb": draw(st.sampled_from([False, False, True])),
            "zoom": {"k": draw(st.integers(0, 10 ** 6)),
                     "place": {"mode": "generic", "u": [draw(st.floats(0.0, 1.0)) for _ in range(3)]}},
            "shapes": [draw(shape_specs())]}
    if source == "coords":
        _, case["coords"] = draw(coord_lists(span=1, families=("cluster", "block", "row", "hexagon")))
        case["coords"] = case["coords"][:6]
        case["xo"] = draw(gens.reals(-1, 1)) * side
        case["yo"] = draw(gens.reals(-1, 1)) * side
        case["flipped"] = draw(st.booleans())
    else:
        case["cx"], case["cy"] = draw(gens.reals(-1, 1)), draw(gens.reals(-1, 1))
        case["wx"], case["wy"] = draw(st.floats(0.05, 1.5)), draw(st.floats(0.05, 1.5))
    return case


def body_zoom(case, ctx):
    CT, AT, _ = _classes()
    s = float(case["side"])
    if case["source"] == "coords":
        coords = np.array(case["coords"], dtype=int).reshape(-1, 2)
        obj = CT(coordinates=coords, side_length=s, x_offset=case["xo"], y_offset=case["yo"], flipped=case["flipped"])
        reps = _coord_reps(ctx, obj)
    else:
        x_min, y_min = case["cx"] * s, case["cy"] * s
        obj = AT.for_limits_and_scale(y_min, y_min + case["wy"] * s, x_min, x_min + case["wx"] * s, s)
        reps = [Rep("array", obj, _tri(ctx, obj, "for_limits_and_scale/array"))]
    ops = []
    for _ in range(case["depth"]):
        ops += [{"op": "up"}, {"op": "zoom"}] + ([{"op": "nb"}] if case["with_nb"] else [])
    ctx.label("source:%s" % case["source"], "start:%s" % ("side-1" if s == 1.0 else "other"),
              "loop:%s" % ("up-contain-select-nb" if case["with_nb"] else "up-contain-select"))
    battery(ctx, reps, s, ops, case["shapes"], zoom=case["zoom"])


# ---------------------------------------------------------------------------------------------
# exhaustive small sets
# ---------------------------------------------------------------------------------------------
ENUM_SHAPES = [
    {"kind": "point", "at": "interior", "k": 0, "corner": 0, "u": [0.2, 0.3, 0.5]},
    {"kind": "point", "at": "vertex", "k": 1, "corner": 0, "u": [1, 1, 1]},
    {"kind": "point", "at": "vertex", "k": 2, "corner": 1, "u": [1, 1, 1]},
    {"kind": "point", "at": "vertex", "k": 3, "corner": 2, "u": [1, 1, 1]},
    {"kind": "circle", "at": "interior", "k": 1, "corner": 0, "u": [0.9, 0.05, 0.05], "r": 0.01},
    {"kind": "square", "at": "interior", "k": 2, "corner": 0, "u": [0.05, 0.9, 0.05], "hx": 0.01, "hy": 0.02},
    {"kind": "triangle", "at": "interior", "k": 3, "corner": 0, "u": [0.05, 0.05, 0.9],
     "pts": [[0.02, 0.1], [0.03, 0.2], [0.02, 0.3]]},
    {"kind": "polygon", "at": "interior", "k": 5, "corner": 0, "u": [0.4, 0.1, 0.5],
     "pts": [[0.02, 0.0], [0.03, 0.1], [0.02, 0.2], [0.01, 0.3], [0.02, 0.4]]},
    {"kind": "square", "at": "interior", "k": 0, "corner": 0, "place": {"mode": "near-vertex", "e": 0},
     "hx": 0.6, "hy": 0.15},
    {"kind": "square", "at": "interior", "k": 1, "corner": 0, "place": {"mode": "near-edge", "e": 1, "a": 0.5, "t": 0.3},
     "hx": 0.5, "hy": 0.5, "directed": {"j": 0, "mx": 0.1, "my": 0.1}},
    {"kind": "polygon", "at": "interior", "k": 0, "corner": 0, "place": {"mode": "near-vertex", "e": 2},
     "pts": [[0.5, 0.0]] * 4, "directed": {"j": 0, "w": 0.2, "reading": "transposed"}},
    {"kind": "triangle", "at": "interior", "k": 1, "corner": 0, "place": {"mode": "near-edge", "e": 0, "a": 0.0, "t": 0.5},
     "pts": [[0.5, 0.0]] * 3, "directed": {"j": 1, "w": 0.2, "reading": "natural"}},
]
ENUM_OPS = [
    [{"op": "nb"}, {"op": "up"}, {"op": "sel", "mode": "stride", "start": 1, "step": 1}, {"op": "up"}],
    [{"op": "up"}, {"op": "nb"}, {"op": "sel", "idx": [0, 5, 2]}, {"op": "nb"}],
]
ENUM_OPS_EDGE = [   # empty and single-element sets, index forms (unit geometry only)
    [{"op": "sel", "idx": [1, 0], "form": "neg"}, {"op": "chain", "kind": "square", "far": [300.0, -40.0]}, {"op": "nb"},
     {"op": "up"}, {"op": "sel", "idx": [], "form": "bool"}, {"op": "chain", "kind": "polygon", "far": [0.0, 900.0]},
     {"op": "up"}, {"op": "nb"}],
    [{"op": "sel", "idx": [2], "form": "list-neg"}, {"op": "nb"}, {"op": "sel", "idx": [0, 3, 2], "form": "repeat"},
     {"op": "sel", "idx": [1, 2], "form": "bool-list"}, {"op": "up"}, {"op": "sel", "idx": [6, 1, 3], "form": "uint8"},
     {"op": "sel", "idx": [], "form": "list"}, {"op": "nb"}, {"op": "up"}],
]


def cases_enum_small(tier):
    import itertools
    geoms = [(1.0, 0.25, -0.4), (2.0 ** -33, 0.25 * 2.0 ** -33, -0.4 * 2.0 ** -33)]
    if tier != "quick":
        geoms += [(0.3, -7.5, 3.125), (20.0, 0.0, 0.0), (2.0 ** 20, 3.0 * 2.0 ** 20, 0.0), (1e-10, 0.0, 2e-10)]
    sets = [[[x, y]] for x in range(-2, 3) for y in range(-2, 3)]
    window = [[x, y] for y in (0, 1) for x in (0, 1, 2)]
    for k in (2, 3):
        sets += [list(map(list, c)) for c in itertools.combinations(window, k)]
    if tier != "quick":
        window2 = [[x, y] for y in (-1, 0) for x in (-2, -1, 0, 1)]
        for k in (2, 3, 4):
            sets += [list(map(list, c)) for c in itertools.combinations(window2, k)]
    for gi, (side, xo, yo) in enumerate(geoms):
        for coords in sets:
            if tier == "quick" and gi == 1 and len(coords) == 1 and (abs(coords[0][0]) == 2 or abs(coords[0][1]) == 2):
                continue   # quick: the tiny-side geometry runs on the inner singles and all the subsets only
            for flipped in (False, True):
                for oi, ops in enumerate(ENUM_OPS + (ENUM_OPS_EDGE if gi == 0 else [])):
                    yield {"family": "enum", "coords": coords, "regime": "unit" if gi == 0 else "scaled",
                           "side": side, "xo": xo, "yo": yo, "flipped": flipped, "ops": ops, "shapes": ENUM_SHAPES}


# ---------------------------------------------------------------------------------------------
# systematic shape grid: (shape type) x (size/side ratio around each geometric threshold) x (placement)
# ---------------------------------------------------------------------------------------------
def _grid_placements():
    out = []
    for e in range(3):
        for w in (0.85, 0.9, 0.93, 0.95, 0.97):
            for t in (0.5, 0.15):
                out.append({"mode": "corner", "e": e, "w": w, "t": t})
        for a in (0.0, 0.5):
            out.append({"mode": "edge-mid", "e": e, "a": a, "t": 0.5})
    out.append({"mode": "centroid"})
    return out


def _grid_shapes(kind, ratio, k):
    shapes = []
    for place in _grid_placements():
        base = {"kind": kind, "at": "interior", "k": k, "corner": 0, "place": place, "grid": True}
        if kind == "circle":
            shapes.append(dict(base, r=ratio))
        elif kind == "square":
            for f in (1.0, 0.5, 2.0):
                shapes.append(dict(base, hx=ratio, hy=ratio * f))
                if f != 1.0:
                    shapes.append(dict(base, hx=ratio * f, hy=ratio))
        elif kind == "triangle":
            for rot in (0.0, 0.5):
                shapes.append(dict(base, pts=[[ratio, rot]] * 3))
        else:
            shapes.append(dict(base, pts=[[ratio, 0.0]] * 4))
            shapes.append(dict(base, pts=[[ratio, 0.25]] * 5))
    return shapes


def cases_shape_grid(tier):
    hexagon = [[i, j] for j in (0, 1) for i in (0, 1, 2)]
    bases = [("coords", hexagon, 1.0, 0.25, -0.4, False), ("coords", [[0, 0]], 2.0 ** -33, 0.0, 2.0 ** -34, True)]
    if tier != "quick":
        bases += [("coords", hexagon, 2.0 ** -33, 2.0 ** -33, 0.0, True), ("coords", [[1, 0], [0, 0]], 1e6, 0.0, 3e6, False),
                  ("array-lattice", None, 1.0, 0.3, -0.2, False), ("array-lattice", None, 1e-10, 2e-10, 0.0, False)]
    for source, coords, side, xo, yo, flipped in bases:
        n = len(coords) if coords else 4
        for kind in ("circle", "square", "triangle", "polygon"):
            for ti, thr in enumerate(THRESHOLDS):
                for di, dl in enumerate(DELTAS):
                    yield {"source": source, "coords": coords, "side": side, "xo": xo, "yo": yo, "flipped": flipped,
                           "shapes": _grid_shapes(kind, thr * (1.0 + dl), (ti + di) % n)}


def body_shape_grid(case, ctx):
    CT, AT, _ = _classes()
    s = float(case["side"])
    if case["source"] == "coords":
        coords = np.array(case["coords"], dtype=int).reshape(-1, 2)
        obj = CT(coordinates=coords, side_length=s, x_offset=case["xo"], y_offset=case["yo"], flipped=case["flipped"])
        reps = _coord_reps(ctx, obj)
    else:
        obj = AT.for_limits_and_scale(case["yo"], case["yo"] + 1.2 * s, case["xo"], case["xo"] + 1.2 * s, s)
        reps = [Rep("array", obj, _tri(ctx, obj, "for_limits_and_scale/array"))]
    ctx.label("source:%s" % case["source"])
    battery(ctx, reps, s, [], case["shapes"])


SUBCHECKS = [
    SubCheck("shape_grid", body_shape_grid, cases=cases_shape_grid, shards={"quick": 8, "thorough": 16}),
    SubCheck("enum_small", body_coords_ops, cases=cases_enum_small, shards={"quick": 12, "thorough": 16}),
    SubCheck("coords_ops", body_coords_ops, strategy=coords_ops_cases(), examples={"quick": 640, "thorough": 16000},
             shards={"quick": 8, "thorough": 32}),
    SubCheck("limits_coord", body_limits_coord, strategy=limits_cases(0.0), examples={"quick": 120, "thorough": 1600},
             shards={"quick": 2, "thorough": 8}),
    SubCheck("limits_array", body_limits_array, strategy=limits_cases(0.05), examples={"quick": 120, "thorough": 1600},
             shards={"quick": 2, "thorough": 8}),
    SubCheck("zoom", body_zoom, strategy=zoom_cases(), examples={"quick": 48, "thorough": 640},
             shards={"quick": 8, "thorough": 16}),
]
