"""C08 — fit statistics and evidence follow their definitions on unmasked pixels only."""
import math

import numpy as np
from hypothesis import strategies as st

from vp import gens, scene
from vp.engine import SubCheck

PROPERTY = "C08"
RULE = (
    "fit: Hypothesis masks up to 8x8 (any family of vp.gens.masks), data of any sign (positive / negative / mixed / "
    "with exact zeros), positive noise, arbitrary model values, background-sky level zero or non-zero; every case is "
    "evaluated three times through a thin FitImaging subclass (model_data supplied, as downstream packages do): slim "
    "arrays with use_mask_in_fit=False, and native-stored arrays with use_mask_in_fit=True twice with two different "
    "sets of values carried in the masked pixels (model always via skip_mask=True; data and noise either zero-filled, "
    "so a sky offset turns them into -sky, or carrying generated values via skip_mask=True; finite values of magnitude "
    "up to 1e6 and, in a third of the cases, nan/inf). util: the fit_util functions called directly (masked variants "
    "on native arrays with garbage in every input incl. residual / chi-squared maps, plain variants on slim vectors, "
    "ndarray or Array2D containers, scalar compositions with generated scalars). evidence: C04-style scenarios "
    "(1..3 linear objects from rectangular / Delaunay mappers and function lists, each with or without "
    "regularization of type constant / constant_zeroth / gaussian_kernel / exponential_kernel) solved by a real "
    "aa.Inversion (mapping and w-tilde formalism, unconstrained and positive-only solver), the fit taking "
    "model_data = inversion.mapped_reconstructed_data, again slim + native x2 garbage. Oracle: plain numpy on "
    "values[~mask]: residual, normalized residual, chi-squared map, chi-squared, reduced chi-squared, noise "
    "normalization, log likelihood, S/N map clipped at 0, residual flux fraction = residual/data; regularization term "
    "s_r^T H_rr s_r, slogdet((F+H)_rr), slogdet(H_rr) with r = the parameters of the regularized objects (index set "
    "computed from the case, not from the inversion), evidence = -(chi2 + sHs + logdet(F+H) - logdet(H) + norm)/2, "
    "figure of merit == evidence iff an inversion is present else == log likelihood. Metamorphic: the two native "
    "evaluations (different masked garbage) give bit-identical scalars. scale: the fit cases with magnitudes floored at "
    "2**-20 (exact zeros in the data kept as a class) evaluated at unit 1 and with data, noise, model and sky all "
    "multiplied by 2**e, e in -100..60, or by a non-power (3e-10, 7.3e-21, 4.1e11): the same oracle (all its tolerances "
    "are relative to the operands) plus the relation that normalized residuals, chi-squared map, S/N, residual flux "
    "fraction, chi-squared and reduced chi-squared are unchanged (rtol 1e-12, atol 0 for powers of two), residuals "
    "scale and the noise normalization shifts by 2 n log(scale); util also draws such a scale. multi: 2-4 scenarios "
    "(the previous one with other regularization coefficients or other noise and data = same sizes; the same imaging "
    "with new objects; an unrelated scenario) solved one after the other in one process through aa.Inversion with "
    "`preloads` omitted and `settings` omitted in two thirds of the scenes, each followed by a fit; data vector, F+H "
    "and H are compared with B^T N^-1 d, B^T N^-1 B (+eps) + H built from vp/ref/conv.py and the linear objects' own "
    "regularization matrices, then terms and evidence as in `evidence`, then reconstruction and terms against the "
    "same scene solved in isolation (fresh objects, explicit fresh Preloads / settings); finally every Preloads / "
    "SettingsInversion instance bound as a default argument of the inversion entry points must equal a freshly "
    "constructed one attribute by attribute. complex_defs: the four complex definitions of fit_util (and residual_map_from "
    "on complex input) called directly on 1..12 generated visibilities - real and imaginary parts of data / model / "
    "residual drawn independently with any sign (exact zeros as a class), complex noise with positive parts, ndarray or "
    "Visibilities containers, the same unit classes - against a numpy oracle written component-wise from the documented "
    "definitions (normalized residual re/re + 1j im/im, chi-squared map its component-wise squares, chi-squared = sum of "
    "real parts + sum of imaginary parts, noise normalization = sum log(2 pi re^2) + sum log(2 pi im^2)), tolerances 1e-12 "
    "relative to the summed magnitudes, real and imaginary parts reported under separate keys. Non-trivial = the mask has masked pixels carrying non-zero garbage, or "
    "the linear-object list is partially unregularized, or (scale, multi, complex_defs) every case; distinct = SHA-1 of the "
    "canonical case."
)
ASSUMPTIONS = [
    "the inversion's own reconstruction s, regularization_matrix H and curvature_reg_matrix F+H are inputs here (copied "
    "before any derived quantity is read); their content is checked by C04 / C05 / C07",
    "element-wise tolerances: 1e-12 relative to the magnitude of the operands (|data|+|sky|+|model|, divided by the "
    "noise where applicable), sums 1e-12 relative to the sum of absolute terms; log-determinants "
    "max(1e-9|ref|, 50 n eps cond) (first-order perturbation bound n*eps*cond of log det, the regularization matrices "
    "carry a 1e-8 ridge so cond ~ 1e9 is the normal case) plus twice the spread of log det between the full / "
    "lower-triangle / upper-triangle readings of the (numerically not exactly symmetric) matrix; comparisons with "
    "cond > 1e13 are skipped and counted",
    "residual-flux-fraction is compared only where |data - sky| > 1e-12 (|data|+|sky|) and the quotient is finite "
    "(division by ~0 is undefined; excluded pixels are counted as tie-band exclusions)",
    "an InversionException from inversion.reconstruction (singular system, or the documented rejection of a mapper whose "
    "values are all identical - C05's subject) ends the case (counted); one from a log-determinant term is accepted only "
    "when cond((F+H)_rr) or cond(H_rr) exceeds 1e12",
    "a quantity whose input quantity already failed (data flow residual -> chi-squared map -> chi-squared -> likelihood -> "
    "evidence) is not compared again, so one root cause is reported under one key",
    "sub-checks evidence builds its inversion with an explicit fresh Preloads() so that cases are independent and replays "
    "reproduce; state shared through the default arguments is the business of sub-check multi, where a leak shows inside "
    "one case (keys multi/later/...) and, because workers are long-lived, possibly in the first scene of later cases too",
    "scale: a change of units by an exact power of two commutes with every floating-point operation of the definitions as "
    "long as nothing under/overflows, which the 2**-20 floor on the generated magnitudes and the exponent range -100..60 "
    "guarantee; where data is exactly 0 the statement defines S/N, residuals and chi-squared (compared) but not "
    "residual/data (excluded, counted)",
    "the content of masked entries of the returned native maps is not constrained (the statement is about unmasked "
    "pixels); only their shape is",
]
TECHNIQUE = ("Hypothesis-generated masks / datasets / inversions against a plain-numpy definitional oracle on values[~mask], "
             "plus a metamorphic relation (masked-pixel garbage leaves every scalar bit-identical)")

EPS = float(np.finfo(float).eps)
RT = 1e-12
_TOK = {"nan": float("nan"), "inf": float("inf"), "-inf": float("-inf")}


def _f(v):
    return _TOK[v] if isinstance(v, str) else float(v)


def _vec(lst):
    return np.array([_f(v) for v in lst], dtype=float)


# ---------------------------------------------------------------------------------------------
# strategies
# ---------------------------------------------------------------------------------------------
def garbage_pool(nonfinite):
    elems = [gens.reals(-10, 10), gens.reals(-10, 10), st.sampled_from([1e6, -1e6, 1e-6, 0.0, 123.456, -77.0]),
             st.floats(-1e3, 1e3, allow_nan=False, allow_infinity=False)]
    if nonfinite:
        elems.append(st.sampled_from(["nan", "inf", "-inf"]))
    return st.lists(st.one_of(*elems), min_size=3, max_size=6)


@st.composite
def garbage_sets(draw, k, names=("data", "noise", "model"), always=("model",)):
    """Two sets of masked-pixel values.  A quantity not in `always` is zero-filled (None) in half of the cases.
    Each set spreads a small drawn pool of values over the k masked pixels (few draws, full lists in the case)."""
    nonfinite = draw(st.integers(0, 2)) == 0
    carried = {nm: (nm in always) or draw(st.booleans()) for nm in names}
    sets = []
    for _ in range(2):
        pool = draw(garbage_pool(nonfinite))
        g = {}
        for nm in names:
            if not carried[nm]:
                g[nm] = None
                continue
            a = draw(st.integers(0, 997))
            g[nm] = [pool[(a + j * (j + 3) // 2 + (a % 5) * j) % len(pool)] for j in range(k)]
        sets.append(g)
    return sets


def _data_values(draw, n, kind):
    if kind == "positive":
        return draw(st.lists(gens.reals(0.1, 10), min_size=n, max_size=n))
    if kind == "negative":
        return draw(st.lists(gens.reals(-10, -0.1), min_size=n, max_size=n))
    vals = draw(st.lists(gens.reals(-10, 10), min_size=n, max_size=n))
    if kind == "with-zeros":
        z = draw(st.lists(st.booleans(), min_size=n, max_size=n))
        vals = [0.0 if b else v for v, b in zip(vals, z)]
    return vals


def _sky(draw):
    return draw(st.one_of(st.just(0.0), st.just(0.0), gens.reals(-5, 5), st.sampled_from([1.5, -0.25, 100.0])))


@st.composite
def fit_cases(draw):
    mask = draw(gens.masks(lo=1, hi=8, min_unmasked=1))
    n = sum(1 for r in mask for v in r if not v)
    k = sum(1 for r in mask for v in r if v)
    dk = draw(st.sampled_from(["positive", "any", "any", "negative", "with-zeros"]))
    data = _data_values(draw, n, dk)
    mk = draw(st.sampled_from(["any", "near-data", "equal-data"]))
    if mk == "any":
        model = draw(st.lists(gens.reals(-10, 10), min_size=n, max_size=n))
    elif mk == "near-data":
        dm = draw(st.lists(gens.reals(-1, 1), min_size=n, max_size=n))
        model = [d + e for d, e in zip(data, dm)]
    else:
        model = list(data)
    g = draw(garbage_sets(k))
    return {"mask": mask, "pixel_scales": draw(gens.pixel_scales()), "data": data, "data_kind": dk,
            "noise": draw(st.lists(gens.positives(0.05, 10.0), min_size=n, max_size=n)),
            "model": model, "model_kind": mk, "sky": _sky(draw), "g1": g[0], "g2": g[1]}


@st.composite
def util_cases(draw):
    mask = draw(gens.masks(lo=1, hi=7, min_unmasked=1))
    n = sum(1 for r in mask for v in r if not v)
    k = sum(1 for r in mask for v in r if v)
    names = ("data", "noise", "model", "resid", "chimap")
    g = draw(garbage_sets(k, names=names, always=names))
    return {"mask": mask,
            "data": _data_values(draw, n, draw(st.sampled_from(["positive", "any", "negative", "with-zeros"]))),
            "noise": draw(st.lists(gens.positives(0.05, 10.0), min_size=n, max_size=n)),
            "model": draw(st.lists(gens.reals(-10, 10), min_size=n, max_size=n)),
            "resid": draw(st.lists(gens.reals(-10, 10), min_size=n, max_size=n)),
            "chimap": draw(st.lists(gens.reals(0, 50), min_size=n, max_size=n)),
            "container": draw(st.sampled_from(["ndarray", "array2d"])),
            "mask_kind": draw(st.sampled_from(["Mask2D", "ndarray"])),
            "scalars": draw(st.lists(gens.reals(-50, 50), min_size=5, max_size=5)),
            "scale": draw(st.one_of(st.just(1.0), st.just(1.0), st.sampled_from(POW2_EXPS).map(lambda e: 2.0 ** e),
                                    st.sampled_from(NONPOW_SCALES))),
            "g1": g[0], "g2": g[1]}


FLOOR = 2.0 ** -20
POW2_EXPS = (-100, -80, -60, -40, -30, -20, -10, 10, 20, 40, 60)
NONPOW_SCALES = (3e-10, 7.3e-21, 4.1e11)


def _floored(v):
    """Magnitudes stay in [2**-20, ...] (or exactly 0 where a class asks for it) so that a unit change by up to 2**-100
    cannot underflow."""
    return v if abs(v) >= FLOOR else math.copysign(FLOOR, v if v != 0.0 else 1.0)


def _scales(draw, n):
    out = []
    for _ in range(n):
        if draw(st.integers(0, 3)) == 0:
            out.append(draw(st.sampled_from(NONPOW_SCALES)))
        else:
            out.append(2.0 ** draw(st.sampled_from(POW2_EXPS)))
    return out


@st.composite
def scale_cases(draw):
    mask = draw(gens.masks(lo=1, hi=6, min_unmasked=1))
    n = sum(1 for r in mask for v in r if not v)
    k = sum(1 for r in mask for v in r if v)
    dk = draw(st.sampled_from(["positive", "any", "negative", "with-zeros", "with-zeros"]))
    data = [(_floored(v) if v != 0.0 or dk != "with-zeros" else 0.0) for v in _data_values(draw, n, dk)]
    mk = draw(st.sampled_from(["any", "near-data", "equal-data"]))
    if mk == "any":
        model = [_floored(v) for v in draw(st.lists(gens.reals(-10, 10), min_size=n, max_size=n))]
    elif mk == "near-data":
        dm = draw(st.lists(gens.reals(-1, 1), min_size=n, max_size=n))
        model = [d + _floored(e) for d, e in zip(data, dm)]
    else:
        model = list(data)
    sky = _sky(draw)
    g = draw(garbage_sets(k))
    return {"mask": mask, "pixel_scales": draw(gens.pixel_scales()), "data": data, "data_kind": dk,
            "noise": draw(st.lists(gens.positives(0.05, 10.0), min_size=n, max_size=n)),
            "model": model, "model_kind": mk, "sky": sky if sky == 0.0 else _floored(sky),
            "scales": _scales(draw, 2), "g1": g[0]}


@st.composite
def complex_cases(draw):
    """Complex data / model / residual (real and imaginary parts drawn independently, any sign, exact zeros allowed),
    complex noise with positive real and imaginary parts, a chi-squared map with non-negative parts, and a unit."""
    n = draw(st.integers(1, 12))

    def parts(strategy):
        return [draw(st.lists(strategy, min_size=n, max_size=n)) for _ in range(2)]

    zeros = draw(st.booleans())
    val = gens.reals(-10, 10).map(lambda v: v if (zeros and v == 0.0) else _floored(v))
    return {"data": parts(val), "model": parts(val), "resid": parts(val),
            "noise": parts(gens.positives(0.05, 10.0)), "chimap": parts(gens.reals(0, 50)),
            "zeros": zeros, "container": draw(st.sampled_from(["ndarray", "visibilities"])),
            "scale": draw(st.one_of(st.just(1.0), st.sampled_from(POW2_EXPS).map(lambda e: 2.0 ** e),
                                    st.sampled_from(NONPOW_SCALES)))}


_COEFF_FIELDS = ("coefficient", "coefficient_neighbor", "coefficient_zeroth", "inner_coefficient", "outer_coefficient")


def _json_copy(x):
    import json
    return json.loads(json.dumps(x))


@st.composite
def multi_cases(draw):
    """2-4 scenarios evaluated one after the other in one process.  Later scenarios are the first one with other
    regularization coefficients / noise (same sizes: a leaked matrix or scalar fits silently), the same imaging with
    new linear objects, or an unrelated scenario."""
    kw = dict(max_objs=2, img_kwargs=dict(max_inner=4, max_k=3, kernel_kinds=("nonneg", "normalised", "signed")),
              obj_kwargs=dict(max_sub=2, max_mesh=4, reg_types=REG_TYPES, reg_none=True))

    def force_reg(c):
        if all(o.get("reg") is None for o in c["objs"]):
            o = c["objs"][draw(st.integers(0, len(c["objs"]) - 1))]
            o["reg"] = draw(scene.reg_specs(("constant",) if o["type"] == "func" else REG_TYPES, allow_none=False))
        return c

    first = force_reg(draw(scene.scenarios(**kw)))
    scenes = [first]
    kinds = ["first"]
    for _ in range(draw(st.integers(1, 3))):
        kind = draw(st.sampled_from(["other-coefficients", "other-coefficients", "other-noise", "new-objects", "new-scenario"]))
        if kind == "other-coefficients":
            c = _json_copy(scenes[-1])
            f = draw(st.sampled_from([0.01, 0.1, 0.5, 3.0, 10.0, 37.5]))
            for o in c["objs"]:
                if o.get("reg"):
                    for fld in _COEFF_FIELDS:
                        if fld in o["reg"]:
                            o["reg"][fld] = o["reg"][fld] * f
        elif kind == "other-noise":
            c = _json_copy(scenes[-1])
            f = draw(st.sampled_from([0.25, 0.5, 2.0, 3.0]))
            c["noise"] = [v * f for v in c["noise"]]
            c["data"] = draw(st.lists(gens.reals(-10, 10), min_size=len(c["data"]), max_size=len(c["data"])))
        elif kind == "new-objects":
            c = _json_copy(first)
            n = len(c["data"])
            c["objs"] = [draw(scene.obj_specs(n, **kw["obj_kwargs"])) for _ in range(draw(st.integers(1, 2)))]
            force_reg(c)
        else:
            c = force_reg(draw(scene.scenarios(**kw)))
        scenes.append(c)
        kinds.append(kind)
    for c, kd in zip(scenes, kinds):
        c["kind"] = kd
        c["settings"] = None if draw(st.integers(0, 2)) > 0 else {"use_w_tilde": draw(st.booleans()), "positive_only": draw(st.booleans())}
    return {"scenes": scenes}


REG_TYPES = ("constant", "constant", "constant_zeroth", "gaussian_kernel", "exponential_kernel")


@st.composite
def evidence_cases(draw):
    c = draw(scene.scenarios(max_objs=3,
                             img_kwargs=dict(max_inner=5, max_k=3, kernel_kinds=("nonneg", "normalised", "signed")),
                             obj_kwargs=dict(max_sub=2, max_mesh=4, reg_types=REG_TYPES, reg_none=True)))
    k = sum(1 for r in c["mask"] for v in r if v)
    if all(o.get("reg") is None for o in c["objs"]) and draw(st.integers(0, 3)) > 0:
        # wholly unregularized lists make every evidence term zero: keep them, but as a minority class
        o = c["objs"][draw(st.integers(0, len(c["objs"]) - 1))]
        o["reg"] = draw(scene.reg_specs(("constant",) if o["type"] == "func" else REG_TYPES, allow_none=False))
    c["use_w_tilde"] = draw(st.booleans())
    c["positive_only"] = draw(st.sampled_from([False, False, True]))
    c["sky"] = _sky(draw)
    g = draw(garbage_sets(k))
    c["g1"], c["g2"] = g
    return c


# ---------------------------------------------------------------------------------------------
# building fits
# ---------------------------------------------------------------------------------------------
_FIT_CLS = []


def _fit_cls():
    if not _FIT_CLS:
        import autoarray as aa

        class VPFitImaging(aa.FitImaging):
            """Thin subclass that supplies model_data / inversion, as downstream packages do."""

            def __init__(self, dataset, use_mask_in_fit, model_data, dataset_model=None, inversion=None):
                super().__init__(dataset=dataset, use_mask_in_fit=use_mask_in_fit, dataset_model=dataset_model)
                self._vp_model = model_data
                self._vp_inversion = inversion

            @property
            def model_data(self):
                return self._vp_model

            @property
            def inversion(self):
                return self._vp_inversion

        _FIT_CLS.append(VPFitImaging)
    return _FIT_CLS[0]


def _full(m, vals, garb):
    full = np.zeros(m.shape, dtype=float)
    full[~m] = vals
    if garb is not None and m.any():
        full[m] = _vec(garb)
    return full


def _slim_fit(mask, data, noise, model, sky, inversion=None):
    import autoarray as aa
    ds = aa.Imaging(data=aa.Array2D(values=np.array(data, dtype=float), mask=mask),
                    noise_map=aa.Array2D(values=np.array(noise, dtype=float), mask=mask))
    return _fit_cls()(ds, False, aa.Array2D(values=np.array(model, dtype=float), mask=mask),
                      dataset_model=aa.DatasetModel(background_sky_level=sky), inversion=inversion)


def _native_fit(mask, m, data, noise, model, sky, g, inversion=None):
    import autoarray as aa

    def arr(vals, garb):
        return aa.Array2D(values=_full(m, vals, garb), mask=mask, store_native=True, skip_mask=garb is not None)

    ds = aa.Imaging(data=arr(data, g["data"]), noise_map=arr(noise, g["noise"]))
    return _fit_cls()(ds, True, arr(model, g["model"]), dataset_model=aa.DatasetModel(background_sky_level=sky),
                      inversion=inversion)


def _nonzero_garbage(g):
    for lst in g.values():
        if lst is not None and any(isinstance(v, str) or v != 0.0 for v in lst):
            return True
    return False


# ---------------------------------------------------------------------------------------------
# oracle
# ---------------------------------------------------------------------------------------------
def reference(data, noise, model, sky):
    """Definitions on the unmasked values, with the tolerance of every quantity."""
    data = np.asarray(data, dtype=float); noise = np.asarray(noise, dtype=float); model = np.asarray(model, dtype=float)
    n = len(data)
    d = data - sky if sky != 0.0 else data
    sd = np.abs(data) + abs(sky)                  # operand magnitude of d
    sr = sd + np.abs(model)                       # operand magnitude of the residual
    r = d - model
    nr = r / noise
    cm = nr ** 2
    logs = np.log(2.0 * np.pi * noise ** 2)
    ref, tol = {}, {}
    ref["residual_map"], tol["residual_map"] = r, RT * sr
    ref["normalized_residual_map"], tol["normalized_residual_map"] = nr, RT * sr / noise
    ref["chi_squared_map"], tol["chi_squared_map"] = cm, 4 * RT * (sr / noise) ** 2
    ref["signal_to_noise_map"], tol["signal_to_noise_map"] = np.clip(d / noise, 0.0, None), RT * sd / noise
    ok = np.abs(d) > 1e-12 * sd                   # tie band of the residual flux fraction
    with np.errstate(all="ignore"):
        rff = np.where(ok, r / np.where(ok, d, 1.0), 0.0)
        ok = ok & np.isfinite(rff)                # quotient overflows for denormal data: excluded as well
        rff = np.where(ok, rff, 0.0)
        rel_d = np.where(ok, sd / np.where(ok, np.abs(d), 1.0), 0.0)
        tol_rff = RT * (np.abs(rff) * rel_d + np.where(ok, sr / np.where(ok, np.abs(d), 1.0), 0.0)) + 1e-300
    ref["residual_flux_fraction_map"], tol["residual_flux_fraction_map"] = rff, tol_rff
    ref["_rff_ok"] = ok
    chi2 = float(cm.sum())
    t_chi2 = float(tol["chi_squared_map"].sum()) + RT * chi2
    nn = float(logs.sum())
    t_nn = RT * float(np.abs(logs).sum()) + 1e-13 * n
    ref["chi_squared"], tol["chi_squared"] = chi2, t_chi2
    ref["reduced_chi_squared"], tol["reduced_chi_squared"] = chi2 / n, t_chi2 / n
    ref["noise_normalization"], tol["noise_normalization"] = nn, t_nn
    ref["log_likelihood"], tol["log_likelihood"] = -0.5 * (chi2 + nn), 0.5 * (t_chi2 + t_nn)
    return ref, tol


MAPS = ("residual_map", "normalized_residual_map", "chi_squared_map", "signal_to_noise_map", "residual_flux_fraction_map")
SCALARS = ("chi_squared", "reduced_chi_squared", "noise_normalization", "log_likelihood")


def _within(got, want, tol):
    got = np.asarray(got, dtype=float); want = np.asarray(want, dtype=float)
    if got.shape != want.shape:
        return False
    with np.errstate(all="ignore"):
        return bool(np.all(np.abs(got - want) <= tol))


def _cmp(ctx, got, want, tol, key, what):
    """Tolerance comparison; returns False when it failed under a known / already reported key."""
    ok = _within(got, want, tol)
    ctx.check(ok, key,
              lambda: "%s: got %s want %s (max|diff|=%s, tol max=%g)" % (
                  what, _s(got), _s(want), _maxdiff(got, want), float(np.max(tol)) if np.size(tol) else 0.0))
    return ok


def _s(x):
    s = np.array2string(np.asarray(x), precision=17, threshold=40, max_line_width=200)
    return s if len(s) < 400 else s[:400] + "..."


def _maxdiff(a, b):
    try:
        return float(np.nanmax(np.abs(np.asarray(a, dtype=float) - np.asarray(b, dtype=float))))
    except Exception:
        return "n/a"


# data flow of the implementation: a quantity whose input already failed is not compared again, so one root cause
# is reported under one key
DEPENDS = {"residual_map": (), "signal_to_noise_map": (), "normalized_residual_map": ("residual_map",),
           "chi_squared_map": ("residual_map",), "residual_flux_fraction_map": ("residual_map",),
           "chi_squared": ("chi_squared_map",), "reduced_chi_squared": ("chi_squared",), "noise_normalization": (),
           "log_likelihood": ("chi_squared", "noise_normalization")}


def observe_fit(fit, m, mode, ref, tol, ctx, maps=MAPS, prefix="fit", maps_out=None):
    """Compare every map / scalar of one fit object with the oracle; returns (observed scalars, failed names).
    `maps_out` (dict) receives the observed maps on the unmasked pixels."""
    un = ~m
    n = int(un.sum())
    want_shape = m.shape if mode == "native" else (n,)
    failed = set()
    for name in maps:
        if any(d in failed for d in DEPENDS[name]):
            failed.add(name)
            continue
        arr = np.asarray(getattr(fit, name))
        key = "%s/%s/%s" % (prefix, mode, name)
        if arr.shape != want_shape:
            failed.add(name)
            ctx.fail(key + "/shape", "%s has shape %s, expected %s" % (name, arr.shape, want_shape))
            continue
        got = np.asarray(arr[un] if mode == "native" else arr, dtype=float)
        if maps_out is not None:
            maps_out[name] = got
        if name == "residual_flux_fraction_map":
            ok = ref["_rff_ok"]
            ctx.tie(int((~ok).sum()))
            good = _within(got[ok], ref[name][ok], tol[name][ok])
            ctx.comparisons += 1
            if not good:
                failed.add(name)
                # discriminate the root cause: the chi-squared map returned under this name
                if np.any(ref["chi_squared_map"] != 0.0) and _within(got, ref["chi_squared_map"], tol["chi_squared_map"]):
                    ctx.fail("fit/residual_flux_fraction_map/returns-chi-squared-map",
                             "%s mode: residual_flux_fraction_map equals the chi-squared map %s, not residual/data %s" % (
                                 mode, _s(got), _s(ref[name])))
                else:
                    ctx.fail(key, "residual_flux_fraction_map: got %s want %s" % (_s(got), _s(ref[name])))
            continue
        if not _cmp(ctx, got, ref[name], tol[name], key, "%s vs definition on values[~mask]" % name):
            failed.add(name)
    out = {}
    for name in SCALARS:
        out[name] = float(getattr(fit, name))
        if any(d in failed for d in DEPENDS[name]):
            failed.add(name)
            continue
        if not _cmp(ctx, out[name], ref[name], tol[name], "%s/%s/%s" % (prefix, mode, name), "%s vs definition on values[~mask]" % name):
            failed.add(name)
    return out, failed


def _mask_obj(case):
    import autoarray as aa
    m = np.asarray(case["mask"], dtype=bool)
    return m, aa.Mask2D(mask=m.copy(), pixel_scales=tuple(case.get("pixel_scales", (1.0, 1.0))),
                        origin=tuple(case.get("origin", (0.0, 0.0))))


def _garbage_labels(case, ctx, m):
    for nm in ("data", "noise"):
        ctx.label("garbage:%s-%s" % (nm, "carried" if case["g1"].get(nm) is not None else "zero-filled"))
    nonfinite = any(isinstance(v, str) for g in (case["g1"], case["g2"]) for lst in g.values() if lst for v in lst)
    ctx.label("garbage:nonfinite" if nonfinite else "garbage:finite")
    ctx.label("sky:nonzero" if case["sky"] != 0.0 else "sky:zero")
    ctx.label("masked:none" if not m.any() else "masked:some")


def _same(a, b):
    return a == b or (math.isnan(a) and math.isnan(b))


def _metamorphic(ctx, a, b, prefix, failed=()):
    for name in a:
        if name in failed:
            continue
        ctx.check(_same(a[name], b[name]),
                  "%s/native/%s/masked-garbage-changes-value" % (prefix, name),
                  lambda: "%s changes from %r to %r when only values in masked pixels change" % (name, a[name], b[name]))


# ---------------------------------------------------------------------------------------------
# sub-check: fit (no inversion)
# ---------------------------------------------------------------------------------------------
def body_fit(case, ctx):
    m, mask = _mask_obj(case)
    for l in gens.mask_stats(m):
        ctx.label(l)
    _garbage_labels(case, ctx, m)
    ctx.label("data:%s" % case.get("data_kind", "?"), "model:%s" % case.get("model_kind", "?"))
    ctx.nt(bool(m.any()) and _nonzero_garbage(case["g1"]))
    sky = float(case["sky"])
    ref, tol = reference(case["data"], case["noise"], case["model"], sky)
    scal, failed = {}, set()
    for mode, g in (("slim", None), ("native", case["g1"]), ("native2", case["g2"])):
        if mode == "slim":
            fit = _slim_fit(mask, case["data"], case["noise"], case["model"], sky)
        else:
            fit = _native_fit(mask, m, case["data"], case["noise"], case["model"], sky, g)
        md = "slim" if mode == "slim" else "native"
        out, bad = observe_fit(fit, m, md, ref, tol, ctx)
        failed |= bad
        fom = float(fit.figure_of_merit)
        out["figure_of_merit"] = fom
        ctx.check(_same(fom, float(fit.log_likelihood)), "fit/%s/figure_of_merit-not-log-likelihood" % md,
                  "no inversion: figure_of_merit %r != log_likelihood %r" % (fom, float(fit.log_likelihood)))
        scal[mode] = out
    if "log_likelihood" in failed:
        failed.add("figure_of_merit")
    _metamorphic(ctx, scal["native"], scal["native2"], "fit", failed)


# ---------------------------------------------------------------------------------------------
# sub-check: util (fit_util functions called directly)
# ---------------------------------------------------------------------------------------------
def body_util(case, ctx):
    import autoarray as aa
    from autoarray.fit import fit_util as fu
    m, mask = _mask_obj(case)
    un = ~m
    n = int(un.sum())
    ctx.label("container:%s" % case["container"], "mask-arg:%s" % case["mask_kind"], "masked:none" if not m.any() else "masked:some")
    nonfinite = any(isinstance(v, str) for g in (case["g1"], case["g2"]) for lst in g.values() for v in lst)
    ctx.label("garbage:nonfinite" if nonfinite else "garbage:finite")
    ctx.nt(bool(m.any()) and _nonzero_garbage(case["g1"]))
    marg = mask if case["mask_kind"] == "Mask2D" else m.copy()

    def wrap(full):
        if case["container"] == "array2d":
            return aa.Array2D(values=full.copy(), mask=mask, store_native=True, skip_mask=True)
        return full.copy()

    def wrap_slim(v):
        if case["container"] == "array2d":
            return aa.Array2D(values=np.array(v, dtype=float), mask=mask)
        return np.array(v, dtype=float)

    v = {nm: np.asarray(case[nm], dtype=float) for nm in ("data", "noise", "model", "resid", "chimap")}
    scale = float(case.get("scale", 1.0))
    if scale != 1.0:
        # the same image in other units: every dimensional input multiplied (chimap is dimensionless); magnitudes are
        # floored first so that the unit change cannot underflow
        for nm in ("data", "noise", "model", "resid"):
            v[nm] = np.where(v[nm] == 0.0, 0.0, np.sign(v[nm]) * np.maximum(np.abs(v[nm]), FLOOR)) * scale
    ctx.label("scale:%s" % ("1" if scale == 1.0 else "small" if scale < 1.0 else "large"))
    sr = np.abs(v["data"]) + np.abs(v["model"])
    want = {
        "residual_map": (v["data"] - v["model"], RT * sr),
        "normalized_residual_map": (v["resid"] / v["noise"], RT * np.abs(v["resid"]) / v["noise"]),
        "chi_squared_map": ((v["resid"] / v["noise"]) ** 2, 4 * RT * (v["resid"] / v["noise"]) ** 2),
    }
    chi2_ref = float(v["chimap"].sum()); chi2_tol = RT * chi2_ref
    fast = ((v["data"] - v["model"]) / v["noise"]) ** 2
    fast_ref = float(fast.sum()); fast_tol = float((4 * RT * (sr / v["noise"]) ** 2).sum()) + RT * fast_ref
    logs = np.log(2 * np.pi * v["noise"] ** 2)
    nn_ref = float(logs.sum()); nn_tol = RT * float(np.abs(logs).sum()) + 1e-13 * n
    okd = v["data"] != 0.0
    with np.errstate(all="ignore"):
        rff_ref = np.where(okd, v["resid"] / np.where(okd, v["data"], 1.0), 0.0)
        okd = okd & np.isfinite(rff_ref)          # quotient overflows for denormal data: excluded as well
        rff_ref = np.where(okd, rff_ref, 0.0)
    rff_tol = RT * np.abs(rff_ref) + 1e-300

    scal = []
    for g in (case["g1"], case["g2"]):
        a = {nm: wrap(_full(m, v[nm], g[nm])) for nm in v}
        out = {}
        got = np.asarray(fu.residual_map_with_mask_from(data=a["data"], mask=marg, model_data=a["model"]))
        ctx.check(got.shape == m.shape, "util/residual_map_with_mask_from/shape", "shape %s" % (got.shape,))
        _cmp(ctx, got[un], *want["residual_map"], "util/residual_map_with_mask_from", "residual (masked variant)")
        got = np.asarray(fu.normalized_residual_map_with_mask_from(residual_map=a["resid"], noise_map=a["noise"], mask=marg))
        _cmp(ctx, got[un], *want["normalized_residual_map"], "util/normalized_residual_map_with_mask_from", "normalized residual (masked variant)")
        got = np.asarray(fu.chi_squared_map_with_mask_from(residual_map=a["resid"], noise_map=a["noise"], mask=marg))
        _cmp(ctx, got[un], *want["chi_squared_map"], "util/chi_squared_map_with_mask_from", "chi-squared map (masked variant)")
        got = np.asarray(fu.residual_flux_fraction_map_with_mask_from(residual_map=a["resid"], data=a["data"], mask=marg))
        ctx.tie(int((~okd).sum()))
        _cmp(ctx, got[un][okd], rff_ref[okd], rff_tol[okd], "util/residual_flux_fraction_map_with_mask_from", "residual/data (masked variant)")
        out["chi_squared_with_mask_from"] = float(fu.chi_squared_with_mask_from(chi_squared_map=a["chimap"], mask=marg))
        _cmp(ctx, out["chi_squared_with_mask_from"], chi2_ref, chi2_tol, "util/chi_squared_with_mask_from", "sum of chi-squared map over unmasked pixels")
        out["chi_squared_with_mask_fast_from"] = float(fu.chi_squared_with_mask_fast_from(data=a["data"], mask=marg, model_data=a["model"], noise_map=a["noise"]))
        _cmp(ctx, out["chi_squared_with_mask_fast_from"], fast_ref, fast_tol, "util/chi_squared_with_mask_fast_from", "sum(((d-m)/s)^2) over unmasked pixels")
        out["noise_normalization_with_mask_from"] = float(fu.noise_normalization_with_mask_from(noise_map=a["noise"], mask=marg))
        _cmp(ctx, out["noise_normalization_with_mask_from"], nn_ref, nn_tol, "util/noise_normalization_with_mask_from", "sum(log(2 pi s^2)) over unmasked pixels")
        scal.append(out)
    for name in scal[0]:
        ctx.check(scal[0][name] == scal[1][name], "util/%s/masked-garbage-changes-value" % name,
                  lambda: "%s changes from %r to %r when only values in masked pixels change" % (name, scal[0][name], scal[1][name]))

    # plain variants on slim vectors
    s = {nm: wrap_slim(v[nm]) for nm in v}
    _cmp(ctx, np.asarray(fu.residual_map_from(data=s["data"], model_data=s["model"])), *want["residual_map"], "util/residual_map_from", "residual")
    _cmp(ctx, np.asarray(fu.normalized_residual_map_from(residual_map=s["resid"], noise_map=s["noise"])), *want["normalized_residual_map"],
         "util/normalized_residual_map_from", "normalized residual")
    _cmp(ctx, np.asarray(fu.chi_squared_map_from(residual_map=s["resid"], noise_map=s["noise"])), *want["chi_squared_map"],
         "util/chi_squared_map_from", "chi-squared map")
    _cmp(ctx, float(fu.chi_squared_from(chi_squared_map=s["chimap"])), chi2_ref, chi2_tol, "util/chi_squared_from", "sum of chi-squared map")
    _cmp(ctx, float(fu.noise_normalization_from(noise_map=s["noise"])), nn_ref, nn_tol, "util/noise_normalization_from", "sum(log(2 pi s^2))")
    got = np.asarray(fu.residual_flux_fraction_map_from(residual_map=s["resid"], data=s["data"]))
    _cmp(ctx, got[okd], rff_ref[okd], rff_tol[okd], "util/residual_flux_fraction_map_from", "residual/data")
    # scalar compositions
    c2, rg, lc, lr, nn = [float(x) for x in case["scalars"]]
    c2, rg = abs(c2), abs(rg)
    mag = c2 + rg + abs(lc) + abs(lr) + abs(nn)
    _cmp(ctx, float(fu.log_likelihood_from(chi_squared=c2, noise_normalization=nn)), -0.5 * (c2 + nn), RT * mag + 1e-300,
         "util/log_likelihood_from", "-(chi2+norm)/2")
    _cmp(ctx, float(fu.log_likelihood_with_regularization_from(chi_squared=c2, regularization_term=rg, noise_normalization=nn)),
         -0.5 * (c2 + rg + nn), RT * mag + 1e-300, "util/log_likelihood_with_regularization_from", "-(chi2+reg+norm)/2")
    _cmp(ctx, float(fu.log_evidence_from(chi_squared=c2, regularization_term=rg, log_curvature_regularization_term=lc,
                                         log_regularization_term=lr, noise_normalization=nn)),
         -0.5 * (c2 + rg + lc - lr + nn), RT * mag + 1e-300, "util/log_evidence_from", "-(chi2+reg+logdet(F+H)-logdet(H)+norm)/2")


# ---------------------------------------------------------------------------------------------
# sub-check: evidence (real inversion)
# ---------------------------------------------------------------------------------------------
def _logdet(a):
    """(sign, log|det|, cond, ambiguity).  Kernel-type regularization matrices are numerical inverses and symmetric
    only to ~1e-11 relative; a Cholesky factorisation reads the lower triangle, LU reads everything.  The reference
    is taken on (A+A^T)/2 and the spread between the readings (full / lower / upper triangle) is the ambiguity of
    the matrix itself, added to the tolerance."""
    if a.shape[0] == 0:
        return 1.0, 0.0, 1.0, 0.0
    sign, ld = np.linalg.slogdet((a + a.T) / 2.0)
    lo = np.tril(a) + np.tril(a, -1).T
    up = np.triu(a) + np.triu(a, 1).T
    amb = max(abs(float(np.linalg.slogdet(x)[1]) - float(ld)) for x in (a, lo, up))
    return float(sign), float(ld), float(np.linalg.cond(a)), (amb if np.isfinite(amb) else 0.0)


def _ld_tol(ref, n, cond):
    return max(1e-9 * abs(ref), 50.0 * max(n, 1) * EPS * cond)


def _reg_index(objs, regs):
    """Index set of the parameters of regularized objects, from the case (not from the inversion)."""
    idx, start = [], 0
    for o, has_reg in zip(objs, regs):
        k = int(np.asarray(o.mapping_matrix).shape[1])
        if has_reg:
            idx.extend(range(start, start + k))
        start += k
    return np.asarray(idx, dtype=int), start


def check_terms(ctx, inv, fh, h, s, idx, start, rl, prefix):
    """Compare the three inversion terms with s_r^T H_rr s_r, slogdet((F+H)_rr), slogdet(H_rr).  Returns None when the case
    ends here (exception / ill-conditioning, counted), else a dict with the references, tolerances and `ok`."""
    from autoarray import exc
    sr = s[idx]
    h_rr = h[np.ix_(idx, idx)]
    fh_rr = fh[np.ix_(idx, idx)]
    reg_ref = float(sr @ h_rr @ sr)
    reg_tol = 1e-10 * float(np.abs(sr) @ np.abs(h_rr) @ np.abs(sr)) + 1e-300
    sg_fh, ld_fh, c_fh, amb_fh = _logdet(fh_rr)
    sg_h, ld_h, c_h, amb_h = _logdet(h_rr)
    nr = len(idx)
    ctx.label("cond(H):%s" % ("<1e6" if c_h < 1e6 else "1e6..1e10" if c_h < 1e10 else ">=1e10") if nr else "cond(H):empty")
    skip_ld = (not np.isfinite(c_fh)) or (not np.isfinite(c_h)) or max(c_fh, c_h) > 1e13 or sg_fh <= 0 or sg_h <= 0
    tol_fh = _ld_tol(ld_fh, nr, c_fh) + 2.0 * amb_fh
    tol_h = _ld_tol(ld_h, nr, c_h) + 2.0 * amb_h
    ctx.label("symmetry-ambiguity:%s" % ("some" if max(amb_fh, amb_h) > 1e-9 else "none"))

    def term(name):
        try:
            return float(getattr(inv, name))
        except exc.InversionException:
            ctx.check(max(c_fh, c_h) > 1e12 or not np.isfinite(max(c_fh, c_h)), "%s/%s/unexpected-InversionException" % (prefix, name),
                      "%s raised InversionException with cond((F+H)_rr)=%.2e cond(H_rr)=%.2e, %d regularized of %d parameters" % (
                          name, c_fh, c_h, nr, start))
            return None

    got_reg = term("regularization_term")
    got_fh = term("log_det_curvature_reg_matrix_term")
    got_h = term("log_det_regularization_matrix_term")
    if got_reg is None or got_fh is None or got_h is None:
        ctx.tie(); ctx.label("raised:InversionException")
        return None
    ok = _cmp(ctx, got_reg, reg_ref, reg_tol, "%s/regularization_term/%s" % (prefix, rl), "s_r^T H_rr s_r over regularized parameters")
    if skip_ld:
        ctx.tie(); ctx.label("cond>1e13:logdet-skipped")
        return None
    ok &= _cmp(ctx, got_fh, ld_fh, tol_fh, "%s/log_det_curvature_reg_matrix_term/%s" % (prefix, rl),
               "log det (F+H) over regularized parameters (cond %.1e)" % c_fh)
    ok &= _cmp(ctx, got_h, ld_h, tol_h, "%s/log_det_regularization_matrix_term/%s" % (prefix, rl),
               "log det H over regularized parameters (cond %.1e)" % c_h)
    return {"ok": ok, "reg": reg_ref, "reg_tol": reg_tol, "ld_fh": ld_fh, "tol_fh": tol_fh, "ld_h": ld_h, "tol_h": tol_h,
            "got": (got_reg, got_fh, got_h)}


def check_evidence(ctx, fit, t, ref, tol, bad, rl, key_prefix, out):
    """Composition of the evidence from checked terms; fills `out`, returns the set of failed scalar names."""
    chi2, nn = ref["chi_squared"], ref["noise_normalization"]
    ev_ref = -0.5 * (chi2 + t["reg"] + t["ld_fh"] - t["ld_h"] + nn)
    ev_tol = 0.5 * (tol["chi_squared"] + t["reg_tol"] + t["tol_fh"] + t["tol_h"] + tol["noise_normalization"])
    lr_ref = -0.5 * (chi2 + t["reg"] + nn)
    lr_tol = 0.5 * (tol["chi_squared"] + t["reg_tol"] + tol["noise_normalization"])
    failed = set()
    out["log_evidence"] = float(fit.log_evidence)
    out["log_likelihood_with_regularization"] = float(fit.log_likelihood_with_regularization)
    out["figure_of_merit"] = float(fit.figure_of_merit)
    if t["ok"] and not ({"chi_squared", "noise_normalization"} & bad):
        # the terms are right: the composition must be too
        if not _cmp(ctx, out["log_evidence"], ev_ref, ev_tol, "%s/log_evidence/%s" % (key_prefix, rl),
                    "-(chi2 + sHs + logdet(F+H) - logdet(H) + norm)/2 = -(%.6g + %.6g + %.6g - %.6g + %.6g)/2" % (
                        chi2, t["reg"], t["ld_fh"], t["ld_h"], nn)):
            failed |= {"log_evidence", "figure_of_merit"}
        if not _cmp(ctx, out["log_likelihood_with_regularization"], lr_ref, lr_tol,
                    "%s/log_likelihood_with_regularization" % key_prefix, "-(chi2 + sHs + norm)/2"):
            failed.add("log_likelihood_with_regularization")
    else:
        failed |= {"log_evidence", "log_likelihood_with_regularization", "figure_of_merit"}
    ctx.check(_same(out["figure_of_merit"], out["log_evidence"]), "%s/figure_of_merit-not-log-evidence" % key_prefix,
              "inversion present: figure_of_merit %r != log_evidence %r" % (out["figure_of_merit"], out["log_evidence"]))
    return failed


def body_evidence(case, ctx):
    import autoarray as aa
    from autoarray import exc
    scene.scene_labels(case, ctx)
    m = np.asarray(case["mask"], dtype=bool)
    _garbage_labels(case, ctx, m)
    sc = scene.build_scene(case)
    mask = sc.mask
    regs = [o.get("reg") is not None for o in case["objs"]]
    rl = "all" if all(regs) else ("none" if not any(regs) else "partial")
    ctx.label("reglist:%s" % rl, "solver:%s" % ("positive-only" if case["positive_only"] else "unconstrained"),
              "formalism:%s" % ("w_tilde" if case["use_w_tilde"] else "mapping"))
    ctx.nt(rl == "partial" or (bool(m.any()) and _nonzero_garbage(case["g1"])))
    settings = aa.SettingsInversion(use_w_tilde=case["use_w_tilde"], use_positive_only_solver=case["positive_only"],
                                    force_edge_pixels_to_zeros=False, no_regularization_add_to_curvature_diag_value=1e-3)
    inv = aa.Inversion(dataset=sc.dataset, linear_obj_list=sc.objs, settings=settings, preloads=aa.Preloads())
    idx, start = _reg_index(sc.objs, regs)
    # inputs of the composition: copied before any derived quantity is read
    fh = np.array(inv.curvature_reg_matrix, dtype=float).copy()
    h = np.array(inv.regularization_matrix, dtype=float).copy()
    ctx.check(fh.shape == (start, start) and h.shape == (start, start), "evidence/matrix-shape",
              "F+H %s, H %s, expected %d parameters" % (fh.shape, h.shape, start))
    try:
        s = np.array(inv.reconstruction, dtype=float).copy()
        model = np.array(inv.mapped_reconstructed_data, dtype=float).copy()
    except exc.InversionException:
        # singular system or the documented "all values of a mapper identical" rejection (C05's subject): no
        # reconstruction, hence no evidence to check
        ctx.tie(); ctx.label("raised:InversionException@reconstruction")
        return
    if not (np.all(np.isfinite(s)) and np.all(np.isfinite(model))):
        ctx.tie(); ctx.label("reconstruction:non-finite-skipped")
        return
    t = check_terms(ctx, inv, fh, h, s, idx, start, rl, "evidence")
    if t is None:
        return
    # the fit: data seen by the fit = case data (+ sky - sky), model = mapped reconstructed data
    sky = float(case["sky"])
    data_in = np.asarray(case["data"], dtype=float) + sky if sky != 0.0 else np.asarray(case["data"], dtype=float)
    ref, tol = reference(data_in, case["noise"], model, sky)
    scal, failed = {}, set()
    for mode, g in (("slim", None), ("native", case["g1"]), ("native2", case["g2"])):
        if mode == "slim":
            fit = _slim_fit(mask, data_in, case["noise"], model, sky, inversion=inv)
        else:
            fit = _native_fit(mask, m, data_in, case["noise"], model, sky, g, inversion=inv)
        md = "slim" if mode == "slim" else "native"
        out, bad = observe_fit(fit, m, md, ref, tol, ctx, maps=MAPS[:4])  # residual flux fraction: sub-check fit
        failed |= bad
        failed |= check_evidence(ctx, fit, t, ref, tol, bad, rl, "evidence/%s" % md, out)
        scal[mode] = out
    _metamorphic(ctx, scal["native"], scal["native2"], "evidence", failed)


# ---------------------------------------------------------------------------------------------
# sub-check: multi (several inversions + fits in one process through the default arguments)
# ---------------------------------------------------------------------------------------------
def _normal_equations(case, sc, eps):
    """D, F (+eps on unregularized diagonals) and H from an independent convolution operator and the linear objects
    themselves - nothing here passes through an inversion, its preloads or its settings."""
    from scipy.linalg import block_diag
    from vp.ref import conv as refconv
    m = np.asarray(case["mask"], dtype=bool)
    a_mask, _, _ = refconv.operators(m, np.asarray(case["kernel"], dtype=float))
    mats = [np.asarray(o.mapping_matrix, dtype=float) for o in sc.objs]
    b = a_mask @ np.hstack(mats)
    d = np.asarray(case["data"], dtype=float); n = np.asarray(case["noise"], dtype=float)
    dvec = b.T @ (d / n ** 2)
    bn = b / n[:, None]
    f = bn.T @ bn
    start = 0
    for o, mat in zip(sc.objs, mats):
        k = mat.shape[1]
        if o.regularization is None:
            f[np.arange(start, start + k), np.arange(start, start + k)] += eps
        start += k
    h = block_diag(*[np.asarray(o.regularization_matrix, dtype=float) for o in sc.objs])
    # rounding scales: magnitude of the summed terms (PSF weights x mapping entries may cancel exactly, e.g.
    # 0.039*0.74 - 0.026*1.11, leaving only rounding noise in B)
    babs = np.abs(a_mask) @ np.abs(np.hstack(mats))
    scale_d = float((babs.T @ np.abs(d / n ** 2)).max()) + 1e-300
    scale_f = float(((babs / n[:, None]).T @ (babs / n[:, None])).max()) + eps
    return dvec, f, h, scale_d, scale_f


def _shared_defaults():
    """Every Preloads / SettingsInversion instance bound as a default argument of the inversion entry points."""
    import inspect
    from autoarray.preloads import Preloads
    from autoarray.inversion.inversion.settings import SettingsInversion
    from autoarray.inversion.inversion import factory, inversion_util
    from autoarray.inversion.inversion.abstract import AbstractInversion
    from autoarray.inversion.inversion.imaging.abstract import AbstractInversionImaging
    from autoarray.inversion.inversion.imaging.mapping import InversionImagingMapping
    from autoarray.inversion.inversion.imaging.w_tilde import InversionImagingWTilde
    from autoarray.inversion.pixelization.mesh.rectangular import Rectangular
    fns = [("inversion_from", factory.inversion_from), ("inversion_imaging_from", factory.inversion_imaging_from),
           ("AbstractInversion", AbstractInversion.__init__), ("AbstractInversionImaging", AbstractInversionImaging.__init__),
           ("InversionImagingMapping", InversionImagingMapping.__init__), ("InversionImagingWTilde", InversionImagingWTilde.__init__),
           ("Rectangular.mapper_grids_from", Rectangular.mapper_grids_from)]
    for name, fn in inspect.getmembers(inversion_util, inspect.isfunction):
        fns.append(("inversion_util." + name, fn))
    out = []
    for name, fn in fns:
        for pname, par in inspect.signature(fn).parameters.items():
            if isinstance(par.default, (Preloads, SettingsInversion)):
                out.append(("%s(%s=)" % (name, pname), par.default))
    return out


def _attr_repr(v):
    if v is None or isinstance(v, (bool, int, float, str)):
        return repr(v)
    try:
        a = np.asarray(v)
        return "%s%s" % (type(v).__name__, a.shape)
    except Exception:
        return type(v).__name__


def check_shared_defaults(ctx):
    for where, obj in _shared_defaults():
        fresh = type(obj)()
        a, b = vars(obj), vars(fresh)
        for k in sorted(set(a) | set(b)):
            same = (k in a and k in b) and (a[k] is b[k] or (type(a[k]) is type(b[k]) and _attr_repr(a[k]) == _attr_repr(b[k])
                                                             and not isinstance(a[k], np.ndarray) and a[k] == b[k]))
            ctx.check(same, "multi/shared-default-mutated/%s.%s" % (type(obj).__name__, k),
                      lambda: "default argument %s: attribute %s is %s, a fresh %s() has %s" % (
                          where, k, _attr_repr(a.get(k, "<missing>")), type(obj).__name__, _attr_repr(b.get(k, "<missing>"))))


def _multi_inversion(aa, c, sc, isolated):
    st_ = c["settings"]
    kw = {}
    if st_ is not None:
        kw["settings"] = aa.SettingsInversion(use_w_tilde=st_["use_w_tilde"], use_positive_only_solver=st_["positive_only"],
                                              force_edge_pixels_to_zeros=False, no_regularization_add_to_curvature_diag_value=1e-3)
    elif isolated:
        kw["settings"] = aa.SettingsInversion()
    if isolated:
        kw["preloads"] = aa.Preloads()
    return aa.Inversion(dataset=sc.dataset, linear_obj_list=sc.objs, **kw)


def body_multi(case, ctx):
    import autoarray as aa
    from autoarray import exc
    ctx.label("scenes:%d" % len(case["scenes"]))
    ctx.nt(len(case["scenes"]) >= 2)
    for i, c in enumerate(case["scenes"]):
        pos = "first" if i == 0 else "later"
        prefix = "multi/%s" % pos
        ctx.label("scene:%s" % c["kind"], "settings:%s" % ("omitted" if c["settings"] is None else "explicit"))
        types = [o["type"] for o in c["objs"]]
        ctx.label("objs:func-only" if all(t == "func" for t in types) else "objs:with-mapper")
        m = np.asarray(c["mask"], dtype=bool)
        sc = scene.build_scene(c)
        regs = [o.get("reg") is not None for o in c["objs"]]
        rl = "all" if all(regs) else ("none" if not any(regs) else "partial")
        ctx.label("reglist:%s" % rl)
        # through the factory with `preloads` omitted (and `settings` omitted in half of the scenes)
        inv = _multi_inversion(aa, c, sc, isolated=False)
        idx, start = _reg_index(sc.objs, regs)
        dvec, f_ref, h_ref, scale_d, scale_f = _normal_equations(c, sc, float(inv.settings.no_regularization_add_to_curvature_diag_value))
        hmax = float(np.abs(h_ref).max()) if h_ref.size else 0.0
        fh = np.array(inv.curvature_reg_matrix, dtype=float).copy()
        h = np.array(inv.regularization_matrix, dtype=float).copy()
        d_got = np.array(inv.data_vector, dtype=float).copy()
        ok = _cmp(ctx, h, h_ref, 1e-12 * hmax, prefix + "/regularization_matrix", "regularization matrix vs block_diag of the objects' own matrices")
        ok &= _cmp(ctx, fh, f_ref + h_ref, 1e-8 * (scale_f + hmax), prefix + "/curvature_reg_matrix", "F+H vs B^T N^-1 B (+eps) + H of this scene")
        ok &= _cmp(ctx, d_got, dvec, 1e-8 * scale_d, prefix + "/data_vector", "data vector vs B^T N^-1 d of this scene")
        if not ok:
            continue
        try:
            s = np.array(inv.reconstruction, dtype=float).copy()
            model = np.array(inv.mapped_reconstructed_data, dtype=float).copy()
        except exc.InversionException:
            ctx.tie(); ctx.label("raised:InversionException@reconstruction")
            continue
        if not (np.all(np.isfinite(s)) and np.all(np.isfinite(model))):
            ctx.tie(); ctx.label("reconstruction:non-finite-skipped")
            continue
        t = check_terms(ctx, inv, fh, h_ref, s, idx, start, rl, prefix)
        if t is None:
            continue
        ref, tol = reference(c["data"], c["noise"], model, 0.0)
        fit = _slim_fit(sc.mask, c["data"], c["noise"], model, 0.0, inversion=inv)
        out, bad = observe_fit(fit, m, "slim", ref, tol, ctx, maps=MAPS[:4], prefix=prefix)
        failed = bad | check_evidence(ctx, fit, t, ref, tol, bad, rl, prefix, out)
        # differential: the same scene solved in isolation (fresh objects, explicit fresh Preloads and settings)
        if t["ok"] and not failed:
            sc2 = scene.build_scene(c)
            inv2 = _multi_inversion(aa, c, sc2, isolated=True)
            try:
                s2 = np.array(inv2.reconstruction, dtype=float)
                twin = (float(inv2.regularization_term), float(inv2.log_det_curvature_reg_matrix_term),
                        float(inv2.log_det_regularization_matrix_term))
            except exc.InversionException:
                ctx.fail(prefix + "/isolated-twin-raises", "the same scene raises InversionException when solved in isolation")
                continue
            _cmp(ctx, s, s2, 1e-9 * (float(np.abs(s2).max()) + 1e-300), prefix + "/reconstruction-differs-from-isolated",
                 "reconstruction through the default arguments vs the same scene in isolation")
            for nm, a, b, tl in zip(("regularization_term", "log_det_curvature_reg_matrix_term", "log_det_regularization_matrix_term"),
                                    t["got"], twin, (t["reg_tol"], t["tol_fh"], t["tol_h"])):
                _cmp(ctx, a, b, tl, "%s/%s-differs-from-isolated" % (prefix, nm), "%s through the default arguments vs in isolation" % nm)
    check_shared_defaults(ctx)


# ---------------------------------------------------------------------------------------------
# sub-check: scale (the same image in other units)
# ---------------------------------------------------------------------------------------------
DIMENSIONLESS = ("normalized_residual_map", "chi_squared_map", "signal_to_noise_map", "residual_flux_fraction_map")


def body_scale(case, ctx):
    m, mask = _mask_obj(case)
    un = ~m
    n = int(un.sum())
    ctx.label("data:%s" % case["data_kind"], "model:%s" % case["model_kind"], "sky:nonzero" if case["sky"] != 0.0 else "sky:zero",
              "masked:none" if not m.any() else "masked:some")
    ctx.nt(True)
    base = {nm: np.asarray(case[nm], dtype=float) for nm in ("data", "noise", "model")}
    sky0 = float(case["sky"])
    ref0, tol0 = reference(base["data"], base["noise"], base["model"], sky0)
    obs0 = {}
    for mode in ("slim", "native"):
        fit = _slim_fit(mask, base["data"], base["noise"], base["model"], sky0) if mode == "slim" else \
            _native_fit(mask, m, base["data"], base["noise"], base["model"], sky0, case["g1"])
        maps = {}
        scal, bad = observe_fit(fit, m, mode, ref0, tol0, ctx, maps_out=maps)
        obs0[mode] = (maps, scal, bad)
    for c in case["scales"]:
        c = float(c)
        pow2 = math.frexp(c)[0] == 0.5
        regime = "small" if c < 1.0 else "large"
        ctx.label("scale:%s-%s" % (regime, "pow2" if pow2 else "nonpow"))
        prefix = "scale-%s" % regime
        d, s_, mo, sky = base["data"] * c, base["noise"] * c, base["model"] * c, sky0 * c
        # garbage carried in masked pixels is left as it is: it must not matter
        ref, tol = reference(d, s_, mo, sky)
        for mode in ("slim", "native"):
            fit = _slim_fit(mask, d, s_, mo, sky) if mode == "slim" else _native_fit(mask, m, d, s_, mo, sky, case["g1"])
            maps = {}
            scal, bad = observe_fit(fit, m, mode, ref, tol, ctx, prefix=prefix, maps_out=maps)
            maps0, scal0, bad0 = obs0[mode]
            # metamorphic: dimensionless quantities do not change, the residual scales.  Exact powers of two commute with
            # every floating-point operation involved (no under/overflow by construction) -> rtol 1e-12, atol 0; other
            # factors round the inputs, so the operand-relative tolerances of the base oracle apply (twice)
            rel_bad = set()
            for name in ("residual_map",) + DIMENSIONLESS:
                if name in bad or name in bad0 or name not in maps or name not in maps0 or any(x in rel_bad for x in DEPENDS[name]):
                    rel_bad.add(name)
                    continue
                a = maps[name] / c if name == "residual_map" else maps[name]
                b = maps0[name]
                sel = ref["_rff_ok"] & ref0["_rff_ok"] if name == "residual_flux_fraction_map" else np.ones(n, dtype=bool)
                tl = 1e-12 * np.abs(b) if pow2 else 2.0 * tol0[name] + 1e-12 * np.abs(b)
                if not _cmp(ctx, a[sel], b[sel], tl[sel], "%s/%s/%s/not-scale-invariant" % (prefix, mode, name),
                            "%s after multiplying data, noise, model and sky by %r vs before" % (name, c)):
                    rel_bad.add(name)
            for name in ("chi_squared", "reduced_chi_squared"):
                if name in bad or name in bad0 or any(x in rel_bad for x in DEPENDS[name]):
                    rel_bad.add(name)
                    continue
                tl = 1e-12 * abs(scal0[name]) if pow2 else 2.0 * tol0[name] + 1e-12 * abs(scal0[name])
                if not _cmp(ctx, scal[name], scal0[name], tl, "%s/%s/%s/not-scale-invariant" % (prefix, mode, name),
                            "%s after multiplying data, noise, model and sky by %r vs before" % (name, c)):
                    rel_bad.add(name)
            if "noise_normalization" not in bad and "noise_normalization" not in bad0:
                shift = 2.0 * n * math.log(c)
                tl = 1e-12 * (abs(shift) + float(np.abs(np.log(2 * np.pi * base["noise"] ** 2)).sum())) + 1e-13 * n + tol0["noise_normalization"]
                _cmp(ctx, scal["noise_normalization"] - scal0["noise_normalization"], shift, tl,
                     "%s/%s/noise_normalization/not-shifted-by-2n-log-scale" % (prefix, mode),
                     "noise normalization changes by 2 n log(%r) when the units change" % c)


# ---------------------------------------------------------------------------------------------
# sub-check: complex_defs (the complex definitions of fit_util, called directly)
# ---------------------------------------------------------------------------------------------
def body_complex(case, ctx):
    """Oracle written from the documented definitions, component-wise: normalized residual = re(r)/re(s) + 1j im(r)/im(s);
    chi-squared map = (re(r)/re(s))^2 + 1j (im(r)/im(s))^2; chi-squared = sum of the real parts + sum of the imaginary
    parts of the chi-squared map; noise normalization = sum log(2 pi re(s)^2) + sum log(2 pi im(s)^2)."""
    import autoarray as aa
    from autoarray.fit import fit_util as fu
    c = float(case["scale"])
    n = len(case["data"][0])
    ctx.label("scale:%s" % ("1" if c == 1.0 else ("small" if c < 1.0 else "large") + ("-pow2" if math.frexp(c)[0] == 0.5 else "-nonpow")),
              "container:%s" % case["container"], "zeros:%s" % ("allowed" if case["zeros"] else "none"), "n:%s" % ("1" if n == 1 else ">1"))
    ctx.nt(True)
    re = {k: np.asarray(case[k][0], dtype=float) for k in ("data", "model", "resid", "noise", "chimap")}
    im = {k: np.asarray(case[k][1], dtype=float) for k in ("data", "model", "resid", "noise", "chimap")}
    for k in ("data", "model", "resid", "noise"):          # the same visibilities in other units
        re[k] = re[k] * c
        im[k] = im[k] * c

    def cplx(k):
        return re[k] + 1j * im[k]

    def wrap(k):
        if case["container"] == "visibilities":
            return (aa.VisibilitiesNoiseMap if k == "noise" else aa.Visibilities)(visibilities=cplx(k))
        return cplx(k)

    def cmp_complex(got, want_re, want_im, tol_re, tol_im, key, what):
        got = np.asarray(got)
        if got.shape != np.shape(want_re):
            ctx.fail(key + "/shape", "%s has shape %s, expected %s" % (what, got.shape, np.shape(want_re)))
            return False
        ok = _cmp(ctx, got.real, want_re, tol_re, key + "/real", what + ", real part")
        return _cmp(ctx, got.imag, want_im, tol_im, key + "/imag", what + ", imaginary part") and ok

    # residual of complex data (the plain residual_map_from is what FitInterferometer uses): component-wise difference
    got = fu.residual_map_from(data=wrap("data"), model_data=wrap("model"))
    cmp_complex(got, re["data"] - re["model"], im["data"] - im["model"], RT * (np.abs(re["data"]) + np.abs(re["model"])),
                RT * (np.abs(im["data"]) + np.abs(im["model"])), "complex/residual_map_from", "data - model")
    nr_re, nr_im = re["resid"] / re["noise"], im["resid"] / im["noise"]
    got = fu.normalized_residual_map_complex_from(residual_map=wrap("resid"), noise_map=wrap("noise"))
    cmp_complex(got, nr_re, nr_im, RT * np.abs(nr_re), RT * np.abs(nr_im), "complex/normalized_residual_map_complex_from",
                "re(r)/re(s) + 1j im(r)/im(s)")
    got = fu.chi_squared_map_complex_from(residual_map=wrap("resid"), noise_map=wrap("noise"))
    cmp_complex(got, nr_re ** 2, nr_im ** 2, 4 * RT * nr_re ** 2, 4 * RT * nr_im ** 2, "complex/chi_squared_map_complex_from",
                "(re(r)/re(s))^2 + 1j (im(r)/im(s))^2")
    chi_ref = float(re["chimap"].sum() + im["chimap"].sum())
    got = fu.chi_squared_complex_from(chi_squared_map=wrap("chimap"))
    ctx.check(np.ndim(got) == 0 and not np.iscomplexobj(got), "complex/chi_squared_complex_from/not-a-real-scalar", "got %r" % (got,))
    _cmp(ctx, float(np.real(got)), chi_ref, RT * chi_ref + 1e-300, "complex/chi_squared_complex_from", "sum re(chi2 map) + sum im(chi2 map)")
    logs = np.concatenate([np.log(2 * np.pi * re["noise"] ** 2), np.log(2 * np.pi * im["noise"] ** 2)])
    got = fu.noise_normalization_complex_from(noise_map=wrap("noise"))
    ctx.check(np.ndim(got) == 0 and not np.iscomplexobj(got), "complex/noise_normalization_complex_from/not-a-real-scalar", "got %r" % (got,))
    _cmp(ctx, float(np.real(got)), float(logs.sum()), RT * float(np.abs(logs).sum()) + 1e-13 * 2 * n,
         "complex/noise_normalization_complex_from", "sum log(2 pi re(s)^2) + sum log(2 pi im(s)^2)")


SUBCHECKS = [
    SubCheck("scale", body_scale, strategy=scale_cases(), examples={"quick": 3200, "thorough": 24000}, shards={"quick": 16, "thorough": 16}),
    SubCheck("multi", body_multi, strategy=multi_cases(), examples={"quick": 1600, "thorough": 8000}, shards={"quick": 16, "thorough": 16}),
    SubCheck("complex_defs", body_complex, strategy=complex_cases(), examples={"quick": 1600, "thorough": 32000}, shards={"quick": 16, "thorough": 16}),
    SubCheck("fit", body_fit, strategy=fit_cases(), examples={"quick": 3200, "thorough": 48000}, shards={"quick": 16, "thorough": 16}),
    SubCheck("util", body_util, strategy=util_cases(), examples={"quick": 2400, "thorough": 32000}, shards={"quick": 16, "thorough": 16}),
    SubCheck("evidence", body_evidence, strategy=evidence_cases(), examples={"quick": 2400, "thorough": 32000}, shards={"quick": 16, "thorough": 16}),
]
