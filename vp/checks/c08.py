"""C08 — fit statistics and evidence follow their definitions on unmasked pixels only."""
import math

import numpy as np
from hypothesis import strategies as st

from vp import gens, scene
from vp.engine import SubCheck

PROPERTY = "C08"
RULE = (
    "fit: Hypothesis masks up to 8x8 (any family of vp.gens.masks), data of any sign (positive / negative / mixed / "
    "with exact zeros), positive noise, arbitrary model values, background-sky level zero or non-zero; every case is "
    "evaluated three times through a thin FitImaging subclass (model_data supplied, as downstream packages do): slim "
    "arrays with use_mask_in_fit=False, and native-stored arrays with use_mask_in_fit=True twice with two different "
    "sets of values carried in the masked pixels (model always via skip_mask=True; data and noise either zero-filled, "
    "so a sky offset turns them into -sky, or carrying generated values via skip_mask=True; finite values of magnitude "
    "up to 1e6 and, in a third of the cases, nan/inf). util: the fit_util functions called directly (masked variants "
    "on native arrays with garbage in every input incl. residual / chi-squared maps, plain variants on slim vectors, "
    "ndarray or Array2D containers, scalar compositions with generated scalars). evidence: C04-style scenarios "
    "(1..3 linear objects from rectangular / Delaunay mappers and function lists, each with or without "
    "regularization of type constant / constant_zeroth / gaussian_kernel / exponential_kernel) solved by a real "
    "aa.Inversion (mapping and w-tilde formalism, unconstrained and positive-only solver), the fit taking "
    "model_data = inversion.mapped_reconstructed_data, again slim + native x2 garbage. Oracle: plain numpy on "
    "values[~mask]: residual, normalized residual, chi-squared map, chi-squared, reduced chi-squared, noise "
    "normalization, log likelihood, S/N map clipped at 0, residual flux fraction = residual/data; regularization term "
    "s_r^T H_rr s_r, slogdet((F+H)_rr), slogdet(H_rr) with r = the parameters of the regularized objects (index set "
    "computed from the case, not from the inversion), evidence = -(chi2 + sHs + logdet(F+H) - logdet(H) + norm)/2, "
    "figure of merit == evidence iff an inversion is present else == log likelihood. Metamorphic: the two native "
    "evaluations (different masked garbage) give bit-identical scalars. Non-trivial = the mask has masked pixels "
    "carrying non-zero garbage, or the linear-object list is partially unregularized; distinct = SHA-1 of the "
    "canonical case."
)
ASSUMPTIONS = [
    "the inversion's own reconstruction s, regularization_matrix H and curvature_reg_matrix F+H are inputs here (copied "
    "before any derived quantity is read); their content is checked by C04 / C05 / C07",
    "element-wise tolerances: 1e-12 relative to the magnitude of the operands (|data|+|sky|+|model|, divided by the "
    "noise where applicable), sums 1e-12 relative to the sum of absolute terms; log-determinants "
    "max(1e-9|ref|, 50 n eps cond) (first-order perturbation bound n*eps*cond of log det, the regularization matrices "
    "carry a 1e-8 ridge so cond ~ 1e9 is the normal case) plus twice the spread of log det between the full / "
    "lower-triangle / upper-triangle readings of the (numerically not exactly symmetric) matrix; comparisons with "
    "cond > 1e13 are skipped and counted",
    "residual-flux-fraction is compared only where |data - sky| > 1e-12 (|data|+|sky|) and the quotient is finite "
    "(division by ~0 is undefined; excluded pixels are counted as tie-band exclusions)",
    "an InversionException from inversion.reconstruction (singular system, or the documented rejection of a mapper whose "
    "values are all identical - C05's subject) ends the case (counted); one from a log-determinant term is accepted only "
    "when cond((F+H)_rr) or cond(H_rr) exceeds 1e12",
    "a quantity whose input quantity already failed (data flow residual -> chi-squared map -> chi-squared -> likelihood -> "
    "evidence) is not compared again, so one root cause is reported under one key",
    "the content of masked entries of the returned native maps is not constrained (the statement is about unmasked "
    "pixels); only their shape is",
]
TECHNIQUE = ("Hypothesis-generated masks / datasets / inversions against a plain-numpy definitional oracle on values[~mask], "
             "plus a metamorphic relation (masked-pixel garbage leaves every scalar bit-identical)")

EPS = float(np.finfo(float).eps)
RT = 1e-12
_TOK = {"nan": float("nan"), "inf": float("inf"), "-inf": float("-inf")}


def _f(v):
    return _TOK[v] if isinstance(v, str) else float(v)


def _vec(lst):
    return np.array([_f(v) for v in lst], dtype=float)


# ---------------------------------------------------------------------------------------------
# strategies
# ---------------------------------------------------------------------------------------------
def garbage_pool(nonfinite):
    elems = [gens.reals(-10, 10), gens.reals(-10, 10), st.sampled_from([1e6, -1e6, 1e-6, 0.0, 123.456, -77.0]),
             st.floats(-1e3, 1e3, allow_nan=False, allow_infinity=False)]
    if nonfinite:
        elems.append(st.sampled_from(["nan", "inf", "-inf"]))
    return st.lists(st.one_of(*elems), min_size=3, max_size=6)


@st.composite
def garbage_sets(draw, k, names=("data", "noise", "model"), always=("model",)):
    """Two sets of masked-pixel values.  A quantity not in `always` is zero-filled (None) in half of the cases.
    Each set spreads a small drawn pool of values over the k masked pixels (few draws, full lists in the case)."""
    nonfinite = draw(st.integers(0, 2)) == 0
    carried = {nm: (nm in always) or draw(st.booleans()) for nm in names}
    sets = []
    for _ in range(2):
        pool = draw(garbage_pool(nonfinite))
        g = {}
        for nm in names:
            if not carried[nm]:
                g[nm] = None
                continue
            a = draw(st.integers(0, 997))
            g[nm] = [pool[(a + j * (j + 3) // 2 + (a % 5) * j) % len(pool)] for j in range(k)]
        sets.append(g)
    return sets


def _data_values(draw, n, kind):
    if kind == "positive":
        return draw(st.lists(gens.reals(0.1, 10), min_size=n, max_size=n))
    if kind == "negative":
        return draw(st.lists(gens.reals(-10, -0.1), min_size=n, max_size=n))
    vals = draw(st.lists(gens.reals(-10, 10), min_size=n, max_size=n))
    if kind == "with-zeros":
        z = draw(st.lists(st.booleans(), min_size=n, max_size=n))
        vals = [0.0 if b else v for v, b in zip(vals, z)]
    return vals


def _sky(draw):
    return draw(st.one_of(st.just(0.0), st.just(0.0), gens.reals(-5, 5), st.sampled_from([1.5, -0.25, 100.0])))


@st.composite
def fit_cases(draw):
    mask = draw(gens.masks(lo=1, hi=8, min_unmasked=1))
    n = sum(1 for r in mask for v in r if not v)
    k = sum(1 for r in mask for v in r if v)
    dk = draw(st.sampled_from(["positive", "any", "any", "negative", "with-zeros"]))
    data = _data_values(draw, n, dk)
    mk = draw(st.sampled_from(["any", "near-data", "equal-data"]))
    if mk == "any":
        model = draw(st.lists(gens.reals(-10, 10), min_size=n, max_size=n))
    elif mk == "near-data":
        dm = draw(st.lists(gens.reals(-1, 1), min_size=n, max_size=n))
        model = [d + e for d, e in zip(data, dm)]
    else:
        model = list(data)
    g = draw(garbage_sets(k))
    return {"mask": mask, "pixel_scales": draw(gens.pixel_scales()), "data": data, "data_kind": dk,
            "noise": draw(st.lists(gens.positives(0.05, 10.0), min_size=n, max_size=n)),
            "model": model, "model_kind": mk, "sky": _sky(draw), "g1": g[0], "g2": g[1]}


@st.composite
def util_cases(draw):
    mask = draw(gens.masks(lo=1, hi=7, min_unmasked=1))
    n = sum(1 for r in mask for v in r if not v)
    k = sum(1 for r in mask for v in r if v)
    names = ("data", "noise", "model", "resid", "chimap")
    g = draw(garbage_sets(k, names=names, always=names))
    return {"mask": mask,
            "data": _data_values(draw, n, draw(st.sampled_from(["positive", "any", "negative", "with-zeros"]))),
            "noise": draw(st.lists(gens.positives(0.05, 10.0), min_size=n, max_size=n)),
            "model": draw(st.lists(gens.reals(-10, 10), min_size=n, max_size=n)),
            "resid": draw(st.lists(gens.reals(-10, 10), min_size=n, max_size=n)),
            "chimap": draw(st.lists(gens.reals(0, 50), min_size=n, max_size=n)),
            "container": draw(st.sampled_from(["ndarray", "array2d"])),
            "mask_kind": draw(st.sampled_from(["Mask2D", "ndarray"])),
            "scalars": draw(st.lists(gens.reals(-50, 50), min_size=5, max_size=5)),
            "g1": g[0], "g2": g[1]}


REG_TYPES = ("constant", "constant", "constant_zeroth", "gaussian_kernel", "exponential_kernel")


@st.composite
def evidence_cases(draw):
    c = draw(scene.scenarios(max_objs=3,
                             img_kwargs=dict(max_inner=5, max_k=3, kernel_kinds=("nonneg", "normalised", "signed")),
                             obj_kwargs=dict(max_sub=2, max_mesh=4, reg_types=REG_TYPES, reg_none=True)))
    k = sum(1 for r in c["mask"] for v in r if v)
    if all(o.get("reg") is None for o in c["objs"]) and draw(st.integers(0, 3)) > 0:
        # wholly unregularized lists make every evidence term zero: keep them, but as a minority class
        o = c["objs"][draw(st.integers(0, len(c["objs"]) - 1))]
        o["reg"] = draw(scene.reg_specs(("constant",) if o["type"] == "func" else REG_TYPES, allow_none=False))
    c["use_w_tilde"] = draw(st.booleans())
    c["positive_only"] = draw(st.sampled_from([False, False, True]))
    c["sky"] = _sky(draw)
    g = draw(garbage_sets(k))
    c["g1"], c["g2"] = g
    return c


# ---------------------------------------------------------------------------------------------
# building fits
# ---------------------------------------------------------------------------------------------
_FIT_CLS = []


def _fit_cls():
    if not _FIT_CLS:
        import autoarray as aa

        class VPFitImaging(aa.FitImaging):
            """Thin subclass that supplies model_data / inversion, as downstream packages do."""

            def __init__(self, dataset, use_mask_in_fit, model_data, dataset_model=None, inversion=None):
                super().__init__(dataset=dataset, use_mask_in_fit=use_mask_in_fit, dataset_model=dataset_model)
                self._vp_model = model_data
                self._vp_inversion = inversion

            @property
            def model_data(self):
                return self._vp_model

            @property
            def inversion(self):
                return self._vp_inversion

        _FIT_CLS.append(VPFitImaging)
    return _FIT_CLS[0]


def _full(m, vals, garb):
    full = np.zeros(m.shape, dtype=float)
    full[~m] = vals
    if garb is not None and m.any():
        full[m] = _vec(garb)
    return full


def _slim_fit(mask, data, noise, model, sky, inversion=None):
    import autoarray as aa
    ds = aa.Imaging(data=aa.Array2D(values=np.array(data, dtype=float), mask=mask),
                    noise_map=aa.Array2D(values=np.array(noise, dtype=float), mask=mask))
    return _fit_cls()(ds, False, aa.Array2D(values=np.array(model, dtype=float), mask=mask),
                      dataset_model=aa.DatasetModel(background_sky_level=sky), inversion=inversion)


def _native_fit(mask, m, data, noise, model, sky, g, inversion=None):
    import autoarray as aa

    def arr(vals, garb):
        return aa.Array2D(values=_full(m, vals, garb), mask=mask, store_native=True, skip_mask=garb is not None)

    ds = aa.Imaging(data=arr(data, g["data"]), noise_map=arr(noise, g["noise"]))
    return _fit_cls()(ds, True, arr(model, g["model"]), dataset_model=aa.DatasetModel(background_sky_level=sky),
                      inversion=inversion)


def _nonzero_garbage(g):
    for lst in g.values():
        if lst is not None and any(isinstance(v, str) or v != 0.0 for v in lst):
            return True
    return False


# ---------------------------------------------------------------------------------------------
# oracle
# ---------------------------------------------------------------------------------------------
def reference(data, noise, model, sky):
    """Definitions on the unmasked values, with the tolerance of every quantity."""
    data = np.asarray(data, dtype=float); noise = np.asarray(noise, dtype=float); model = np.asarray(model, dtype=float)
    n = len(data)
    d = data - sky if sky != 0.0 else data
    sd = np.abs(data) + abs(sky)                  # operand magnitude of d
    sr = sd + np.abs(model)                       # operand magnitude of the residual
    r = d - model
    nr = r / noise
    cm = nr ** 2
    logs = np.log(2.0 * np.pi * noise ** 2)
    ref, tol = {}, {}
    ref["residual_map"], tol["residual_map"] = r, RT * sr
    ref["normalized_residual_map"], tol["normalized_residual_map"] = nr, RT * sr / noise
    ref["chi_squared_map"], tol["chi_squared_map"] = cm, 4 * RT * (sr / noise) ** 2
    ref["signal_to_noise_map"], tol["signal_to_noise_map"] = np.clip(d / noise, 0.0, None), RT * sd / noise
    ok = np.abs(d) > 1e-12 * sd                   # tie band of the residual flux fraction
    with np.errstate(all="ignore"):
        rff = np.where(ok, r / np.where(ok, d, 1.0), 0.0)
        ok = ok & np.isfinite(rff)                # quotient overflows for denormal data: excluded as well
        rff = np.where(ok, rff, 0.0)
        rel_d = np.where(ok, sd / np.where(ok, np.abs(d), 1.0), 0.0)
        tol_rff = RT * (np.abs(rff) * rel_d + np.where(ok, sr / np.where(ok, np.abs(d), 1.0), 0.0)) + 1e-300
    ref["residual_flux_fraction_map"], tol["residual_flux_fraction_map"] = rff, tol_rff
    ref["_rff_ok"] = ok
    chi2 = float(cm.sum())
    t_chi2 = float(tol["chi_squared_map"].sum()) + RT * chi2
    nn = float(logs.sum())
    t_nn = RT * float(np.abs(logs).sum()) + 1e-13 * n
    ref["chi_squared"], tol["chi_squared"] = chi2, t_chi2
    ref["reduced_chi_squared"], tol["reduced_chi_squared"] = chi2 / n, t_chi2 / n
    ref["noise_normalization"], tol["noise_normalization"] = nn, t_nn
    ref["log_likelihood"], tol["log_likelihood"] = -0.5 * (chi2 + nn), 0.5 * (t_chi2 + t_nn)
    return ref, tol


MAPS = ("residual_map", "normalized_residual_map", "chi_squared_map", "signal_to_noise_map", "residual_flux_fraction_map")
SCALARS = ("chi_squared", "reduced_chi_squared", "noise_normalization", "log_likelihood")


def _within(got, want, tol):
    got = np.asarray(got, dtype=float); want = np.asarray(want, dtype=float)
    if got.shape != want.shape:
        return False
    with np.errstate(all="ignore"):
        return bool(np.all(np.abs(got - want) <= tol))


def _cmp(ctx, got, want, tol, key, what):
    """Tolerance comparison; returns False when it failed under a known / already reported key."""
    ok = _within(got, want, tol)
    ctx.check(ok, key,
              lambda: "%s: got %s want %s (max|diff|=%s, tol max=%g)" % (
                  what, _s(got), _s(want), _maxdiff(got, want), float(np.max(tol)) if np.size(tol) else 0.0))
    return ok


def _s(x):
    s = np.array2string(np.asarray(x), precision=17, threshold=40, max_line_width=200)
    return s if len(s) < 400 else s[:400] + "..."


def _maxdiff(a, b):
    try:
        return float(np.nanmax(np.abs(np.asarray(a, dtype=float) - np.asarray(b, dtype=float))))
    except Exception:
        return "n/a"


# data flow of the implementation: a quantity whose input already failed is not compared again, so one root cause
# is reported under one key
DEPENDS = {"residual_map": (), "signal_to_noise_map": (), "normalized_residual_map": ("residual_map",),
           "chi_squared_map": ("residual_map",), "residual_flux_fraction_map": ("residual_map",),
           "chi_squared": ("chi_squared_map",), "reduced_chi_squared": ("chi_squared",), "noise_normalization": (),
           "log_likelihood": ("chi_squared", "noise_normalization")}


def observe_fit(fit, m, mode, ref, tol, ctx, maps=MAPS):
    """Compare every map / scalar of one fit object with the oracle; returns (observed scalars, failed names)."""
    un = ~m
    n = int(un.sum())
    want_shape = m.shape if mode == "native" else (n,)
    failed = set()
    for name in maps:
        if any(d in failed for d in DEPENDS[name]):
            failed.add(name)
            continue
        arr = np.asarray(getattr(fit, name))
        key = "fit/%s/%s" % (mode, name)
        if arr.shape != want_shape:
            failed.add(name)
            ctx.fail(key + "/shape", "%s has shape %s, expected %s" % (name, arr.shape, want_shape))
            continue
        got = np.asarray(arr[un] if mode == "native" else arr, dtype=float)
        if name == "residual_flux_fraction_map":
            ok = ref["_rff_ok"]
            ctx.tie(int((~ok).sum()))
            good = _within(got[ok], ref[name][ok], tol[name][ok])
            ctx.comparisons += 1
            if not good:
                failed.add(name)
                # discriminate the root cause: the chi-squared map returned under this name
                if _within(got, ref["chi_squared_map"], tol["chi_squared_map"]):
                    ctx.fail("fit/residual_flux_fraction_map/returns-chi-squared-map",
                             "%s mode: residual_flux_fraction_map equals the chi-squared map %s, not residual/data %s" % (
                                 mode, _s(got), _s(ref[name])))
                else:
                    ctx.fail(key, "residual_flux_fraction_map: got %s want %s" % (_s(got), _s(ref[name])))
            continue
        if not _cmp(ctx, got, ref[name], tol[name], key, "%s vs definition on values[~mask]" % name):
            failed.add(name)
    out = {}
    for name in SCALARS:
        out[name] = float(getattr(fit, name))
        if any(d in failed for d in DEPENDS[name]):
            failed.add(name)
            continue
        if not _cmp(ctx, out[name], ref[name], tol[name], "fit/%s/%s" % (mode, name), "%s vs definition on values[~mask]" % name):
            failed.add(name)
    return out, failed


def _mask_obj(case):
    import autoarray as aa
    m = np.asarray(case["mask"], dtype=bool)
    return m, aa.Mask2D(mask=m.copy(), pixel_scales=tuple(case.get("pixel_scales", (1.0, 1.0))),
                        origin=tuple(case.get("origin", (0.0, 0.0))))


def _garbage_labels(case, ctx, m):
    for nm in ("data", "noise"):
        ctx.label("garbage:%s-%s" % (nm, "carried" if case["g1"].get(nm) is not None else "zero-filled"))
    nonfinite = any(isinstance(v, str) for g in (case["g1"], case["g2"]) for lst in g.values() if lst for v in lst)
    ctx.label("garbage:nonfinite" if nonfinite else "garbage:finite")
    ctx.label("sky:nonzero" if case["sky"] != 0.0 else "sky:zero")
    ctx.label("masked:none" if not m.any() else "masked:some")


def _same(a, b):
    return a == b or (math.isnan(a) and math.isnan(b))


def _metamorphic(ctx, a, b, prefix, failed=()):
    for name in a:
        if name in failed:
            continue
        ctx.check(_same(a[name], b[name]),
                  "%s/native/%s/masked-garbage-changes-value" % (prefix, name),
                  lambda: "%s changes from %r to %r when only values in masked pixels change" % (name, a[name], b[name]))


# ---------------------------------------------------------------------------------------------
# sub-check: fit (no inversion)
# ---------------------------------------------------------------------------------------------
def body_fit(case, ctx):
    m, mask = _mask_obj(case)
    for l in gens.mask_stats(m):
        ctx.label(l)
    _garbage_labels(case, ctx, m)
    ctx.label("data:%s" % case.get("data_kind", "?"), "model:%s" % case.get("model_kind", "?"))
    ctx.nt(bool(m.any()) and _nonzero_garbage(case["g1"]))
    sky = float(case["sky"])
    ref, tol = reference(case["data"], case["noise"], case["model"], sky)
    scal, failed = {}, set()
    for mode, g in (("slim", None), ("native", case["g1"]), ("native2", case["g2"])):
        if mode == "slim":
            fit = _slim_fit(mask, case["data"], case["noise"], case["model"], sky)
        else:
            fit = _native_fit(mask, m, case["data"], case["noise"], case["model"], sky, g)
        md = "slim" if mode == "slim" else "native"
        out, bad = observe_fit(fit, m, md, ref, tol, ctx)
        failed |= bad
        fom = float(fit.figure_of_merit)
        out["figure_of_merit"] = fom
        ctx.check(_same(fom, float(fit.log_likelihood)), "fit/%s/figure_of_merit-not-log-likelihood" % md,
                  "no inversion: figure_of_merit %r != log_likelihood %r" % (fom, float(fit.log_likelihood)))
        scal[mode] = out
    if "log_likelihood" in failed:
        failed.add("figure_of_merit")
    _metamorphic(ctx, scal["native"], scal["native2"], "fit", failed)


# ---------------------------------------------------------------------------------------------
# sub-check: util (fit_util functions called directly)
# ---------------------------------------------------------------------------------------------
def body_util(case, ctx):
    import autoarray as aa
    from autoarray.fit import fit_util as fu
    m, mask = _mask_obj(case)
    un = ~m
    n = int(un.sum())
    ctx.label("container:%s" % case["container"], "mask-arg:%s" % case["mask_kind"], "masked:none" if not m.any() else "masked:some")
    nonfinite = any(isinstance(v, str) for g in (case["g1"], case["g2"]) for lst in g.values() for v in lst)
    ctx.label("garbage:nonfinite" if nonfinite else "garbage:finite")
    ctx.nt(bool(m.any()) and _nonzero_garbage(case["g1"]))
    marg = mask if case["mask_kind"] == "Mask2D" else m.copy()

    def wrap(full):
        if case["container"] == "array2d":
            return aa.Array2D(values=full.copy(), mask=mask, store_native=True, skip_mask=True)
        return full.copy()

    def wrap_slim(v):
        if case["container"] == "array2d":
            return aa.Array2D(values=np.array(v, dtype=float), mask=mask)
        return np.array(v, dtype=float)

    v = {nm: np.asarray(case[nm], dtype=float) for nm in ("data", "noise", "model", "resid", "chimap")}
    sr = np.abs(v["data"]) + np.abs(v["model"])
    want = {
        "residual_map": (v["data"] - v["model"], RT * sr),
        "normalized_residual_map": (v["resid"] / v["noise"], RT * np.abs(v["resid"]) / v["noise"]),
        "chi_squared_map": ((v["resid"] / v["noise"]) ** 2, 4 * RT * (v["resid"] / v["noise"]) ** 2),
    }
    chi2_ref = float(v["chimap"].sum()); chi2_tol = RT * chi2_ref
    fast = ((v["data"] - v["model"]) / v["noise"]) ** 2
    fast_ref = float(fast.sum()); fast_tol = float((4 * RT * (sr / v["noise"]) ** 2).sum()) + RT * fast_ref
    logs = np.log(2 * np.pi * v["noise"] ** 2)
    nn_ref = float(logs.sum()); nn_tol = RT * float(np.abs(logs).sum()) + 1e-13 * n
    okd = v["data"] != 0.0
    with np.errstate(all="ignore"):
        rff_ref = np.where(okd, v["resid"] / np.where(okd, v["data"], 1.0), 0.0)
        okd = okd & np.isfinite(rff_ref)          # quotient overflows for denormal data: excluded as well
        rff_ref = np.where(okd, rff_ref, 0.0)
    rff_tol = RT * np.abs(rff_ref) + 1e-300

    scal = []
    for g in (case["g1"], case["g2"]):
        a = {nm: wrap(_full(m, v[nm], g[nm])) for nm in v}
        out = {}
        got = np.asarray(fu.residual_map_with_mask_from(data=a["data"], mask=marg, model_data=a["model"]))
        ctx.check(got.shape == m.shape, "util/residual_map_with_mask_from/shape", "shape %s" % (got.shape,))
        _cmp(ctx, got[un], *want["residual_map"], "util/residual_map_with_mask_from", "residual (masked variant)")
        got = np.asarray(fu.normalized_residual_map_with_mask_from(residual_map=a["resid"], noise_map=a["noise"], mask=marg))
        _cmp(ctx, got[un], *want["normalized_residual_map"], "util/normalized_residual_map_with_mask_from", "normalized residual (masked variant)")
        got = np.asarray(fu.chi_squared_map_with_mask_from(residual_map=a["resid"], noise_map=a["noise"], mask=marg))
        _cmp(ctx, got[un], *want["chi_squared_map"], "util/chi_squared_map_with_mask_from", "chi-squared map (masked variant)")
        got = np.asarray(fu.residual_flux_fraction_map_with_mask_from(residual_map=a["resid"], data=a["data"], mask=marg))
        ctx.tie(int((~okd).sum()))
        _cmp(ctx, got[un][okd], rff_ref[okd], rff_tol[okd], "util/residual_flux_fraction_map_with_mask_from", "residual/data (masked variant)")
        out["chi_squared_with_mask_from"] = float(fu.chi_squared_with_mask_from(chi_squared_map=a["chimap"], mask=marg))
        _cmp(ctx, out["chi_squared_with_mask_from"], chi2_ref, chi2_tol, "util/chi_squared_with_mask_from", "sum of chi-squared map over unmasked pixels")
        out["chi_squared_with_mask_fast_from"] = float(fu.chi_squared_with_mask_fast_from(data=a["data"], mask=marg, model_data=a["model"], noise_map=a["noise"]))
        _cmp(ctx, out["chi_squared_with_mask_fast_from"], fast_ref, fast_tol, "util/chi_squared_with_mask_fast_from", "sum(((d-m)/s)^2) over unmasked pixels")
        out["noise_normalization_with_mask_from"] = float(fu.noise_normalization_with_mask_from(noise_map=a["noise"], mask=marg))
        _cmp(ctx, out["noise_normalization_with_mask_from"], nn_ref, nn_tol, "util/noise_normalization_with_mask_from", "sum(log(2 pi s^2)) over unmasked pixels")
        scal.append(out)
    for name in scal[0]:
        ctx.check(scal[0][name] == scal[1][name], "util/%s/masked-garbage-changes-value" % name,
                  lambda: "%s changes from %r to %r when only values in masked pixels change" % (name, scal[0][name], scal[1][name]))

    # plain variants on slim vectors
    s = {nm: wrap_slim(v[nm]) for nm in v}
    _cmp(ctx, np.asarray(fu.residual_map_from(data=s["data"], model_data=s["model"])), *want["residual_map"], "util/residual_map_from", "residual")
    _cmp(ctx, np.asarray(fu.normalized_residual_map_from(residual_map=s["resid"], noise_map=s["noise"])), *want["normalized_residual_map"],
         "util/normalized_residual_map_from", "normalized residual")
    _cmp(ctx, np.asarray(fu.chi_squared_map_from(residual_map=s["resid"], noise_map=s["noise"])), *want["chi_squared_map"],
         "util/chi_squared_map_from", "chi-squared map")
    _cmp(ctx, float(fu.chi_squared_from(chi_squared_map=s["chimap"])), chi2_ref, chi2_tol, "util/chi_squared_from", "sum of chi-squared map")
    _cmp(ctx, float(fu.noise_normalization_from(noise_map=s["noise"])), nn_ref, nn_tol, "util/noise_normalization_from", "sum(log(2 pi s^2))")
    got = np.asarray(fu.residual_flux_fraction_map_from(residual_map=s["resid"], data=s["data"]))
    _cmp(ctx, got[okd], rff_ref[okd], rff_tol[okd], "util/residual_flux_fraction_map_from", "residual/data")
    # scalar compositions
    c2, rg, lc, lr, nn = [float(x) for x in case["scalars"]]
    c2, rg = abs(c2), abs(rg)
    mag = c2 + rg + abs(lc) + abs(lr) + abs(nn)
    _cmp(ctx, float(fu.log_likelihood_from(chi_squared=c2, noise_normalization=nn)), -0.5 * (c2 + nn), RT * mag + 1e-300,
         "util/log_likelihood_from", "-(chi2+norm)/2")
    _cmp(ctx, float(fu.log_likelihood_with_regularization_from(chi_squared=c2, regularization_term=rg, noise_normalization=nn)),
         -0.5 * (c2 + rg + nn), RT * mag + 1e-300, "util/log_likelihood_with_regularization_from", "-(chi2+reg+norm)/2")
    _cmp(ctx, float(fu.log_evidence_from(chi_squared=c2, regularization_term=rg, log_curvature_regularization_term=lc,
                                         log_regularization_term=lr, noise_normalization=nn)),
         -0.5 * (c2 + rg + lc - lr + nn), RT * mag + 1e-300, "util/log_evidence_from", "-(chi2+reg+logdet(F+H)-logdet(H)+norm)/2")


# ---------------------------------------------------------------------------------------------
# sub-check: evidence (real inversion)
# ---------------------------------------------------------------------------------------------
def _logdet(a):
    """(sign, log|det|, cond, ambiguity).  Kernel-type regularization matrices are numerical inverses and symmetric
    only to ~1e-11 relative; a Cholesky factorisation reads the lower triangle, LU reads everything.  The reference
    is taken on (A+A^T)/2 and the spread between the readings (full / lower / upper triangle) is the ambiguity of
    the matrix itself, added to the tolerance."""
    if a.shape[0] == 0:
        return 1.0, 0.0, 1.0, 0.0
    sign, ld = np.linalg.slogdet((a + a.T) / 2.0)
    lo = np.tril(a) + np.tril(a, -1).T
    up = np.triu(a) + np.triu(a, 1).T
    amb = max(abs(float(np.linalg.slogdet(x)[1]) - float(ld)) for x in (a, lo, up))
    return float(sign), float(ld), float(np.linalg.cond(a)), (amb if np.isfinite(amb) else 0.0)


def _ld_tol(ref, n, cond):
    return max(1e-9 * abs(ref), 50.0 * max(n, 1) * EPS * cond)


def body_evidence(case, ctx):
    import autoarray as aa
    from autoarray import exc
    scene.scene_labels(case, ctx)
    m = np.asarray(case["mask"], dtype=bool)
    _garbage_labels(case, ctx, m)
    sc = scene.build_scene(case)
    mask = sc.mask
    regs = [o.get("reg") is not None for o in case["objs"]]
    rl = "all" if all(regs) else ("none" if not any(regs) else "partial")
    ctx.label("reglist:%s" % rl, "solver:%s" % ("positive-only" if case["positive_only"] else "unconstrained"),
              "formalism:%s" % ("w_tilde" if case["use_w_tilde"] else "mapping"))
    ctx.nt(rl == "partial" or (bool(m.any()) and _nonzero_garbage(case["g1"])))
    settings = aa.SettingsInversion(use_w_tilde=case["use_w_tilde"], use_positive_only_solver=case["positive_only"],
                                    force_edge_pixels_to_zeros=False, no_regularization_add_to_curvature_diag_value=1e-3)
    inv = aa.Inversion(dataset=sc.dataset, linear_obj_list=sc.objs, settings=settings)
    # index set of regularized parameters, from the case (not from the inversion)
    idx, start = [], 0
    for o, has_reg in zip(sc.objs, regs):
        k = int(np.asarray(o.mapping_matrix).shape[1])
        if has_reg:
            idx.extend(range(start, start + k))
        start += k
    idx = np.asarray(idx, dtype=int)
    # inputs of the composition: copied before any derived quantity is read
    fh = np.array(inv.curvature_reg_matrix, dtype=float).copy()
    h = np.array(inv.regularization_matrix, dtype=float).copy()
    ctx.check(fh.shape == (start, start) and h.shape == (start, start), "evidence/matrix-shape",
              "F+H %s, H %s, expected %d parameters" % (fh.shape, h.shape, start))
    try:
        s = np.array(inv.reconstruction, dtype=float).copy()
        model = np.array(inv.mapped_reconstructed_data, dtype=float).copy()
    except exc.InversionException:
        # singular system or the documented "all values of a mapper identical" rejection (C05's subject): no
        # reconstruction, hence no evidence to check
        ctx.tie(); ctx.label("raised:InversionException@reconstruction")
        return
    if not (np.all(np.isfinite(s)) and np.all(np.isfinite(model))):
        ctx.tie(); ctx.label("reconstruction:non-finite-skipped")
        return
    sr = s[idx]
    h_rr = h[np.ix_(idx, idx)]
    fh_rr = fh[np.ix_(idx, idx)]
    reg_ref = float(sr @ h_rr @ sr)
    reg_tol = 1e-10 * float(np.abs(sr) @ np.abs(h_rr) @ np.abs(sr)) + 1e-300
    sg_fh, ld_fh, c_fh, amb_fh = _logdet(fh_rr)
    sg_h, ld_h, c_h, amb_h = _logdet(h_rr)
    nr = len(idx)
    ctx.label("cond(H):%s" % ("<1e6" if c_h < 1e6 else "1e6..1e10" if c_h < 1e10 else ">=1e10") if nr else "cond(H):empty")
    skip_ld = (not np.isfinite(c_fh)) or (not np.isfinite(c_h)) or max(c_fh, c_h) > 1e13 or sg_fh <= 0 or sg_h <= 0
    tol_fh = _ld_tol(ld_fh, nr, c_fh) + 2.0 * amb_fh
    tol_h = _ld_tol(ld_h, nr, c_h) + 2.0 * amb_h
    ctx.label("symmetry-ambiguity:%s" % ("some" if max(amb_fh, amb_h) > 1e-9 else "none"))

    def term(name, key):
        try:
            return float(getattr(inv, name))
        except exc.InversionException:
            ctx.check(max(c_fh, c_h) > 1e12 or not np.isfinite(max(c_fh, c_h)), "evidence/%s/unexpected-InversionException" % key,
                      "%s raised InversionException with cond((F+H)_rr)=%.2e cond(H_rr)=%.2e, %d regularized of %d parameters" % (
                          name, c_fh, c_h, nr, start))
            return None

    got_reg = term("regularization_term", "regularization_term")
    got_fh = term("log_det_curvature_reg_matrix_term", "log_det_curvature_reg_matrix_term")
    got_h = term("log_det_regularization_matrix_term", "log_det_regularization_matrix_term")
    if got_reg is None or got_fh is None or got_h is None:
        ctx.tie(); ctx.label("raised:InversionException")
        return
    terms_ok = _cmp(ctx, got_reg, reg_ref, reg_tol, "evidence/regularization_term/%s" % rl, "s_r^T H_rr s_r over regularized parameters")
    if skip_ld:
        ctx.tie(); ctx.label("cond>1e13:logdet-skipped")
        return
    terms_ok &= _cmp(ctx, got_fh, ld_fh, tol_fh, "evidence/log_det_curvature_reg_matrix_term/%s" % rl,
                     "log det (F+H) over regularized parameters (cond %.1e)" % c_fh)
    terms_ok &= _cmp(ctx, got_h, ld_h, tol_h, "evidence/log_det_regularization_matrix_term/%s" % rl,
                     "log det H over regularized parameters (cond %.1e)" % c_h)

    # the fit: data seen by the fit = case data (+ sky - sky), model = mapped reconstructed data
    sky = float(case["sky"])
    data_in = np.asarray(case["data"], dtype=float) + sky if sky != 0.0 else np.asarray(case["data"], dtype=float)
    ref, tol = reference(data_in, case["noise"], model, sky)
    chi2, nn = ref["chi_squared"], ref["noise_normalization"]
    ev_ref = -0.5 * (chi2 + reg_ref + ld_fh - ld_h + nn)
    ev_tol = 0.5 * (tol["chi_squared"] + reg_tol + tol_fh + tol_h + tol["noise_normalization"])
    lr_ref = -0.5 * (chi2 + reg_ref + nn)
    lr_tol = 0.5 * (tol["chi_squared"] + reg_tol + tol["noise_normalization"])
    scal, failed = {}, set()
    for mode, g in (("slim", None), ("native", case["g1"]), ("native2", case["g2"])):
        if mode == "slim":
            fit = _slim_fit(mask, data_in, case["noise"], model, sky, inversion=inv)
        else:
            fit = _native_fit(mask, m, data_in, case["noise"], model, sky, g, inversion=inv)
        md = "slim" if mode == "slim" else "native"
        out, bad = observe_fit(fit, m, md, ref, tol, ctx, maps=MAPS[:4])  # residual flux fraction: sub-check fit
        failed |= bad
        out["log_evidence"] = float(fit.log_evidence)
        out["log_likelihood_with_regularization"] = float(fit.log_likelihood_with_regularization)
        out["figure_of_merit"] = float(fit.figure_of_merit)
        if terms_ok and not ({"chi_squared", "noise_normalization"} & bad):
            # the terms are right: the composition must be too
            if not _cmp(ctx, out["log_evidence"], ev_ref, ev_tol, "evidence/%s/log_evidence/%s" % (md, rl),
                        "-(chi2 + sHs + logdet(F+H) - logdet(H) + norm)/2 = -(%.6g + %.6g + %.6g - %.6g + %.6g)/2" % (
                            chi2, reg_ref, ld_fh, ld_h, nn)):
                failed |= {"log_evidence", "figure_of_merit"}
            if not _cmp(ctx, out["log_likelihood_with_regularization"], lr_ref, lr_tol,
                        "evidence/%s/log_likelihood_with_regularization" % md, "-(chi2 + sHs + norm)/2"):
                failed.add("log_likelihood_with_regularization")
        else:
            failed |= {"log_evidence", "log_likelihood_with_regularization", "figure_of_merit"}
        ctx.check(_same(out["figure_of_merit"], out["log_evidence"]), "evidence/%s/figure_of_merit-not-log-evidence" % md,
                  "inversion present: figure_of_merit %r != log_evidence %r" % (out["figure_of_merit"], out["log_evidence"]))
        scal[mode] = out
    _metamorphic(ctx, scal["native"], scal["native2"], "evidence", failed)


SUBCHECKS = [
    SubCheck("fit", body_fit, strategy=fit_cases(), examples={"quick": 3200, "thorough": 48000}, shards={"quick": 16, "thorough": 16}),
    SubCheck("util", body_util, strategy=util_cases(), examples={"quick": 2400, "thorough": 32000}, shards={"quick": 16, "thorough": 16}),
    SubCheck("evidence", body_evidence, strategy=evidence_cases(), examples={"quick": 2400, "thorough": 32000}, shards={"quick": 16, "thorough": 16}),
]
