"""C01 — slim and native forms are exact, order-preserving inverses under any mask."""
import itertools

import numpy as np
from hypothesis import strategies as st

from vp import gens
from vp.engine import SubCheck

PROPERTY = "C01"
RULE = (
    "(extended 5) the MASK supplied in other memory layouts / forms (Fortran order, transposed, stepped and negative-stride views, 0/1 integers): both forms of arrays / grids under it and its index lists. (extended 4) large: masks with more than 2^15 (quick) / 2^16 (thorough) unmasked pixels: array / grid forms and the index lists. (extended 3) apply_mask on already-masked arrays / vector fields (slim- and native-stored) with second masks that unmask pixels the first one hid (all-false, rolled, inverted); values supplied in Fortran order and as non-contiguous views. (extended 2) the other routes to the two forms are covered too: no_mask constructors (native input, slim input + shape_native) followed by apply_mask, Grid2D.from_yx_1d/from_yx_2d, VectorYX2D.from_mask/no_mask/apply_mask and components, native_skip_mask at the unmasked positions, and the public utilities convert_array_2d_to_slim/native, convert_grid_2d_to_slim/native, index_2d_for_index_slim_from / index_slim_for_index_2d_from (and their round trip over every pixel) and the complex slim/native pair; index lists of masks derived from a mask whose lists were read (invert, copy + in-place edit). "
    "(extended) every constructed object is also put through additive arithmetic (x+c, c-x) and the native / slim / round-trip forms of the derived object are checked: masked positions of the native form stay zero. "
    "enum2d: every boolean mask with >=1 unmasked pixel on every shape with H*W<=12 (quick) / <=16 "
    "(thorough) with values 1..H*W, checked for Array2D/Grid2D/VectorYX2D in both storage modes and "
    "both input forms plus the mask's index lists; enum1d: every 1D mask of length<=10/14; given2d: "
    "Hypothesis masks up to 10x12 with generated real values (zeros, negatives). Oracle: numpy boolean "
    "indexing (values[~mask] in C order, where(mask,0,values), argwhere/flatnonzero). Non-trivial = mask "
    "has masked and unmasked pixels and its unmasked set is not one solid rectangle; distinct = SHA-1 of "
    "the canonical case."
)
TECHNIQUE = "exhaustive enumeration of all small masks plus Hypothesis-generated masks/values against a numpy boolean-indexing reference model and round trips"
ASSUMPTIONS = [
    "util.grid_2d.convert_grid_2d_to_native returns a native (3D) input unchanged (dimension pass-through, no callers inside the library); for that input form only the unmasked positions are compared",
    "numpy boolean indexing / argwhere in C order is the reference for 'row-major order'",
    "numba is absent, so the @jit kernels run as plain Python (same source, no compilation step)",
]


def _aa():
    import autoarray as aa
    return aa


def _check_2d(mask_l, vals_flat, ctx, kinds=("array", "grid", "vector"), grid_vals=None, mask_layouts=True):
    aa = _aa()
    m = np.asarray(mask_l, dtype=bool)
    h, w = m.shape
    for l in gens.mask_stats(m):
        ctx.label(l)
    ctx.nt(("mask:mixed" in ctx.labels) and ("mask:not-solid-rectangle" in ctx.labels))
    un = ~m
    n = int(un.sum())
    vals = np.asarray(vals_flat, dtype=float).reshape(h, w)
    mask = aa.Mask2D(mask=m.copy(), pixel_scales=1.0)

    want_slim = vals[un]
    want_native = np.where(m, 0.0, vals)

    if "array" in kinds:
        for given in ("native", "slim"):
            for store_native in (False, True):
                src = vals.copy() if given == "native" else want_slim.copy()
                a = aa.Array2D(values=src, mask=mask, store_native=store_native)
                tag = "array2d/%s-in/%s" % (given, "native-stored" if store_native else "slim-stored")
                ctx.equal(np.asarray(a.slim), want_slim, "array2d/slim", tag + " .slim")
                ctx.equal(np.asarray(a.native), want_native, "array2d/native", tag + " .native")
                ctx.equal(np.asarray(a.slim.native.slim), want_slim, "array2d/roundtrip", tag + " slim->native->slim")
                ctx.equal(np.asarray(a.native.slim.native), want_native, "array2d/roundtrip", tag + " native->slim->native")
                ctx.check(np.asarray(a).shape == ((h, w) if store_native else (n,)), "array2d/storage", tag + " stored shape")
                # objects derived by arithmetic: their native form is still zero at masked positions and their slim
                # form lists the unmasked values (additive arithmetic on a native-stored array leaves non-zero
                # numbers at masked entries of the stored array, so .native must re-apply the mask)
                for dname, y, f in (("add", a + 1.5, lambda v: v + 1.5), ("rsub", 2.0 - a, lambda v: 2.0 - v)):
                    ctx.equal(np.asarray(y.slim), f(want_slim), "array2d/derived/slim", tag + " (%s).slim" % dname)
                    ctx.equal(np.asarray(y.native), np.where(m, 0.0, f(vals)), "array2d/derived/native", tag + " (%s).native" % dname)
                    ctx.equal(np.asarray(y.native.slim.native), np.where(m, 0.0, f(vals)), "array2d/derived/roundtrip", tag + " (%s) native->slim->native" % dname)

    if "grid" in kinds or "vector" in kinds:
        if grid_vals is None:
            g = np.stack([vals, -2.0 * vals - 0.5], axis=-1)
        else:
            g = np.asarray(grid_vals, dtype=float).reshape(h, w, 2)
        want_gslim = g[un]
        want_gnative = np.where(m[:, :, None], 0.0, g)
    if "grid" in kinds:
        for given in ("native", "slim"):
            for store_native in (False, True):
                src = g.copy() if given == "native" else want_gslim.copy()
                gr = aa.Grid2D(values=src, mask=mask, store_native=store_native)
                tag = "grid2d/%s-in/%s" % (given, "native-stored" if store_native else "slim-stored")
                ctx.equal(np.asarray(gr.slim), want_gslim, "grid2d/slim", tag + " .slim")
                ctx.equal(np.asarray(gr.native), want_gnative, "grid2d/native", tag + " .native")
                ctx.equal(np.asarray(gr.slim.native.slim), want_gslim, "grid2d/roundtrip", tag)
                ctx.equal(np.asarray(gr.native.slim.native), want_gnative, "grid2d/roundtrip", tag)
                yg = gr + 1.5
                ctx.equal(np.asarray(yg.slim), want_gslim + 1.5, "grid2d/derived/slim", tag + " (add).slim")
                ctx.equal(np.asarray(yg.native), np.where(m[:, :, None], 0.0, g + 1.5), "grid2d/derived/native", tag + " (add).native")
    if "vector" in kinds:
        base_grid = aa.Grid2D.from_mask(mask=mask)
        for given in ("native", "slim"):
            for store_native in (False, True):
                src = g.copy() if given == "native" else want_gslim.copy()
                v = aa.VectorYX2D(values=src, grid=base_grid, mask=mask, store_native=store_native)
                tag = "vector2d/%s-in/%s" % (given, "native-stored" if store_native else "slim-stored")
                ctx.equal(np.asarray(v.slim), want_gslim, "vector2d/slim", tag + " .slim")
                ctx.equal(np.asarray(v.native), want_gnative, "vector2d/native", tag + " .native")
                ctx.equal(np.asarray(v.slim.native.slim), want_gslim, "vector2d/roundtrip", tag)
                ctx.equal(np.asarray(v.native.slim.native), want_gnative, "vector2d/roundtrip", tag)
                yv = v + 1.5
                ctx.equal(np.asarray(yv.slim), want_gslim + 1.5, "vector2d/derived/slim", tag + " (add).slim")
                ctx.equal(np.asarray(yv.native), np.where(m[:, :, None], 0.0, g + 1.5), "vector2d/derived/native", tag + " (add).native")

    _check_routes_and_utils(aa, m, mask, vals, ctx, ctx_layouts=mask_layouts)

    # index lists published by the mask
    di = mask.derive_indexes
    nfs = np.asarray(di.native_for_slim)
    ctx.equal(nfs, np.argwhere(un), "indexes/native_for_slim", "native_for_slim vs argwhere(~mask)")
    us = np.asarray(di.unmasked_slim)
    ms = np.asarray(di.masked_slim)
    ctx.equal(us, np.flatnonzero(un), "indexes/unmasked_slim", "unmasked_slim")
    ctx.equal(ms, np.flatnonzero(m), "indexes/masked_slim", "masked_slim")
    both = np.concatenate([us.ravel(), ms.ravel()]).astype(int)
    ctx.check(len(both) == h * w and np.array_equal(np.sort(both), np.arange(h * w)),
              "indexes/partition", "unmasked+masked lists do not partition range(H*W)")
    if nfs.shape == (n, 2):
        ctx.equal(nfs[:, 0] * w + nfs[:, 1], us.ravel().astype(int), "indexes/consistent",
                  "native_for_slim flattened vs unmasked_slim")
    # masks derived from a mask whose index lists were already read (invert, copy + in-place edit) publish the lists
    # of their OWN contents
    derived = []
    if m.any() and un.any():
        derived.append(("invert", mask.invert()))
    cp = mask.copy()
    yy, xx = np.argwhere(un)[-1]
    if n >= 2:
        cp[int(yy), int(xx)] = True
        derived.append(("copy-edit", cp))
    for dname, dm in derived:
        dmask = np.array(dm).astype(bool)
        ddi = dm.derive_indexes
        ctx.equal(np.asarray(ddi.native_for_slim), np.argwhere(~dmask), "indexes/derived-mask/native_for_slim", "%s of a mask whose lists were read" % dname)
        ctx.equal(np.asarray(ddi.unmasked_slim), np.flatnonzero(~dmask), "indexes/derived-mask/unmasked_slim", dname)
        ctx.equal(np.asarray(ddi.masked_slim), np.flatnonzero(dmask), "indexes/derived-mask/masked_slim", dname)
    ctx.equal(np.asarray(mask.derive_indexes.unmasked_slim), np.flatnonzero(un), "indexes/derived-mask/parent-changed", "parent lists after deriving masks")


def _check_routes_and_utils(aa, m, mask, vals, ctx, ctx_layouts=True):
    """The other ways to the same two forms: the no-mask constructors followed by apply_mask, the (y,x) component
    constructors, native_skip_mask, and the public conversion / index utilities of util.array_2d and util.grid_2d
    (none of which the constructors above pass through)."""
    h, w = m.shape
    un = ~m
    n = int(un.sum())
    want_slim = vals[un]
    want_native = np.where(m, 0.0, vals)
    g = np.stack([vals, -2.0 * vals - 0.5], axis=-1)
    want_gslim = g[un]
    want_gnative = np.where(m[:, :, None], 0.0, g)

    # no_mask (native 2D input and slim input + shape_native) then apply_mask
    for form in ("native", "slim+shape"):
        if form == "native":
            full = aa.Array2D.no_mask(values=vals.copy(), pixel_scales=1.0)
        else:
            full = aa.Array2D.no_mask(values=vals.ravel().copy(), shape_native=(h, w), pixel_scales=1.0)
        ctx.equal(np.asarray(full.native), vals, "array2d/no_mask/native", form)
        ctx.equal(np.asarray(full.slim), vals.ravel(), "array2d/no_mask/slim", form)
        am = full.apply_mask(mask=mask)
        ctx.equal(np.asarray(am.slim), want_slim, "array2d/apply_mask/slim", form)
        ctx.equal(np.asarray(am.native), want_native, "array2d/apply_mask/native", form)
        ctx.equal(np.asarray(full.native), vals, "array2d/apply_mask/source-changed", form)
    # memory layout of the supplied values: Fortran order, a stepped view of a bigger frame, a negative-stride view
    big = np.zeros((2 * h, 2 * w)); big[::2, ::2] = vals
    layouts = [("fortran", np.asfortranarray(vals.copy())), ("stepped-view", big[::2, ::2]), ("negative-stride", vals[::-1, ::-1].copy()[::-1, ::-1])]
    gbig = np.zeros((2 * h, 2 * w, 2)); gbig[::2, ::2] = g
    glayouts = [("fortran", np.asfortranarray(g.copy())), ("stepped-view", gbig[::2, ::2])]
    for lname, src in layouts:
        for store_native in (False, True):
            a = aa.Array2D(values=src, mask=mask, store_native=store_native)
            ctx.equal(np.asarray(a.slim), want_slim, "array2d/layout/slim", "%s store_native=%s" % (lname, store_native))
            ctx.equal(np.asarray(a.native), want_native, "array2d/layout/native", "%s store_native=%s" % (lname, store_native))
        ctx.equal(np.asarray(src), vals, "array2d/layout/input-changed", lname)
    for lname, src in glayouts:
        for store_native in (False, True):
            gr = aa.Grid2D(values=src, mask=mask, store_native=store_native)
            ctx.equal(np.asarray(gr.slim), want_gslim, "grid2d/layout/slim", "%s store_native=%s" % (lname, store_native))
            ctx.equal(np.asarray(gr.native), want_gnative, "grid2d/layout/native", "%s store_native=%s" % (lname, store_native))

    # memory layout / input form of the MASK itself (Fortran order, transposed / stepped / negative-stride views, 0/1 ints)
    for lname, msrc in (gens.mask_layouts(m) if (ctx_layouts or h * w <= 9) else []):
        lmask = aa.Mask2D(mask=msrc, pixel_scales=1.0)
        ctx.equal(np.array(lmask).astype(bool), m, "mask-layout/mask", lname)
        for store_native in (False, True):
            for given, src in (("native", vals.copy()), ("slim", want_slim.copy())):
                a = aa.Array2D(values=src, mask=lmask, store_native=store_native)
                tag = "%s mask, %s-in, store_native=%s" % (lname, given, store_native)
                ctx.equal(np.asarray(a.slim), want_slim, "mask-layout/array2d/slim", tag)
                ctx.equal(np.asarray(a.native), want_native, "mask-layout/array2d/native", tag)
                ctx.equal(np.asarray(a.native.slim.native), want_native, "mask-layout/array2d/roundtrip", tag)
            gr = aa.Grid2D(values=want_gslim.copy(), mask=lmask, store_native=store_native)
            ctx.equal(np.asarray(gr.slim), want_gslim, "mask-layout/grid2d/slim", "%s store_native=%s" % (lname, store_native))
            ctx.equal(np.asarray(gr.native), want_gnative, "mask-layout/grid2d/native", "%s store_native=%s" % (lname, store_native))
        ldi = lmask.derive_indexes
        ctx.equal(np.asarray(ldi.native_for_slim), np.argwhere(~m), "mask-layout/indexes/native_for_slim", lname)
        ctx.equal(np.asarray(ldi.unmasked_slim), np.flatnonzero(~m), "mask-layout/indexes/unmasked_slim", lname)
        ctx.equal(np.asarray(ldi.masked_slim), np.flatnonzero(m), "mask-layout/indexes/masked_slim", lname)

    # apply_mask on an array that is ALREADY masked (slim- and native-stored), with second masks that unmask pixels
    # the first one hid: the result lists the first array's native values (zero where it was masked) under the new mask
    seconds = [("all-false", np.zeros_like(m)), ("rolled", np.roll(m, 1, axis=1) if w > 1 else np.roll(m, 1, axis=0))]
    if m.any():
        seconds.append(("inverted", ~m))
    for sname, m2 in seconds:
        if m2.all():
            continue
        mask2 = aa.Mask2D(mask=m2.copy(), pixel_scales=1.0)
        for store_native in (False, True):
            a1 = aa.Array2D(values=vals.copy(), mask=mask, store_native=store_native)
            a2 = a1.apply_mask(mask=mask2)
            tag = "%s second mask, first %s" % (sname, "native-stored" if store_native else "slim-stored")
            ctx.equal(np.asarray(a2.slim), want_native[~m2], "array2d/apply_mask-again/slim", tag)
            ctx.equal(np.asarray(a2.native), np.where(m2, 0.0, want_native), "array2d/apply_mask-again/native", tag)
            ctx.equal(np.asarray(a1.slim), want_slim, "array2d/apply_mask-again/source-changed", tag)
        v1 = aa.VectorYX2D.from_mask(values=g.copy(), mask=mask)
        v2 = v1.apply_mask(mask=mask2)
        ctx.equal(np.asarray(v2.slim), want_gnative[~m2], "vector2d/apply_mask-again/slim", sname)
        ctx.equal(np.asarray(v2.native), np.where(m2[:, :, None], 0.0, want_gnative), "vector2d/apply_mask-again/native", sname)
    for store_native in (False, True):
        a = aa.Array2D(values=vals.copy(), mask=mask, store_native=store_native)
        nsm = np.asarray(a.native_skip_mask)
        ctx.check(nsm.shape == (h, w), "array2d/native_skip_mask/shape", "shape %r" % (nsm.shape,))
        if nsm.shape == (h, w):
            ctx.equal(nsm[un], want_slim, "array2d/native_skip_mask/unmasked-values", "store_native=%s" % store_native)

    gfull = aa.Grid2D.no_mask(values=g.copy(), pixel_scales=1.0)
    ctx.equal(np.asarray(gfull.native), g, "grid2d/no_mask/native", "native in")
    ctx.equal(np.asarray(gfull.slim), g.reshape(-1, 2), "grid2d/no_mask/slim", "native in")
    gfull2 = aa.Grid2D.no_mask(values=g.reshape(-1, 2).copy(), shape_native=(h, w), pixel_scales=1.0)
    ctx.equal(np.asarray(gfull2.native), g, "grid2d/no_mask/native", "slim+shape in")
    gyx2 = aa.Grid2D.from_yx_2d(y=g[:, :, 0].copy(), x=g[:, :, 1].copy(), pixel_scales=1.0)
    ctx.equal(np.asarray(gyx2.native), g, "grid2d/from_yx_2d/native", "")
    ctx.equal(np.asarray(gyx2.slim), g.reshape(-1, 2), "grid2d/from_yx_2d/slim", "")
    gyx1 = aa.Grid2D.from_yx_1d(y=g[:, :, 0].ravel().copy(), x=g[:, :, 1].ravel().copy(), shape_native=(h, w), pixel_scales=1.0)
    ctx.equal(np.asarray(gyx1.native), g, "grid2d/from_yx_1d/native", "")
    ctx.equal(np.asarray(gyx1.slim), g.reshape(-1, 2), "grid2d/from_yx_1d/slim", "")

    vfull = aa.VectorYX2D.no_mask(values=g.copy(), pixel_scales=1.0)
    ctx.equal(np.asarray(vfull.native), g, "vector2d/no_mask/native", "native in")
    ctx.equal(np.asarray(vfull.slim), g.reshape(-1, 2), "vector2d/no_mask/slim", "native in")
    vm = vfull.apply_mask(mask=mask)
    ctx.equal(np.asarray(vm.slim), want_gslim, "vector2d/apply_mask/slim", "")
    ctx.equal(np.asarray(vm.native), want_gnative, "vector2d/apply_mask/native", "")
    vfm = aa.VectorYX2D.from_mask(values=g.copy(), mask=mask)
    ctx.equal(np.asarray(vfm.slim), want_gslim, "vector2d/from_mask/slim", "native in")
    ctx.equal(np.asarray(vfm.native), want_gnative, "vector2d/from_mask/native", "native in")
    ctx.equal(np.asarray(vfm.y.slim), want_gslim[:, 0], "vector2d/components", "y")
    ctx.equal(np.asarray(vfm.x.native), want_gnative[:, :, 1], "vector2d/components", "x native")

    # public utilities
    ua, ug = aa.util.array_2d, aa.util.grid_2d
    ctx.equal(np.asarray(ua.convert_array_2d_to_slim(array_2d=vals.copy(), mask_2d=mask)), want_slim, "util/convert_array_2d_to_slim", "native in")
    ctx.equal(np.asarray(ua.convert_array_2d_to_slim(array_2d=want_slim.copy(), mask_2d=mask)), want_slim, "util/convert_array_2d_to_slim", "slim in")
    ctx.equal(np.asarray(ua.convert_array_2d_to_native(array_2d=vals.copy(), mask_2d=mask)), want_native, "util/convert_array_2d_to_native", "native in")
    ctx.equal(np.asarray(ua.convert_array_2d_to_native(array_2d=want_slim.copy(), mask_2d=mask)), want_native, "util/convert_array_2d_to_native", "slim in")
    ctx.equal(np.asarray(ug.convert_grid_2d_to_slim(grid_2d=g.copy(), mask_2d=mask)), want_gslim, "util/convert_grid_2d_to_slim", "native in")
    ctx.equal(np.asarray(ug.convert_grid_2d_to_slim(grid_2d=want_gslim.copy(), mask_2d=mask)), want_gslim, "util/convert_grid_2d_to_slim", "slim in")
    # a native (3D) input is documented and implemented as a pure dimension pass-through (no re-masking), so only
    # the unmasked positions are compared for it
    gpass = np.asarray(ug.convert_grid_2d_to_native(grid_2d=g.copy(), mask_2d=mask))
    ctx.check(gpass.shape == (h, w, 2), "util/convert_grid_2d_to_native", "native in: shape %r" % (gpass.shape,))
    if gpass.shape == (h, w, 2):
        ctx.equal(gpass[un], want_gslim, "util/convert_grid_2d_to_native", "native in, unmasked positions")
    ctx.equal(np.asarray(ug.convert_grid_2d_to_native(grid_2d=want_gslim.copy(), mask_2d=mask)), want_gnative, "util/convert_grid_2d_to_native", "slim in")
    flat = np.flatnonzero(un)
    yx = np.argwhere(un)
    ctx.equal(np.asarray(ua.index_2d_for_index_slim_from(indexes_slim=flat, shape_native=(h, w))), yx.astype(float),
              "util/index_2d_for_index_slim_from", "flat indexes of the unmasked pixels")
    ctx.equal(np.asarray(ua.index_slim_for_index_2d_from(indexes_2d=yx, shape_native=(h, w))), flat.astype(float),
              "util/index_slim_for_index_2d_from", "(y,x) indexes of the unmasked pixels")
    allflat = np.arange(h * w)
    back = ua.index_slim_for_index_2d_from(indexes_2d=np.asarray(ua.index_2d_for_index_slim_from(indexes_slim=allflat, shape_native=(h, w))).astype(int), shape_native=(h, w))
    ctx.equal(np.asarray(back), allflat.astype(float), "util/index-roundtrip", "flat -> (y,x) -> flat over every pixel")
    cvals = vals + 1j * (0.5 - 3.0 * vals)
    cs = np.asarray(ua.array_2d_slim_complex_from(array_2d_native=cvals.copy(), mask=m.copy()))
    ctx.equal(cs, cvals[un], "util/array_2d_slim_complex_from", "complex native -> slim")
    cn = np.asarray(ua.array_2d_native_complex_via_indexes_from(array_2d_slim=cvals[un].copy(), shape_native=(h, w),
                                                                 native_index_for_slim_index_2d=yx))
    ctx.equal(cn, np.where(m, 0.0 + 0.0j, cvals), "util/array_2d_native_complex_via_indexes_from", "complex slim -> native")


def body_enum2d(case, ctx):
    h, w, bits = case["h"], case["w"], case["bits"]
    mask_l = [[bool((bits >> (i * w + j)) & 1) for j in range(w)] for i in range(h)]
    vals = list(range(1, h * w + 1))
    _check_2d(mask_l, vals, ctx, mask_layouts=False)


def cases_enum2d(tier):
    lim = 12 if tier == "quick" else 16
    for h in range(1, lim + 1):
        for w in range(1, lim + 1):
            if h * w > lim:
                continue
            full = (1 << (h * w)) - 1
            for bits in range(0, full):  # `full` = everything masked is excluded
                yield {"h": h, "w": w, "bits": bits}


def body_enum1d(case, ctx):
    aa = _aa()
    n, bits = case["n"], case["bits"]
    m = np.array([bool((bits >> i) & 1) for i in range(n)])
    un = ~m
    ctx.nt(m.any() and un.any())
    ctx.label("1d:len%d" % n)
    vals = np.arange(1, n + 1, dtype=float) * 1.5 - 2.0
    mask = aa.Mask1D(mask=m.copy(), pixel_scales=1.0)
    want_slim = vals[un]
    want_native = np.where(m, 0.0, vals)
    a = aa.Array1D(values=want_slim.copy(), mask=mask)
    ctx.equal(np.asarray(a.slim), want_slim, "array1d/slim", "Array1D(slim).slim")
    ctx.equal(np.asarray(a.native), want_native, "array1d/native", "Array1D(slim).native")
    ctx.equal(np.asarray(a.native.slim), want_slim, "array1d/roundtrip", "slim->native->slim")
    an = aa.Array1D(values=vals.copy(), mask=mask, store_native=True)
    ctx.equal(np.asarray(an.slim), want_slim, "array1d/slim", "Array1D(native).slim")
    ctx.equal(np.asarray(an.slim.native), want_native, "array1d/roundtrip", "native->slim->native")
    ctx.equal(np.asarray(an.slim.native.slim), want_slim, "array1d/roundtrip", "native->slim->native->slim")
    g = aa.Grid1D(values=want_slim.copy(), mask=mask)
    ctx.equal(np.asarray(g.slim), want_slim, "grid1d/slim", "Grid1D(slim).slim")
    ctx.equal(np.asarray(g.native), want_native, "grid1d/native", "Grid1D(slim).native")
    ctx.equal(np.asarray(g.native.slim), want_slim, "grid1d/roundtrip", "slim->native->slim")
    gn = aa.Grid1D(values=vals.copy(), mask=mask, store_native=True)
    ctx.equal(np.asarray(gn.slim), want_slim, "grid1d/slim", "Grid1D(native).slim")
    ctx.equal(np.asarray(gn.slim.native), want_native, "grid1d/roundtrip", "native->slim->native")


def cases_enum1d(tier):
    lim = 10 if tier == "quick" else 14
    for n in range(1, lim + 1):
        for bits in range(0, (1 << n) - 1):
            yield {"n": n, "bits": bits}


@st.composite
def given2d(draw):
    mask = draw(gens.masks(lo=1, hi=11))
    h, w = len(mask), len(mask[0])
    vals = draw(st.lists(st.one_of(gens.reals(-1e3, 1e3), st.sampled_from([0.0, -0.0, 1e-300, -1e300])),
                         min_size=h * w, max_size=h * w))
    gvals = draw(st.lists(gens.reals(-50, 50), min_size=2 * h * w, max_size=2 * h * w))
    return {"mask": mask, "values": vals, "grid_values": gvals}


def body_given2d(case, ctx):
    _check_2d(case["mask"], case["values"], ctx, grid_vals=case["grid_values"])


def cases_large(tier):
    quick = [(192, 193), (259, 262)]
    more = [(131, 300), (300, 225)]
    for h, w in (quick if tier == "quick" else quick + more):
        yield {"h": h, "w": w}


def body_large(case, ctx):
    """More unmasked pixels than a 16-bit index can address: index lists and both forms of arrays / grids."""
    aa = _aa()
    h, w = case["h"], case["w"]
    m = np.ones((h, w), dtype=bool)
    m[1:h - 1, 2:w - 1] = False
    m[h // 3:h // 3 + 5, w // 4:w // 4 + 8] = True
    m[h // 2, ::7] = True
    un = ~m
    n = int(un.sum())
    ctx.nt(n > 2 ** 15)
    ctx.label("large:n>2^16" if n > 2 ** 16 else "large:n>2^15")
    yy, xx = np.mgrid[0:h, 0:w]
    vals = (yy * 1000.0 + xx) + 0.25
    mask = aa.Mask2D(mask=m.copy(), pixel_scales=1.0)
    want_slim, want_native = vals[un], np.where(m, 0.0, vals)
    for given, store_native in (("native", False), ("slim", True), ("slim", False)):
        a = aa.Array2D(values=(vals.copy() if given == "native" else want_slim.copy()), mask=mask, store_native=store_native)
        ctx.equal(np.asarray(a.slim), want_slim, "large/array2d/slim", "%s in, store_native=%s" % (given, store_native))
        ctx.equal(np.asarray(a.native), want_native, "large/array2d/native", "%s in, store_native=%s" % (given, store_native))
    g = np.stack([vals, -vals], axis=-1)
    gr = aa.Grid2D(values=g[un].copy(), mask=mask)
    ctx.equal(np.asarray(gr.native), np.where(m[:, :, None], 0.0, g), "large/grid2d/native", "slim in")
    ctx.equal(np.asarray(gr.native.slim), g[un], "large/grid2d/roundtrip", "slim -> native -> slim")
    di = mask.derive_indexes
    ctx.equal(np.asarray(di.native_for_slim), np.argwhere(un), "large/indexes/native_for_slim", "")
    ctx.equal(np.asarray(di.unmasked_slim), np.flatnonzero(un), "large/indexes/unmasked_slim", "")
    ctx.equal(np.asarray(di.masked_slim), np.flatnonzero(m), "large/indexes/masked_slim", "")



SUBCHECKS = [
    SubCheck("enum2d", body_enum2d, cases=cases_enum2d, shards={"quick": 16, "thorough": 16}),
    SubCheck("enum1d", body_enum1d, cases=cases_enum1d, shards={"quick": 2, "thorough": 4}),
    SubCheck("large", body_large, cases=cases_large, shards={"quick": 2, "thorough": 4}),
    SubCheck("given2d", body_given2d, strategy=given2d(), examples={"quick": 150, "thorough": 3000},
             shards={"quick": 1, "thorough": 8}),
]
