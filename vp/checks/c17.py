"""C17 — grid decorators return containers mirroring the input grid, entry k for point k.

The harness defines profile classes whose methods are decorated exactly like downstream code
(`to_array`, `to_grid`, `to_vector_yx`, `project_grid`, `transform` o `relocate_to_radial_minimum`).  The
method bodies evaluate a *generated* point-wise expression of the coordinates (asymmetric in y/x, not
radially symmetric) and record the grid they received (spy).  The oracle evaluates the same expression
outside the decorators on the input coordinates (plain numpy) and compares entry by entry.
"""
import math

import numpy as np
from hypothesis import strategies as st

from vp import gens
from vp.engine import SubCheck

PROPERTY = "C17"
TECHNIQUE = ("property-based testing (Hypothesis): generated user functions and grids against definitional "
             "element-wise identities, closed-form frame transforms and spies at the decorated function")
RULE = (
    "Harness profile classes with methods decorated like downstream code evaluate a generated point-wise "
    "expression f(y,x)=c0+c1*y+c2*x+c3*y*x+c4*y^2+c5*|x-c6| (coefficients drawn, c1!=c2 so f is neither radially "
    "symmetric nor y/x symmetric; 10% radially symmetric controls), returned as 1D values, (y,x) pairs or lists of "
    "1-3 of them, computed on the plain ndarray or through the wrapped-array operators (grid[:,0] ...). Inputs: slim "
    "Grid2D on generated masks (<=8x8, any pixel scales/origin; coordinates from the mask or arbitrary values), "
    "Grid2DIrregular of 1-30 points, Grid1D (masked / unmasked, arbitrary x), profile centres at / near / away from "
    "grid points, angles, spherical and rotated frames, radial minima 0.75 and 1e-8 from the harness config and a "
    "drawn minimum in [1e-6,3]. Oracle: container type, mask (array, pixel scales, origin), one entry per unmasked "
    "pixel / coordinate, entry k == f(coordinate k) evaluated outside the decorators (exact: identical IEEE "
    "operations on identical inputs); vector results carry the input grid; Grid1D: the function is evaluated on "
    "(0,x_k) (1e-12 relative); project_grid: the received points lie on one ray from the profile centre at radii "
    "k*pixel_scale (1e-9), output k pairs with point k; radial minimum in the profile frame: points with "
    "r>=r_min reach the function bit-identical, 0<r<r_min are scaled onto radius r_min on the same ray (1e-12), "
    "r within 1e-12 relative of r_min is a tie band (either outcome), r==0 must be finite, outside the open disc "
    "and inside the square of half-width r_min. Non-trivial = f not radially symmetric and >=3 distinct "
    "coordinates (radial sub-check: also at least one point inside and one outside r_min); distinct = SHA-1 of "
    "the canonical case. Sub-check `reuse`: ONE Grid1D / Grid2D / Grid2DIrregular object is passed through 2-4 "
    "decorated calls in sequence (and the same calls in reversed order on a second object): each call draws its own "
    "profile (class / radial minimum, centre, angle, frame, functions) or re-uses the previous profile object with "
    "changed attributes, its method (project_grid series with 2-4 angles, structure decorators, composed and direct "
    "relocation) and its target (the same object, a copy of it, an arithmetic multiple of it, or a freshly built "
    "control); every call is decided by the single-call oracles above against the geometry of ITS profile and the "
    "coordinates of ITS grid; failures after the first call are keyed reuse/...; non-trivial = at least two calls "
    "share the reused object (or a grid derived from it) and every function is asymmetric."
)
ASSUMPTIONS = [
    "the user function is point-wise (entry k of its result depends on coordinate k only); that is what 'entry k "
    "corresponds to coordinate k' can be decided against",
    "the profile supplies radial_grid_from / transformed_to_reference_frame_grid_from exactly as downstream code "
    "does (sqrt(y^2+x^2), optionally @to_array; subtract-centre or util.geometry.transform_grid_2d_to_reference_frame, "
    "@to_grid); their correctness is part of the harness, only the frame coordinates are compared to a closed form",
    "no coordinate lies within 1e-100 of the profile centre without being exactly at it (r_min/r would overflow); "
    "such cases are skipped and counted as ties",
    "for a coordinate exactly at the centre the radial direction is undefined; only finiteness, |s|>=r_min and "
    "max(|s_y|,|s_x|)<=r_min are demanded (the code's (r_min,r_min) passes)",
    "the ray direction of project_grid (clockwise by angle+90 from +x) and the number of projected points "
    "(int(longest distance to the extent edge / pixel scale)+1) are taken from the docstrings and reported under "
    "their own keys (.../direction-documented, .../count-documented)",
    "general.grid.remove_projected_centre is false in the harness config",
    "numba is absent, so the @jit kernels run as plain Python (same source)",
]

R_MIN = {"VPProfile": 0.75, "VPProfileSmall": 1.0e-8}   # must equal vp/config/grids.yaml
TIE = 1.0e-12          # relative half-width of the tie band around r_min
DEGENERATE = 1.0e-100  # radii in (0, DEGENERATE) are outside the domain (see ASSUMPTIONS)


def _aa():
    import autoarray as aa
    return aa


# ---------------------------------------------------------------------------------------------
# the generated user function
# ---------------------------------------------------------------------------------------------
def _scalar(c, y, x, radial):
    """Point-wise expression; works on ndarrays and on autoarray wrapped arrays (same numpy operations)."""
    if radial:
        return c[0] + c[4] * (y * y + x * x)
    return c[0] + c[1] * y + c[2] * x + c[3] * (y * x) + c[4] * (y * y) + c[5] * np.abs(x - c[6])


def f_scalar(fn, coords):
    c = np.asarray(coords, dtype=float)
    return _scalar(fn["a"], c[:, 0], c[:, 1], fn["radial"])


def f_pair(fn, coords):
    c = np.asarray(coords, dtype=float)
    return np.stack([_scalar(fn["a"], c[:, 0], c[:, 1], fn["radial"]),
                     _scalar(fn["b"], c[:, 0], c[:, 1], fn["radial"])], axis=-1)


def _snap(grid):
    return np.array(getattr(grid, "array", grid), dtype=float, copy=True)


# ---------------------------------------------------------------------------------------------
# harness profile classes (built lazily: they need the repository's decorators)
# ---------------------------------------------------------------------------------------------
_P = {}


def _profiles():
    if _P:
        return _P
    aa = _aa()
    dec = aa.grid_dec

    class _Base:
        def __init__(self, fns, mode="ndarray", nlist=1, centre="absent", angle="absent", sph=False,
                     radial_dec=False):
            self.fns = fns
            self.mode = mode
            self.nlist = nlist
            self.sph = sph
            self.radial_dec = radial_dec
            if centre != "absent":
                self.centre = centre
            if angle != "absent":
                self.angle = angle
            self.spy = []     # coordinates received by the user functions
            self.frame = []   # coordinates received by radial_grid_from (= what relocate received)
            self.raw = []     # raw results returned by the user functions

        # -- user function bodies -------------------------------------------------------------
        def _yx(self, grid):
            self.spy.append(_snap(grid))
            if self.mode == "wrapped" and hasattr(grid, "array"):
                return grid[:, 0], grid[:, 1]
            g = np.asarray(getattr(grid, "array", grid), dtype=float)
            return g[:, 0], g[:, 1]

        def _one(self, fn, y, x, pairs):
            fy = _scalar(fn["a"], y, x, fn["radial"])
            if not pairs:
                return fy
            fx = _scalar(fn["b"], y, x, fn["radial"])
            if self.mode == "wrapped":
                return np.vstack((fy, fx)).T
            return np.stack([fy, fx], axis=-1)

        def _ret(self, grid, pairs, as_list, kwargs=None):
            y, x = self._yx(grid)
            # user keyword argument (as downstream profile methods take): the result is scaled by `gain`
            # (powers of two, so the expectation stays exact)
            gain = (kwargs or {}).get("gain", 1.0)
            if as_list:
                res = [self._one(fn, y, x, pairs) * gain for fn in self.fns[:self.nlist]]
                self.raw.append([_snap(r) for r in res])
            else:
                res = self._one(self.fns[0], y, x, pairs) * gain
                self.raw.append(_snap(res))
            return res

        # -- structure decorators -------------------------------------------------------------
        @dec.to_array
        def arr(self, grid, *args, **kwargs):
            return self._ret(grid, False, False, kwargs)

        @dec.to_array
        def arr_list(self, grid, *args, **kwargs):
            return self._ret(grid, False, True, kwargs)

        @dec.to_grid
        def grd(self, grid, *args, **kwargs):
            return self._ret(grid, True, False, kwargs)

        @dec.to_grid
        def grd_list(self, grid, *args, **kwargs):
            return self._ret(grid, True, True, kwargs)

        @dec.to_vector_yx
        def vec(self, grid, *args, **kwargs):
            return self._ret(grid, True, False, kwargs)

        @dec.to_vector_yx
        def vec_list(self, grid, *args, **kwargs):
            return self._ret(grid, True, True, kwargs)

        @dec.project_grid
        def proj(self, grid, *args, **kwargs):
            return self._ret(grid, False, False)

        @dec.project_grid
        def proj_pairs(self, grid, *args, **kwargs):
            return self._ret(grid, True, False)

        # -- what downstream profiles supply for transform / relocate --------------------------
        @dec.to_array
        def _radial_dec(self, grid, **kwargs):
            return np.sqrt(np.add(np.square(grid[:, 0]), np.square(grid[:, 1])))

        def radial_grid_from(self, grid, **kwargs):
            self.frame.append(_snap(grid))
            if self.radial_dec:
                return self._radial_dec(grid)
            return np.sqrt(np.add(np.square(grid[:, 0]), np.square(grid[:, 1])))

        @dec.to_grid
        def transformed_to_reference_frame_grid_from(self, grid, **kwargs):
            if self.sph:
                return np.subtract(grid, self.centre)
            return aa.util.geometry.transform_grid_2d_to_reference_frame(
                grid_2d=np.asarray(getattr(grid, "array", grid)), centre=self.centre, angle=self.angle)

        @dec.relocate_to_radial_minimum
        def direct(self, grid, **kwargs):
            self.spy.append(_snap(grid))
            return grid

        @dec.to_array
        @dec.transform
        @dec.relocate_to_radial_minimum
        def image(self, grid, **kwargs):
            return self._ret(grid, False, False)

        @dec.to_vector_yx
        @dec.transform
        @dec.relocate_to_radial_minimum
        def deflections(self, grid, **kwargs):
            return self._ret(grid, True, False)

    for name in ("VPProfile", "VPProfileSmall", "VPProfileDyn"):
        _P[name] = type(name, (_Base,), {})
    return _P


# ---------------------------------------------------------------------------------------------
# shared oracle helpers
# ---------------------------------------------------------------------------------------------
def _nt_fn(fns, k=1):
    return all(not fn["radial"] for fn in fns[:k])


def _distinct(coords):
    return len({(float(a), float(b)) for a, b in np.asarray(coords, dtype=float).reshape(-1, 2)})


def _mask_same(ctx, out, m, ps, origin, key):
    om = getattr(out, "mask", None)
    ok = om is not None
    if ok:
        oa = np.asarray(om)
        ok = oa.shape == m.shape and bool(np.array_equal(oa.astype(bool), m))
        ok = ok and tuple(float(v) for v in om.pixel_scales) == tuple(float(v) for v in ps)
        ok = ok and tuple(float(v) for v in om.origin) == tuple(float(v) for v in origin)
    ctx.check(ok, key + "/mask", "result is not on the input grid's mask (array / pixel scales / origin): got %r" % (om,))
    return ok


def _check_2d(ctx, out, cls, key, m, ps, origin, want, coords=None):
    """`out` must be a `cls` on the mask (m, ps, origin) holding `want` (one row per unmasked pixel, slim order)."""
    ok = isinstance(out, cls)
    ctx.check(ok, key + "/type", "expected %s, got %s" % (cls.__name__, type(out).__name__))
    if not ok:
        return
    if not _mask_same(ctx, out, m, ps, origin, key):
        return
    ctx.equal(np.asarray(out), want, key + "/values", "stored entries (slim order) vs f(coordinate k)")
    ctx.equal(np.asarray(out.slim), want, key + "/values", ".slim vs f(coordinate k)")
    wn = np.zeros(m.shape + want.shape[1:])
    wn[~m] = want
    ctx.equal(np.asarray(out.native), wn, key + "/native", ".native vs f scattered to the unmasked pixels")
    if coords is not None:
        g = getattr(out, "grid", None)
        ctx.check(g is not None and np.asarray(g).shape == coords.shape and np.array_equal(np.asarray(g), coords),
                  key + "/grid", "vector field does not carry the input grid")


def _check_irr(ctx, out, cls, key, want, coords=None):
    ok = isinstance(out, cls)
    ctx.check(ok, key + "/type", "expected %s, got %s" % (cls.__name__, type(out).__name__))
    if not ok:
        return
    ctx.equal(np.asarray(out), want, key + "/values", "entries vs f(coordinate k)")
    if coords is not None:
        g = getattr(out, "grid", None)
        ctx.check(g is not None and np.asarray(g).shape == coords.shape and np.array_equal(np.asarray(g), coords),
                  key + "/grid", "vector field does not carry the input grid")


def _check_list(ctx, out, k, key):
    ok = isinstance(out, list) and len(out) == k
    ctx.check(ok, key + "/length", "expected a list of %d wrapped results, got %s" % (
        k, ("list of %d" % len(out)) if isinstance(out, list) else type(out).__name__))
    return ok


# ---------------------------------------------------------------------------------------------
# strategies: functions, coordinates
# ---------------------------------------------------------------------------------------------
@st.composite
def fn_specs(draw):
    radial = draw(st.integers(0, 9)) == 0
    a = draw(st.lists(gens.reals(-3, 3), min_size=7, max_size=7))
    b = draw(st.lists(gens.reals(-3, 3), min_size=7, max_size=7))
    if not radial:
        for v, bump in ((a, 1.0), (b, -1.5)):
            if abs(v[1] - v[2]) < 1e-3:
                v[1] = v[2] + bump
    return {"radial": radial, "a": a, "b": b}


def fn_lists():
    return st.lists(fn_specs(), min_size=3, max_size=3)


def coordinates(lo=-20.0, hi=20.0):
    return st.one_of(gens.reals(lo, hi), st.sampled_from([0.0, 1.0, -1.0, 0.5, -2.5]))


def _quant(v):
    """Coordinates for the radial sub-check: nothing in (0, 1e-6) so that no frame radius is degenerate."""
    return 0.0 if abs(v) < 1e-6 else v


MODES = ["ndarray", "wrapped"]


# ---------------------------------------------------------------------------------------------
# sub-check 1: Grid2D -> Array2D / Grid2D / VectorYX2D
# ---------------------------------------------------------------------------------------------
@st.composite
def uniform_cases(draw):
    mask = draw(gens.masks(lo=1, hi=8))
    h, w = len(mask), len(mask[0])
    kind = draw(st.sampled_from(["from_mask", "from_mask", "values"]))
    values = []
    if kind == "values":
        values = draw(st.lists(coordinates(), min_size=2 * h * w, max_size=2 * h * w))
    return {"mask": mask, "ps": draw(gens.pixel_scales()), "origin": draw(gens.origins(mag=50.0)),
            "grid_kind": kind, "values": values, "fns": draw(fn_lists()), "nlist": draw(st.integers(1, 3)), "gain": draw(st.sampled_from([None, None, 2.0, -0.5, 4.0])), 
            "mode": draw(st.sampled_from(MODES))}


def _grid2d(aa, case):
    m = np.asarray(case["mask"], dtype=bool)
    n = int((~m).sum())
    mask = aa.Mask2D(mask=m.copy(), pixel_scales=tuple(case["ps"]), origin=tuple(case["origin"]))
    if case["grid_kind"] == "from_mask":
        grid = aa.Grid2D.from_mask(mask=mask)
    else:
        grid = aa.Grid2D(values=np.asarray(case["values"][:2 * n], dtype=float).reshape(n, 2), mask=mask)
    return m, mask, grid, _snap(grid)


def body_uniform(case, ctx):
    aa = _aa()
    P = _profiles()
    g = float(case.get("gain") or 1.0)
    kw = {"gain": g} if case.get("gain") else {}
    ctx.label("kwargs:gain" if kw else "kwargs:none")
    m, mask, grid, coords = _grid2d(aa, case)
    ps, origin = case["ps"], case["origin"]
    fns, k = case["fns"], case["nlist"]
    for l in gens.mask_stats(m):
        ctx.label(l)
    ctx.label("grid:" + case["grid_kind"], "mode:" + case["mode"], "nlist:%d" % k,
              "fn:radial" if fns[0]["radial"] else "fn:asymmetric")
    ctx.nt(_nt_fn(fns, 1) and _distinct(coords) >= 3)
    p = P["VPProfile"](fns, mode=case["mode"], nlist=k)

    _check_2d(ctx, p.arr(grid, **kw), aa.Array2D, "to_array/grid2d", m, ps, origin, g * f_scalar(fns[0], coords))
    _check_2d(ctx, p.grd(grid, **kw), aa.Grid2D, "to_grid/grid2d", m, ps, origin, g * f_pair(fns[0], coords))
    _check_2d(ctx, p.vec(grid, **kw), aa.VectorYX2D, "to_vector_yx/grid2d", m, ps, origin, g * f_pair(fns[0], coords),
              coords=coords)
    out = p.arr_list(grid, **kw)
    if _check_list(ctx, out, k, "to_array/grid2d-list"):
        for j in range(k):
            _check_2d(ctx, out[j], aa.Array2D, "to_array/grid2d-list", m, ps, origin, g * f_scalar(fns[j], coords))
    out = p.grd_list(grid, **kw)
    if _check_list(ctx, out, k, "to_grid/grid2d-list"):
        for j in range(k):
            _check_2d(ctx, out[j], aa.Grid2D, "to_grid/grid2d-list", m, ps, origin, g * f_pair(fns[j], coords))
    out = p.vec_list(grid, **kw)
    if _check_list(ctx, out, k, "to_vector_yx/grid2d-list"):
        for j in range(k):
            _check_2d(ctx, out[j], aa.VectorYX2D, "to_vector_yx/grid2d-list", m, ps, origin,
                      g * f_pair(fns[j], coords), coords=coords)
    # the function received the input coordinates, entry k for pixel k (all six calls)
    for s in p.spy:
        ctx.equal(s, coords, "decorated/grid2d/received", "grid received by the user function vs input grid")


# ---------------------------------------------------------------------------------------------
# sub-check 2: Grid2DIrregular -> ArrayIrregular / Grid2DIrregular / VectorYX2DIrregular
# ---------------------------------------------------------------------------------------------
@st.composite
def irregular_points(draw, lo=1, hi=30, elem=None):
    n = draw(st.integers(lo, hi))
    elem = elem or coordinates()
    pts = [[draw(elem), draw(elem)] for _ in range(n)]
    if n >= 2 and draw(st.integers(0, 3)) == 0:      # a duplicate coordinate
        pts[draw(st.integers(0, n - 1))] = list(pts[draw(st.integers(0, n - 1))])
    if draw(st.integers(0, 3)) == 0:                 # a coordinate at the origin
        pts[draw(st.integers(0, n - 1))] = [0.0, 0.0]
    return pts


@st.composite
def irregular_cases(draw):
    return {"points": draw(irregular_points()), "fns": draw(fn_lists()), "nlist": draw(st.integers(1, 3)), "gain": draw(st.sampled_from([None, None, 2.0, -0.5, 4.0])), 
            "mode": draw(st.sampled_from(MODES))}


def body_irregular(case, ctx):
    aa = _aa()
    P = _profiles()
    g = float(case.get("gain") or 1.0)
    kw = {"gain": g} if case.get("gain") else {}
    ctx.label("kwargs:gain" if kw else "kwargs:none")
    coords = np.asarray(case["points"], dtype=float).reshape(-1, 2)
    grid = aa.Grid2DIrregular(values=coords.copy())
    fns, k = case["fns"], case["nlist"]
    n = len(coords)
    ctx.label("mode:" + case["mode"], "nlist:%d" % k, "n:1" if n == 1 else ("n:2-5" if n <= 5 else "n:6+"),
              "fn:radial" if fns[0]["radial"] else "fn:asymmetric")
    ctx.nt(_nt_fn(fns, 1) and _distinct(coords) >= 3)
    p = P["VPProfile"](fns, mode=case["mode"], nlist=k)

    _check_irr(ctx, p.arr(grid, **kw), aa.ArrayIrregular, "to_array/irregular", g * f_scalar(fns[0], coords))
    _check_irr(ctx, p.grd(grid, **kw), aa.Grid2DIrregular, "to_grid/irregular", g * f_pair(fns[0], coords))
    _check_irr(ctx, p.vec(grid, **kw), aa.VectorYX2DIrregular, "to_vector_yx/irregular", g * f_pair(fns[0], coords),
               coords=coords)
    out = p.arr_list(grid, **kw)
    if _check_list(ctx, out, k, "to_array/irregular-list"):
        for j in range(k):
            _check_irr(ctx, out[j], aa.ArrayIrregular, "to_array/irregular-list", g * f_scalar(fns[j], coords))
    out = p.grd_list(grid, **kw)
    if _check_list(ctx, out, k, "to_grid/irregular-list"):
        for j in range(k):
            _check_irr(ctx, out[j], aa.Grid2DIrregular, "to_grid/irregular-list", g * f_pair(fns[j], coords))
    out = p.vec_list(grid, **kw)
    if _check_list(ctx, out, k, "to_vector_yx/irregular-list"):
        for j in range(k):
            _check_irr(ctx, out[j], aa.VectorYX2DIrregular, "to_vector_yx/irregular-list",
                       g * f_pair(fns[j], coords), coords=coords)
    for s in p.spy:
        ctx.equal(s, coords, "decorated/irregular/received", "grid received by the user function vs input grid")


# ---------------------------------------------------------------------------------------------
# sub-check 3: Grid1D -> Array1D (to_array) / (1,N) grid (to_grid), evaluated on (0, x_k)
# ---------------------------------------------------------------------------------------------
@st.composite
def grid1d_specs(draw):
    n = draw(st.integers(1, 12))
    kind = draw(st.sampled_from(["from_mask", "values_masked", "no_mask_values"]))
    if kind == "no_mask_values":
        mask = [False] * n
    else:
        mask = draw(st.lists(st.booleans(), min_size=n, max_size=n))
        if all(mask):
            mask[draw(st.integers(0, n - 1))] = False
    xs = []
    if kind != "from_mask":
        k = sum(1 for v in mask if not v)
        xs = draw(st.lists(coordinates(), min_size=k, max_size=k))
    return {"kind": kind, "mask": mask, "ps": draw(gens.positives(0.05, 5.0)),
            "origin": draw(st.one_of(st.just(0.0), gens.reals(-20, 20))), "xs": xs}


def _grid1d(aa, spec):
    m = np.asarray(spec["mask"], dtype=bool)
    if spec["kind"] == "no_mask_values":
        grid = aa.Grid1D.no_mask(values=list(spec["xs"]), pixel_scales=spec["ps"], origin=(spec["origin"],))
    else:
        mask = aa.Mask1D(mask=m.copy(), pixel_scales=(spec["ps"],), origin=(spec["origin"],))
        if spec["kind"] == "from_mask":
            grid = aa.Grid1D.from_mask(mask=mask)
        else:
            grid = aa.Grid1D(values=np.asarray(spec["xs"], dtype=float), mask=mask)
    return m, grid, _snap(grid.slim)


@st.composite
def grid1d_cases(draw):
    return {"g1": draw(grid1d_specs()), "fns": draw(fn_lists()), "nlist": draw(st.integers(1, 3)),
            "gain": draw(st.sampled_from([None, None, 2.0, -0.5, 4.0])), "mode": draw(st.sampled_from(MODES))}


def _check_line(ctx, spy, want_pts, key, scale):
    ok = spy.shape == want_pts.shape
    if ok:
        ok = bool(np.all(np.abs(spy - want_pts) <= 1e-12 * (1.0 + scale)))
    ctx.check(ok, key, "function was not evaluated on the projected line: got %s want %s" % (
        np.array2string(spy, precision=17, threshold=40), np.array2string(want_pts, precision=17, threshold=40)))
    return ok


def _check_1d(ctx, aa, out, key, m, ps, origin, want):
    """`out` must be an Array1D on the 1D mask (m, ps, origin) holding `want` (one entry per unmasked pixel)."""
    ok = isinstance(out, aa.Array1D)
    ctx.check(ok, key + "/type", "expected Array1D, got %s" % type(out).__name__)
    if not ok or not _mask_same(ctx, out, m, ps, origin, key):
        return
    ctx.equal(np.asarray(out.slim), want, key + "/values", "Array1D slim entries vs f((0,x_k))")
    wn = np.zeros(m.shape)
    wn[~m] = want
    ctx.equal(np.asarray(out.native), wn, key + "/native", "Array1D native entries")


def _check_1d_grid(ctx, out, key, m, want):
    om = getattr(out, "mask", None)
    ok = om is not None and np.array_equal(np.asarray(om).astype(bool).ravel(), m)
    ctx.check(ok, key + "/mask", "result of to_grid on a Grid1D is not on the 1D mask")
    if not ok:
        return
    ctx.equal(np.asarray(out.slim), want, key + "/values", "entries vs f((0,x_k)) pairs")


def body_grid1d(case, ctx):
    aa = _aa()
    P = _profiles()
    g = float(case.get("gain") or 1.0)
    kw = {"gain": g} if case.get("gain") else {}
    ctx.label("kwargs:gain" if kw else "kwargs:none")
    spec = case["g1"]
    m, grid, xs = _grid1d(aa, spec)
    fns, k = case["fns"], case["nlist"]
    line = np.stack([np.zeros_like(xs), xs], axis=-1)           # (0, x_k)
    scale = float(np.max(np.abs(xs))) if len(xs) else 0.0
    ctx.label("g1:" + spec["kind"], "mode:" + case["mode"], "nlist:%d" % k,
              "g1:masked" if m.any() else "g1:unmasked", "g1:negative-x" if (xs < 0).any() else "g1:nonneg-x",
              "fn:radial" if fns[0]["radial"] else "fn:asymmetric")
    ctx.nt(_nt_fn(fns, 1) and _distinct(line) >= 3)
    p = P["VPProfile"](fns, mode=case["mode"], nlist=k)
    ps, origin = (spec["ps"],), (spec["origin"],)

    def check_1d(out, key, pts, fn):
        # the values are f at the points the function actually received (verified to be (0,x_k) at 1e-12)
        _check_1d(ctx, aa, out, key, m, ps, origin, g * f_scalar(fn, pts))

    def check_1d_grid(out, key, pts, fn):
        _check_1d_grid(ctx, out, key, m, g * f_pair(fn, pts))

    out = p.arr(grid, **kw)
    if _check_line(ctx, p.spy[-1], line, "to_array/grid1d/projected-line", scale):
        check_1d(out, "to_array/grid1d", p.spy[-1], fns[0])
    out = p.arr_list(grid, **kw)
    if _check_line(ctx, p.spy[-1], line, "to_array/grid1d/projected-line", scale) and \
            _check_list(ctx, out, k, "to_array/grid1d-list"):
        for j in range(k):
            check_1d(out[j], "to_array/grid1d-list", p.spy[-1], fns[j])
    out = p.grd(grid, **kw)
    if _check_line(ctx, p.spy[-1], line, "to_grid/grid1d/projected-line", scale):
        check_1d_grid(out, "to_grid/grid1d", p.spy[-1], fns[0])
    out = p.grd_list(grid, **kw)
    if _check_line(ctx, p.spy[-1], line, "to_grid/grid1d/projected-line", scale) and \
            _check_list(ctx, out, k, "to_grid/grid1d-list"):
        for j in range(k):
            check_1d_grid(out[j], "to_grid/grid1d-list", p.spy[-1], fns[j])


# ---------------------------------------------------------------------------------------------
# sub-check 4: project_grid
# ---------------------------------------------------------------------------------------------
ANGLES = st.one_of(st.sampled_from([0.0, 90.0, 45.0, -30.0, 180.0, 270.0]), st.floats(-360.0, 360.0))


@st.composite
def project_cases(draw):
    kind = draw(st.sampled_from(["grid2d", "grid2d", "irregular", "grid1d", "grid1d"]))
    case = {"kind": kind, "fns": draw(fn_lists()), "mode": draw(st.sampled_from(MODES)),
            "centre_kind": draw(st.sampled_from(["tuple", "tuple", "tuple", "none", "absent"])),
            "angle_kind": draw(st.sampled_from(["value", "value", "value", "none", "absent"])),
            "angle": draw(ANGLES)}
    if kind == "grid2d":
        mask = draw(gens.masks(lo=1, hi=7))
        s = draw(gens.pixel_scales(iso=True))
        case.update({"mask": mask, "ps": s, "origin": draw(gens.origins(mag=20.0)), "grid_kind": "from_mask",
                     "values": [],
                     # centre = origin + frac * (H*sy, W*sx): inside, on the edge of, or outside the extent
                     "centre_frac": [draw(st.one_of(st.sampled_from([0.0, 0.5, -0.5, 0.25]), st.floats(-1.0, 1.0))),
                                     draw(st.one_of(st.sampled_from([0.0, 0.5, -0.5, 0.25]), st.floats(-1.0, 1.0)))]})
    elif kind == "irregular":
        case.update({"points": draw(irregular_points()), "pairs": draw(st.booleans()),
                     "centre": [draw(gens.reals(-5, 5)), draw(gens.reals(-5, 5))]})
    else:
        case.update({"g1": draw(grid1d_specs()), "centre": [draw(gens.reals(-5, 5)), draw(gens.reals(-5, 5))]})
    return case


def body_project(case, ctx):
    aa = _aa()
    P = _profiles()
    fns = case["fns"]
    kind = case["kind"]
    if kind == "grid2d":
        m, mask, grid, coords = _grid2d(aa, case)
        h, w = m.shape
        sy, sx = case["ps"]
        oy, ox = case["origin"]
        centre_val = (oy + case["centre_frac"][0] * h * sy, ox + case["centre_frac"][1] * w * sx)
    else:
        centre_val = tuple(case["centre"])
    ck, ak = case["centre_kind"], case["angle_kind"]
    kw, centre, u = _proj_geometry(ck, ak, centre_val, case["angle"])
    ctx.label("in:" + kind, "mode:" + case["mode"], "centre:" + ck, "angle:" + ak,
              "fn:radial" if fns[0]["radial"] else "fn:asymmetric")
    p = P["VPProfile"](fns, mode=case["mode"], **kw)

    if kind == "irregular":
        coords = np.asarray(case["points"], dtype=float).reshape(-1, 2)
        grid = aa.Grid2DIrregular(values=coords.copy())
        ctx.nt(_nt_fn(fns, 1) and _distinct(coords) >= 3)
        ctx.label("irr:pairs" if case["pairs"] else "irr:scalar")
        if case["pairs"]:
            _check_irr(ctx, p.proj_pairs(grid), aa.Grid2DIrregular, "project_grid/irregular-pairs", f_pair(fns[0], coords))
        else:
            _check_irr(ctx, p.proj(grid), aa.ArrayIrregular, "project_grid/irregular", f_scalar(fns[0], coords))
        ctx.equal(p.spy[-1], coords, "project_grid/irregular/received", "grid received vs input grid")
        return

    if kind == "grid1d":
        spec = case["g1"]
        m1, grid, xs = _grid1d(aa, spec)
        out = p.proj(grid)
        ctx.nt(_nt_fn(fns, 1) and _distinct(np.stack([xs, xs], -1)) >= 3)
        ctx.label("g1:" + spec["kind"], "g1:masked" if m1.any() else "g1:unmasked")
        _check_proj_1d(ctx, aa, out, p.spy[-1], xs, spec["ps"], u, fns[0])
        return

    # Grid2D: radial projection from the profile centre
    out = p.proj(grid)
    npts = p.spy[-1].shape[0]
    ctx.nt(_nt_fn(fns, 1) and npts >= 3)
    ctx.label("proj:n=1" if npts == 1 else ("proj:n=2" if npts == 2 else "proj:n>=3"))
    for l in gens.mask_stats(m):
        ctx.label(l)
    _check_proj_2d(ctx, aa, out, p.spy[-1], (h, w, sy, sx, oy, ox), centre, u, fns[0])


def _proj_geometry(ck, ak, centre_val, angle):
    """Constructor keywords for the profile and the documented ray: start point and unit direction (y,x)."""
    kw = {}
    if ck != "absent":
        kw["centre"] = tuple(centre_val) if ck == "tuple" else None
    if ak != "absent":
        kw["angle"] = angle if ak == "value" else None
    centre = np.asarray(centre_val if ck == "tuple" else (0.0, 0.0), dtype=float)
    alpha = math.radians(angle + 90.0) if ak == "value" else 0.0
    u = np.array([-math.sin(alpha), math.cos(alpha)])     # documented: +x axis rotated clockwise by alpha
    return kw, centre, u


def _check_proj_1d(ctx, aa, out, spy, xs, ps, u, fn, pre=""):
    """project_grid on a Grid1D with slim coordinates xs: `spy` = points the function received."""
    K = pre + "project_grid/grid1d"
    n = len(xs)
    ok = spy.shape == (n, 2)
    ctx.check(ok, K + "/line", "function received %s points for %d 1D coordinates" % (spy.shape, n))
    if not ok:
        return
    # one line through the origin, point k at signed distance x_k
    rad = np.hypot(spy[:, 0], spy[:, 1])
    ctx.close(rad, np.abs(xs), K + "/line", rtol=1e-12, atol=1e-12, what="|p_k| vs |x_k|")
    nz = np.abs(xs) > 1e-6     # the common direction is only resolved for points away from the origin
    if nz.sum() >= 2:
        d = spy[nz] / xs[nz][:, None]           # signed unit direction, must be common to all points
        ctx.check(bool(np.all(np.abs(d - d[0]) <= 1e-9)), K + "/line",
                  "projected points are not on one line through the origin with signed position x_k")
    ctx.check(bool(np.all(np.abs(spy - xs[:, None] * u[None, :]) <= 1e-12 * (1.0 + np.abs(xs))[:, None])),
              K + "/direction-documented", lambda: "points %s vs x_k*(-sin(angle+90), cos(angle+90)) = %s" % (
                  spy[:3].tolist(), (xs[:, None] * u[None, :])[:3].tolist()))
    ok = isinstance(out, aa.Array1D)
    ctx.check(ok, K + "/type", "expected Array1D, got %s" % type(out).__name__)
    if not ok:
        return
    ctx.equal(np.asarray(out.slim), f_scalar(fn, spy), K + "/values", "entry k vs f(projected point k)")
    ctx.check(tuple(float(v) for v in out.pixel_scales) == (float(ps),), K + "/pixel-scale",
              "result pixel scale %r vs input %r" % (out.pixel_scales, ps))


def _check_proj_2d(ctx, aa, out, spy, geom, centre, u, fn, pre=""):
    """project_grid on a Grid2D whose mask has geometry geom=(h,w,sy,sx,oy,ox), sy==sx."""
    K = pre + "project_grid/grid2d"
    h, w, sy, sx, oy, ox = geom
    ps = float(sy)
    npts = spy.shape[0]
    ok = spy.ndim == 2 and spy.shape[1] == 2 and npts >= 1
    ctx.check(ok, K + "/ray", "function received an array of shape %s" % (spy.shape,))
    if not ok:
        return
    cs = 1.0 + float(np.max(np.abs(centre)))
    ctx.check(bool(np.all(np.abs(spy[0] - centre) <= 1e-12 * cs)), K + "/ray",
              "first projected point %s is not the profile centre %s" % (spy[0], centre))
    rel = spy - centre[None, :]
    rad = np.hypot(rel[:, 0], rel[:, 1])
    kk = np.arange(npts, dtype=float)
    ctx.check(bool(np.all(np.abs(rad - kk * ps) <= 1e-9 * (cs + kk * ps))), K + "/ray",
              lambda: "radii from the centre %s are not k*pixel_scale (%g)" % (rad, ps))
    if npts >= 2:
        d = rel[1:] / (kk[1:] * ps)[:, None]
        ctx.check(bool(np.all(np.abs(d - d[0]) <= 1e-9 * cs / ps)), K + "/ray",
                  "projected points are not on one ray from the centre")
        ctx.check(bool(np.all(np.abs(d - u[None, :]) <= 1e-9 * cs / ps)), K + "/direction-documented",
                  lambda: "ray direction %s vs documented %s" % (d[0], u))
    # documented number of points: longest distance from the centre to an extent edge
    ymax, ymin = oy + h * sy / 2.0, oy - h * sy / 2.0
    xmax, xmin = ox + w * sx / 2.0, ox - w * sx / 2.0
    dist = max(xmax - centre[1], ymax - centre[0], centre[1] - xmin, centre[0] - ymin)
    q = dist / ps
    if abs(q - round(q)) < 1e-6:
        ctx.tie()
    else:
        ctx.check(npts == int(q) + 1, K + "/count-documented",
                  "%d projected points, documented int(%r/%r)+1 = %d" % (npts, dist, ps, int(q) + 1))
    ok = isinstance(out, aa.Array1D)
    ctx.check(ok, K + "/type", "expected Array1D, got %s" % type(out).__name__)
    if not ok:
        return
    ctx.equal(np.asarray(out.slim), f_scalar(fn, spy), K + "/values", "entry k vs f(projected point k)")
    ctx.equal(np.asarray(out.native), f_scalar(fn, spy), K + "/values", "native entry k vs f(projected point k)")
    ctx.check(tuple(float(v) for v in out.pixel_scales) == (ps,), K + "/pixel-scale",
              "result pixel scale %r vs %r" % (out.pixel_scales, ps))


# ---------------------------------------------------------------------------------------------
# sub-check 5: relocate_to_radial_minimum, alone and under to_array/to_vector_yx o transform
# ---------------------------------------------------------------------------------------------
@st.composite
def radial_cases(draw):
    kind = draw(st.sampled_from(["grid2d_mask", "grid2d_mask", "grid2d_values", "irregular", "ndarray"]))
    qc = coordinates(-6.0, 6.0).map(_quant)
    case = {"kind": kind, "fns": draw(fn_lists()), "mode": draw(st.sampled_from(MODES)),
            "cls": draw(st.sampled_from(["VPProfile", "VPProfileSmall", "VPProfileSmall", "VPProfileDyn", "VPProfileDyn"])),
            "r_dyn": draw(st.one_of(st.sampled_from([1e-6, 0.01, 0.1, 0.3, 1.0, 2.5]), st.floats(1e-6, 3.0))),
            "sph": draw(st.booleans()), "radial_dec": draw(st.booleans()), "angle": draw(ANGLES)}
    if kind.startswith("grid2d"):
        mask = draw(gens.masks(lo=1, hi=7))
        h, w = len(mask), len(mask[0])
        case.update({"mask": mask,
                     "ps": draw(st.one_of(st.sampled_from([[0.05, 0.05], [0.1, 0.1], [0.5, 0.5], [1.0, 1.0], [0.25, 0.5]]),
                                          gens.pixel_scales())),
                     "origin": [_quant(v) for v in draw(gens.origins(mag=5.0))],
                     "grid_kind": "from_mask" if kind == "grid2d_mask" else "values",
                     "values": draw(st.lists(qc, min_size=2 * h * w, max_size=2 * h * w)) if kind == "grid2d_values" else []})
    else:
        case["points"] = draw(irregular_points(1, 20, elem=qc))
    ck = draw(st.sampled_from(["at", "at", "at", "at", "zero", "free"]))
    centre = {"kind": ck}
    if ck == "at":
        centre["index"] = draw(st.integers(0, 63))
        # offset radius rho*r_min: 0 = a coordinate exactly at the centre; <1 inside; >1 outside
        centre["rho"] = draw(st.sampled_from([0.0, 0.0, 0.05, 0.3, 0.5, 0.9, 0.999, 1.0, 1.001, 1.5, 3.0]))
        centre["phi32"] = draw(st.integers(0, 63))        # direction = phi32 * pi/32
    elif ck == "free":
        centre["value"] = [_quant(draw(gens.reals(-5, 5))), _quant(draw(gens.reals(-5, 5)))]
    case["centre"] = centre
    return case


def _classify(r, r_min):
    c = np.full(r.shape, "outside", dtype=object)
    c[r < r_min * (1.0 - TIE)] = "inside"
    c[np.abs(r - r_min) <= TIE * r_min] = "tie"
    c[(r > 0) & (r < DEGENERATE)] = "degenerate"
    c[r == 0] = "centre"
    return c


def _check_reloc(ctx, q, s, r_min, key):
    """q = coordinates that reached the relocation wrapper, s = coordinates that reached the function."""
    ok = s.shape == q.shape
    ctx.check(ok, key + "/shape", "function received shape %s for %s coordinates" % (s.shape, q.shape))
    if not ok:
        return False
    r = np.hypot(q[:, 0], q[:, 1])
    cl = _classify(r, r_min)
    o, i, c, t = cl == "outside", cl == "inside", cl == "centre", cl == "tie"
    if o.any():
        ctx.label("radial:has-outside")
        ctx.check(bool(np.array_equal(s[o], q[o])), key + "/outside-changed",
                  lambda: "coordinates with r>=r_min=%g did not reach the function unchanged: %s -> %s" % (
                      r_min, (q[o][np.any(s[o] != q[o], axis=1)][:3]).tolist(),
                      (s[o][np.any(s[o] != q[o], axis=1)][:3]).tolist()))
    if i.any():
        ctx.label("radial:has-inside")
        want = q[i] * (r_min / r[i])[:, None]
        ctx.close(s[i], want, key + "/inside-not-on-minimum", rtol=1e-12, atol=1e-12 * r_min,
                  what="coordinates with 0<r<r_min=%g must be scaled radially onto r_min" % r_min)
    if c.any():
        ctx.label("radial:has-centre")
        sc = s[c]
        fin = bool(np.all(np.isfinite(sc)))
        ok = fin and bool(np.all(np.hypot(sc[:, 0], sc[:, 1]) >= r_min * (1.0 - 1e-12))) \
            and bool(np.all(np.max(np.abs(sc), axis=1) <= r_min * (1.0 + 1e-12)))
        ctx.check(ok, key + "/centre", lambda: "coordinate at the centre moved to %s (r_min=%g): not finite / inside "
                  "the disc of radius r_min / outside the square of half-width r_min" % (sc[:3], r_min))
    if t.any():
        ctx.label("radial:has-tie")
        ctx.tie(int(t.sum()))
        ctx.check(bool(np.all(np.abs(s[t] - q[t]) <= 1e-9 * r_min)), key + "/tie",
                  "coordinate on the r_min circle moved by more than 1e-9*r_min")
    return True


def _frame(coords, centre, angle, sph):
    """Closed-form profile frame: translate by the centre, rotate clockwise by `angle` degrees."""
    d = coords - np.asarray(centre, dtype=float)[None, :]
    if sph:
        return d
    a = math.radians(angle)
    ca, sa = math.cos(a), math.sin(a)
    return np.stack([d[:, 0] * ca - d[:, 1] * sa, d[:, 1] * ca + d[:, 0] * sa], axis=-1)


def _check_direct(ctx, aa, p, out, q0, r_min, g2d, irregular, pre=""):
    """`p.direct(grid)` was just called once on frame coordinates q0; g2d=(m, ps, origin) for a Grid2D input."""
    K = pre + "relocate/direct"
    ok = len(p.frame) == 1 and len(p.spy) == 1
    ctx.check(ok, K + "/calls", "radial_grid_from / function not called exactly once")
    if not ok:
        return
    ctx.equal(p.frame[-1], q0, K + "/radial-grid-input", "grid handed to radial_grid_from vs input")
    _check_reloc(ctx, q0, p.spy[-1], r_min, K)
    # the function returned the grid it received; the (un-decorated) result is that grid
    ctx.equal(_snap(out), p.spy[-1], K + "/result", "returned grid vs grid received by the function")
    if g2d is not None:
        ctx.check(isinstance(out, aa.Grid2D) and _mask_same(ctx, out, g2d[0], g2d[1], g2d[2], K),
                  K + "/type", "moved grid is not a Grid2D on the input mask: %s" % type(out).__name__)
    elif irregular:
        ctx.check(isinstance(out, aa.Grid2DIrregular), K + "/type",
                  "moved grid is not a Grid2DIrregular: %s" % type(out).__name__)


def _check_composed(ctx, aa, p, meth, out, coords, centre, angle, sph, r_min, fn, g2d, pre=""):
    """`getattr(p, meth)(grid)` (to_array / to_vector_yx o transform o relocate) was just called once on a grid
    with coordinates `coords`; g2d=(m, ps, origin) for a Grid2D input, None for a Grid2DIrregular."""
    ok = len(p.frame) == 1 and len(p.spy) == 1
    ctx.check(ok, pre + "composed/%s/calls" % meth, "radial_grid_from / function not called exactly once")
    if not ok:
        return
    tol = 1e-12 * (1.0 + float(np.max(np.abs(coords))) + max(abs(centre[0]), abs(centre[1])))
    q_or = _frame(coords, centre, angle, sph)
    q_spy, s_spy = p.frame[-1], p.spy[-1]
    ok = q_spy.shape == q_or.shape and bool(np.all(np.abs(q_spy - q_or) <= tol))
    ctx.check(ok, pre + ("transform/frame-sph" if sph else "transform/frame-rotated"),
              lambda: "coordinates entering the relocation are not the profile-frame coordinates: "
              "got %s want %s" % (q_spy[:4], q_or[:4]))
    if not ok:
        return
    if not _check_reloc(ctx, q_spy, s_spy, r_min, pre + "relocate/composed"):
        return
    want = f_scalar(fn, s_spy) if meth == "image" else f_pair(fn, s_spy)
    if g2d is not None:
        _check_2d(ctx, out, aa.Array2D if meth == "image" else aa.VectorYX2D, pre + "composed/%s/grid2d" % meth,
                  g2d[0], g2d[1], g2d[2], want, coords=coords if meth == "deflections" else None)
    else:
        _check_irr(ctx, out, aa.ArrayIrregular if meth == "image" else aa.VectorYX2DIrregular,
                   pre + "composed/%s/irregular" % meth, want, coords=coords if meth == "deflections" else None)


def body_radial(case, ctx):
    from autoconf import conf
    rm = conf.instance["grids"]["radial_minimum"]["radial_minimum"]
    name = case["cls"]
    if name == "VPProfileDyn":
        old = rm["VPProfileDyn"]
        rm["VPProfileDyn"] = float(case["r_dyn"])
        try:
            _radial(case, ctx, float(case["r_dyn"]))
        finally:
            rm["VPProfileDyn"] = old
    else:
        _radial(case, ctx, R_MIN[name])


def _radial(case, ctx, r_min):
    aa = _aa()
    P = _profiles()
    kind = case["kind"]
    fns = case["fns"]
    if kind.startswith("grid2d"):
        m, mask, grid, coords = _grid2d(aa, case)
        for l in gens.mask_stats(m):
            ctx.label(l)
    else:
        coords = np.asarray(case["points"], dtype=float).reshape(-1, 2)
        m = mask = None
    n = len(coords)
    cs = case["centre"]
    if cs["kind"] == "zero":
        centre = (0.0, 0.0)
    elif cs["kind"] == "free":
        centre = (float(cs["value"][0]), float(cs["value"][1]))
    else:
        phi = cs["phi32"] * math.pi / 32.0
        base = coords[cs["index"] % n]
        centre = (float(base[0] - cs["rho"] * r_min * math.sin(phi)), float(base[1] - cs["rho"] * r_min * math.cos(phi)))
    sph, angle = case["sph"], case["angle"]
    ctx.label("in:" + kind, "cls:" + case["cls"], "mode:" + case["mode"], "frame:sph" if sph else "frame:rotated",
              "radial_grid_from:to_array" if case["radial_dec"] else "radial_grid_from:plain",
              "centre:" + cs["kind"], "fn:radial" if fns[0]["radial"] else "fn:asymmetric")

    def make(c):
        if kind.startswith("grid2d"):
            return aa.Grid2D(values=c.copy(), mask=mask)
        if kind == "irregular":
            return aa.Grid2DIrregular(values=c.copy())
        return c.copy()

    def profile():
        return P[case["cls"]](fns, mode=case["mode"], centre=centre, angle=angle, sph=sph,
                              radial_dec=case["radial_dec"])

    q_or = _frame(coords, centre, angle, sph)
    r_or = np.hypot(q_or[:, 0], q_or[:, 1])
    q0 = coords - np.asarray(centre)[None, :]      # frame coordinates handed in directly (no transform)
    r0 = np.hypot(q0[:, 0], q0[:, 1])
    if ((r_or > 0) & (r_or < DEGENERATE)).any() or ((r0 > 0) & (r0 < DEGENERATE)).any():
        ctx.label("radial:degenerate-skipped")
        ctx.tie()
        return
    cl = _classify(r0, r_min)
    for c in ("inside", "centre"):
        if (cl == c).any():
            ctx.label("%s+%s" % (case["cls"], c))
    ctx.nt(_nt_fn(fns, 1) and _distinct(coords) >= 3 and ((cl == "inside") | (cl == "centre")).any()
           and (cl == "outside").any())

    # (a) the relocation decorator alone, in the profile frame (the decorator's own contract)
    p = profile()
    out = p.direct(make(q0))
    _check_direct(ctx, aa, p, out, q0, r_min, (m, case["ps"], case["origin"]) if kind.startswith("grid2d") else None,
                  kind == "irregular")
    if kind == "ndarray":
        return

    # (b) downstream composition: to_array o transform o relocate  and  to_vector_yx o transform o relocate
    for meth in ("image", "deflections"):
        p = profile()
        grid_in = make(coords)
        out = getattr(p, meth)(grid_in)
        _check_composed(ctx, aa, p, meth, out, coords, centre, angle, sph, r_min, fns[0],
                        (m, case["ps"], case["origin"]) if kind.startswith("grid2d") else None)

    # (c) a grid flagged as already transformed reaches the relocation as it is
    p = profile()
    out = p.image(make(q0), is_transformed=True)
    ok = len(p.frame) == 1 and len(p.spy) == 1
    ctx.check(ok, "transform/is_transformed/calls", "radial_grid_from / function not called exactly once")
    if ok:
        ctx.equal(p.frame[-1], q0, "transform/is_transformed/frame", "already-transformed grid was transformed again")
        if _check_reloc(ctx, q0, p.spy[-1], r_min, "relocate/is_transformed"):
            want = f_scalar(fns[0], p.spy[-1])
            if kind.startswith("grid2d"):
                _check_2d(ctx, out, aa.Array2D, "composed/image-is_transformed/grid2d", m, case["ps"], case["origin"], want)
            else:
                _check_irr(ctx, out, aa.ArrayIrregular, "composed/image-is_transformed/irregular", want)


# ---------------------------------------------------------------------------------------------
# sub-check 6: ONE grid object (and grids derived from it) reused across profiles and calls
# ---------------------------------------------------------------------------------------------
REUSE_METHODS = {
    "grid1d": ["proj", "proj", "proj", "arr", "grd", "arr_list"],
    "grid2d": ["proj", "proj", "arr", "grd", "vec", "vec", "arr_list", "image", "deflections", "direct"],
    "irregular": ["proj", "proj_pairs", "proj_pairs", "arr", "grd", "vec", "vec", "arr_list", "image", "direct"],
}
RADIAL_METHODS = ("image", "deflections", "direct")
FRACS = st.one_of(st.sampled_from([0.0, 0.5, -0.5, 0.25]), st.floats(-1.0, 1.0))


@st.composite
def reuse_call(draw, kind, series):
    ck = draw(st.sampled_from(["at", "at", "at", "frac", "zero"] if series == "radial" else ["at", "frac", "frac", "zero"]))
    centre = {"kind": ck}
    if ck == "at":
        centre.update({"index": draw(st.integers(0, 63)),
                       "rho": draw(st.sampled_from([0.0, 0.3, 0.9, 1.5, 3.0])), "phi32": draw(st.integers(0, 63))})
    elif ck == "frac":
        centre["frac"] = [_quant(draw(FRACS)), _quant(draw(FRACS))]
    return {
        "target": draw(st.sampled_from(["same", "same", "same", "copy", "scaled"] if series != "none" else
                                       ["same", "same", "same", "copy", "scaled", "fresh"])),
        "scale": draw(st.sampled_from([2.0, 0.5, -1.0, 4.0])),
        "profile": draw(st.sampled_from(["new", "new", "prev"])),
        "cls": draw(st.sampled_from(["VPProfile", "VPProfileSmall", "VPProfileDyn"])),
        "method": "proj" if series == "proj" else draw(st.sampled_from(
            ["image", "image", "deflections", "direct"] if series == "radial" else REUSE_METHODS[kind])),
        "centre_kind": draw(st.sampled_from(["tuple", "tuple", "tuple", "none", "absent"])),
        "angle_kind": draw(st.sampled_from(["value", "value", "value", "value", "none", "absent"])),
        "angle": draw(ANGLES), "centre": centre, "sph": draw(st.booleans()), "radial_dec": draw(st.booleans()),
        "fns": draw(st.lists(fn_specs(), min_size=2, max_size=2)), "nlist": draw(st.integers(1, 2)),
        "mode": draw(st.sampled_from(MODES)),
    }


@st.composite
def reuse_cases(draw):
    kind = draw(st.sampled_from(["grid1d", "grid1d", "grid2d", "grid2d", "irregular"]))
    # "proj": every call is project_grid on the reused object; "radial": every call relocates to a radial minimum
    series = draw(st.sampled_from({"grid1d": ["proj", "none"], "grid2d": ["proj", "radial", "none"],
                                   "irregular": ["radial", "none"]}[kind]))
    qc = coordinates(-6.0, 6.0).map(_quant)
    case = {"kind": kind, "series": series,
            "r_dyn": draw(st.one_of(st.sampled_from([0.01, 0.1, 0.3, 1.0, 2.5]), st.floats(1e-6, 3.0)))}
    if kind == "grid1d":
        case["g1"] = draw(grid1d_specs())
    elif kind == "grid2d":
        mask = draw(gens.masks(lo=1, hi=6))
        h, w = len(mask), len(mask[0])
        gk = draw(st.sampled_from(["from_mask", "from_mask", "values"]))
        case.update({"mask": mask, "ps": draw(st.one_of(st.sampled_from([[0.1, 0.1], [0.5, 0.5], [1.0, 1.0]]),
                                                        gens.pixel_scales(iso=True))),
                     "origin": [_quant(v) for v in draw(gens.origins(mag=5.0))], "grid_kind": gk,
                     "values": draw(st.lists(qc, min_size=2 * h * w, max_size=2 * h * w)) if gk == "values" else []})
    else:
        case["points"] = draw(irregular_points(1, 12, elem=qc))
    case["calls"] = draw(st.lists(reuse_call(kind, series), min_size=2, max_size=4))
    return case


def _set_geometry(p, kw):
    for name in ("centre", "angle"):
        if name in kw:
            setattr(p, name, kw[name])
        elif name in p.__dict__:
            delattr(p, name)


def _reuse_sequence(case, calls, ctx, order):
    aa = _aa()
    P = _profiles()
    kind = case["kind"]
    g2d = geom = m1 = None
    if kind == "grid1d":
        m1 = np.asarray(case["g1"]["mask"], dtype=bool)
        ps1, origin1 = (case["g1"]["ps"],), (case["g1"]["origin"],)
    elif kind == "grid2d":
        m = np.asarray(case["mask"], dtype=bool)
        g2d = (m, case["ps"], case["origin"])
        geom = (m.shape[0], m.shape[1], case["ps"][0], case["ps"][1], case["origin"][0], case["origin"][1])

    def build():
        if kind == "grid1d":
            return _grid1d(aa, case["g1"])[1]
        if kind == "grid2d":
            return _grid2d(aa, case)[2]
        return aa.Grid2DIrregular(values=np.asarray(case["points"], dtype=float).reshape(-1, 2))

    G = build()                       # THE reused object
    prev = prev_cls = None
    shared = 0
    for i, call in enumerate(calls):
        pre = "" if i == 0 else "reuse/"
        t = call["target"]
        if t == "same":
            grid = G
        elif t == "copy":
            grid = G.copy()
        elif t == "scaled":
            grid = G * call["scale"]
        else:
            grid = build()
        shared += t != "fresh"
        # the coordinates of the grid handed to this call (snapshot before the call)
        coords = _snap(grid.slim) if kind == "grid1d" else _snap(grid)
        n = len(coords)
        meth = call["method"]
        fns = call["fns"]
        cls = call["cls"]
        reuse_prev = call["profile"] == "prev" and prev is not None
        if reuse_prev:
            cls = prev_cls
        r_min = R_MIN.get(cls, float(case["r_dyn"]))
        # geometry of THIS call's profile
        cs = call["centre"]
        pts2 = np.stack([np.zeros_like(coords), coords], axis=-1) if kind == "grid1d" else coords
        if cs["kind"] == "zero":
            cval = (0.0, 0.0)
        elif cs["kind"] == "frac":
            if kind == "grid2d":
                cval = (geom[4] + cs["frac"][0] * geom[0] * geom[2], geom[5] + cs["frac"][1] * geom[1] * geom[3])
            else:
                cval = (5.0 * cs["frac"][0], 5.0 * cs["frac"][1])
        else:
            phi = cs["phi32"] * math.pi / 32.0
            base = pts2[cs["index"] % n]
            cval = (float(base[0] - cs["rho"] * r_min * math.sin(phi)), float(base[1] - cs["rho"] * r_min * math.cos(phi)))
        cval = (float(cval[0]), float(cval[1]))
        ck, ak = call["centre_kind"], call["angle_kind"]
        if meth in RADIAL_METHODS:
            ck, ak = "tuple", "value"            # transform needs a centre and an angle
        kw, centre, u = _proj_geometry(ck, ak, cval, call["angle"])
        if reuse_prev:
            p = prev                             # the same profile object with changed attributes in between
            p.fns, p.mode, p.nlist, p.sph, p.radial_dec = fns, call["mode"], call["nlist"], call["sph"], call["radial_dec"]
            _set_geometry(p, kw)
        else:
            p = P[cls](fns, mode=call["mode"], nlist=call["nlist"], sph=call["sph"], radial_dec=call["radial_dec"], **kw)
        prev, prev_cls = p, cls
        del p.spy[:], p.frame[:], p.raw[:]
        ctx.label("order:" + order, "in:" + kind, "target:" + t, "method:" + meth,
                  "profile:prev-mutated" if reuse_prev else "profile:new", "call:%d" % i)

        if meth in RADIAL_METHODS:
            q0 = coords if meth == "direct" else _frame(coords, cval, call["angle"], call["sph"])
            r0 = np.hypot(q0[:, 0], q0[:, 1])
            if ((r0 > 0) & (r0 < DEGENERATE)).any():
                ctx.tie()
                continue
            out = getattr(p, meth)(grid)
            if meth == "direct":
                _check_direct(ctx, aa, p, out, coords, r_min, g2d, kind == "irregular", pre)
            else:
                _check_composed(ctx, aa, p, meth, out, coords, cval, call["angle"], call["sph"], r_min, fns[0], g2d, pre)
            continue

        out = getattr(p, meth)(grid)
        ok = len(p.spy) == 1
        ctx.check(ok, pre + "decorated/calls", "user function called %d times for one decorated call" % len(p.spy))
        if not ok:
            continue
        spy = p.spy[-1]
        if meth in ("proj", "proj_pairs"):
            if kind == "grid1d":
                _check_proj_1d(ctx, aa, out, spy, coords, case["g1"]["ps"], u, fns[0], pre)
            elif kind == "grid2d":
                _check_proj_2d(ctx, aa, out, spy, geom, centre, u, fns[0], pre)
            else:
                ctx.equal(spy, coords, pre + "project_grid/irregular/received", "grid received vs input grid")
                if meth == "proj":
                    _check_irr(ctx, out, aa.ArrayIrregular, pre + "project_grid/irregular", f_scalar(fns[0], coords))
                else:
                    _check_irr(ctx, out, aa.Grid2DIrregular, pre + "project_grid/irregular-pairs", f_pair(fns[0], coords))
            continue

        # structure decorators
        dname = {"arr": "to_array", "arr_list": "to_array", "grd": "to_grid", "vec": "to_vector_yx"}[meth]
        pairs = meth in ("grd", "vec")
        f = f_pair if pairs else f_scalar
        if kind == "grid1d":
            line = np.stack([np.zeros_like(coords), coords], axis=-1)
            scale = float(np.max(np.abs(coords))) if n else 0.0
            if not _check_line(ctx, spy, line, pre + dname + "/grid1d/projected-line", scale):
                continue
            if meth == "arr":
                _check_1d(ctx, aa, out, pre + "to_array/grid1d", m1, ps1, origin1, f_scalar(fns[0], spy))
            elif meth == "grd":
                _check_1d_grid(ctx, out, pre + "to_grid/grid1d", m1, f_pair(fns[0], spy))
            elif _check_list(ctx, out, call["nlist"], pre + "to_array/grid1d-list"):
                for j in range(call["nlist"]):
                    _check_1d(ctx, aa, out[j], pre + "to_array/grid1d-list", m1, ps1, origin1, f_scalar(fns[j], spy))
            continue
        gt = "grid2d" if kind == "grid2d" else "irregular"
        ctx.equal(spy, coords, pre + "decorated/%s/received" % gt, "grid received by the user function vs input grid")
        wants = [f(fns[j], coords) for j in range(call["nlist"])] if meth == "arr_list" else [f(fns[0], coords)]
        outs = out if meth == "arr_list" else [out]
        key = pre + dname + "/" + gt + ("-list" if meth == "arr_list" else "")
        if meth == "arr_list" and not _check_list(ctx, out, call["nlist"], key):
            continue
        for o, wnt in zip(outs, wants):
            if kind == "grid2d":
                c2 = {"arr": aa.Array2D, "arr_list": aa.Array2D, "grd": aa.Grid2D, "vec": aa.VectorYX2D}[meth]
                _check_2d(ctx, o, c2, key, g2d[0], g2d[1], g2d[2], wnt, coords=coords if meth == "vec" else None)
            else:
                c2 = {"arr": aa.ArrayIrregular, "arr_list": aa.ArrayIrregular, "grd": aa.Grid2DIrregular,
                      "vec": aa.VectorYX2DIrregular}[meth]
                _check_irr(ctx, o, c2, key, wnt, coords=coords if meth == "vec" else None)
    return shared


def body_reuse(case, ctx):
    from autoconf import conf
    rm = conf.instance["grids"]["radial_minimum"]["radial_minimum"]
    old = rm["VPProfileDyn"]
    rm["VPProfileDyn"] = float(case["r_dyn"])
    calls = case["calls"]
    try:
        shared = _reuse_sequence(case, calls, ctx, "forward")
        _reuse_sequence(case, calls[::-1], ctx, "reversed")
    finally:
        rm["VPProfileDyn"] = old
    proj = [c for c in calls if c["method"] in ("proj", "proj_pairs") and c["target"] != "fresh"]
    if len({(c["angle_kind"], c["angle"]) for c in proj}) >= 2:
        ctx.label("reuse:proj-angles>=2")
    if len({c["cls"] for c in calls if c["method"] in RADIAL_METHODS}) >= 2:
        ctx.label("reuse:radial-classes>=2")
    ctx.label("reuse:series-" + case["series"])
    ctx.nt(shared >= 2 and all(_nt_fn(c["fns"], 1) for c in calls))


SUBCHECKS = [
    SubCheck("uniform", body_uniform, strategy=uniform_cases(), examples={"quick": 300, "thorough": 6000},
             shards={"quick": 3, "thorough": 6}),
    SubCheck("irregular", body_irregular, strategy=irregular_cases(), examples={"quick": 300, "thorough": 4000},
             shards={"quick": 1, "thorough": 2}),
    SubCheck("grid1d", body_grid1d, strategy=grid1d_cases(), examples={"quick": 300, "thorough": 4000},
             shards={"quick": 1, "thorough": 2}),
    SubCheck("project", body_project, strategy=project_cases(), examples={"quick": 600, "thorough": 6000},
             shards={"quick": 2, "thorough": 2}),
    SubCheck("radial", body_radial, strategy=radial_cases(), examples={"quick": 1200, "thorough": 10000},
             shards={"quick": 4, "thorough": 4}),
    SubCheck("reuse", body_reuse, strategy=reuse_cases(), examples={"quick": 600, "thorough": 8000},
             shards={"quick": 4, "thorough": 4}),
]
