"""C10 — blurring, edge and border pixel sets match their definitions for every mask."""
import numpy as np
from hypothesis import strategies as st

from vp import gens
from vp.engine import SubCheck

PROPERTY = "C10"
RULE = (
    "(extended 2) large: masks with more than 2^15 (quick) and 2^16 (thorough) unmasked pixels (holes, notch, isolated pixel) through the same edge / border / blurring oracles. "
    "(extended) sub-check derived: all sets read on a parent mask, then on a mask derived from it by invert / copy+edit / copy.copy+edit / deepcopy+edit / in-place edit, each against the definitions for its CURRENT contents, plus one held DeriveIndexes2D object read several times in generated order. "
    "enum: every boolean mask with >=1 unmasked pixel on every shape with H*W<=12 (quick) / <=16 (thorough), "
    "including unmasked pixels on the outer ring, edge/border views checked on each and blurring masks for "
    "kernels (1,1),(3,3),(1,3),(3,1),(5,3),(3,5); given: Hypothesis masks up to 11x11 (holes, several components, "
    "diagonal contacts, bridges, with and without a masked outer ring) x odd kernels 1..7 per axis. Oracle: set "
    "definitions from the statement evaluated with plain numpy loops (footprint dilation + leaves-the-array "
    "predicate; edge as validity predicate: must contain pixels with a masked in-array 8-neighbour, must not "
    "contain pixels with 8 existing unmasked neighbours; border = edge pixels with a clear axis walk, evaluated on "
    "the implementation's own edge set); all views compared as the same pixels in slim order. Non-trivial = mask has "
    "a hole or >=2 components or touches the outer ring; distinct = SHA-1 of the canonical case."
)
ASSUMPTIONS = [
    "pixel-centre coordinates for the grid views use the closed form centre(i,j) = (-(i-(H-1)/2)*sy+oy, (j-(W-1)/2)*sx+ox), verified independently by C02",
    "outer-ring unmasked pixels with no masked in-array neighbour may or may not be edge pixels (the statement leaves them free)",
]
TECHNIQUE = "exhaustive small-mask enumeration + Hypothesis masks against set definitions written as plain numpy loops"


def _centres(h, w, ps, origin):
    ys = -(np.arange(h) - (h - 1) / 2.0) * ps[0] + origin[0]
    xs = (np.arange(w) - (w - 1) / 2.0) * ps[1] + origin[1]
    return ys, xs


def _edge_required_forbidden(m):
    h, w = m.shape
    req = np.zeros_like(m)
    forb = np.zeros_like(m)
    for y in range(h):
        for x in range(w):
            if m[y, x]:
                continue
            nb = []
            for dy in (-1, 0, 1):
                for dx in (-1, 0, 1):
                    if dy == 0 and dx == 0:
                        continue
                    yy, xx = y + dy, x + dx
                    if 0 <= yy < h and 0 <= xx < w:
                        nb.append(m[yy, xx])
            if any(nb):
                req[y, x] = True
            elif len(nb) == 8:
                forb[y, x] = True
    return req, forb


def _is_border(m, y, x):
    h, w = m.shape
    return bool(m[:y, x].all() or m[y + 1:, x].all() or m[y, :x].all() or m[y, x + 1:].all())


def check_edge_border(mask_l, ps, origin, ctx, mask_obj=None, pre=""):
    import autoarray as aa
    m = np.asarray(mask_l, dtype=bool)
    h, w = m.shape
    un = ~m
    mask = mask_obj if mask_obj is not None else aa.Mask2D(mask=m.copy(), pixel_scales=tuple(ps), origin=tuple(origin))
    slim_of = -np.ones((h, w), dtype=int)
    slim_of[un] = np.arange(int(un.sum()))
    req, forb = _edge_required_forbidden(m)

    di = mask.derive_indexes
    edge_slim = np.asarray(di.edge_slim)
    ok_int = edge_slim.ndim == 1 and np.all(edge_slim == np.round(edge_slim))
    ctx.check(ok_int, pre + "edge/slim-format", "edge_slim not a 1D list of integers: %r" % (edge_slim,))
    es = edge_slim.astype(int)
    n = int(un.sum())
    ctx.check(np.all((es >= 0) & (es < n)), pre + "edge/slim-range", "edge_slim out of range: %s (n=%d)" % (es, n))
    ctx.check(np.all(np.diff(es) > 0), pre + "edge/slim-order", "edge_slim not strictly increasing: %s" % es)
    nat = np.argwhere(un)
    in_range = es[(es >= 0) & (es < n)]
    eset = np.zeros_like(m)
    eset[nat[in_range, 0], nat[in_range, 1]] = True
    missing = req & ~eset
    extra = forb & eset
    ctx.check(not missing.any(), pre + "edge/missing",
              lambda: "unmasked pixels with a masked 8-neighbour not in edge set: %s (edge_slim=%s)" % (np.argwhere(missing).tolist(), es.tolist()))
    ctx.check(not extra.any(), pre + "edge/extra",
              lambda: "interior pixels (8 unmasked neighbours) in edge set: %s (edge_slim=%s)" % (np.argwhere(extra).tolist(), es.tolist()))
    # views
    ctx.equal(np.asarray(di.edge_native), nat[in_range] if len(in_range) == len(es) else None, pre + "edge/native-view", "edge_native vs native_for_slim[edge_slim]")
    em = np.asarray(mask.derive_mask.edge)
    ctx.equal(em, ~eset, pre + "edge/mask-view", "derive_mask.edge vs edge_slim pixels")
    ys, xs = _centres(h, w, ps, origin)
    eg = np.asarray(mask.derive_grid.edge)
    want = np.stack([ys[nat[in_range, 0]], xs[nat[in_range, 1]]], axis=-1) if len(in_range) else np.zeros((0, 2))
    ctx.close(eg.reshape(-1, 2), want, pre + "edge/grid-view", atol=1e-9, what="derive_grid.edge coordinates in slim order")

    # border: exactly the edge pixels (as returned) with a clear walk
    border_slim = np.asarray(di.border_slim)
    bs = border_slim.astype(int)
    ctx.check(border_slim.ndim == 1 and np.all(border_slim == bs), pre + "border/slim-format", "border_slim not integer list")
    want_bs = np.array([k for k in in_range if _is_border(m, nat[k, 0], nat[k, 1])], dtype=int)
    ctx.equal(bs, want_bs, pre + "border/slim", "border_slim vs edge pixels with a clear axis walk (edge_slim=%s)" % es.tolist())
    okb = bs[(bs >= 0) & (bs < n)]
    if len(okb) == len(bs):
        ctx.equal(np.asarray(di.border_native), nat[okb], pre + "border/native-view", "border_native")
        bset = np.zeros_like(m)
        bset[nat[okb, 0], nat[okb, 1]] = True
        ctx.equal(np.asarray(mask.derive_mask.border), ~bset, pre + "border/mask-view", "derive_mask.border")
        bg = np.asarray(mask.derive_grid.border)
        wantb = np.stack([ys[nat[okb, 0]], xs[nat[okb, 1]]], axis=-1) if len(okb) else np.zeros((0, 2))
        ctx.close(bg.reshape(-1, 2), wantb, pre + "border/grid-view", atol=1e-9, what="derive_grid.border coordinates")
    # edge_buffed: unmasked region dilated by one pixel (8-neighbourhood)
    eb = np.asarray(mask.derive_mask.edge_buffed)
    dil = np.zeros_like(m)
    for (y, x) in nat:
        dil[max(0, y - 1):y + 2, max(0, x - 1):x + 2] = True
    ctx.equal(eb, ~dil, pre + "edge_buffed", "derive_mask.edge_buffed vs 1-pixel dilation of the unmasked region")


def check_blurring(mask_l, kernel_shape, ps, origin, ctx, with_grid=True, mask_obj=None, pre=""):
    import autoarray as aa
    from autoarray import exc
    m = np.asarray(mask_l, dtype=bool)
    h, w = m.shape
    kh, kw = kernel_shape
    hy, hx = kh // 2, kw // 2
    un = ~m
    leaves = False
    blur = np.zeros_like(m)
    for (y, x) in np.argwhere(un):
        if y - hy < 0 or y + hy >= h or x - hx < 0 or x + hx >= w:
            leaves = True
        y0, y1 = max(0, y - hy), min(h, y + hy + 1)
        x0, x1 = max(0, x - hx), min(w, x + hx + 1)
        blur[y0:y1, x0:x1] = True
    blur &= m
    ctx.label("blur:leaves-array" if leaves else "blur:inside", "kernel:nonsquare" if kh != kw else "kernel:square")
    mask = mask_obj if mask_obj is not None else aa.Mask2D(mask=m.copy(), pixel_scales=tuple(ps), origin=tuple(origin))
    try:
        got = mask.derive_mask.blurring_from(kernel_shape_native=(kh, kw))
        raised = False
    except exc.MaskException:
        raised = True
    ctx.check(raised == leaves, pre + "blurring/raise-iff-leaves",
              "footprint leaves array=%s but MaskException raised=%s (kernel %s)" % (leaves, raised, (kh, kw)))
    if not raised and not leaves:
        ctx.equal(np.asarray(got), ~blur, pre + "blurring/mask", "blurring mask for kernel %s" % ((kh, kw),))
        ctx.check(tuple(got.pixel_scales) == tuple(ps) and tuple(got.origin) == tuple(origin), pre + "blurring/geometry",
                  "blurring mask pixel_scales/origin differ")
        if with_grid:
            g = np.asarray(aa.Grid2D.blurring_grid_from(mask=mask, kernel_shape_native=(kh, kw)))
            ys, xs = _centres(h, w, ps, origin)
            idx = np.argwhere(blur)
            want = np.stack([ys[idx[:, 0]], xs[idx[:, 1]]], axis=-1) if len(idx) else np.zeros((0, 2))
            ctx.close(g.reshape(-1, 2), want, pre + "blurring/grid", atol=1e-9, what="Grid2D.blurring_grid_from")


def _labels(mask_l, ctx):
    for l in gens.mask_stats(mask_l):
        ctx.label(l)
    ctx.nt(bool({"mask:hole", "mask:multi-component", "mask:touches-outer-ring"} & ctx.labels))


ENUM_KERNELS = [(1, 1), (3, 3), (1, 3), (3, 1), (5, 3), (3, 5)]


def body_enum(case, ctx):
    h, w, bits = case["h"], case["w"], case["bits"]
    mask_l = [[bool((bits >> (i * w + j)) & 1) for j in range(w)] for i in range(h)]
    _labels(mask_l, ctx)
    check_edge_border(mask_l, [1.0, 1.0], [0.0, 0.0], ctx)
    for k in ENUM_KERNELS:
        check_blurring(mask_l, k, [1.0, 1.0], [0.0, 0.0], ctx, with_grid=False)


def cases_enum(tier):
    lim = 12 if tier == "quick" else 16
    for h in range(1, lim + 1):
        for w in range(1, lim + 1):
            if h * w > lim:
                continue
            for bits in range(0, (1 << (h * w)) - 1):
                yield {"h": h, "w": w, "bits": bits}


@st.composite
def given_case(draw):
    ring = draw(st.sampled_from([0, 0, 1, 2, 3]))
    mask = draw(gens.masks(lo=1, hi=11, ring=ring))
    kh = draw(st.sampled_from([1, 3, 5, 7]))
    kw = draw(st.sampled_from([1, 3, 5, 7]))
    ps = draw(gens.pixel_scales())
    origin = draw(gens.origins())
    return {"mask": mask, "kernel_shape": [kh, kw], "pixel_scales": ps, "origin": origin}


def body_given(case, ctx):
    _labels(case["mask"], ctx)
    check_edge_border(case["mask"], case["pixel_scales"], case["origin"], ctx)
    check_blurring(case["mask"], case["kernel_shape"], case["pixel_scales"], case["origin"], ctx)
    # the same mask supplied in other memory layouts / forms denotes the same pixel sets in every view
    import autoarray as aa
    for lname, msrc in gens.mask_layouts(case["mask"]):
        lmask = aa.Mask2D(mask=msrc, pixel_scales=tuple(case["pixel_scales"]), origin=tuple(case["origin"]))
        check_edge_border(case["mask"], case["pixel_scales"], case["origin"], ctx, mask_obj=lmask, pre="layout:%s/" % lname)
        check_blurring(case["mask"], case["kernel_shape"], case["pixel_scales"], case["origin"], ctx, mask_obj=lmask, pre="layout:%s/" % lname)


def body_even_kernel(case, ctx):
    """Even kernel shapes are rejected (the statement quantifies over odd kernels only; the code documents
    the rejection), so this only labels the domain boundary: a MaskException, never a result."""
    import autoarray as aa
    from autoarray import exc
    m = np.asarray(case["mask"], dtype=bool)
    mask = aa.Mask2D(mask=m, pixel_scales=1.0)
    ctx.nt(True)
    try:
        mask.derive_mask.blurring_from(kernel_shape_native=tuple(case["kernel_shape"]))
        ctx.fail("blurring/even-kernel-accepted", "even kernel %s returned a result" % case["kernel_shape"])
    except exc.MaskException:
        pass


@st.composite
def even_case(draw):
    mask = draw(gens.masks(lo=3, hi=8, ring=1))
    kh, kw = draw(st.sampled_from([[2, 3], [3, 2], [2, 2], [4, 1], [1, 4], [4, 4]]))
    return {"mask": mask, "kernel_shape": [kh, kw]}


# ---------------------------------------------------------------------------------------------
# derived / reused mask objects: the sets must follow the CURRENT contents of the object that is asked
# (added after the independently seeded changes C10c / C10d: per-object caches carried over by copy semantics,
# a held DeriveIndexes2D object whose cached edge array is rewritten by a border read)
# ---------------------------------------------------------------------------------------------
@st.composite
def derived_case(draw):
    ring = draw(st.sampled_from([1, 2, 2, 3]))
    mask = draw(gens.masks(lo=2, hi=7, ring=ring, min_unmasked=2))
    h, w = len(mask), len(mask[0])
    return {"mask": mask, "kernel_shape": [draw(st.sampled_from([1, 3, 5])), draw(st.sampled_from([1, 3, 5]))],
            "pixel_scales": draw(gens.pixel_scales()), "origin": draw(gens.origins()),
            "derive": draw(st.sampled_from(["invert", "copy-edit", "copy.copy-edit", "deepcopy-edit", "edit-in-place", "same"])),
            "edits": draw(st.lists(st.tuples(st.integers(0, h - 1), st.integers(0, w - 1), st.booleans()).map(list), min_size=1, max_size=3)),
            "reads": draw(st.lists(st.sampled_from(["border_slim", "edge_slim", "border_native", "edge_native", "border_slim"]), min_size=2, max_size=5))}


def body_derived(case, ctx):
    import copy
    import autoarray as aa
    from autoarray import exc
    m = np.asarray(case["mask"], dtype=bool)
    ps, origin, k = case["pixel_scales"], case["origin"], tuple(case["kernel_shape"])
    _labels(case["mask"], ctx)
    ctx.label("derive:%s" % case["derive"])
    ctx.nt(True)
    parent = aa.Mask2D(mask=m.copy(), pixel_scales=tuple(ps), origin=tuple(origin))
    # read everything on the parent first (fills whatever caches exist)
    check_edge_border(case["mask"], ps, origin, ctx, mask_obj=parent, pre="parent/")
    check_blurring(case["mask"], k, ps, origin, ctx, mask_obj=parent, pre="parent/")
    d = case["derive"]
    if d == "invert":
        child = parent.invert()
    elif d == "copy-edit":
        child = parent.copy()
    elif d == "copy.copy-edit":
        child = copy.copy(parent)
    elif d == "deepcopy-edit":
        child = copy.deepcopy(parent)
    else:
        child = parent
    if d not in ("invert", "same"):
        for (i, j, v) in case["edits"]:
            child[i, j] = bool(v)
    cur = np.array(child).astype(bool)
    if (~cur).sum() == 0:
        ctx.label("derived:fully-masked"); return
    check_edge_border(cur.tolist(), ps, origin, ctx, mask_obj=child, pre="derived/")
    check_blurring(cur.tolist(), k, ps, origin, ctx, mask_obj=child, pre="derived/")
    if d not in ("edit-in-place", "same"):
        # the parent is unaffected by edits of its copy and still answers for its own contents
        ctx.equal(np.array(parent), m, "derived/parent-aliased", "parent contents changed by editing a copy")
        check_blurring(case["mask"], k, ps, origin, ctx, mask_obj=parent, pre="parent-after/")
    # one held DeriveIndexes2D object read several times in generated order
    di = child.derive_indexes
    un = ~cur
    nat = np.argwhere(un)
    first = {}
    for name in case["reads"]:
        got = np.asarray(getattr(di, name))
        ref_obj = aa.Mask2D(mask=cur.copy(), pixel_scales=tuple(ps), origin=tuple(origin)).derive_indexes
        want = np.asarray(getattr(ref_obj, name))
        ctx.equal(got, want, "held-derive-indexes/%s" % name, "%s read on a held DeriveIndexes2D object after %s" % (name, list(first)))
        first[name] = True


# ---------------------------------------------------------------------------------------------
# large masks: more unmasked pixels than a 16-bit index can address
def cases_large(tier):
    quick = [(192, 193, (3, 3)), (259, 261, (3, 5))]
    more = [(130, 300, (5, 3)), (300, 226, (1, 3))]
    for h, w, ks in (quick if tier == "quick" else quick + more):
        yield {"h": h, "w": w, "kernel_shape": list(ks)}


def body_large(case, ctx):
    h, w = case["h"], case["w"]
    kh, kw = case["kernel_shape"]
    m = np.ones((h, w), dtype=bool)
    m[kh // 2 + 1:h - kh // 2 - 1, kw // 2 + 1:w - kw // 2 - 1] = False
    # holes, a masked bar that cuts a notch into the region, an isolated unmasked pixel inside a hole
    m[h // 3:h // 3 + 7, w // 4:w // 4 + 9] = True
    m[h // 3 + 3, w // 4 + 4] = False
    m[2 * h // 3:2 * h // 3 + 2, : w // 2] = True
    m[h // 2, w // 2] = True
    n = int((~m).sum())
    ctx.nt(n > 2 ** 15)
    ctx.label("large:n>2^16" if n > 2 ** 16 else "large:n>2^15")
    check_edge_border(m, (0.5, 0.25), (1.0, -2.0), ctx, pre="large/")
    check_blurring(m, (kh, kw), (0.5, 0.25), (1.0, -2.0), ctx, pre="large/")



SUBCHECKS = [
    SubCheck("enum", body_enum, cases=cases_enum, shards={"quick": 16, "thorough": 16}),
    SubCheck("given", body_given, strategy=given_case(), examples={"quick": 400, "thorough": 6000},
             shards={"quick": 2, "thorough": 8}),
    SubCheck("derived", body_derived, strategy=derived_case(), examples={"quick": 400, "thorough": 6000},
             shards={"quick": 2, "thorough": 8}),
    SubCheck("large", body_large, cases=cases_large, shards={"quick": 2, "thorough": 4}),
    SubCheck("even-kernel", body_even_kernel, strategy=even_case(), examples={"quick": 40, "thorough": 200},
             shards={"quick": 1, "thorough": 1}),
]
