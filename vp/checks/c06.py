"""C06 — mapping matrices conserve flux and encode the claimed interpolation; the unique-mapping
representation encodes the same matrix; neighbour lists are symmetric and equal the mesh adjacency."""
import numpy as np
from hypothesis import strategies as st

from vp import gens, scene
from vp.engine import SubCheck
from vp.ref import mapping as ref

PROPERTY = "C06"
RULE = (
    "rect / delaunay: Hypothesis masks 3x3..6x6 (4/5 of cases) or 1x1..3x3 (1/5; all families of vp.gens.masks, >=1 "
    "unmasked pixel), isotropic and anisotropic pixel scales, origins up to |20| (3/4) or |100| (1/4), uniform (1/4 of "
    "cases) or per-pixel integer sub-size 1..4, source grid = over-sampled image grid under identity / affine / "
    "affine+sinusoidal warp with jitter; rectangular mesh 3..7 x 3..7 overlaid on the source grid (default buffer, or "
    "buffer scaled with the plane). CONTAINER (rect, rect-special-points): the source-plane coordinates are handed to "
    "the overlay and the mapper grids as a plain ndarray, a Grid2DIrregular or a slim Grid2D that still carries an "
    "image-plane mask / geometry (the image mask itself when sub-size is 1 everywhere - forced in half of the Grid2D "
    "cases - else a 1 x N strip with the image pixel scales and origin), via the direct route (overlay_grid + "
    "MapperGrids) or the pixelization route (mesh.Rectangular.mapper_grids_from); in about 70% of rect cases the warp also "
    "magnifies by 1.5..5x and/or shifts by 1.05..3 frame sizes so that the values leave the frame of the carried mask "
    "(labelled values-vs-own-frame); the overlays of the three forms must be identical and the drawn form's mapper "
    "must match the reference; Delaunay vertices = jittered 2..7 x 2..7 lattice (5..49 vertices, de-regularised by "
    "a fixed per-index offset so no four are co-circular) over the source bounding box scaled by 0.6/0.8/1.05/1.3 (so "
    "sub-pixels fall outside the hull in most cases). MAGNITUDE: image-plane pixel scales / origin and the whole source "
    "plane (data grid and mesh vertices) are multiplied by an exact power of two 2**k, k in {0 (about half), -30, -20 "
    "(~1e-6, radians-like), -10, 10, 20, any of -30..20}, plus an explicit class (1/20) k=20 with the field 40..100 "
    "from zero (max|coordinate| 2**25..2**27). STATE: every mapper carries a regularization scheme and an adapt image "
    "(positive / with zeros / signed / all ones) and is driven through a drawn interleaving of up to 9 public queries "
    "(pixel_signals_from, data_weight_total_for_pix_from, mapped_to_source_from, pix_indexes_for_slim_indexes, "
    "sub_slim_indexes_for_pix_index(_arr), neighbors, edge_pixel_list, regularization_matrix, interpolated_array_from, "
    "extent_from, MapperValued masked image / brightest pixels / magnification, the cached index arrays, Delaunay "
    "split-cross weights) with the three reads under test (pix_sub_weights, mapping_matrix, unique_mappings) in a drawn "
    "order; after every step every array already handed out by a read must be unchanged, a second read must return the "
    "same values, and all three must equal those of a fresh mapper that is only read; the reference comparisons below "
    "are made on the queried mapper. Oracle: plain-numpy reference (vp/ref/mapping.py): rectangular cell = floor of the "
    "coordinate relative to the bounding box +- buffer (own arithmetic, plus containment within half a cell of the "
    "mesh's published centre); Delaunay = brute-force barycentric search over scipy.spatial.Delaunay simplices (2x2 "
    "solve), nearest vertex outside the hull; M_ref = binning(1/sub_i^2) @ S_ref; Delaunay matrices at 2**k also equal "
    "the unit-scale matrix (1e-12). Compared: rows >= 0 and sum to 1; per-sub-pixel weights; dense matrix; dense vs "
    "matrix rebuilt from unique_mappings; pix_lengths vs distinct pixels; neighbour lists vs 4-connectivity / simplex "
    "edges, symmetry, padding. delaunay-special-points: 1..5 image pixels with sub 1..2 whose source positions are "
    "placed exactly on vertices, on simplex edges (fractions 1/2, 1/4, 1/3, arbitrary), at interior barycentric "
    "combinations, outside the hull, and a resolvable distance d x (edge length), d in {1e-12, 1e-10, 1e-8, 1e-6, 1e-3}, "
    "just OUTSIDE / just INSIDE hull edges (away from the edge midpoint) and hull vertices (outside: nearest vertex "
    "alone; inside: barycentric weights of the adjacent simplex), at the same magnitude classes (same oracle; weights "
    "are continuous across interior edges so either adjacent simplex is accepted; only points within float resolution "
    "of the hull may take either branch). rect-special-points: 3..7 x 3..7 mesh over a box whose corners are the first "
    "two source points; further points d cells (same d) on either side of interior row / column boundaries and cell "
    "corners, d cells inside the sides of the bounding box (one buffer from the outer mesh edge), or interior; default "
    "or scaled buffer; same magnitude classes; same rectangular oracle. "
    "large (enumerated, 3 cases quick / 9 thorough): 44x44 ring mask, per-pixel sub-sizes 1..4 adjusted "
    "deterministically to an exact number of sub-pixels, Delaunay with 1999..2048 sunflower vertices inside the hole "
    "(every sub-pixel outside the hull; one case overlapping the inner edge) so that (outside sub-pixels x vertices) "
    "is just below / at / above 2**22, 2**23, 2**24 with counts no block size 2..16 divides, and rectangular 30x30 / "
    "31x29 meshes with 9001 / 9311 sub-pixels; oracle = hull-edge test + chunked (509 rows) brute-force nearest "
    "vertex + full brute force for the few inside points, compared through vectorised versions of the same checks. "
    "rect-neighbors: exhaustive mesh shapes 3..10 x 3..10 (quick) / 3..16 (thorough). Non-trivial = per-pixel sub-size "
    "not constant and at least one image pixel maps to >= 2 source pixels; distinct = SHA-1 of the canonical case."
)
ASSUMPTIONS = [
    "scipy.spatial.Delaunay's list of simplices is the triangulation (its point location find_simplex and the "
    "repository's weights/indices are NOT trusted); vertex sets are in general position (normalised in-circle margin "
    ">= 1e-9, else the case's reference comparison is skipped and counted)",
    "the sub-pixels of image pixel i are the i-th run of sub_i^2 consecutive entries of the over-sampled grid; this is "
    "verified geometrically in every case (each sub-pixel lies inside its pixel's footprint) rather than trusted",
    "tolerances (all dimensionless or relative to the magnitude of the plane): row sums 1e-12; dense vs unique and "
    "dense vs binned per-sub-pixel weights 1e-12; rectangular and outside-hull weights vs reference 1e-9 absolute; "
    "inside-hull barycentric weights 1e-9 + 32*eps*kappa with kappa = max(|coordinate|^2, longest edge^2)/(2*area) of "
    "the worst simplex containing the point to rounding (the forward error of area-ratio weights evaluated in double "
    "from absolute coordinates; 1e-9 for well-shaped triangles near the origin, looser for slivers / far-from-origin "
    "grids; a dense-matrix row takes the largest tolerance of its sub-pixels); state / call-order comparisons exact",
    "tie bands (excluded, counted; float resolution only, relative to the scale): rectangular sub-pixels within "
    "64*eps*(max|coordinate| + buffer) of a cell boundary (still subject to the containment check); Delaunay "
    "sub-pixels with a hull-edge barycentric coordinate within 256*eps*(1 + 1/quality + max|coordinate|/smallest "
    "height of the simplex) of 0 (resolution of the positions and of the 2x2 solve; scipy's own default point-location "
    "tolerance of 100 eps lies inside it; excluded from the exact comparison but still required to equal one of the "
    "two branches), outside-hull sub-pixels whose two nearest vertices differ by "
    "< 1e-9 relative squared distance, sub-pixels in a triangle of shape quality 2*area/longest_edge^2 < 1e-8 "
    "(numerically degenerate simplex)",
    "a query that raises is recorded (label query-raised:...) but not judged here: its own contract belongs to other "
    "properties; only its side effects on the three outputs are checked",
    "the rectangular reference applies overlay_grid's documented buffer rule max(buffer, 64*eps*max|coordinate|)",
    "the rectangular matrix is not compared across scales with the default buffer because overlay_grid's buffer "
    "(1e-8) is an absolute length; with the 'scaled' buffer class the reference at each scale is the oracle",
    "Voronoi natural-neighbour mappers are out of scope (external C library absent)",
]
TECHNIQUE = ("Hypothesis-generated masks / sub-size maps / warped source grids / meshes against a plain-numpy reference "
             "mapping matrix (own cell arithmetic; brute-force barycentric search), dense-vs-sparse encoding round trip, "
             "adjacency vs explicit graph; drawn interleavings of public queries and reads vs a fresh read-only mapper "
             "(state / call-order); metamorphic power-of-two rescaling of the source plane; exhaustive enumeration of "
             "rectangular mesh shapes for neighbour lists")

TOL_REF = 1e-9
TOL_SUM = 1e-12
GENERAL_MARGIN = 1e-9
QUALITY_MIN = 1e-8


# ---------------------------------------------------------------------------------------------
# strategies
# ---------------------------------------------------------------------------------------------
READS = ["read:pix_sub_weights", "read:mapping_matrix", "read:unique_mappings"]
QUERIES = ["pixel_signals", "data_weight_total", "mapped_to_source", "pix_indexes_for_slim_indexes",
           "sub_slim_indexes_for_pix_index", "sub_slim_indexes_for_pix_index_arr", "neighbors", "edge_pixel_list",
           "regularization_matrix", "interpolated_array", "extent", "valued_masked_image", "valued_max_pixels",
           "cached_index_arrays"]
QUERIES_DELAUNAY = ["split_cross", "valued_magnification"]
REGS = {"rect": ("constant", "constant_zeroth", "adaptive_brightness", "brightness_zeroth", "gaussian_kernel", "exponential_kernel"),
        "delaunay": ("constant", "constant_zeroth", "constant_split", "adaptive_brightness", "adaptive_brightness_split",
                     "brightness_zeroth", "gaussian_kernel", "exponential_kernel")}


@st.composite
def scale_exps(draw):
    """Exponent k of the exact power of two 2**k multiplying the whole source plane (and the image-plane pixel
    scales / origin): unit scale, the radians-like 2**-20 ~ 1e-6, the extremes, or any k in -30..20."""
    return draw(st.one_of(st.just(0), st.just(0), st.sampled_from([-30, -20, -20, -10, 10, 20]), st.integers(-30, 20)))


@st.composite
def adapt_images(draw, n):
    kind = draw(st.sampled_from(["positive", "with-zeros", "signed", "ones"]))
    if kind == "ones":
        return kind, [1.0] * n
    if kind == "positive":
        return kind, draw(st.lists(gens.reals(0.05, 10.0), min_size=n, max_size=n))
    if kind == "signed":
        return kind, draw(st.lists(gens.reals(-5.0, 5.0), min_size=n, max_size=n))
    vals = draw(st.lists(gens.reals(0.0, 10.0), min_size=n, max_size=n))
    keep = draw(st.lists(st.booleans(), min_size=n, max_size=n))
    return kind, [v if k else 0.0 for v, k in zip(vals, keep)]


@st.composite
def op_sequences(draw, kind):
    """Random interleaving of public mapper queries with the three reads under test; every read occurs at least
    once (missing ones are appended in a drawn order)."""
    pool = QUERIES + (QUERIES_DELAUNAY if kind == "delaunay" else [])
    if draw(st.integers(0, 5)) == 0:
        ops = []
    else:
        ops = draw(st.lists(st.one_of(st.sampled_from(pool), st.sampled_from(pool), st.sampled_from(READS)), min_size=1, max_size=7))
    missing = [r for r in READS if r not in ops]
    order = draw(st.permutations(missing))
    tail = draw(st.lists(st.sampled_from(pool), min_size=0, max_size=2))
    return ops + list(order) + tail


@st.composite
def mapper_cases(draw, kind):
    if draw(st.integers(0, 4)) == 0:
        mask = draw(gens.masks(lo=1, hi=3, min_unmasked=1))     # tiny / 1xN masks, single pixels
    else:
        mask = draw(gens.masks(lo=3, hi=6, min_unmasked=2))
    n = sum(1 for r in mask for v in r if not v)
    if draw(st.integers(0, 3)) == 0:
        sub = draw(st.integers(1, 4))
    else:
        sub = draw(st.lists(st.integers(1, 4), min_size=n, max_size=n))
    spec = draw(scene.obj_specs(n, kinds=(kind,), max_sub=4, max_mesh=7, sub=sub, reg_types=REGS[kind], reg_none=False))
    if kind == "delaunay":
        # general position by construction: a fixed irrational-looking per-index offset removes exact lattices
        j = spec["jitter"]
        spec["jitter"] = [0.8 * float(v) + 0.06 * float(scene._hash01(k + 0.25)) for k, v in enumerate(j)]
    else:
        spec["buffer"] = draw(st.sampled_from(["default", "default", "scaled"]))
        # container type of the source-plane coordinates handed to the overlay / mapper grids, and construction route
        spec["container"] = draw(st.sampled_from(["ndarray", "irregular", "grid2d", "grid2d"]))
        spec["route"] = "direct" if spec["buffer"] == "scaled" else draw(st.sampled_from(["direct", "pixelization"]))
        if spec["container"] == "grid2d" and draw(st.booleans()):
            spec["sub"] = 1      # the Grid2D then carries the image-plane mask itself (one coordinate per image pixel)
        # distortions that take the coordinates out of the frame of the image-plane mask
        distort = draw(st.sampled_from(["none", "magnify", "shift", "magnify+shift", "shift"]))
        spec["distort"] = distort
        w = spec["warp"]
        if "magnify" in distort:
            mag = draw(st.floats(1.5, 5.0))
            w["a"] = [[mag * float(v) for v in row] for row in w["a"]]
        if "shift" in distort:
            sgn = st.sampled_from([-1.0, 1.0])
            spec["shift_frames"] = [draw(sgn) * draw(st.floats(1.05, 3.0)), draw(sgn) * draw(st.floats(1.05, 3.0))]
    akind, adapt = draw(adapt_images(n))
    origin = draw(st.one_of(gens.origins(mag=20.0), gens.origins(mag=20.0), gens.origins(mag=20.0), gens.origins(mag=100.0)))
    pixel_scales = draw(gens.pixel_scales())
    if spec.get("shift_frames"):
        # shift by more than the frame size (frame = mask shape x pixel scales), expressed in the warp's offset
        spec["warp"]["b"] = [spec["shift_frames"][0] * len(mask) * pixel_scales[0],
                             spec["shift_frames"][1] * len(mask[0]) * pixel_scales[1]]
    k = draw(scale_exps())
    if draw(st.integers(0, 19)) == 0:
        # explicit class: upper end of the magnitude regime, max|coordinate| ~ 2**25..2**27 (2**20 x a field 40..100 from zero)
        k = 20
        sign = st.sampled_from([-1.0, 1.0])
        origin = [draw(sign) * draw(st.floats(40.0, 100.0)), draw(sign) * draw(st.floats(40.0, 100.0))]
    return {"mask": mask, "pixel_scales": pixel_scales, "origin": origin,
            "obj": spec, "scale_exp": k, "adapt": adapt, "adapt_kind": akind,
            "ops": draw(op_sequences(kind))}


# ---------------------------------------------------------------------------------------------
# helpers
# ---------------------------------------------------------------------------------------------
def _sub_list(spec, n):
    s = spec["sub"]
    return [int(s)] * n if isinstance(s, int) else [int(v) for v in s]


def _warp_kind(w):
    if w["amp"] != [0.0, 0.0] or w["jit"]:
        return "warp"
    if w["a"] != [[1.0, 0.0], [0.0, 1.0]] or w["b"] != [0.0, 0.0]:
        return "affine"
    return "identity"


def _dense_from_psw(mappings, sizes, weights, pixels):
    n = len(sizes)
    s = np.zeros((n, pixels))
    for k in range(n):
        for j in range(int(sizes[k])):
            s[k, int(mappings[k, j])] += float(weights[k, j])
    return s


def _rows(mat, sel, k=2):
    return np.array2string(np.asarray(mat)[np.asarray(sel, dtype=bool)][:k], precision=12, threshold=80, max_line_width=200)


def _check_neighbors(ctx, arr, sizes, adj, key):
    """Neighbour lists equal `adj` (list of sets), are padded with -1, have the right sizes and are symmetric."""
    arr = np.asarray(arr)
    sizes = np.asarray(sizes)
    p = len(adj)
    ctx.check(arr.ndim == 2 and arr.shape[0] == p and sizes.shape == (p,), key + "/shape",
              "neighbors arr %s sizes %s for %d pixels" % (arr.shape, sizes.shape, p))
    if not (arr.ndim == 2 and arr.shape[0] == p and sizes.shape == (p,)):
        return
    got = []
    for q in range(p):
        k = int(sizes[q])
        row = [int(v) for v in arr[q, :k]]
        got.append(row)
        ctx.check(len(set(row)) == len(row), key + "/duplicate", "pixel %d lists a neighbour twice: %s" % (q, row))
        ctx.check(set(row) == adj[q], key + "/adjacency",
                  "pixel %d neighbours %s, mesh adjacency %s" % (q, sorted(row), sorted(adj[q])))
        ctx.check(bool(np.all(arr[q, k:] == -1)), key + "/padding", "pixel %d entries beyond size are not -1: %s" % (q, arr[q]))
        ctx.check(q not in row, key + "/self", "pixel %d is its own neighbour" % q)
    for q in range(p):
        for r in got[q]:
            if 0 <= r < p:
                ctx.check(q in got[r], key + "/symmetry", "%d lists %d but not vice versa" % (q, r))


def _scale_label(k):
    if k == 0:
        return "scale:unit"
    if k < 0:
        return "scale:2^-30..-11" if k <= -11 else "scale:2^-10..-1"
    return "scale:2^1..10" if k <= 10 else "scale:2^11..20"


def _build(case, kind, scale_exp):
    """Own builder (variant of scene.build_linear_obj): the image-plane pixel scales / origin and the whole source
    plane (data grid, mesh vertices) are multiplied by the exact power of two 2**scale_exp; the mapper carries the
    case's adapt image and regularization.  Returns dict(mapper, mesh, src, verts, over_sampler, buffer)."""
    import autoarray as aa
    s = 2.0 ** int(scale_exp)
    spec = case["obj"]
    m = np.asarray(case["mask"], dtype=bool)
    ps = [float(v) for v in case["pixel_scales"]]
    org = [float(v) for v in case["origin"]]
    unit_mask = aa.Mask2D(mask=m.copy(), pixel_scales=(ps[0], ps[1]), origin=(org[0], org[1]))
    mask = aa.Mask2D(mask=m.copy(), pixel_scales=(ps[0] * s, ps[1] * s), origin=(org[0] * s, org[1] * s))
    base_unit = np.asarray(scene.over_sampler_for(unit_mask, spec["sub"]).over_sampled_grid, dtype=float)
    osamp = scene.over_sampler_for(mask, spec["sub"])
    src_unit = scene.apply_warp(base_unit, spec["warp"], np.asarray(org, dtype=float))
    src = src_unit * s                      # exact: power of two
    src_grid = aa.Grid2DIrregular(values=src.copy())
    out = {"src": src, "verts": None, "buffer": None, "over_sampler": osamp, "scale": s, "mask": mask, "pixelization_route": False}
    if kind == "rect":
        forms = _containers(src, mask)
        out["forms"] = forms
        src_grid = forms[spec.get("container", "irregular")]
        if spec.get("buffer") == "scaled":
            out["buffer"] = ref.BUFFER * s
            mesh = aa.Mesh2DRectangular.overlay_grid(grid=src_grid, shape_native=tuple(spec["shape"]), buffer=out["buffer"])
        elif spec.get("route") == "pixelization":
            out["buffer"] = ref.BUFFER
            out["pixelization_route"] = True
            mesh = None
        else:
            out["buffer"] = ref.BUFFER
            mesh = aa.Mesh2DRectangular.overlay_grid(grid=src_grid, shape_native=tuple(spec["shape"]))
        min_sep = float(min(mesh.pixel_scales)) if mesh is not None else 1.0
    else:
        verts_unit, min_sep = scene.delaunay_vertices(spec, src_unit)
        out["verts"] = verts_unit * s
        min_sep = min_sep * s
        mesh = aa.Mesh2DDelaunay(values=out["verts"].copy())
    adapt = None
    if case.get("adapt") is not None:
        adapt = aa.Array2D(values=np.asarray(case["adapt"], dtype=float), mask=mask)
    if out["pixelization_route"]:
        # the pixelization's own construction of the mapper grids around the overlay
        mg = aa.mesh.Rectangular(shape=tuple(spec["shape"])).mapper_grids_from(
            mask=mask, source_plane_data_grid=src_grid, border_relocator=None, adapt_data=adapt)
        mesh = mg.source_plane_mesh_grid
        min_sep = float(min(mesh.pixel_scales))
    else:
        mg = aa.MapperGrids(mask=mask, source_plane_data_grid=src_grid, source_plane_mesh_grid=mesh,
                            image_plane_mesh_grid=None, adapt_data=adapt)
    out["mesh"] = mesh
    out["adapt"] = adapt
    out["mapper"] = aa.Mapper(mapper_grids=mg, over_sampler=osamp, regularization=scene.build_reg(spec.get("reg"), min_sep))
    return out


def _containers(src, mask):
    """The same source-plane coordinates in the three container types a caller may hand over: plain ndarray,
    Grid2DIrregular, and a slim Grid2D that still carries an image-plane mask / geometry (the image mask itself when
    there is one coordinate per image pixel, else a 1 x N strip with the image pixel scales and origin) while its
    values are the source-plane coordinates."""
    import autoarray as aa
    src = np.asarray(src, dtype=float)
    if len(src) == int(mask.pixels_in_mask):
        carrier = mask
    else:
        carrier = aa.Mask2D(mask=np.zeros((1, len(src)), dtype=bool), pixel_scales=mask.pixel_scales, origin=mask.origin)
    return {"ndarray": src.copy(), "irregular": aa.Grid2DIrregular(values=src.copy()),
            "grid2d": aa.Grid2D(values=src.copy(), mask=carrier)}


def _read(mapper, name):
    """One of the three reads under test -> list of (field, live array)."""
    if name == "pix_sub_weights":
        o = mapper.pix_sub_weights
        return [("mappings", o.mappings), ("sizes", o.sizes), ("weights", o.weights)]
    if name == "mapping_matrix":
        return [("matrix", mapper.mapping_matrix)]
    o = mapper.unique_mappings
    return [("data_to_pix_unique", o.data_to_pix_unique), ("data_weights", o.data_weights), ("pix_lengths", o.pix_lengths)]


def _query(mapper, op, adapt):
    """A public query on the mapper other than the three reads under test; its result is not examined here."""
    import autoarray as aa
    p = int(mapper.params)
    ramp = np.arange(p, dtype=float) + 1.0
    if op == "pixel_signals":
        return mapper.pixel_signals_from(signal_scale=0.7)
    if op == "data_weight_total":
        return mapper.data_weight_total_for_pix_from()
    if op == "mapped_to_source":
        return mapper.mapped_to_source_from(array=adapt)
    if op == "pix_indexes_for_slim_indexes":
        return (mapper.pix_indexes_for_slim_indexes(pix_indexes=[0, p - 1]),
                mapper.pix_indexes_for_slim_indexes(pix_indexes=[[0], [p // 2, p - 1]]))
    if op == "sub_slim_indexes_for_pix_index":
        return mapper.sub_slim_indexes_for_pix_index
    if op == "sub_slim_indexes_for_pix_index_arr":
        return mapper.sub_slim_indexes_for_pix_index_arr
    if op == "neighbors":
        return mapper.neighbors
    if op == "edge_pixel_list":
        return mapper.edge_pixel_list
    if op == "regularization_matrix":
        return mapper.regularization_matrix
    if op == "interpolated_array":
        return mapper.interpolated_array_from(values=ramp, shape_native=(3, 4))
    if op == "extent":
        return mapper.extent_from(values=ramp, zoom_to_brightest=True, zoom_percent=0.5)
    if op == "valued_masked_image":
        return aa.MapperValued(mapper=mapper, values=ramp, mesh_pixel_mask=(np.arange(p) % 2 == 0)).mapped_reconstructed_image_from()
    if op == "valued_max_pixels":
        return aa.MapperValued(mapper=mapper, values=ramp).max_pixel_list_from(total_pixels=2)
    if op == "cached_index_arrays":
        return (mapper.pix_indexes_for_sub_slim_index, mapper.pix_sizes_for_sub_slim_index,
                mapper.pix_weights_for_sub_slim_index, mapper.slim_index_for_sub_slim_index)
    if op == "split_cross":
        return mapper.pix_sub_weights_split_cross
    if op == "valued_magnification":
        return aa.MapperValued(mapper=mapper, values=ramp).magnification_via_mesh_from()
    raise ValueError(op)


def _same(a, b):
    a = np.asarray(a); b = np.asarray(b)
    return a.shape == b.shape and bool(np.array_equal(a, b, equal_nan=True))


def _run_ops(ctx, kind, mapper, ops, adapt):
    """Executes the drawn interleaving of queries and reads on `mapper`.  After every step, every array already
    handed out by a read must still hold the values it held when first read (in-place edits of cached arrays are
    attributed to the step that made them).  Returns {read name: [(field, copy at first read)]}."""
    first = {}
    live = {}
    for op in ops:
        if op.startswith("read:"):
            name = op[5:]
            items = ctx.impl("%s/%s" % (kind, name), _read, mapper, name)
            if name not in first:
                first[name] = [(f, np.array(a, copy=True)) for f, a in items]
                live[name] = items
        else:
            ctx.label("query:%s" % op)
            try:
                _query(mapper, op, adapt)
            except Exception as e:      # the query's own contract belongs to other properties; only its side effects matter here
                ctx.label("query-raised:%s:%s" % (op, type(e).__name__))
        for name, items in live.items():
            for (f, arr), (_, cp) in zip(items, first[name]):
                ctx.check(_same(arr, cp), "%s/state/%s-edited-in-place/by-%s" % (kind, name, op.replace("read:", "read-")),
                          lambda: "%s.%s changed after step %r: was %s now %s" % (name, f, op, _short(cp), _short(arr)))
    # a second read returns the same values as the first
    for name in list(first):
        again = _read(mapper, name)
        for (f, arr), (_, cp) in zip(again, first[name]):
            ctx.check(_same(arr, cp), "%s/state/%s-differs-on-second-read" % (kind, name),
                      lambda: "%s.%s: first read %s, read after the whole sequence %s" % (name, f, _short(cp), _short(arr)))
    return first


def _short(a):
    return np.array2string(np.asarray(a), precision=12, threshold=40, max_line_width=200)[:400]


def _prepare(case, ctx, kind, precheck=None):
    """Builds the mapper under test (after running the case's interleaving of queries and reads on it) and compares
    its three outputs with those of a fresh mapper that is only read."""
    m = np.asarray(case["mask"], dtype=bool)
    for l in gens.mask_stats(m):
        ctx.label(l)
    spec = case["obj"]
    n = int((~m).sum())
    sub = np.asarray(_sub_list(spec, n), dtype=int)
    per_pixel = len(set(sub.tolist())) > 1
    k = int(case.get("scale_exp", 0))
    ctx.label("sub:per-pixel" if per_pixel else "sub:uniform-%d" % sub[0])
    ctx.label("sub:max-%d" % sub.max())
    ctx.label("warp:%s" % _warp_kind(spec["warp"]))
    ctx.label("scales:iso" if case["pixel_scales"][0] == case["pixel_scales"][1] else "scales:aniso")
    ctx.label(_scale_label(k))
    if float(np.abs(np.asarray(case["origin"], dtype=float)).max()) * 2.0 ** k >= 2.0 ** 25:
        ctx.label("scale:max|coordinate|>=2^25")
    ctx.label("adapt:%s" % case.get("adapt_kind", "none"))
    ctx.label("reg:%s" % (spec["reg"]["type"] if spec.get("reg") else "none"))
    b = _build(case, kind, k)
    mapper, src = b["mapper"], b["src"]
    s = b["scale"]
    bmat, owner = ref.binning_matrix(sub)
    if src.shape != (len(owner), 2):
        ctx.fail("precondition/over-sampled-grid-length", "over-sampled grid has %s rows, sum sub^2 = %d" % (src.shape, len(owner)))
        return None
    # geometric verification of sub-pixel ownership (image plane, before the warp); tolerance relative to the scale
    base = np.asarray(b["over_sampler"].over_sampled_grid, dtype=float)
    ps = np.asarray(case["pixel_scales"], dtype=float) * s
    cen = ref.pixel_centres(m, ps, np.asarray(case["origin"], dtype=float) * s)[owner]
    ok = np.all(np.abs(base - cen) <= 0.5 * ps[None, :] + 1e-12 * max(float(np.abs(cen).max()), float(ps.max())))
    ctx.check(bool(ok), "precondition/sub-pixel-grouping", "a sub-pixel lies outside the footprint of the image pixel that owns its slot")

    if precheck is not None:
        precheck(b, owner)
    ops = case.get("ops") or list(READS)
    nq = sum(1 for o in ops if not o.startswith("read:"))
    first_read = next(i for i, o in enumerate(ops) if o.startswith("read:"))
    ctx.label("ops:no-queries" if nq == 0 else "ops:query-before-first-read" if first_read > 0 else "ops:queries-after-first-read")
    ctx.label("ops:first-read=%s" % ops[first_read][5:])
    got = _run_ops(ctx, kind, mapper, ops, b["adapt"])
    fresh = _build(case, kind, k)["mapper"]
    for name in ("pix_sub_weights", "mapping_matrix", "unique_mappings"):
        want = _read(fresh, name)
        for (f, arr), (_, cp) in zip(want, got[name]):
            ctx.check(_same(arr, cp), "%s/call-order/%s" % (kind, name),
                      lambda: "%s.%s read after %s differs from a fresh mapper's: got %s want %s" % (name, f, ops, _short(cp), _short(arr)))
    return mapper, b, sub, per_pixel, bmat, owner, src


def _common_checks(ctx, kind, mapper, sub, per_pixel, bmat, owner, pixels, s_ref, sub_ok, tol=None):
    """Checks shared by both mesh types.  `s_ref` (N, P) reference per-sub-pixel weights, `sub_ok` (N,) bool
    marks sub-pixels outside every tie band.  Returns the implementation's dense matrix."""
    sc = "per-pixel-sub" if per_pixel else "uniform-sub"
    n = len(sub)
    nsub = len(owner)
    psw = ctx.impl(kind + "/pix_sub_weights", lambda: mapper.pix_sub_weights)
    mappings = np.asarray(psw.mappings)
    sizes = np.asarray(psw.sizes)
    weights = np.asarray(psw.weights, dtype=float)
    shape_ok = (mappings.ndim == 2 and mappings.shape[0] == nsub and sizes.shape == (nsub,)
                and weights.shape == mappings.shape)
    ctx.check(shape_ok, kind + "/pix_sub_weights/shape", "mappings %s sizes %s weights %s for %d sub-pixels" % (
        mappings.shape, sizes.shape, weights.shape, nsub))
    if not shape_ok:
        return None
    kmax = mappings.shape[1]
    valid = np.arange(kmax)[None, :] < sizes[:, None]
    ctx.check(bool(np.all((sizes >= 1) & (sizes <= kmax))), kind + "/pix_sub_weights/sizes-range", "sizes outside 1..%d" % kmax)
    ctx.check(bool(np.all((mappings[valid] >= 0) & (mappings[valid] < pixels))), kind + "/pix_sub_weights/index-range",
              "a mapped source-pixel index is outside 0..%d" % (pixels - 1))
    if not (np.all((sizes >= 1) & (sizes <= kmax)) and np.all((mappings[valid] >= 0) & (mappings[valid] < pixels))):
        return None
    ctx.check(bool(np.all(weights[valid] >= 0.0)), kind + "/pix_sub_weights/negative-weight", "negative interpolation weight")
    wsum = np.where(valid, weights, 0.0).sum(axis=1)
    ctx.close(wsum, np.ones(nsub), kind + "/pix_sub_weights/weights-sum", atol=TOL_SUM, what="interpolation weights per sub-pixel sum to 1")
    s_impl = _dense_from_psw(mappings, sizes, weights, pixels)

    # dense mapping matrix
    mm = np.asarray(ctx.impl(kind + "/mapping_matrix", lambda: mapper.mapping_matrix), dtype=float)
    ctx.check(mm.shape == (n, pixels), kind + "/mapping_matrix/shape", "shape %s, expected %s" % (mm.shape, (n, pixels)))
    if mm.shape != (n, pixels):
        return None
    ctx.check(bool(np.all(np.isfinite(mm))), kind + "/mapping_matrix/non-finite", "non-finite entry")
    ctx.check(bool(np.all(mm >= 0.0)), kind + "/mapping_matrix/negative-entry", "min entry %r" % float(mm.min()))
    ctx.close(mm.sum(axis=1), np.ones(n), kind + "/mapping_matrix/row-sum/" + sc, atol=TOL_SUM, what="row sums (flux conservation)")
    # accumulation of the mapper's own per-sub-pixel weights with 1/sub_i^2 (all rows, no tie band needed)
    ctx.close(mm, bmat @ s_impl, kind + "/mapping_matrix/accumulation/" + sc, atol=TOL_SUM,
              what="mapping_matrix vs sum over own sub-pixels of weight/sub_i^2")
    # against the reference, rows free of tie-band sub-pixels
    if s_ref is not None:
        row_ok = np.ones(n, dtype=bool)
        row_ok[owner[~sub_ok]] = False
        ctx.tie(int((~sub_ok).sum()))
        if row_ok.any():
            m_ref = bmat @ s_ref
            # a row is an average of its sub-pixels' weights: its tolerance is the largest of theirs
            row_tol = np.full(n, TOL_REF)
            if tol is not None:
                np.maximum.at(row_tol, owner, tol)
            err = np.abs(mm - m_ref).max(axis=1)
            bad = row_ok & ~(err <= row_tol)
            ctx.check(not bad.any(), kind + "/mapping_matrix/vs-reference/" + sc,
                      lambda: "mapping_matrix vs reference interpolation matrix: rows %s got %s want %s (tolerance %s)" % (
                          np.flatnonzero(bad)[:3], _rows(mm, bad), _rows(m_ref, bad), row_tol[bad][:3]))

    # unique mappings (w-tilde formalism)
    um = ctx.impl(kind + "/unique_mappings", lambda: mapper.unique_mappings)
    dpu = np.asarray(um.data_to_pix_unique)
    dw = np.asarray(um.data_weights, dtype=float)
    pl = np.asarray(um.pix_lengths)
    u_ok = dpu.ndim == 2 and dpu.shape[0] == n and dw.shape == dpu.shape and pl.shape == (n,)
    ctx.check(u_ok, kind + "/unique_mappings/shape", "data_to_pix_unique %s data_weights %s pix_lengths %s" % (dpu.shape, dw.shape, pl.shape))
    if u_ok:
        ctx.check(bool(np.all(pl == np.round(pl)) and np.all((pl >= 1) & (pl <= dpu.shape[1]))), kind + "/unique_mappings/pix_lengths-range",
                  "pix_lengths %s" % pl)
        rebuilt = np.zeros((n, pixels))
        want_len = np.zeros(n, dtype=int)
        bad_dup = bad_pad = bad_range = False
        for i in range(n):
            k = int(pl[i])
            ids = dpu[i, :k]
            if np.any(ids != np.round(ids)) or np.any(ids < 0) or np.any(ids >= pixels):
                bad_range = True
                continue
            ids = ids.astype(int)
            if len(set(ids.tolist())) != len(ids):
                bad_dup = True
            for j, q in enumerate(ids):
                rebuilt[i, q] += dw[i, j]
            if np.any(dpu[i, k:] != -1) or np.any(dw[i, k:] != 0.0):
                bad_pad = True
            rows = np.flatnonzero(owner == i)
            want_len[i] = len({int(mappings[r, j]) for r in rows for j in range(int(sizes[r]))})
        ctx.check(not bad_range, kind + "/unique_mappings/index-range", "data_to_pix_unique entry outside 0..%d within pix_lengths" % (pixels - 1))
        ctx.check(not bad_dup, kind + "/unique_mappings/duplicate", "a source pixel is listed twice for one image pixel")
        ctx.check(not bad_pad, kind + "/unique_mappings/padding", "entries beyond pix_lengths are not (-1, 0.0)")
        if not bad_range:
            ctx.close(rebuilt, mm, kind + "/unique_mappings/vs-dense/" + sc, atol=TOL_SUM, what="matrix rebuilt from unique mappings vs mapping_matrix")
            ctx.close(rebuilt, bmat @ s_impl, kind + "/unique_mappings/accumulation/" + sc, atol=TOL_SUM,
                      what="matrix rebuilt from unique mappings vs sum over own sub-pixels of weight/sub_i^2")
            ctx.equal(pl.astype(int), want_len, kind + "/unique_mappings/pix_lengths", "pix_lengths vs number of distinct mapped source pixels")
    ctx.nt(per_pixel and bool(np.any((mm > 0).sum(axis=1) >= 2)))
    if np.any((mm > 0).sum(axis=1) >= 2):
        ctx.label("image-pixel-maps-to>=2-source-pixels")
    return mm, mappings, sizes, weights, s_impl


# ---------------------------------------------------------------------------------------------
# bodies
# ---------------------------------------------------------------------------------------------
def body_rect(case, ctx):
    shape = [int(v) for v in case["obj"]["shape"]]
    ny, nx = shape
    pixels = ny * nx

    def precheck(b, owner):
        # the default overlay buffer (1e-8, absolute) against the resolution of the coordinates
        cmax = float(np.abs(b["src"]).max())
        ctx.label("buffer:%s" % case["obj"].get("buffer", "default"))
        if b["buffer"] >= 8.0 * ref.EPS * cmax:
            return
        ctx.label("rect:buffer-below-coordinate-resolution")
        probe = _build(case, "rect", int(case.get("scale_exp", 0)))
        got = np.asarray(probe["mapper"].pix_sub_weights.mappings)[:, 0].astype(int)
        rr = ref.rect_reference(b["src"], shape, buffer=b["buffer"])
        slack = 1e-11 * (cmax + b["buffer"])
        c = np.asarray(probe["mesh"], dtype=float)[np.clip(got, 0, pixels - 1)]
        inside = ((got >= 0) & (got < pixels) & (np.abs(b["src"][:, 0] - c[:, 0]) <= 0.5 * rr["dy"] + slack)
                  & (np.abs(b["src"][:, 1] - c[:, 1]) <= 0.5 * rr["dx"] + slack))
        if not inside.all():
            bad = np.flatnonzero(~inside)
            ctx.fail_stop("rect/far-edge-outside-mesh/buffer-below-coordinate-resolution",
                          "max|coordinate| = %.6g, overlay buffer %g is below 4 ulp: sub-pixels %s (on the far edge of the source "
                          "grid) are mapped to cell indexes %s of a %dx%d mesh, which do not contain them" % (
                              cmax, b["buffer"], bad[:4].tolist(), got[bad][:4].tolist(), ny, nx))

    prep = _prepare(case, ctx, "rect", precheck)
    if prep is None:
        return
    mapper, b, sub, per_pixel, bmat, owner, src = prep
    _container_checks(ctx, case, b, shape)
    _rect_core(ctx, mapper, b["mesh"], src, shape, b["buffer"], sub, per_pixel, bmat, owner)


def _container_checks(ctx, case, b, shape):
    """The mesh laid over the same coordinates must not depend on the container type that carries them."""
    import autoarray as aa
    spec = case["obj"]
    cont = spec.get("container", "irregular")
    ctx.label("container:%s" % cont)
    ctx.label("route:%s" % ("pixelization" if b["pixelization_route"] else "direct"))
    ctx.label("distort:%s" % spec.get("distort", "none"))
    g = b["forms"]["grid2d"]
    x0, x1, y0, y1 = [float(v) for v in g.mask.geometry.extent]
    src = b["src"]
    outside = (src[:, 0] < y0) | (src[:, 0] > y1) | (src[:, 1] < x0) | (src[:, 1] > x1)
    frame_cls = "all-outside" if outside.all() else "some-outside" if outside.any() else "inside"
    ctx.label("values-vs-own-frame:%s" % frame_cls)
    if cont == "grid2d":
        ctx.label("grid2d:%s:values-%s-frame" % ("image-mask" if g.mask.shape_native == b["mask"].shape_native else "strip-mask", frame_cls))
    kw = {"buffer": b["buffer"]} if spec.get("buffer") == "scaled" else {}
    base = aa.Mesh2DRectangular.overlay_grid(grid=b["forms"]["irregular"], shape_native=tuple(shape), **kw)
    for name in ("ndarray", "grid2d"):
        other = aa.Mesh2DRectangular.overlay_grid(grid=b["forms"][name], shape_native=tuple(shape), **kw)
        same = (tuple(other.shape_native) == tuple(base.shape_native)
                and _same(np.asarray(other.pixel_scales, dtype=float), np.asarray(base.pixel_scales, dtype=float))
                and _same(np.asarray(other.origin, dtype=float), np.asarray(base.origin, dtype=float))
                and _same(np.asarray(other, dtype=float), np.asarray(base, dtype=float)))
        ctx.check(same, "rect/container/%s/mesh-differs-from-irregular/%s" % (name, frame_cls),
                  lambda: "overlay of the same coordinates as %s: origin %s pixel_scales %s; as Grid2DIrregular: origin %s pixel_scales %s" % (
                      name, other.origin, other.pixel_scales, base.origin, base.pixel_scales))
    if b["pixelization_route"]:
        m = b["mesh"]
        same = (_same(np.asarray(m.pixel_scales, dtype=float), np.asarray(base.pixel_scales, dtype=float))
                and _same(np.asarray(m, dtype=float), np.asarray(base, dtype=float)))
        ctx.check(same, "rect/container/%s/pixelization-route-mesh-differs/%s" % (cont, frame_cls),
                  lambda: "mesh.Rectangular.mapper_grids_from with a %s: origin %s pixel_scales %s; direct overlay: origin %s pixel_scales %s" % (
                      cont, m.origin, m.pixel_scales, base.origin, base.pixel_scales))


def _rect_core(ctx, mapper, mesh, src, shape, buffer, sub, per_pixel, bmat, owner):
    ny, nx = shape
    pixels = ny * nx
    ctx.label("mesh:square" if ny == nx else "mesh:nonsquare")
    r = ref.rect_reference(src, shape, buffer=buffer)
    # tie band = float resolution of the cell arithmetic: a few eps of the largest |coordinate| (the implementation
    # evaluates -y/ps + origin/ps + (n-1)/2 + 0.5, the reference (y_max - y)/ps: <= ~8 eps max|coordinate| together)
    tie_abs = 64.0 * ref.EPS * (float(np.abs(src).max()) + r["buffer"])
    sub_ok = r["bdist"] > tie_abs
    if (~sub_ok).any():
        ctx.label("tie:cell-boundary")
    ctx.label("mesh:extent-dominated-by-buffer" if min(r["dy"] * ny, r["dx"] * nx) <= 4.0 * r["buffer"] else "mesh:regular-extent")
    nsub = len(owner)
    s_ref = np.zeros((nsub, pixels))
    s_ref[np.arange(nsub), np.clip(r["pix"], 0, pixels - 1)] = 1.0

    ctx.check(tuple(mesh.shape_native) == (ny, nx) and int(mapper.params) == pixels, "rect/mesh/shape",
              "mesh shape_native %s params %s" % (mesh.shape_native, mapper.params))
    # published pixel centres of the overlaid mesh = centres of the cells of the bounding box +- buffer
    ctx.close(np.asarray(mesh, dtype=float), r["centres"], "rect/mesh/centres",
              atol=1e-9 * float(np.abs(r["centres"]).max()) + 1e-9 * max(r["dy"], r["dx"]),
              what="mesh pixel centres vs centres of the cells over the source bounding box")

    out = _common_checks(ctx, "rect", mapper, sub, per_pixel, bmat, owner, pixels, s_ref, sub_ok)
    if out is not None:
        mm, mappings, sizes, weights, s_impl = out
        ctx.check(bool(np.all(sizes == 1)), "rect/pix_sub_weights/sizes", "a sub-pixel maps to %s cells" % sorted(set(sizes.tolist())))
        got = mappings[:, 0].astype(int)
        # own cell arithmetic (outside the tie band)
        sq = "square" if ny == nx else "nonsquare"
        cls_far = sub_ok & r["far_edge"]
        cls_in = sub_ok & ~r["far_edge"]
        near = sub_ok & (r["bdist"] <= 1e-5 * min(r["dy"], r["dx"]))
        if near.any():
            ctx.label("rect:decidable-sub-pixel-within-1e-5-cell-of-a-boundary")
        if cls_far.any():
            ctx.label("rect:far-edge-sub-pixels")
            ctx.equal(got[cls_far], r["pix"][cls_far], "rect/cell-index/far-edge/%s" % sq,
                      "cell index of sub-pixels in the last row/column of cells")
        if cls_in.any():
            ctx.equal(got[cls_in], r["pix"][cls_in], "rect/cell-index/interior/%s" % sq,
                      "cell index of sub-pixels not in the last row/column")
        # containment: the point lies within half a cell of the centre of the cell it is mapped to (all sub-pixels)
        slack = 4.0 * tie_abs + 1e-9 * max(r["dy"], r["dx"])
        c = np.asarray(mesh, dtype=float)[np.clip(got, 0, pixels - 1)]
        dy_ok = np.abs(src[:, 0] - c[:, 0]) <= 0.5 * r["dy"] + slack
        dx_ok = np.abs(src[:, 1] - c[:, 1]) <= 0.5 * r["dx"] + slack
        ctx.check(bool(np.all(dy_ok & dx_ok)), "rect/containment", "a sub-pixel is not inside the cell it is mapped to (worst offset %.3g, %.3g cells)" % (
            float(np.max(np.abs(src[:, 0] - c[:, 0]) / r["dy"])), float(np.max(np.abs(src[:, 1] - c[:, 1]) / r["dx"]))))
    nb = ctx.impl("rect/neighbors", lambda: mapper.neighbors)
    _check_neighbors(ctx, np.asarray(nb), nb.sizes, ref.rect_adjacency(shape), "rect/neighbors")


def _delaunay_core(ctx, mapper, mesh, src, verts, sub, per_pixel, bmat, owner, r=None):
    pixels = len(verts)
    ctx.label("verts:%s" % ("5-12" if pixels <= 12 else "13-25" if pixels <= 25 else "26-49"))
    ctx.check(int(mapper.params) == pixels, "delaunay/mesh/params", "params %s for %d vertices" % (mapper.params, pixels))
    ctx.equal(np.asarray(mesh, dtype=float), verts, "delaunay/mesh/vertices", "mesh grid vs input vertices")
    if r is None:
        r = ref.delaunay_reference(src, verts)
    general = r["general_margin"] >= GENERAL_MARGIN
    inside = r["inside"]
    # per-sub-pixel tolerance: 1e-9 plus the conditioning of barycentric weights in the containing simplex
    tol = np.where(inside, TOL_REF + 32.0 * ref.EPS * r["kappa"], TOL_REF)
    sub_ok = ~r["hull_tie"]
    sub_ok &= np.where(inside, (r["quality_best"] >= QUALITY_MIN) & r["has_candidate"], r["nearest_gap"] > 1e-9)
    if (tol > 1e-7).any():
        ctx.label("tolerance>1e-7:ill-conditioned-simplex")
    if (~sub_ok).any():
        ctx.label("tie:hull-or-nearest-or-sliver")
    if (inside & sub_ok & (r["simplex_margin"] <= 1e-9)).any():
        ctx.label("inside-hull-sub-pixel-on-simplex-edge-or-vertex")
    if (sub_ok & ~inside & (np.abs(r["hull_margin"]) <= 1e-5)).any():
        ctx.label("near-hull:decidable-just-outside")
    if (sub_ok & inside & (np.abs(r["hull_margin"]) <= 1e-5)).any():
        ctx.label("near-hull:decidable-just-inside")
    frac_out = float((~inside).mean())
    ctx.label("hull:all-inside" if frac_out == 0 else "hull:all-outside" if frac_out == 1 else "hull:some-outside")
    if not general:
        ctx.label("not-general-position:reference-skipped")
        ctx.tie(len(owner))
    s_ref = r["S"] if general else None

    out = _common_checks(ctx, "delaunay", mapper, sub, per_pixel, bmat, owner, pixels, s_ref, sub_ok, tol)
    if out is not None and general:
        mm, mappings, sizes, weights, s_impl = out
        want_sizes = np.where(inside, 3, 1)
        ok_in = sub_ok & inside
        ok_out = sub_ok & ~inside
        ctx.equal(sizes[sub_ok], want_sizes[sub_ok], "delaunay/inside-outside-classification",
                  "number of mapped vertices (3 inside the hull, 1 outside)")
        if ok_in.any():
            err = np.abs(s_impl[ok_in] - r["S"][ok_in]).max(axis=1)
            ctx.check(bool(np.all(err <= tol[ok_in])), "delaunay/weights/inside-hull",
                      lambda: "per-sub-pixel weights vs barycentric coordinates in the containing simplex: got %s want %s (tolerance %s)" % (
                          _rows(s_impl[ok_in], err > tol[ok_in]), _rows(r["S"][ok_in], err > tol[ok_in]), tol[ok_in][err > tol[ok_in]][:3]))
        if ok_out.any():
            ctx.close(s_impl[ok_out], r["S"][ok_out], "delaunay/weights/outside-hull", atol=TOL_REF,
                      what="per-sub-pixel weights vs indicator of the nearest vertex")
        # hull-boundary tie band: either branch is acceptable (at a hull vertex both coincide)
        on_hull = r["hull_tie"] & (r["quality_best"] >= QUALITY_MIN) & (r["nearest_gap"] > 1e-9)
        if on_hull.any():
            tol_h = TOL_REF + 32.0 * ref.EPS * r["kappa"][on_hull]
            e_in = np.abs(s_impl[on_hull] - r["S_in"][on_hull]).max(axis=1)
            e_out = np.abs(s_impl[on_hull] - r["S_out"][on_hull]).max(axis=1)
            ctx.check(bool(np.all((e_in <= tol_h) | (e_out <= TOL_REF))), "delaunay/weights/hull-boundary",
                      "a sub-pixel on the hull boundary has neither the barycentric weights of the adjacent simplex nor the "
                      "nearest-vertex indicator (errors %s / %s)" % (e_in, e_out))
    nb = ctx.impl("delaunay/neighbors", lambda: mapper.neighbors)
    if general:
        _check_neighbors(ctx, np.asarray(nb), nb.sizes, r["adjacency"], "delaunay/neighbors")
    return out, sub_ok, general


def _scale_invariance(ctx, out, sub_ok, general, owner, unit_mapper, k):
    """The same plane at unit scale gives the same matrix (power-of-two scaling is exact, so every area ratio and
    every comparison is unchanged); rows with tie-band sub-pixels are excluded."""
    if out is None or not general or k == 0:
        return
    mm = out[0]
    row_ok = np.ones(mm.shape[0], dtype=bool)
    row_ok[owner[~sub_ok]] = False
    unit = np.asarray(unit_mapper.mapping_matrix, dtype=float)
    cls = "small" if k < 0 else "large"
    # the library's weight arithmetic is not bit-for-bit scale covariant (scipy / qhull work on internally re-scaled
    # coordinates), so the two matrices agree to the conditioning of barycentric weights, not to 1e-12 flat:
    # same bound as the reference comparison, 32 eps max|coordinate|^2 / (2 smallest simplex area)
    tri = unit_mapper.source_plane_mesh_grid.delaunay
    pts = np.asarray(tri.points, dtype=float)
    sp = pts[np.asarray(tri.simplices)]
    area2 = np.abs((sp[:, 1, 0] - sp[:, 0, 0]) * (sp[:, 2, 1] - sp[:, 0, 1]) - (sp[:, 1, 1] - sp[:, 0, 1]) * (sp[:, 2, 0] - sp[:, 0, 0]))
    cmax2 = max(float(np.abs(pts).max()), float(np.abs(np.asarray(unit_mapper.source_plane_data_grid, dtype=float)).max())) ** 2
    kappa = cmax2 / max(float(area2[area2 > 0].min()) if (area2 > 0).any() else 1e-300, 1e-300)
    ctx.close(mm[row_ok], unit[row_ok], "delaunay/scale-invariance/%s-scale" % cls, atol=TOL_SUM + 32.0 * ref.EPS * kappa,
              what="mapping_matrix of the plane times 2**%d vs the plane at unit scale" % k)
    ps, pu = unit_mapper.pix_sub_weights, None
    ctx.equal(np.asarray(out[2])[sub_ok], np.asarray(ps.sizes)[sub_ok], "delaunay/scale-invariance/%s-scale" % cls,
              "number of mapped vertices per sub-pixel, plane times 2**%d vs unit scale" % k)


def body_delaunay(case, ctx):
    prep = _prepare(case, ctx, "delaunay")
    if prep is None:
        return
    mapper, b, sub, per_pixel, bmat, owner, src = prep
    ctx.label("margin:%s" % case["obj"]["margin"])
    out, sub_ok, general = _delaunay_core(ctx, mapper, b["mesh"], src, b["verts"], sub, per_pixel, bmat, owner)
    k = int(case.get("scale_exp", 0))
    if k != 0:
        _scale_invariance(ctx, out, sub_ok, general, owner, _build(case, "delaunay", 0)["mapper"], k)


# ---- Delaunay, source points placed on vertices / edges / centroids / just off the hull ---------
NEAR_DISTANCES = [1e-12, 1e-10, 1e-8, 1e-6, 1e-3]     # relative to the hull edge length / the cell size


def _hull_edges(tri, verts):
    """(va index, vb index, unit outward normal) of every hull edge (harness side: placement only)."""
    out = []
    simp = np.asarray(tri.simplices)
    nb = np.asarray(tri.neighbors)
    for t in range(len(simp)):
        for j in range(3):
            if nb[t, j] == -1:
                ia, ib = [int(simp[t, i]) for i in range(3) if i != j]
                e = verts[ib] - verts[ia]
                nrm = np.array([-e[1], e[0]])
                if np.dot(nrm, verts[simp[t, j]] - verts[ia]) > 0:
                    nrm = -nrm
                out.append((ia, ib, nrm / np.sqrt((nrm ** 2).sum())))
    return out


@st.composite
def special_point_cases(draw):
    n = draw(st.integers(1, 5))
    sub = draw(st.lists(st.integers(1, 2), min_size=n, max_size=n))
    npts = sum(v * v for v in sub)
    ny = draw(st.integers(2, 5)); nx = draw(st.integers(2, 5))
    if ny * nx < 5:
        nx = 3
    jit = draw(st.lists(st.floats(-0.3, 0.3), min_size=2 * ny * nx, max_size=2 * ny * nx))
    jit = [0.8 * float(v) + 0.06 * float(scene._hash01(k + 0.25)) for k, v in enumerate(jit)]
    fr = st.one_of(st.sampled_from([0.5, 0.25, 0.75, 1.0 / 3.0]), st.floats(0.01, 0.99))
    pts = []
    for _ in range(npts):
        kind = draw(st.sampled_from(["vertex", "edge", "edge", "interior", "outside",
                                     "hull-edge-out", "hull-edge-out", "hull-edge-in", "hull-vertex-out", "hull-vertex-in"]))
        pts.append([kind, draw(st.integers(0, 200)), draw(st.integers(0, 2)), draw(fr), draw(fr), draw(st.sampled_from(NEAR_DISTANCES))])
    return {"sub": sub, "lattice": [ny, nx], "jitter": jit, "margin": 1.0,
            "box": [draw(gens.reals(-5, 5)), draw(gens.reals(-5, 5)), draw(gens.positives(0.1, 5.0)), draw(gens.positives(0.1, 5.0))],
            "points": pts, "scale_exp": draw(scale_exps())}


def body_special_points(case, ctx):
    import autoarray as aa
    import scipy.spatial
    sub = np.asarray(case["sub"], dtype=int)
    n = len(sub)
    per_pixel = len(set(sub.tolist())) > 1
    ctx.label("sub:per-pixel" if per_pixel else "sub:uniform-%d" % sub[0])
    cy, cx, hy, hx = case["box"]
    box = np.array([[cy - hy, cx - hx], [cy + hy, cx + hx]])
    verts, _ = scene.delaunay_vertices(case, box)
    tri = scipy.spatial.Delaunay(verts)     # harness side: only used to place the points
    simp = np.asarray(tri.simplices)
    pts = []
    hull = _hull_edges(tri, verts)
    centroid = verts.mean(axis=0)
    for p in case["points"]:
        kind, a, b, f1, f2 = p[:5]
        d = float(p[5]) if len(p) > 5 else 1e-6
        ctx.label("point:%s" % kind if not kind.startswith("hull-") else "point:%s@%g" % (kind, d))
        if kind == "vertex":
            pts.append(verts[a % len(verts)].copy())
        elif kind == "edge":
            t = simp[a % len(simp)]
            va, vb = verts[t[b % 3]], verts[t[(b + 1) % 3]]
            pts.append(va + f1 * (vb - va))
        elif kind == "interior":
            t = simp[a % len(simp)]
            w0 = f1; w1 = f2 * (1.0 - f1); w2 = 1.0 - w0 - w1
            pts.append(w0 * verts[t[0]] + w1 * verts[t[1]] + w2 * verts[t[2]])
        elif kind in ("hull-edge-out", "hull-edge-in"):
            # a resolvable distance d * (edge length) outside / inside a hull edge, away from its midpoint (where the
            # two end vertices would be equidistant) -- outside: nearest vertex alone; inside: barycentric weights
            ia, ib, nrm = hull[a % len(hull)]
            f = f1 if abs(f1 - 0.5) > 0.05 else 0.3
            e = verts[ib] - verts[ia]
            sign = 1.0 if kind == "hull-edge-out" else -1.0
            pts.append(verts[ia] + f * e + sign * d * float(np.sqrt((e ** 2).sum())) * nrm)
        elif kind in ("hull-vertex-out", "hull-vertex-in"):
            # beyond / before a hull vertex on the ray from the centroid of the vertex set (convexity: beyond = outside)
            ia, ib, nrm = hull[a % len(hull)]
            v = verts[ia if b % 2 == 0 else ib]
            u = (v - centroid) / np.sqrt(((v - centroid) ** 2).sum())
            length = float(np.sqrt(((verts[ib] - verts[ia]) ** 2).sum()))
            sign = 1.0 if kind == "hull-vertex-out" else -1.0
            pts.append(v + sign * d * length * u)
        else:
            ang = 2.0 * np.pi * ((a % 97) / 97.0)
            rad = (1.2 + 3.0 * f1) * float(np.sqrt(((verts - centroid) ** 2).sum(axis=1).max()))
            pts.append(centroid + rad * np.array([np.sin(ang), np.cos(ang)]))
    k = int(case.get("scale_exp", 0))
    ctx.label(_scale_label(k))
    sc = 2.0 ** k
    bmat, owner = ref.binning_matrix(sub)

    def build(f):
        mask = aa.Mask2D(mask=np.zeros((1, n), dtype=bool), pixel_scales=(f, f))
        osamp = scene.over_sampler_for(mask, [int(v) for v in sub])
        mesh = aa.Mesh2DDelaunay(values=verts * f)
        mg = aa.MapperGrids(mask=mask, source_plane_data_grid=aa.Grid2DIrregular(values=np.asarray(pts, dtype=float) * f),
                            source_plane_mesh_grid=mesh)
        return aa.Mapper(mapper_grids=mg, over_sampler=osamp, regularization=None), mesh

    mapper, mesh = build(sc)
    out, sub_ok, general = _delaunay_core(ctx, mapper, mesh, np.asarray(pts, dtype=float) * sc, verts * sc, sub, per_pixel, bmat, owner)
    if k != 0:
        _scale_invariance(ctx, out, sub_ok, general, owner, build(1.0)[0], k)


# ---- rectangular, source points placed just off cell boundaries and the outer mesh edge --------------
@st.composite
def rect_special_cases(draw):
    n = draw(st.integers(1, 5))
    sub = draw(st.lists(st.integers(1, 2), min_size=n, max_size=n))
    npts = sum(v * v for v in sub)
    if npts < 3:
        sub = [2] + sub[1:]
        npts = sum(v * v for v in sub)
    fr = st.floats(0.02, 0.98)
    pts = []
    for _ in range(npts - 2):       # the first two points are the corners of the bounding box
        kind = draw(st.sampled_from(["row-boundary", "col-boundary", "corner", "outer-edge", "interior"]))
        pts.append([kind, draw(st.integers(0, 50)), draw(st.integers(0, 50)), draw(fr), draw(fr),
                    draw(st.sampled_from(NEAR_DISTANCES)), draw(st.sampled_from([-1, 1])), draw(st.sampled_from([-1, 1]))])
    return {"sub": sub, "shape": [draw(st.integers(3, 7)), draw(st.integers(3, 7))],
            "box": [draw(gens.reals(-5, 5)), draw(gens.reals(-5, 5)), draw(gens.positives(0.1, 5.0)), draw(gens.positives(0.1, 5.0))],
            "buffer": draw(st.sampled_from(["default", "default", "scaled"])),
            "container": draw(st.sampled_from(["ndarray", "irregular", "grid2d"])),
            "points": pts, "scale_exp": draw(scale_exps())}


def body_rect_special(case, ctx):
    import autoarray as aa
    sub = np.asarray(case["sub"], dtype=int)
    n = len(sub)
    per_pixel = len(set(sub.tolist())) > 1
    ctx.label("sub:per-pixel" if per_pixel else "sub:uniform-%d" % sub[0])
    ny, nx = [int(v) for v in case["shape"]]
    k = int(case.get("scale_exp", 0))
    ctx.label(_scale_label(k))
    ctx.label("buffer:%s" % case["buffer"])
    sc = 2.0 ** k
    cy, cx, hy, hx = [float(v) * sc for v in case["box"]]      # exact: power of two
    y0, y1, x0, x1 = cy - hy, cy + hy, cx - hx, cx + hx
    buf_in = ref.BUFFER * sc if case["buffer"] == "scaled" else ref.BUFFER
    # placement only (harness side): the cell boundaries of the mesh that will be laid over the box
    buf = max(buf_in, 64.0 * ref.EPS * max(abs(y0), abs(y1), abs(x0), abs(x1)))
    dy = (y1 - y0 + 2 * buf) / ny
    dx = (x1 - x0 + 2 * buf) / nx
    pts = [[y0, x0], [y1, x1]]
    for kind, a, b, f1, f2, d, sy, sx in case["points"]:
        ctx.label("point:%s" % kind if kind == "interior" else "point:%s@%g" % (kind, d))
        y = y0 + f1 * (y1 - y0)
        x = x0 + f2 * (x1 - x0)
        if kind in ("row-boundary", "corner"):
            y = (y1 + buf) - (1 + a % (ny - 1)) * dy + sy * d * dy
        if kind in ("col-boundary", "corner"):
            x = (x0 - buf) + (1 + b % (nx - 1)) * dx + sx * d * dx
        if kind == "outer-edge":
            # inside the bounding box, d cells from one of its sides (the mesh edge lies one buffer further out)
            if a % 2 == 0:
                y = y0 + d * dy if sy < 0 else y1 - d * dy
            else:
                x = x0 + d * dx if sx < 0 else x1 - d * dx
        pts.append([min(max(y, y0), y1), min(max(x, x0), x1)])
    src = np.asarray(pts, dtype=float)
    mask = aa.Mask2D(mask=np.zeros((1, n), dtype=bool), pixel_scales=(sc, sc))
    osamp = scene.over_sampler_for(mask, [int(v) for v in sub])
    bmat, owner = ref.binning_matrix(sub)
    cont = case.get("container", "irregular")
    ctx.label("container:%s" % cont)
    grid = _containers(src, mask)[cont]       # grid2d: the 1 x n image mask (or a 1 x N strip) at the origin; the box is elsewhere
    if case["buffer"] == "scaled":
        mesh = aa.Mesh2DRectangular.overlay_grid(grid=grid, shape_native=(ny, nx), buffer=buf_in)
    else:
        mesh = aa.Mesh2DRectangular.overlay_grid(grid=grid, shape_native=(ny, nx))
    mg = aa.MapperGrids(mask=mask, source_plane_data_grid=grid, source_plane_mesh_grid=mesh)
    mapper = aa.Mapper(mapper_grids=mg, over_sampler=osamp, regularization=None)
    _rect_core(ctx, mapper, mesh, src, [ny, nx], buf_in, sub, per_pixel, bmat, owner)


# ---- large instances (sizes that cross internal blocking / chunking thresholds) -----------------------
def _is_prime(v):
    if v < 2:
        return False
    i = 2
    while i * i <= v:
        if v % i == 0:
            return False
        i += 1
    return True


def _prime_near(v, step):
    while not _is_prime(v):
        v += step
    return v


def _blockfree_near(v, step):
    """Nearest count in direction `step` that no small block size (2..16) divides."""
    while any(v % q == 0 for q in (2, 3, 5, 7, 11, 13)):
        v += step
    return v


def cases_large(tier):
    """(sub-pixels x vertices) just below / at / above 2**22, 2**23, 2**24 with counts that no block size 2..16
    divides, except for the exact powers of two."""
    def below(t, p):
        return _blockfree_near(t // p, -1)

    def above(t, p):
        return _blockfree_near(t // p + 1, 1)

    quick = [
        {"kind": "delaunay", "vertices": 1999, "target_n": above(2 ** 24, 1999), "ring": [12.0, 21.0], "overlap": False, "scale_exp": 0},
        {"kind": "delaunay", "vertices": 2048, "target_n": 2048, "ring": [12.0, 14.5], "overlap": False, "scale_exp": -20},
        {"kind": "rect", "shape": [30, 30], "target_n": _prime_near(9001, 1), "ring": [12.0, 21.0], "scale_exp": 0},
    ]
    more = [
        {"kind": "delaunay", "vertices": 1999, "target_n": below(2 ** 24, 1999), "ring": [12.0, 21.0], "overlap": False, "scale_exp": 0},
        {"kind": "delaunay", "vertices": 2048, "target_n": 8192, "ring": [12.0, 21.0], "overlap": False, "scale_exp": 0},
        {"kind": "delaunay", "vertices": 2003, "target_n": above(2 ** 23, 2003), "ring": [14.0, 20.0], "overlap": False, "scale_exp": 10},
        {"kind": "delaunay", "vertices": 2047, "target_n": 2049, "ring": [12.0, 14.5], "overlap": False, "scale_exp": 0},
        {"kind": "delaunay", "vertices": 2039, "target_n": above(2 ** 24, 2039), "ring": [12.0, 21.0], "overlap": True, "scale_exp": 0},
        {"kind": "rect", "shape": [31, 29], "target_n": _prime_near(9300, 1), "ring": [12.0, 21.0], "scale_exp": -20},
    ]
    return quick if tier == "quick" else quick + more


LARGE_SIZE = 44
LARGE_A = np.array([[1.1, 0.2], [-0.1, 0.9]])


def _large_instance(case):
    """Deterministic construction: 44x44 ring mask, per-pixel sub-sizes 1..4 from a fixed hash adjusted so that the
    number of sub-pixels is exactly target_n (the last few units by unmasking corner pixels with sub-size 1)."""
    size = LARGE_SIZE
    c = (size - 1) / 2.0
    r0, r1 = case["ring"]
    ii, jj = np.meshgrid(np.arange(size), np.arange(size), indexing="ij")
    d = np.hypot(ii - c, jj - c)
    ring = (d >= r0) & (d <= r1)
    n = int(ring.sum())
    sub = (1 + np.floor(2.0 * (scene._hash01(np.arange(n) + 0.125) + 1.0))).astype(int).clip(1, 4)
    target = int(case["target_n"])
    total = int((sub ** 2).sum())
    i = 0
    while total > target and i < 8 * n:
        k = i % n
        if sub[k] > 1:
            total -= 2 * sub[k] - 1
            sub[k] -= 1
        i += 1
    i = 0
    while target - total >= 3 and i < 8 * n:
        k = (7 * i) % n
        if sub[k] < 4 and 2 * sub[k] + 1 <= target - total:
            total += 2 * sub[k] + 1
            sub[k] += 1
        i += 1
    resid = target - total
    assert 0 <= resid < 200, (resid, n)
    extra = np.argwhere(d > r1 + 2.0)[:resid]
    unmasked = ring.copy()
    submap = np.zeros((size, size), dtype=int)
    submap[ring] = sub
    for (a, b) in extra:
        unmasked[a, b] = True
        submap[a, b] = 1
    sub_all = submap[unmasked]
    assert int((sub_all ** 2).sum()) == target
    return ~unmasked, sub_all


def _large_checks(ctx, kind, mapper, sub, owner, pixels, ref_k, ref_p, ref_w, sub_ok, tol):
    """Vectorised version of the common checks for large instances; the reference interpolation weights are given as
    triplets (sub-pixel, source pixel, weight)."""
    key = "large/" + kind
    n, nsub = len(sub), len(owner)
    frac = 1.0 / (sub.astype(float) ** 2)
    psw = ctx.impl(key + "/pix_sub_weights", lambda: mapper.pix_sub_weights)
    mappings = np.asarray(psw.mappings); sizes = np.asarray(psw.sizes); weights = np.asarray(psw.weights, dtype=float)
    ok = mappings.ndim == 2 and mappings.shape[0] == nsub and sizes.shape == (nsub,) and weights.shape == mappings.shape
    ctx.check(ok, key + "/pix_sub_weights/shape", "mappings %s sizes %s weights %s for %d sub-pixels" % (mappings.shape, sizes.shape, weights.shape, nsub))
    if not ok:
        return None
    kmax = mappings.shape[1]
    valid = np.arange(kmax)[None, :] < sizes[:, None]
    rng_ok = bool(np.all((sizes >= 1) & (sizes <= kmax)) and np.all((mappings[valid] >= 0) & (mappings[valid] < pixels)))
    ctx.check(rng_ok, key + "/pix_sub_weights/range", "sizes outside 1..%d (min %s) or mapped index outside 0..%d" % (kmax, sizes.min(), pixels - 1))
    if not rng_ok:
        return None
    ctx.check(bool(np.all(weights[valid] >= 0.0)), key + "/pix_sub_weights/negative-weight", "negative interpolation weight")
    ctx.close(np.where(valid, weights, 0.0).sum(axis=1), np.ones(nsub), key + "/pix_sub_weights/weights-sum", atol=TOL_SUM,
              what="interpolation weights per sub-pixel sum to 1")
    kk = np.repeat(np.arange(nsub), kmax).reshape(nsub, kmax)[valid]
    pp = mappings[valid].astype(int)
    ww = weights[valid]
    own = np.zeros((n, pixels))
    np.add.at(own, (owner[kk], pp), ww * frac[owner[kk]])
    mm = np.asarray(ctx.impl(key + "/mapping_matrix", lambda: mapper.mapping_matrix), dtype=float)
    ctx.check(mm.shape == (n, pixels), key + "/mapping_matrix/shape", "shape %s expected %s" % (mm.shape, (n, pixels)))
    if mm.shape != (n, pixels):
        return None
    ctx.check(bool(np.all(np.isfinite(mm)) and np.all(mm >= 0.0)), key + "/mapping_matrix/negative-or-non-finite", "min %r" % float(np.nanmin(mm)))
    ctx.close(mm.sum(axis=1), np.ones(n), key + "/mapping_matrix/row-sum", atol=TOL_SUM, what="row sums (flux conservation)")
    ctx.close(mm, own, key + "/mapping_matrix/accumulation", atol=TOL_SUM, what="mapping_matrix vs sum over own sub-pixels of weight/sub_i^2")
    m_ref = np.zeros((n, pixels))
    np.add.at(m_ref, (owner[ref_k], ref_p), ref_w * frac[owner[ref_k]])
    row_ok = np.ones(n, dtype=bool)
    row_ok[owner[~sub_ok]] = False
    ctx.tie(int((~sub_ok).sum()))
    row_tol = np.full(n, TOL_REF)
    np.maximum.at(row_tol, owner, tol)
    err = np.abs(mm - m_ref).max(axis=1)
    bad = row_ok & ~(err <= row_tol)
    ctx.check(not bad.any(), key + "/mapping_matrix/vs-reference",
              lambda: "mapping_matrix vs reference: %d rows differ, first %s, largest error %.3g (got max entry at %s, want %s)" % (
                  int(bad.sum()), np.flatnonzero(bad)[:5], float(err[bad].max()), mm[bad][0].argmax(), m_ref[bad][0].argmax()))
    # unique mappings
    um = ctx.impl(key + "/unique_mappings", lambda: mapper.unique_mappings)
    dpu = np.asarray(um.data_to_pix_unique); dw = np.asarray(um.data_weights, dtype=float); pl = np.asarray(um.pix_lengths)
    u_ok = dpu.ndim == 2 and dpu.shape[0] == n and dw.shape == dpu.shape and pl.shape == (n,)
    ctx.check(u_ok, key + "/unique_mappings/shape", "data_to_pix_unique %s data_weights %s pix_lengths %s" % (dpu.shape, dw.shape, pl.shape))
    if u_ok:
        uv = np.arange(dpu.shape[1])[None, :] < pl[:, None]
        ids = dpu[uv]
        r_ok = bool(np.all(pl >= 1) and np.all(pl <= dpu.shape[1]) and np.all(ids == np.round(ids)) and np.all((ids >= 0) & (ids < pixels)))
        ctx.check(r_ok, key + "/unique_mappings/range", "pix_lengths or indexes out of range")
        ctx.check(bool(np.all(dpu[~uv] == -1) and np.all(dw[~uv] == 0.0)), key + "/unique_mappings/padding", "entries beyond pix_lengths are not (-1, 0.0)")
        if r_ok:
            rebuilt = np.zeros((n, pixels))
            rows = np.repeat(np.arange(n), dpu.shape[1]).reshape(dpu.shape)[uv]
            np.add.at(rebuilt, (rows, ids.astype(int)), dw[uv])
            ctx.close(rebuilt, mm, key + "/unique_mappings/vs-dense", atol=TOL_SUM, what="matrix rebuilt from unique mappings vs mapping_matrix")
            pairs = np.unique(np.stack([owner[kk], pp], axis=1), axis=0)
            want_len = np.bincount(pairs[:, 0], minlength=n)
            ctx.equal(pl.astype(int), want_len, key + "/unique_mappings/pix_lengths", "pix_lengths vs number of distinct mapped source pixels")
            upairs = np.stack([rows, ids.astype(int)], axis=1)
            ctx.check(len(np.unique(upairs, axis=0)) == len(upairs), key + "/unique_mappings/duplicate", "a source pixel is listed twice for one image pixel")
    ctx.nt(len(set(sub.tolist())) > 1 and bool(np.any((mm > 0).sum(axis=1) >= 2)))
    return mappings, sizes, weights


def body_large(case, ctx):
    import autoarray as aa
    kind = case["kind"]
    m, sub = _large_instance(case)
    n = len(sub)
    k = int(case.get("scale_exp", 0))
    s = 2.0 ** k
    ctx.label(_scale_label(k))
    ctx.label("large:%s" % kind)
    mask = aa.Mask2D(mask=m.copy(), pixel_scales=(0.05 * s, 0.05 * s))
    unit_mask = aa.Mask2D(mask=m.copy(), pixel_scales=(0.05, 0.05))
    sub_arr = [int(v) for v in sub]
    osamp = scene.over_sampler_for(mask, sub_arr)
    base = np.asarray(scene.over_sampler_for(unit_mask, sub_arr).over_sampled_grid, dtype=float)
    bmat_owner = np.repeat(np.arange(n), sub ** 2)
    src = (base @ LARGE_A.T) * s
    ctx.check(src.shape == (int(case["target_n"]), 2), "large/precondition/sub-pixel-count", "%s sub-pixels, wanted %d" % (src.shape, case["target_n"]))
    grid = aa.Grid2DIrregular(values=src.copy())
    if kind == "rect":
        ny, nx = case["shape"]
        mesh = aa.Mesh2DRectangular.overlay_grid(grid=grid, shape_native=(ny, nx))
        mapper = aa.Mapper(mapper_grids=aa.MapperGrids(mask=mask, source_plane_data_grid=grid, source_plane_mesh_grid=mesh),
                           over_sampler=osamp, regularization=None)
        r = ref.rect_reference(src, (ny, nx))
        tie_abs = 64.0 * ref.EPS * (float(np.abs(src).max()) + r["buffer"])
        sub_ok = r["bdist"] > tie_abs
        ctx.label("large:sub-pixels=%d" % len(src))
        out = _large_checks(ctx, "rect", mapper, sub, bmat_owner, ny * nx, np.arange(len(src)), np.clip(r["pix"], 0, ny * nx - 1),
                            np.ones(len(src)), sub_ok, np.full(len(src), TOL_REF))
        if out is not None:
            got = out[0][:, 0].astype(int)
            ctx.equal(got[sub_ok], r["pix"][sub_ok], "large/rect/cell-index", "cell index of every sub-pixel outside the tie band")
        nb = mapper.neighbors
        _check_neighbors(ctx, np.asarray(nb), nb.sizes, ref.rect_adjacency((ny, nx)), "large/rect/neighbors")
        return
    # Delaunay: vertices on a jittered sunflower inside the hole of the ring (or slightly overlapping its inner edge)
    p = int(case["vertices"])
    r0 = float(case["ring"][0])
    rv = ((r0 + 1.5) if case.get("overlap") else (r0 - 2.0)) * 0.05
    i = np.arange(p)
    rad = rv * np.sqrt((i + 0.5) / p) * (1.0 + 0.002 * scene._hash01(i + 0.375))
    th = i * 2.399963229728653 + 0.01 * scene._hash01(i + 0.625)
    verts = (np.stack([rad * np.sin(th), rad * np.cos(th)], axis=1) @ LARGE_A.T) * s
    mesh = aa.Mesh2DDelaunay(values=verts.copy())
    mapper = aa.Mapper(mapper_grids=aa.MapperGrids(mask=mask, source_plane_data_grid=grid, source_plane_mesh_grid=mesh),
                       over_sampler=osamp, regularization=None)
    r = ref.delaunay_reference_large(src, verts)
    inside = r["inside"]
    n_out = int((~inside).sum())
    pairs = n_out * p
    pw = min((22, 23, 24), key=lambda e: abs(pairs - 2 ** e))
    ctx.label("large:outside-x-vertices-%s-2^%d" % ("at" if pairs == 2 ** pw else "below" if pairs < 2 ** pw else "above", pw))
    ctx.label("large:outside=%d,vertices=%d" % (n_out, p))
    ctx.label("large:some-inside-hull" if inside.any() else "large:all-outside-hull")
    inner = r["inside_ref"]
    idx_in = r["inside_index"]
    sub_ok = ~r["hull_tie"] & np.where(inside, True, r["nearest_gap"] > 1e-9)
    tol = np.full(len(src), TOL_REF)
    ref_k = [np.flatnonzero(~inside)]
    ref_p = [r["nearest"][~inside]]
    ref_w = [np.ones(n_out)]
    if inner is not None:
        general = inner["general_margin"] >= GENERAL_MARGIN
        ok_in = (~inner["hull_tie"]) & (inner["quality_best"] >= QUALITY_MIN) & inner["has_candidate"] & general
        sub_ok[idx_in] &= np.where(inner["inside"], ok_in, True)
        tol[idx_in] = np.where(inner["inside"], TOL_REF + 32.0 * ref.EPS * inner["kappa"], TOL_REF)
        rows, cols = np.nonzero(inner["S"] * inner["inside"][:, None])
        ref_k.append(idx_in[rows]); ref_p.append(cols); ref_w.append(inner["S"][rows, cols])
    out = _large_checks(ctx, "delaunay", mapper, sub, bmat_owner, p, np.concatenate(ref_k), np.concatenate(ref_p),
                        np.concatenate(ref_w), sub_ok, tol)
    if out is not None:
        mappings, sizes, weights = out
        ctx.equal(sizes[sub_ok], np.where(inside, 3, 1)[sub_ok], "large/delaunay/inside-outside-classification",
                  "number of mapped vertices (3 inside the hull, 1 outside)")
        o = sub_ok & ~inside
        ctx.equal(mappings[o, 0].astype(int), r["nearest"][o], "large/delaunay/nearest-vertex",
                  "outside-hull sub-pixels map to their nearest vertex (chunked brute force)")
        ctx.equal(weights[o, 0], np.ones(int(o.sum())), "large/delaunay/nearest-vertex-weight", "weight of the nearest vertex")
    nb = mapper.neighbors
    _check_neighbors(ctx, np.asarray(nb), nb.sizes, r["adjacency"], "large/delaunay/neighbors")


def cases_rect_neighbors(tier):
    hi = 10 if tier == "quick" else 16
    for ny in range(3, hi + 1):
        for nx in range(3, hi + 1):
            yield {"shape": [ny, nx]}


def body_rect_neighbors(case, ctx):
    import autoarray as aa
    from autoarray.inversion.pixelization.mesh import mesh_util
    ny, nx = case["shape"]
    ctx.label("mesh:square" if ny == nx else "mesh:nonsquare")
    ctx.nt(ny != nx)
    adj = ref.rect_adjacency((ny, nx))
    arr, sizes = mesh_util.rectangular_neighbors_from(shape_native=(ny, nx))
    ctx.check(bool(np.all(np.asarray(arr) == np.round(arr))), "rect-neighbors/util/non-integer", "non-integer neighbour index")
    _check_neighbors(ctx, np.asarray(arr).astype(int), np.asarray(sizes).astype(int), adj, "rect-neighbors/util")
    grid = aa.Grid2DIrregular(values=[[1.0, -1.0], [-1.0, 1.5], [0.2, 0.3]])
    mesh = aa.Mesh2DRectangular.overlay_grid(grid=grid, shape_native=(ny, nx))
    _check_neighbors(ctx, np.asarray(mesh.neighbors), mesh.neighbors.sizes, adj, "rect-neighbors/mesh")


SUBCHECKS = [
    SubCheck("rect", body_rect, strategy=mapper_cases("rect"), examples={"quick": 2000, "thorough": 16000},
             shards={"quick": 6, "thorough": 6}),
    SubCheck("delaunay", body_delaunay, strategy=mapper_cases("delaunay"), examples={"quick": 2000, "thorough": 16000},
             shards={"quick": 8, "thorough": 8}),
    SubCheck("delaunay-special-points", body_special_points, strategy=special_point_cases(),
             examples={"quick": 600, "thorough": 4000}, shards={"quick": 2, "thorough": 2}),
    SubCheck("rect-special-points", body_rect_special, strategy=rect_special_cases(),
             examples={"quick": 600, "thorough": 4000}, shards={"quick": 2, "thorough": 2}),
    SubCheck("large", body_large, cases=cases_large, shards={"quick": 3, "thorough": 9}),
    SubCheck("rect-neighbors", body_rect_neighbors, cases=cases_rect_neighbors, shards={"quick": 1, "thorough": 1}),
]
