"""C06 — mapping matrices conserve flux and encode the claimed interpolation; the unique-mapping
representation encodes the same matrix; neighbour lists are symmetric and equal the mesh adjacency."""
import numpy as np
from hypothesis import strategies as st

from vp import gens, scene
from vp.engine import SubCheck
from vp.ref import mapping as ref

PROPERTY = "C06"
RULE = (
    "rect / delaunay: Hypothesis masks 3x3..6x6 (4/5 of cases) or 1x1..3x3 (1/5; all families of vp.gens.masks, >=1 unmasked pixel), isotropic and "
    "anisotropic pixel scales, origins up to |20|, uniform (1/4 of cases) or per-pixel integer sub-size 1..4, source "
    "grid = over-sampled image grid under identity / affine / affine+sinusoidal warp with jitter; rectangular mesh "
    "3..7 x 3..7 overlaid on the source grid; Delaunay vertices = jittered 2..7 x 2..7 lattice (5..49 vertices, "
    "de-regularised by a fixed per-index offset so no four are co-circular) over the source bounding box scaled by "
    "0.6/0.8/1.05/1.3 (so sub-pixels fall outside the hull in most cases). Oracle: plain-numpy reference "
    "(vp/ref/mapping.py): rectangular cell = floor of the coordinate relative to the bounding box +-1e-8 (own "
    "arithmetic, plus containment within half a cell of the mesh's published centre); Delaunay = brute-force "
    "barycentric search over scipy.spatial.Delaunay simplices (2x2 solve), nearest vertex outside the hull; "
    "M_ref = binning(1/sub_i^2) @ S_ref. Compared: rows >= 0 and sum to 1; per-sub-pixel weights; dense matrix; "
    "dense vs matrix rebuilt from unique_mappings; pix_lengths vs distinct pixels; neighbour lists vs 4-connectivity "
    "/ simplex edges, symmetry, padding. delaunay-special-points: 1..5 image pixels with sub 1..2 whose source "
    "positions are placed exactly on vertices, on simplex edges (fractions 1/2, 1/4, 1/3, arbitrary), at interior "
    "barycentric combinations and outside the hull (same oracle; weights are continuous across interior edges so "
    "either adjacent simplex is accepted; on the hull boundary either branch is accepted). rect-neighbors: exhaustive mesh shapes 3..10 x 3..10 (quick) / 3..16 "
    "(thorough). Non-trivial = per-pixel sub-size not constant and at least one image pixel maps to >= 2 source "
    "pixels; distinct = SHA-1 of the canonical case."
)
ASSUMPTIONS = [
    "scipy.spatial.Delaunay's list of simplices is the triangulation (its point location find_simplex and the "
    "repository's weights/indices are NOT trusted); vertex sets are in general position (normalised in-circle margin "
    ">= 1e-9, else the case's reference comparison is skipped and counted)",
    "the sub-pixels of image pixel i are the i-th run of sub_i^2 consecutive entries of the over-sampled grid; this is "
    "verified geometrically in every case (each sub-pixel lies inside its pixel's footprint) rather than trusted",
    "tolerances: row sums 1e-12; dense vs unique and dense vs binned per-sub-pixel weights 1e-12; rectangular and "
    "outside-hull weights vs reference 1e-9 absolute; inside-hull barycentric weights 1e-9 + 32*eps*kappa with kappa = "
    "max(|coordinate|^2, longest edge^2)/(2*area) of the worst simplex containing the point to rounding (the forward error "
    "of area-ratio weights evaluated in double from absolute coordinates; 1e-9 for well-shaped triangles near the origin, "
    "looser for slivers / far-from-origin grids; a dense-matrix row takes the largest tolerance of its sub-pixels)",
    "tie bands (excluded, counted): rectangular sub-pixels within 1e-11*max(1,max|coordinate|) of a cell boundary; "
    "Delaunay sub-pixels with a hull-edge barycentric coordinate within 1e-9 + 64*eps/quality of 0 (hull boundary: excluded "
    "from the exact comparison but still required to equal one of the two branches), outside-hull "
    "sub-pixels whose two nearest vertices differ by < 1e-9 relative squared distance, sub-pixels in a triangle of "
    "shape quality 2*area/longest_edge^2 < 1e-8 (numerically degenerate simplex)",
    "Voronoi natural-neighbour mappers are out of scope (external C library absent)",
]
TECHNIQUE = ("Hypothesis-generated masks / sub-size maps / warped source grids / meshes against a plain-numpy reference "
             "mapping matrix (own cell arithmetic; brute-force barycentric search), dense-vs-sparse encoding round trip, "
             "adjacency vs explicit graph; exhaustive enumeration of rectangular mesh shapes for neighbour lists")

TOL_REF = 1e-9
TOL_SUM = 1e-12
GENERAL_MARGIN = 1e-9
QUALITY_MIN = 1e-8


# ---------------------------------------------------------------------------------------------
# strategies
# ---------------------------------------------------------------------------------------------
@st.composite
def mapper_cases(draw, kind):
    if draw(st.integers(0, 4)) == 0:
        mask = draw(gens.masks(lo=1, hi=3, min_unmasked=1))     # tiny / 1xN masks, single pixels
    else:
        mask = draw(gens.masks(lo=3, hi=6, min_unmasked=2))
    n = sum(1 for r in mask for v in r if not v)
    if draw(st.integers(0, 3)) == 0:
        sub = draw(st.integers(1, 4))
    else:
        sub = draw(st.lists(st.integers(1, 4), min_size=n, max_size=n))
    spec = draw(scene.obj_specs(n, kinds=(kind,), max_sub=4, max_mesh=7, sub=sub))
    spec["reg"] = None
    if kind == "delaunay":
        # general position by construction: a fixed irrational-looking per-index offset removes exact lattices
        j = spec["jitter"]
        spec["jitter"] = [0.8 * float(v) + 0.06 * float(scene._hash01(k + 0.25)) for k, v in enumerate(j)]
    return {"mask": mask, "pixel_scales": draw(gens.pixel_scales()), "origin": draw(gens.origins(mag=20.0)),
            "obj": spec}


# ---------------------------------------------------------------------------------------------
# helpers
# ---------------------------------------------------------------------------------------------
def _sub_list(spec, n):
    s = spec["sub"]
    return [int(s)] * n if isinstance(s, int) else [int(v) for v in s]


def _warp_kind(w):
    if w["amp"] != [0.0, 0.0] or w["jit"]:
        return "warp"
    if w["a"] != [[1.0, 0.0], [0.0, 1.0]] or w["b"] != [0.0, 0.0]:
        return "affine"
    return "identity"


def _dense_from_psw(mappings, sizes, weights, pixels):
    n = len(sizes)
    s = np.zeros((n, pixels))
    for k in range(n):
        for j in range(int(sizes[k])):
            s[k, int(mappings[k, j])] += float(weights[k, j])
    return s


def _rows(mat, sel, k=2):
    return np.array2string(np.asarray(mat)[np.asarray(sel, dtype=bool)][:k], precision=12, threshold=80, max_line_width=200)


def _check_neighbors(ctx, arr, sizes, adj, key):
    """Neighbour lists equal `adj` (list of sets), are padded with -1, have the right sizes and are symmetric."""
    arr = np.asarray(arr)
    sizes = np.asarray(sizes)
    p = len(adj)
    ctx.check(arr.ndim == 2 and arr.shape[0] == p and sizes.shape == (p,), key + "/shape",
              "neighbors arr %s sizes %s for %d pixels" % (arr.shape, sizes.shape, p))
    if not (arr.ndim == 2 and arr.shape[0] == p and sizes.shape == (p,)):
        return
    got = []
    for q in range(p):
        k = int(sizes[q])
        row = [int(v) for v in arr[q, :k]]
        got.append(row)
        ctx.check(len(set(row)) == len(row), key + "/duplicate", "pixel %d lists a neighbour twice: %s" % (q, row))
        ctx.check(set(row) == adj[q], key + "/adjacency",
                  "pixel %d neighbours %s, mesh adjacency %s" % (q, sorted(row), sorted(adj[q])))
        ctx.check(bool(np.all(arr[q, k:] == -1)), key + "/padding", "pixel %d entries beyond size are not -1: %s" % (q, arr[q]))
        ctx.check(q not in row, key + "/self", "pixel %d is its own neighbour" % q)
    for q in range(p):
        for r in got[q]:
            if 0 <= r < p:
                ctx.check(q in got[r], key + "/symmetry", "%d lists %d but not vice versa" % (q, r))


def _prepare(case, ctx, kind):
    """Builds the mapper, returns (mapper, info, sub array, binning matrix, owner)."""
    m = np.asarray(case["mask"], dtype=bool)
    for l in gens.mask_stats(m):
        ctx.label(l)
    spec = case["obj"]
    n = int((~m).sum())
    sub = np.asarray(_sub_list(spec, n), dtype=int)
    per_pixel = len(set(sub.tolist())) > 1
    ctx.label("sub:per-pixel" if per_pixel else "sub:uniform-%d" % sub[0])
    ctx.label("sub:max-%d" % sub.max())
    ctx.label("warp:%s" % _warp_kind(spec["warp"]))
    ctx.label("scales:iso" if case["pixel_scales"][0] == case["pixel_scales"][1] else "scales:aniso")
    mask = scene.build_mask(case)
    mapper, info = scene.build_linear_obj(spec, mask)
    src = np.asarray(info["source_grid"], dtype=float)
    bmat, owner = ref.binning_matrix(sub)
    if src.shape != (len(owner), 2):
        ctx.fail("precondition/over-sampled-grid-length", "over-sampled grid has %s rows, sum sub^2 = %d" % (src.shape, len(owner)))
        return None
    # geometric verification of sub-pixel ownership (image plane, before the warp)
    base = np.asarray(info["over_sampler"].over_sampled_grid, dtype=float)
    cen = ref.pixel_centres(m, case["pixel_scales"], case["origin"])[owner]
    half = 0.5 * np.asarray(case["pixel_scales"], dtype=float)
    scale = max(1.0, float(np.abs(cen).max()))
    ok = np.all(np.abs(base - cen) <= half[None, :] + 1e-12 * scale)
    ctx.check(bool(ok), "precondition/sub-pixel-grouping", "a sub-pixel lies outside the footprint of the image pixel that owns its slot")
    return mapper, info, sub, per_pixel, bmat, owner, src


def _common_checks(ctx, kind, mapper, sub, per_pixel, bmat, owner, pixels, s_ref, sub_ok, tol=None):
    """Checks shared by both mesh types.  `s_ref` (N, P) reference per-sub-pixel weights, `sub_ok` (N,) bool
    marks sub-pixels outside every tie band.  Returns the implementation's dense matrix."""
    sc = "per-pixel-sub" if per_pixel else "uniform-sub"
    n = len(sub)
    nsub = len(owner)
    psw = ctx.impl(kind + "/pix_sub_weights", lambda: mapper.pix_sub_weights)
    mappings = np.asarray(psw.mappings)
    sizes = np.asarray(psw.sizes)
    weights = np.asarray(psw.weights, dtype=float)
    shape_ok = (mappings.ndim == 2 and mappings.shape[0] == nsub and sizes.shape == (nsub,)
                and weights.shape == mappings.shape)
    ctx.check(shape_ok, kind + "/pix_sub_weights/shape", "mappings %s sizes %s weights %s for %d sub-pixels" % (
        mappings.shape, sizes.shape, weights.shape, nsub))
    if not shape_ok:
        return None
    kmax = mappings.shape[1]
    valid = np.arange(kmax)[None, :] < sizes[:, None]
    ctx.check(bool(np.all((sizes >= 1) & (sizes <= kmax))), kind + "/pix_sub_weights/sizes-range", "sizes outside 1..%d" % kmax)
    ctx.check(bool(np.all((mappings[valid] >= 0) & (mappings[valid] < pixels))), kind + "/pix_sub_weights/index-range",
              "a mapped source-pixel index is outside 0..%d" % (pixels - 1))
    if not (np.all((sizes >= 1) & (sizes <= kmax)) and np.all((mappings[valid] >= 0) & (mappings[valid] < pixels))):
        return None
    ctx.check(bool(np.all(weights[valid] >= 0.0)), kind + "/pix_sub_weights/negative-weight", "negative interpolation weight")
    wsum = np.where(valid, weights, 0.0).sum(axis=1)
    ctx.close(wsum, np.ones(nsub), kind + "/pix_sub_weights/weights-sum", atol=TOL_SUM, what="interpolation weights per sub-pixel sum to 1")
    s_impl = _dense_from_psw(mappings, sizes, weights, pixels)

    # dense mapping matrix
    mm = np.asarray(ctx.impl(kind + "/mapping_matrix", lambda: mapper.mapping_matrix), dtype=float)
    ctx.check(mm.shape == (n, pixels), kind + "/mapping_matrix/shape", "shape %s, expected %s" % (mm.shape, (n, pixels)))
    if mm.shape != (n, pixels):
        return None
    ctx.check(bool(np.all(np.isfinite(mm))), kind + "/mapping_matrix/non-finite", "non-finite entry")
    ctx.check(bool(np.all(mm >= 0.0)), kind + "/mapping_matrix/negative-entry", "min entry %r" % float(mm.min()))
    ctx.close(mm.sum(axis=1), np.ones(n), kind + "/mapping_matrix/row-sum/" + sc, atol=TOL_SUM, what="row sums (flux conservation)")
    # accumulation of the mapper's own per-sub-pixel weights with 1/sub_i^2 (all rows, no tie band needed)
    ctx.close(mm, bmat @ s_impl, kind + "/mapping_matrix/accumulation/" + sc, atol=TOL_SUM,
              what="mapping_matrix vs sum over own sub-pixels of weight/sub_i^2")
    # against the reference, rows free of tie-band sub-pixels
    if s_ref is not None:
        row_ok = np.ones(n, dtype=bool)
        row_ok[owner[~sub_ok]] = False
        ctx.tie(int((~sub_ok).sum()))
        if row_ok.any():
            m_ref = bmat @ s_ref
            # a row is an average of its sub-pixels' weights: its tolerance is the largest of theirs
            row_tol = np.full(n, TOL_REF)
            if tol is not None:
                np.maximum.at(row_tol, owner, tol)
            err = np.abs(mm - m_ref).max(axis=1)
            bad = row_ok & ~(err <= row_tol)
            ctx.check(not bad.any(), kind + "/mapping_matrix/vs-reference/" + sc,
                      lambda: "mapping_matrix vs reference interpolation matrix: rows %s got %s want %s (tolerance %s)" % (
                          np.flatnonzero(bad)[:3], _rows(mm, bad), _rows(m_ref, bad), row_tol[bad][:3]))

    # unique mappings (w-tilde formalism)
    um = ctx.impl(kind + "/unique_mappings", lambda: mapper.unique_mappings)
    dpu = np.asarray(um.data_to_pix_unique)
    dw = np.asarray(um.data_weights, dtype=float)
    pl = np.asarray(um.pix_lengths)
    u_ok = dpu.ndim == 2 and dpu.shape[0] == n and dw.shape == dpu.shape and pl.shape == (n,)
    ctx.check(u_ok, kind + "/unique_mappings/shape", "data_to_pix_unique %s data_weights %s pix_lengths %s" % (dpu.shape, dw.shape, pl.shape))
    if u_ok:
        ctx.check(bool(np.all(pl == np.round(pl)) and np.all((pl >= 1) & (pl <= dpu.shape[1]))), kind + "/unique_mappings/pix_lengths-range",
                  "pix_lengths %s" % pl)
        rebuilt = np.zeros((n, pixels))
        want_len = np.zeros(n, dtype=int)
        bad_dup = bad_pad = bad_range = False
        for i in range(n):
            k = int(pl[i])
            ids = dpu[i, :k]
            if np.any(ids != np.round(ids)) or np.any(ids < 0) or np.any(ids >= pixels):
                bad_range = True
                continue
            ids = ids.astype(int)
            if len(set(ids.tolist())) != len(ids):
                bad_dup = True
            for j, q in enumerate(ids):
                rebuilt[i, q] += dw[i, j]
            if np.any(dpu[i, k:] != -1) or np.any(dw[i, k:] != 0.0):
                bad_pad = True
            rows = np.flatnonzero(owner == i)
            want_len[i] = len({int(mappings[r, j]) for r in rows for j in range(int(sizes[r]))})
        ctx.check(not bad_range, kind + "/unique_mappings/index-range", "data_to_pix_unique entry outside 0..%d within pix_lengths" % (pixels - 1))
        ctx.check(not bad_dup, kind + "/unique_mappings/duplicate", "a source pixel is listed twice for one image pixel")
        ctx.check(not bad_pad, kind + "/unique_mappings/padding", "entries beyond pix_lengths are not (-1, 0.0)")
        if not bad_range:
            ctx.close(rebuilt, mm, kind + "/unique_mappings/vs-dense/" + sc, atol=TOL_SUM, what="matrix rebuilt from unique mappings vs mapping_matrix")
            ctx.close(rebuilt, bmat @ s_impl, kind + "/unique_mappings/accumulation/" + sc, atol=TOL_SUM,
                      what="matrix rebuilt from unique mappings vs sum over own sub-pixels of weight/sub_i^2")
            ctx.equal(pl.astype(int), want_len, kind + "/unique_mappings/pix_lengths", "pix_lengths vs number of distinct mapped source pixels")
    ctx.nt(per_pixel and bool(np.any((mm > 0).sum(axis=1) >= 2)))
    if np.any((mm > 0).sum(axis=1) >= 2):
        ctx.label("image-pixel-maps-to>=2-source-pixels")
    return mm, mappings, sizes, weights, s_impl


# ---------------------------------------------------------------------------------------------
# bodies
# ---------------------------------------------------------------------------------------------
def body_rect(case, ctx):
    prep = _prepare(case, ctx, "rect")
    if prep is None:
        return
    mapper, info, sub, per_pixel, bmat, owner, src = prep
    shape = [int(v) for v in case["obj"]["shape"]]
    ny, nx = shape
    pixels = ny * nx
    ctx.label("mesh:square" if ny == nx else "mesh:nonsquare")
    r = ref.rect_reference(src, shape)
    tie_abs = 1e-11 * max(1.0, float(np.abs(src).max()))
    sub_ok = r["bdist"] > tie_abs
    if (~sub_ok).any():
        ctx.label("tie:cell-boundary")
    ctx.label("mesh:degenerate-extent" if min(r["dy"] * ny, r["dx"] * nx) < 1e-6 else "mesh:regular-extent")
    nsub = len(owner)
    s_ref = np.zeros((nsub, pixels))
    s_ref[np.arange(nsub), np.clip(r["pix"], 0, pixels - 1)] = 1.0

    mesh = info["mesh"]
    ctx.check(tuple(mesh.shape_native) == (ny, nx) and int(mapper.params) == pixels, "rect/mesh/shape",
              "mesh shape_native %s params %s" % (mesh.shape_native, mapper.params))
    # published pixel centres of the overlaid mesh = centres of the cells of the bounding box +- 1e-8
    cscale = max(1.0, float(np.abs(r["centres"]).max()))
    ctx.close(np.asarray(mesh, dtype=float), r["centres"], "rect/mesh/centres", atol=1e-9 * cscale + 1e-9 * max(r["dy"], r["dx"]),
              what="mesh pixel centres vs centres of the cells over the source bounding box")

    out = _common_checks(ctx, "rect", mapper, sub, per_pixel, bmat, owner, pixels, s_ref, sub_ok)
    if out is not None:
        mm, mappings, sizes, weights, s_impl = out
        ctx.check(bool(np.all(sizes == 1)), "rect/pix_sub_weights/sizes", "a sub-pixel maps to %s cells" % sorted(set(sizes.tolist())))
        got = mappings[:, 0].astype(int)
        # own cell arithmetic (outside the tie band)
        cls_far = sub_ok & r["far_edge"]
        cls_in = sub_ok & ~r["far_edge"]
        if cls_far.any():
            ctx.label("rect:far-edge-sub-pixels")
            ctx.equal(got[cls_far], r["pix"][cls_far], "rect/cell-index/far-edge/%s" % ("square" if ny == nx else "nonsquare"),
                      "cell index of sub-pixels in the last row/column of cells")
        if cls_in.any():
            ctx.equal(got[cls_in], r["pix"][cls_in], "rect/cell-index/interior/%s" % ("square" if ny == nx else "nonsquare"),
                      "cell index of sub-pixels not in the last row/column")
        # containment: the point lies within half a cell of the centre of the cell it is mapped to (all sub-pixels)
        c = np.asarray(mesh, dtype=float)[np.clip(got, 0, pixels - 1)]
        dy_ok = np.abs(src[:, 0] - c[:, 0]) <= 0.5 * r["dy"] + tie_abs
        dx_ok = np.abs(src[:, 1] - c[:, 1]) <= 0.5 * r["dx"] + tie_abs
        ctx.check(bool(np.all(dy_ok & dx_ok)), "rect/containment", "a sub-pixel is not inside the cell it is mapped to (worst offset %.3g, %.3g cells)" % (
            float(np.max(np.abs(src[:, 0] - c[:, 0]) / r["dy"])), float(np.max(np.abs(src[:, 1] - c[:, 1]) / r["dx"]))))
    nb = ctx.impl("rect/neighbors", lambda: mapper.neighbors)
    _check_neighbors(ctx, np.asarray(nb), nb.sizes, ref.rect_adjacency(shape), "rect/neighbors")


def _delaunay_core(ctx, mapper, mesh, src, verts, sub, per_pixel, bmat, owner, r=None):
    pixels = len(verts)
    ctx.label("verts:%s" % ("5-12" if pixels <= 12 else "13-25" if pixels <= 25 else "26-49"))
    ctx.check(int(mapper.params) == pixels, "delaunay/mesh/params", "params %s for %d vertices" % (mapper.params, pixels))
    ctx.equal(np.asarray(mesh, dtype=float), verts, "delaunay/mesh/vertices", "mesh grid vs input vertices")
    if r is None:
        r = ref.delaunay_reference(src, verts)
    general = r["general_margin"] >= GENERAL_MARGIN
    inside = r["inside"]
    # per-sub-pixel tolerance: 1e-9 plus the conditioning of barycentric weights in the containing simplex
    tol = np.where(inside, TOL_REF + 32.0 * ref.EPS * r["kappa"], TOL_REF)
    sub_ok = ~r["hull_tie"]
    sub_ok &= np.where(inside, (r["quality_best"] >= QUALITY_MIN) & r["has_candidate"], r["nearest_gap"] > 1e-9)
    if (tol > 1e-7).any():
        ctx.label("tolerance>1e-7:ill-conditioned-simplex")
    if (~sub_ok).any():
        ctx.label("tie:hull-or-nearest-or-sliver")
    if (inside & sub_ok & (r["simplex_margin"] <= 1e-9)).any():
        ctx.label("inside-hull-sub-pixel-on-simplex-edge-or-vertex")
    frac_out = float((~inside).mean())
    ctx.label("hull:all-inside" if frac_out == 0 else "hull:all-outside" if frac_out == 1 else "hull:some-outside")
    if not general:
        ctx.label("not-general-position:reference-skipped")
        ctx.tie(len(owner))
    s_ref = r["S"] if general else None

    out = _common_checks(ctx, "delaunay", mapper, sub, per_pixel, bmat, owner, pixels, s_ref, sub_ok, tol)
    if out is not None and general:
        mm, mappings, sizes, weights, s_impl = out
        want_sizes = np.where(inside, 3, 1)
        ok_in = sub_ok & inside
        ok_out = sub_ok & ~inside
        ctx.equal(sizes[sub_ok], want_sizes[sub_ok], "delaunay/inside-outside-classification",
                  "number of mapped vertices (3 inside the hull, 1 outside)")
        if ok_in.any():
            err = np.abs(s_impl[ok_in] - r["S"][ok_in]).max(axis=1)
            ctx.check(bool(np.all(err <= tol[ok_in])), "delaunay/weights/inside-hull",
                      lambda: "per-sub-pixel weights vs barycentric coordinates in the containing simplex: got %s want %s (tolerance %s)" % (
                          _rows(s_impl[ok_in], err > tol[ok_in]), _rows(r["S"][ok_in], err > tol[ok_in]), tol[ok_in][err > tol[ok_in]][:3]))
        if ok_out.any():
            ctx.close(s_impl[ok_out], r["S"][ok_out], "delaunay/weights/outside-hull", atol=TOL_REF,
                      what="per-sub-pixel weights vs indicator of the nearest vertex")
        # hull-boundary tie band: either branch is acceptable (at a hull vertex both coincide)
        on_hull = r["hull_tie"] & (r["quality_best"] >= QUALITY_MIN) & (r["nearest_gap"] > 1e-9)
        if on_hull.any():
            tol_h = TOL_REF + 32.0 * ref.EPS * r["kappa"][on_hull]
            e_in = np.abs(s_impl[on_hull] - r["S_in"][on_hull]).max(axis=1)
            e_out = np.abs(s_impl[on_hull] - r["S_out"][on_hull]).max(axis=1)
            ctx.check(bool(np.all((e_in <= tol_h) | (e_out <= TOL_REF))), "delaunay/weights/hull-boundary",
                      "a sub-pixel on the hull boundary has neither the barycentric weights of the adjacent simplex nor the "
                      "nearest-vertex indicator (errors %s / %s)" % (e_in, e_out))
    nb = ctx.impl("delaunay/neighbors", lambda: mapper.neighbors)
    if general:
        _check_neighbors(ctx, np.asarray(nb), nb.sizes, r["adjacency"], "delaunay/neighbors")


def body_delaunay(case, ctx):
    prep = _prepare(case, ctx, "delaunay")
    if prep is None:
        return
    mapper, info, sub, per_pixel, bmat, owner, src = prep
    verts = np.asarray(info["vertices"], dtype=float)
    ctx.label("margin:%s" % case["obj"]["margin"])
    _delaunay_core(ctx, mapper, info["mesh"], src, verts, sub, per_pixel, bmat, owner)


# ---- Delaunay, source points placed on vertices / edges / centroids ---------------------------
@st.composite
def special_point_cases(draw):
    n = draw(st.integers(1, 5))
    sub = draw(st.lists(st.integers(1, 2), min_size=n, max_size=n))
    npts = sum(v * v for v in sub)
    ny = draw(st.integers(2, 5)); nx = draw(st.integers(2, 5))
    if ny * nx < 5:
        nx = 3
    jit = draw(st.lists(st.floats(-0.3, 0.3), min_size=2 * ny * nx, max_size=2 * ny * nx))
    jit = [0.8 * float(v) + 0.06 * float(scene._hash01(k + 0.25)) for k, v in enumerate(jit)]
    fr = st.one_of(st.sampled_from([0.5, 0.25, 0.75, 1.0 / 3.0]), st.floats(0.01, 0.99))
    pts = []
    for _ in range(npts):
        kind = draw(st.sampled_from(["vertex", "edge", "edge", "interior", "outside"]))
        pts.append([kind, draw(st.integers(0, 200)), draw(st.integers(0, 2)), draw(fr), draw(fr)])
    return {"sub": sub, "lattice": [ny, nx], "jitter": jit, "margin": 1.0,
            "box": [draw(gens.reals(-5, 5)), draw(gens.reals(-5, 5)), draw(gens.positives(0.1, 5.0)), draw(gens.positives(0.1, 5.0))],
            "points": pts}


def body_special_points(case, ctx):
    import autoarray as aa
    import scipy.spatial
    sub = np.asarray(case["sub"], dtype=int)
    n = len(sub)
    per_pixel = len(set(sub.tolist())) > 1
    ctx.label("sub:per-pixel" if per_pixel else "sub:uniform-%d" % sub[0])
    cy, cx, hy, hx = case["box"]
    box = np.array([[cy - hy, cx - hx], [cy + hy, cx + hx]])
    verts, _ = scene.delaunay_vertices(case, box)
    tri = scipy.spatial.Delaunay(verts)     # harness side: only used to place the points
    simp = np.asarray(tri.simplices)
    pts = []
    for kind, a, b, f1, f2 in case["points"]:
        ctx.label("point:%s" % kind)
        if kind == "vertex":
            pts.append(verts[a % len(verts)].copy())
        elif kind == "edge":
            t = simp[a % len(simp)]
            va, vb = verts[t[b % 3]], verts[t[(b + 1) % 3]]
            pts.append(va + f1 * (vb - va))
        elif kind == "interior":
            t = simp[a % len(simp)]
            w0 = f1; w1 = f2 * (1.0 - f1); w2 = 1.0 - w0 - w1
            pts.append(w0 * verts[t[0]] + w1 * verts[t[1]] + w2 * verts[t[2]])
        else:
            ang = 2.0 * np.pi * ((a % 97) / 97.0)
            c = verts.mean(axis=0)
            rad = (1.2 + 3.0 * f1) * float(np.sqrt(((verts - c) ** 2).sum(axis=1).max()))
            pts.append(c + rad * np.array([np.sin(ang), np.cos(ang)]))
    src = np.asarray(pts, dtype=float)
    mask = aa.Mask2D(mask=np.zeros((1, n), dtype=bool), pixel_scales=(1.0, 1.0))
    osamp = scene.over_sampler_for(mask, [int(v) for v in sub])
    bmat, owner = ref.binning_matrix(sub)
    mesh = aa.Mesh2DDelaunay(values=verts.copy())
    mg = aa.MapperGrids(mask=mask, source_plane_data_grid=aa.Grid2DIrregular(values=src.copy()), source_plane_mesh_grid=mesh)
    mapper = aa.Mapper(mapper_grids=mg, over_sampler=osamp, regularization=None)
    _delaunay_core(ctx, mapper, mesh, src, verts, sub, per_pixel, bmat, owner)


def cases_rect_neighbors(tier):
    hi = 10 if tier == "quick" else 16
    for ny in range(3, hi + 1):
        for nx in range(3, hi + 1):
            yield {"shape": [ny, nx]}


def body_rect_neighbors(case, ctx):
    import autoarray as aa
    from autoarray.inversion.pixelization.mesh import mesh_util
    ny, nx = case["shape"]
    ctx.label("mesh:square" if ny == nx else "mesh:nonsquare")
    ctx.nt(ny != nx)
    adj = ref.rect_adjacency((ny, nx))
    arr, sizes = mesh_util.rectangular_neighbors_from(shape_native=(ny, nx))
    ctx.check(bool(np.all(np.asarray(arr) == np.round(arr))), "rect-neighbors/util/non-integer", "non-integer neighbour index")
    _check_neighbors(ctx, np.asarray(arr).astype(int), np.asarray(sizes).astype(int), adj, "rect-neighbors/util")
    grid = aa.Grid2DIrregular(values=[[1.0, -1.0], [-1.0, 1.5], [0.2, 0.3]])
    mesh = aa.Mesh2DRectangular.overlay_grid(grid=grid, shape_native=(ny, nx))
    _check_neighbors(ctx, np.asarray(mesh.neighbors), mesh.neighbors.sizes, adj, "rect-neighbors/mesh")


SUBCHECKS = [
    SubCheck("rect", body_rect, strategy=mapper_cases("rect"), examples={"quick": 2000, "thorough": 24000},
             shards={"quick": 6, "thorough": 6}),
    SubCheck("delaunay", body_delaunay, strategy=mapper_cases("delaunay"), examples={"quick": 2000, "thorough": 24000},
             shards={"quick": 8, "thorough": 8}),
    SubCheck("delaunay-special-points", body_special_points, strategy=special_point_cases(),
             examples={"quick": 600, "thorough": 6000}, shards={"quick": 2, "thorough": 2}),
    SubCheck("rect-neighbors", body_rect_neighbors, cases=cases_rect_neighbors, shards={"quick": 1, "thorough": 1}),
]
